"""C13 -- log-linear interpolation is the normalised weighted product of its inputs (DESIGN.md section 4, C13).

Implementation under test: bin/interpolate on lmplz --intermediate models (always -S 20M --sort_block 1M -T scratch,
under timeout) and lm/interpolate/merge_vocab.cc through harness/drivers/c13_driver.cc.
Model: coq/C13 (extracted).  The specification oracle below is written from the property text."""
import math
import os
import struct
from fractions import Fraction

import vlib

DRIVER = os.path.join(vlib.ROOT, "harness", "drivers", "c13_driver.cc")
SCALE = 149                  # every float32 is an integer multiple of 2^-149
F10_SIG = "interpolate:mixed-orders:lower-order-model-has-ngrams-absent-from-higher"


# ---------------------------------------------------------------------------------------------
# reading the component models (lmplz --intermediate) and the tool's ARPA output
def read_intermediate(prefix):
    meta = open(prefix + ".kenlm_intermediate", "rb").read().split(b"\n")
    counts = [int(x) for x in meta[1].split()[1:]]
    words = open(prefix + ".vocab", "rb").read().split(b"\0")[:-1]
    table = {}
    for k in range(1, len(counts) + 1):
        data = open("%s.%d" % (prefix, k), "rb").read()
        rec = 4 * k + 8
        assert len(data) == rec * counts[k - 1], "record count"
        for i in range(counts[k - 1]):
            f = struct.unpack_from("<%dIff" % k, data, i * rec)
            table[tuple(words[w] for w in f[:k])] = (f[k], f[k + 1])
    return {"order": len(counts), "vocab": words, "table": table}


def parse_arpa(text):
    lines = text.split(b"\n")
    counts, table, order = [], {}, 0
    i = 0
    while i < len(lines) and lines[i] != b"\\data\\":
        i += 1
    i += 1
    while i < len(lines) and lines[i].startswith(b"ngram "):
        counts.append(int(lines[i].split(b"=")[1]))
        i += 1
    sections = []
    for line in lines[i:]:
        if line.endswith(b"-grams:") and line.startswith(b"\\"):
            order = int(line[1:line.index(b"-")])
            sections.append([])
        elif line == b"\\end\\":
            order = -1
        elif line and order > 0:
            f = line.split(b"\t")
            g = tuple(f[1].split(b" "))
            table[g] = (float(f[0]), float(f[2]) if len(f) > 2 else 0.0)
            sections[-1].append(g)
    return {"counts": counts, "table": table, "sections": sections, "complete": order == -1}


# ---------------------------------------------------------------------------------------------
# specification (float64): back-off score of a component, the weighted sum, the normaliser
def bo_score(table, vocab, c, x):
    """ARPA recursion; a word missing from the component counts as its <unk>"""
    if x not in vocab:
        x = b"<unk>"
    c = tuple(c)
    acc = 0.0
    while True:
        g = c + (x,)
        if g in table:
            return acc + table[g][0]
        if not c:
            return acc + table[(b"<unk>",)][0]
        if c in table:
            acc += table[c][1]
        c = c[1:]


def spec_check(comps, weights, out, tol_logp=2e-5, tol_sum=1e-4):
    """judge the tool's output against the property text; returns None or (signature suffix, message)"""
    vocab_u = set()
    grams_u = set()
    for c in comps:
        vocab_u |= set(c["vocab"])
        grams_u |= set(c["table"])
    order = max(c["order"] for c in comps)
    got = out["table"]
    if not out["complete"]:
        return "output-truncated", "the ARPA output has no \\end\\ marker"
    if set(g[0] for g in got if len(g) == 1) != vocab_u:
        return "vocabulary", "output vocabulary is not the union of the component vocabularies"
    if set(got) != grams_u:
        extra = sorted(set(got) - grams_u)[:3]
        missing = sorted(grams_u - set(got))[:3]
        return "ngram-set", "output n-gram set is not the union (extra %r, missing %r)" % (extra, missing)
    if len(out["counts"]) != order or out["counts"] != [len(s) for s in out["sections"]]:
        return "order-or-counts", "output order/counts %r, expected order %d with %r" % (out["counts"], order, [len(s) for s in out["sections"]])
    words = sorted(vocab_u - {b"<s>"})
    vsets = [set(c["vocab"]) for c in comps]
    contexts = [()] + sorted(g for g in got if len(g) < order)
    allv = set(got)
    worst_d = worst_s = 0.0
    for c in contexts:
        d = []
        total = 0.0
        for x in words:
            lp = bo_score(got, allv_words(out), c, x)
            ws = sum(l * bo_score(cm["table"], vs, c, x) for l, cm, vs in zip(weights, comps, vsets))
            d.append(ws - lp)
            total += 10.0 ** lp
        if abs(total - 1.0) > tol_sum * max(1.0, max(abs(w) for w in weights) / 2):
            return "not-normalised", "context %r: probabilities sum to %.6f" % (b" ".join(c), total)
        spread = max(d) - min(d)
        if spread > 2 * tol_logp * max(1.0, max(abs(w) for w in weights)):
            k = d.index(max(d))
            return "not-weighted-sum", ("context %r: log p - sum_i lambda_i log p_i is not constant over the words "
                                        "(spread %.3g, e.g. word %r)" % (b" ".join(c), spread, words[k]))
        worst_d = max(worst_d, spread)
        worst_s = max(worst_s, abs(total - 1.0))
    return None


_cache = {}


def allv_words(out):
    k = id(out)
    if k not in _cache:
        _cache.clear()
        _cache[k] = set(g[0] for g in out["table"] if len(g) == 1)
    return _cache[k]


# ---------------------------------------------------------------------------------------------
# the extracted model: exact weighted sums; the harness adds the normaliser in float64
def f32(x):
    return struct.unpack("f", struct.pack("f", x))[0]


def zint(x):
    """exact integer value of a float32-representable number in units of 2^-149"""
    fr = Fraction(x) * (1 << SCALE)
    assert fr.denominator == 1, x
    return int(fr)


def zhex(n):
    return ("-%x" % -n) if n < 0 else "%x" % n


def model_line(comps, weights, ids):
    parts = ["M"]
    for c, w in zip(comps, weights):
        parts += ["C", str(c["order"]), zhex(zint(w))]
        for g, (p, b) in c["table"].items():
            parts.append("%s:%s:%s" % (",".join("%x" % ids[x] for x in g), zhex(zint(p)), zhex(zint(b))))
    return " ".join(parts)


def parse_model(ans, words_by_id):
    rows, _, r = ans.partition(" |R ")
    r, _, fpart = r.partition(" |F ")
    fpart, _, upart = fpart.partition(" |U ")
    parse_model.last_followers = [int(x) for x in fpart.split(",")] if fpart.strip() else []
    parse_model.last_vocab = tuple(int(x) for x in upart.split()) if upart.strip() else (0, 0)
    table = {}
    for e in rows.split():
        ids, p, b = e.split(":")
        g = tuple(words_by_id[int(x, 16)] for x in ids.split(","))
        table[g] = (Fraction(int(p, 16), 1 << (2 * SCALE)), Fraction(int(b, 16), 1 << (2 * SCALE)))
    rb, rf = r.split()
    return table, rb == "1", rf == "1"


def model_check(mtable, out, order, tol=2e-5):
    """tool's logp + logZ(c) = model's exact weighted sum; tool's back-off = logZ(c') + bsum - logZ(c)"""
    got = out["table"]
    if set(mtable) != set(got):
        return "model and tool disagree on the n-gram set"
    U = {g: float(v[0]) for g, v in mtable.items()}
    B = {g: float(v[1]) for g, v in mtable.items()}
    words = sorted(set(g[0] for g in got if len(g) == 1) - {b"<s>"})

    def usum(c, x):
        acc = 0.0
        while True:
            g = c + (x,)
            if g in U:
                return acc + U[g]
            acc += B.get(c, 0.0)
            c = c[1:]
    logz = {}

    def lz(c):
        if c not in logz:
            if c and c not in U:
                logz[c] = lz(c[1:])
            else:
                logz[c] = math.log10(sum(10.0 ** usum(c, x) for x in words))
        return logz[c]
    for g, (p, b) in got.items():
        exp = U[g] - lz(g[:-1])
        # p(<s>) is outside the property (lmplz stores p(<s>) = 1; the tool normalises it and clamps the result to <= 0)
        if g != (b"<s>",) and abs(p - exp) > tol * max(1.0, abs(exp)):
            return "n-gram %r: tool log p = %.7f, model weighted sum - logZ = %.7f" % (b" ".join(g), p, exp)
        if len(g) < order:
            expb = lz(g[1:]) + B[g] - lz(g)
            if abs(b - expb) > tol * max(1.0, abs(expb)):
                return "n-gram %r: tool back-off = %.7f, formula logZ(c') + sum lambda b_i - logZ(c) = %.7f" % (b" ".join(g), b, expb)
    return None


# ---------------------------------------------------------------------------------------------
# generators
def gen_corpus(rng, words):
    n = rng.choice([1, 2, 5, 12, 30])
    return b"".join(b" ".join(rng.choice(words) for _ in range(rng.range(1, 7))) + b"\n" for _ in range(n))


WEIGHT_POOL = [0.5, 0.25, 0.75, 1.0, 0.125, 1.5, 2.0, -0.25, -0.5, 0.0, 0.3, 0.7, 0.1, 1.2, -0.1, 0.6, 0.4, 3.0, -1.0, -1.0, -2.0, 2.0, 1.0, 3.0]


def gen_case(rng, mixed):
    k = rng.choice([2, 2, 3, 4, 2, 3, 4, rng.range(5, 12)])
    allw = [b"a", b"b", b"c", b"d", b"e", b"f", b"g", b"\xc3\xa9"]
    comps = []
    base_order = rng.range(2, 4)
    for i in range(k):
        style = rng.below(4)
        if style == 0:
            ws = allw[:rng.range(2, 4)]                  # shared words
        elif style == 1:
            ws = allw[2 * i % 6: 2 * i % 6 + 3]              # partly disjoint vocabularies
        else:
            ws = [rng.choice(allw) for _ in range(rng.range(1, 5))]
        order = base_order if not mixed else rng.range(1 if rng.chance(1, 6) else 2, 4)
        comps.append({"corpus": gen_corpus(rng, ws), "order": order})
    if mixed and len({c["order"] for c in comps}) == 1:
        comps[0]["order"] = comps[0]["order"] % 4 + 1 if comps[0]["order"] < 4 else 2
    if rng.chance(1, 5):
        comps[1]["corpus"] = comps[0]["corpus"]          # identical components
    weights = [rng.choice(WEIGHT_POOL) for _ in range(k)]
    if all(w == 0.0 for w in weights):
        weights[0] = 1.0
    case = {"comps": comps, "weights": weights, "mem": list(rng.choice(MEM_CONFIGS))}
    if rng.chance(1, 4):
        case["mem2"] = list(rng.choice(MEM_CONFIGS))
    return case


def gen_many_models_case(rng):
    """enough component models for the packed vector of per-model back-off levels (2 bits per model for orders 2-3,
    3 bits for orders 4-7) to need one, two, three or more 64-bit words: around 21/22, 32/33, 42/43, 64/65 models"""
    order = rng.choice([4, 4, 3, 2, 5])
    per_word = 21 if order >= 4 else 32
    k = rng.choice([per_word, per_word + 1, 2 * per_word, 2 * per_word + 1, 2 * per_word + rng.range(2, 8), 3 * per_word + 1])
    allw = [b"a", b"b", b"c", b"d", b"e", b"f"]
    comps = []
    for i in range(k):
        ws = allw[:rng.range(2, 6)]
        corpus = b"".join(b" ".join(rng.choice(ws) for _ in range(rng.range(2, 7))) + b"\n" for _ in range(rng.range(2, 5)))
        comps.append({"corpus": corpus, "order": order})
    weights = [rng.choice([0.02, 0.03, 0.05, 0.04, 0.0, -0.01, 0.0625, 0.1]) for _ in range(k)]
    if all(w == 0.0 for w in weights):
        weights[0] = 0.05
    return {"comps": comps, "weights": weights, "mem": list(rng.choice(MEM_CONFIGS))}


def gen_list_case(rng, quick):
    """list-like component: one context followed by most of the vocabulary, with tiny sort blocks, so that the successors
    of a single context exceed one stream block (the normaliser has to hold them all to rewind)"""
    v = rng.choice([40, 70, 110] if quick else [40, 70, 120, 200, 300])
    heads = [b"the", b"a", b"of", b"to"][:rng.range(1, 4)]
    # several contexts (each head, and "<s> head") that are each followed by almost the whole vocabulary: they start at
    # different offsets of the stream, so at least one of them straddles a block boundary
    lines = [h + b" n%03d" % i for h in heads for i in range(v)]
    if rng.chance(1, 2):
        lines = [l + b" x" for l in lines[: v // 3]] + lines[v // 3:]          # some deeper contexts too
    lines += [b"a b " + heads[0] + b" n001", b"b a"]
    rng.shuffle(lines)
    head = heads[0]
    # records of order k take 4k+4 bytes: the higher the order of the list context, the sooner its successors
    # (almost the whole vocabulary) outgrow a stream that was sized for shorter records
    other = b"".join(b" ".join(rng.choice([b"a", b"b", b"c", head]) for _ in range(rng.range(2, 6))) + b"\n" for _ in range(rng.range(5, 9)))
    comps = [{"corpus": b"".join(l + b"\n" for l in lines), "order": rng.choice([3, 3, 4, 2])},
             {"corpus": other, "order": rng.range(2, 3)}]
    if rng.chance(1, 3):
        comps.reverse()
    return {"comps": comps, "weights": [rng.choice([0.7, 0.5, 1.0, 0.25]), rng.choice([0.3, 0.5, -0.25, 1.5])],
            "mem": list(rng.choice(TINY_BLOCKS + MIN_MEM))}


def gen_disjoint_case(rng, quick):
    """components over (mostly) disjoint vocabularies: the union vocabulary is 2-5 times any component's, and contexts shared by
    all components (the unigram context, <s>, optionally one common word) are followed by (nearly) every word of the union;
    run with the smallest memory settings the tool accepts, where its own sizing arithmetic, not the block size, decides"""
    k = rng.choice([2, 3, 3, 4, 5])
    per = rng.choice([12, 20, 30] if quick else [12, 20, 30, 60])
    shared = [b"the"] if rng.chance(1, 2) else []
    comps = []
    for m in range(k):
        ws = [b"v%d_%02d" % (m, i) for i in range(per)]
        if rng.chance(1, 4):
            ws += [b"v%d_%02d" % ((m + 1) % k, i) for i in range(per // 4)]          # a little overlap
        lines = []
        for i, w in enumerate(ws):                                                   # every word starts a sentence
            line = [w] + [rng.choice(ws) for _ in range(rng.range(0, 2))]
            lines.append(b" ".join(line))
            if shared:
                lines.append(shared[0] + b" " + w)                                    # and follows the common word
        rng.shuffle(lines)
        comps.append({"corpus": b"".join(l + b"\n" for l in lines), "order": rng.choice([2, 3, 3])})
    if rng.chance(1, 3):
        comps[0]["order"] = 2
    weights = [rng.choice([0.5, 0.25, 0.3, 1.0, 0.2, -0.1, 0.7]) for _ in range(k)]
    return {"comps": comps, "weights": weights, "mem": list(rng.choice(MIN_MEM + TINY_BLOCKS))}


# bounded sequence encoding ---------------------------------------------------------------------------
def gen_bse_case(rng):
    n = rng.choice([0, 1, 2, 3, 7, 8, 9, 20, 21, 22, 31, 32, 33, 42, 43, 44, 63, 64, 65, 66, 100, 130, rng.range(0, 200)])
    style = rng.below(5)
    if style == 0:
        bounds = [rng.choice([2, 3, 4, 5, 7, 8, 9, 16, 17, 127, 128, 255])] * n            # every width 1..8 bits
    elif style == 1:
        bounds = [rng.choice([0, 1, 2, 3, 4, 5, 6, 7])] * n                                # the bounds interpolate uses
    elif style == 2:
        bounds = [rng.choice([0, 1, 2, 3, 4, 5, 8, 9, 16, 100, 255]) for _ in range(n)]
    else:
        bounds = [rng.choice([2, 3, 4, 5, 6, 7]) for _ in range(n)]
    vstyle = rng.below(3)
    vals = []
    for b in bounds:
        top = max(b, 1) - 1
        vals.append(top if vstyle == 0 else 0 if vstyle == 1 and rng.chance(1, 2) else rng.below(top + 1))
    h = lambda l: bytes(l).hex() if l else "-"
    return "B %s %s" % (h(bounds), h(vals))


def oracle_bse(case, out):
    """what was encoded is decoded again, nothing outside the reserved bytes is written"""
    _, bh, vh = case.split()
    if out.startswith("EXCEPTION") or "D:" not in out:
        return out
    if "OVERWRITE" in out:
        return "Encode/Decode wrote outside EncodedLength()/the value array"
    d = out.split("D:")[1].split()[0]
    if d != vh:
        bad = next(i for i in range(len(vh) // 2) if d[2 * i:2 * i + 2] != vh[2 * i:2 * i + 2]) if vh != "-" and d != "-" else 0
        return "decode(encode(values)) differs from the values at entry %d of %d" % (bad, len(bh) // 2 if bh != "-" else 0)
    return None


def gen_extreme_weights_case(rng):
    """weight vectors of large magnitude -- all strongly positive, all strongly negative, mixed signs, one dominant -- on small
    models: the un-normalised scores sum_i lambda_i log10 p_i reach +-40 .. +-200, far outside the range of a float power
    (1e+-38) and of `1 + x` in long double (1e-19), while the float64 oracle and the exact model sums stay finite"""
    base = gen_case(rng, rng.chance(1, 4))
    base["comps"] = base["comps"][:rng.range(2, 3)]
    k = len(base["comps"])
    big = rng.choice([8.0, 10.0, 12.0, 15.0, 20.0])
    style = rng.below(5)
    if style == 0:
        w = [big] * k
    elif style == 1:
        w = [-big] * k
    elif style == 2:
        w = [rng.choice([8.0, 10.0, 12.0]), -rng.choice([1.0, 2.0, 3.0])] + [1.0] * (k - 2)        # mixed signs: see design.d/C13.md
    elif style == 3:
        w = [-min(big, 15.0), rng.choice([2.0, 1.0, 0.5])] + [-1.0] * (k - 2)
    else:
        w = [big] + [rng.choice([0.5, 0.25, 1.0])] * (k - 1)
    rng.shuffle(w)
    base["weights"] = w
    base.pop("weights_text", None)
    base.pop("mem2", None)
    return base


def gen_pruned_case(rng):
    """tuples of orders 2/3/4 in which some components are heavily pruned: whole orders of a component hold no n-gram at all
    (`lmplz --prune 0 0 1000` writes `Counts 15 167 0`), below or at the maximum order of the tuple, in any position"""
    k = rng.choice([2, 2, 3, 4])
    allw = [b"a", b"b", b"c", b"d", b"e", b"f", b"g"]
    comps = []
    for i in range(k):
        ws = allw[rng.below(3):][:rng.range(3, 6)]
        comps.append({"corpus": b"".join(b" ".join(rng.choice(ws) for _ in range(rng.range(2, 7))) + b"\n" for _ in range(rng.choice([6, 15, 30]))),
                      "order": rng.choice([2, 3, 3, 4])})
    victims = [rng.below(k)] + ([rng.below(k)] if rng.chance(1, 3) else [])
    for v in set(victims):
        o = comps[v]["order"]
        first_empty = rng.range(2, o)                          # orders first_empty .. o lose every n-gram
        comps[v]["prune"] = [0] * (first_empty - 1) + [1000] * (o - first_empty + 1)
    if rng.chance(1, 2):                                        # make sure some component is of higher order than a pruned one
        comps[(victims[0] + 1) % k]["order"] = 4
    weights = [rng.choice(WEIGHT_POOL) for _ in range(k)]
    if all(w == 0.0 for w in weights):
        weights[0] = 1.0
    return {"comps": comps, "weights": weights, "mem": list(rng.choice(MEM_CONFIGS))}


def gen_single(rng):
    c = gen_case(rng, False)
    return {"comps": c["comps"][:1], "weights": [1.0]}


def build(ctx, tools, case, tag):
    d = os.path.join(ctx.scratch, tag)
    os.makedirs(d, exist_ok=True)
    for f in os.listdir(d):
        os.remove(os.path.join(d, f))
    prefixes = []
    for i, c in enumerate(case["comps"]):
        p = os.path.join(d, "m%d" % i)
        prune = (["--prune"] + [str(x) for x in c["prune"]]) if c.get("prune") else []
        rc, out, err = vlib.sh(["timeout", "60", tools["lmplz"], "-o", str(c["order"]), "-S", "20M", "--vocab_estimate", "1000",
                                "-T", d + "/", "--discount_fallback"] + prune + ["--intermediate", p], input=c["corpus"], timeout=90)
        if rc != 0 or not os.path.exists(p + ".kenlm_intermediate"):
            return None, "lmplz rc=%d: %s" % (rc, err[-200:])
        prefixes.append(p)
    return prefixes, None


def fmt_w(w):
    return repr(w)


def weight_spellings(w):
    """ways of typing the same number on the command line (all accepted by the unchanged tool)"""
    forms = [repr(w), "%f" % w, "%.3e" % w]
    if w == int(w):
        i = int(w)
        forms += [str(i), str(i), "%d." % i, "%d.0" % i, "%de0" % i] + (["+%d" % i] if i >= 0 else [])
    else:
        t = repr(w)
        if t.startswith("0."):
            forms += [t[1:], "+" + t]
        if t.startswith("-0."):
            forms += ["-" + t[2:]]
        forms += ["%se-1" % repr(round(w * 10, 6))] if abs(w) < 10 and round(w * 10, 6) / 10 == w else []
    return forms


def spell_weights(rng, case):
    """pick a spelling per weight; the numeric value that the oracle and the model use is float() of what is typed"""
    texts = []
    for w in case["weights"]:
        texts.append(rng.choice(weight_spellings(w)))
    case["weights_text"] = texts
    case["weights"] = [float(t) for t in texts]
    return case


MEM_CONFIGS = [("20M", "1M"), ("20M", "64K"), ("5M", "256K"), ("1M", "4K"), ("100K", "1K"), ("64K", "256b"), ("2K", "256b")]     # -S >= 4 * --sort_block
TINY_BLOCKS = [("100K", "1K"), ("1M", "1K"), ("64K", "256b"), ("2K", "256b"), ("20K", "512b")]
# -S at the minimum the tool accepts (four sort buffers) and just above it, for blocks of 64 bytes .. 2K
MIN_MEM = [("%db" % (4 * b + d), "%db" % b) for b in (64, 128, 256, 512, 1024, 2048) for d in (0, 1)] + [("1M", "128b"), ("1M", "2K")]


def run_interpolate(ctx, tools, prefixes, weights, tag, mem=("20M", "1M")):
    d = os.path.join(ctx.scratch, tag)
    args = ["timeout", "60", tools["interpolate"], "-m"] + prefixes + ["-w"] + [w if isinstance(w, str) else fmt_w(w) for w in weights] + \
        ["-S", mem[0], "--sort_block", mem[1], "-T", d + "/tmp_"]
    import time
    for attempt in range(6):
        rc, out, err = vlib.sh(args, timeout=90, binary=True)
        if rc not in (126, 127):
            return rc, out, err.decode("utf-8", "replace")
        time.sleep(2 + attempt)         # the binary is being relinked in the shared build cache: not an answer of the tool
    raise vlib.InfraError("bin/interpolate cannot be executed (status %d)" % rc)


def check_case(ctx, tools, case, tag="i"):
    """-> dict(status=ok|skip|fail, sig, msg, model_line, model_expect...)"""
    prefixes, e = build(ctx, tools, case, tag)
    if prefixes is None:
        return {"status": "skip", "msg": e}
    comps = [read_intermediate(p) for p in prefixes]
    if any(not (math.isfinite(v[0]) and math.isfinite(v[1])) for c in comps for v in c["table"].values()):
        return {"status": "skip", "msg": "lmplz produced a non-finite back-off (degenerate corpus); not a log-linear input"}
    weights = [f32(w) for w in case["weights"]]
    mem = tuple(case.get("mem", MEM_CONFIGS[0]))
    typed = case.get("weights_text") or case["weights"]
    rc, out, err = run_interpolate(ctx, tools, prefixes, typed, tag, mem)
    orders = [c["order"] for c in comps]
    res = {"status": "ok", "orders": orders, "comps": comps, "weights": weights, "rc": rc, "mem": mem}
    words = sorted(set().union(*[set(c["vocab"]) for c in comps]) - {b"<unk>"})
    ids = {b"<unk>": 0}
    for i, w in enumerate(words):
        ids[w] = i + 1
    res["ids"] = ids
    res["model_line"] = model_line(comps, weights, ids)
    if rc == 0 and case.get("mem2"):
        # the same inputs under a second memory / block-size setting: same bytes, or at least the same verdict
        rc2, out2, err2 = run_interpolate(ctx, tools, prefixes, typed, tag, tuple(case["mem2"]))
        res["mem2_identical"] = (rc2 == 0 and out2 == out)
        if rc2 != 0:
            res.update(status="fail", sig="interpolate:exit-status", rc=rc2,
                       msg="interpolate -S %s --sort_block %s exited with status %d: %s" % (case["mem2"][0], case["mem2"][1], rc2, err2.strip().split("\n")[-1][:200]))
            return res
        if out2 != out:
            bad2 = spec_check(comps, weights, parse_arpa(out2))
            if bad2:
                res.update(status="fail", sig="interpolate:" + bad2[0], msg="with -S %s --sort_block %s: %s" % (case["mem2"][0], case["mem2"][1], bad2[1]))
                return res
    if rc != 0:
        mixed = len(set(orders)) > 1
        res.update(status="fail", sig=(F10_SIG if (mixed and "Streams were not the same size" in err) else "interpolate:exit-status"),
                   msg="interpolate exited with status %d (orders %s): %s" % (rc, orders, err.strip().split("\n")[-1][:200]))
        return res
    parsed = parse_arpa(out)
    res["out"] = parsed
    bad = spec_check(comps, weights, parsed)
    if not bad and "query" in tools and max(orders) <= 6:
        # "writes an ARPA model": kenlm's own (strict) reader must accept the file -- header counts, section order, \end\
        d = os.path.join(ctx.scratch, tag)
        apath = os.path.join(d, "out.arpa")
        open(apath, "wb").write(out)
        rcq, outq, errq = vlib.sh(["timeout", "30", tools["query"], apath], input=b"", timeout=40)
        if rcq != 0:
            bad = ("not-loadable", "kenlm's ARPA reader rejects the output (bin/query exits %d): %s" % (rcq, errq.strip().split("\n")[-1][:200]))
    if bad:
        res.update(status="fail", sig="interpolate:" + bad[0], msg=bad[1])
    return res


def single_identity(res):
    """one model, weight one: the input model is reproduced"""
    c = res["comps"][0]
    got = res["out"]["table"]
    for g, (p, b) in c["table"].items():
        if g not in got:
            return "n-gram %r missing" % (b" ".join(g),)
        if g == (b"<s>",):
            continue          # lmplz stores p(<s>) = 1 in the intermediate file; the tool normalises it like any word
        if abs(got[g][0] - p) > 2e-6 * max(1.0, abs(p)) or abs(got[g][1] - b) > 2e-6 * max(1.0, abs(b)):
            return "n-gram %r: input (%.7f, %.7f), output (%.7f, %.7f)" % (b" ".join(g), p, b, got[g][0], got[g][1])
    return None


# vocabulary merge ------------------------------------------------------------------------------------
def gen_vocab_case(rng):
    k = rng.choice([1, 2, 2, 3, 4, 6])
    pool = [b"w%d" % i for i in range(rng.choice([3, 8, 30]))] + [b"<s>", b"</s>", b"a", b"\xc3\xa9"]
    ms = []
    for _ in range(k):
        style = rng.below(4)
        if style == 0:
            ws = []
        elif style == 1:
            ws = list(pool)
        else:
            ws = sorted({rng.choice(pool) for _ in range(rng.range(1, len(pool)))})
        ms.append(ws)
    return "V " + ";".join(",".join(w.hex() for w in ws) if ws else "-" for ws in ms)


def oracle_vocab(out):
    """sorted union without duplicates; per-model maps point at the same hash (hence injective, order preserving)"""
    f = dict(p.split(":", 1) for p in out.split("|"))
    files = [[int(x, 16) for x in s.split(",")] if s != "-" else [] for s in f["H"].split(";")]
    glob = [int(x, 16) for x in f["G"].split(",")] if f["G"] != "-" else []
    maps = [[int(x, 16) for x in s.split(",")] if s != "-" else [] for s in f["M"].split(";")]
    union = sorted(set().union(*[set(l) for l in files])) if files else []
    if glob != union:
        return "universal vocabulary is not the sorted union of the component vocabularies"
    if int(f["N"], 16) != len(glob) + 1:
        return "returned size %s, union has %d words + <unk>" % (f["N"], len(glob))
    for l, m in zip(files, maps):
        if len(l) != len(m):
            return "map length"
        for h, gi in zip(l, m):
            if gi < 1 or gi > len(glob) or glob[gi - 1] != h:
                return "a word is mapped to universal index %d which is a different word" % gi
    if not f["U"].startswith("<unk>:0"):
        return "<unk> is not universal word 0"
    return None


def vocab_model_line(out):
    f = dict(p.split(":", 1) for p in out.split("|"))
    return "V " + f["H"], "G:" + f["G"] + "|M:" + f["M"]


# ---------------------------------------------------------------------------------------------
def strip_axioms_header(pres):
    """Print Assumptions prints a header line "Axioms:" before the list; vlib's line regex takes it for an axiom
    name.  Remove that pseudo-entry and re-derive the verdict from the real names (allow-list unchanged)."""
    if not pres.get("axioms") or set(pres["axioms"]) != set(pres["theorems"]):
        return pres                      # the build itself failed: nothing to repair
    for t in pres["axioms"]:
        pres["axioms"][t] = [a for a in pres["axioms"][t] if a != "Axioms"]
    pres["bad_axioms"] = [b for b in pres.get("bad_axioms", []) if not b.endswith(" depends on Axioms")]
    if not pres["bad_axioms"] and not pres.get("forbidden"):
        pres["failed"] = []
        pres["discharged"] = pres["obligations"]
    return pres


def run(ctx):
    pres = strip_axioms_header(vlib.coq_prove("C13"))
    ctx.set_proof(pres)
    rng = ctx.rng
    tools = {n: vlib.tool(n) for n in ("lmplz", "interpolate", "query")}
    impl_v = vlib.compile_driver("c13_driver", DRIVER, libs=("kenlm_interpolate", "kenlm", "kenlm_util"), extra=("-fopenmp", "-DNDEBUG"))
    spec_fail = []
    model_in, model_expect = [], []
    nontrivial = 0

    # (1) vocabulary merge
    vcases = ["V -", "V -;-", "V %s;%s" % (b"a".hex(), b"a".hex())] + [gen_vocab_case(rng) for _ in range(ctx.pick(300, 6000))]
    vout = vlib.run_lines(impl_v, vcases)
    for c, o in zip(vcases, vout):
        if o.startswith("DRIVER-DIED") or o == "<no answer>" or o.startswith("EXCEPTION"):
            spec_fail.append(("vocab", c, o, o))
            continue
        msg = oracle_vocab(o)
        if msg:
            spec_fail.append(("vocab", c, o, msg))
        ml, exp = vocab_model_line(o)
        model_in.append(ml)
        model_expect.append(("vocab", c, exp))

    # (1b) the packing of the per-model back-off levels (lm/interpolate/bounded_sequence_encoding.hh)
    bcases = ["B - -", "B 04040404 03020100", "B " + "ff" * 9 + " " + "fe" * 9, "B " + "04" * 43 + " " + "03" * 43,
              "B " + "03" * 65 + " " + "02" * 65] + [gen_bse_case(rng) for _ in range(ctx.pick(1500, 30000))]
    bout = vlib.run_lines(impl_v, bcases)
    for c, o in zip(bcases, bout):
        msg = o if (o.startswith("DRIVER-DIED") or o == "<no answer>") else oracle_bse(c, o)
        if msg:
            spec_fail.append(("bse", c, o, msg))
        model_in.append(c)
        model_expect.append(("vocab", c, o.replace(" OVERWRITE", "")))        # compared as plain strings, like the vocabulary cases
    ctx.coverage["bounded_sequence_cases"] = len(bcases)

    # (2) the tool: same orders, mixed orders, single model
    cases = corpus_cases()
    ctx.count("corpus_cases", len(cases))
    cases += [("same", gen_case(rng, False)) for _ in range(ctx.pick(40, 700))] + \
            [("mixed", gen_case(rng, True)) for _ in range(ctx.pick(12, 200))] + \
            [("single", gen_single(rng)) for _ in range(ctx.pick(6, 100))] + \
            [("many", gen_many_models_case(rng)) for _ in range(ctx.pick(3, 40))] + \
            [("list", gen_list_case(rng, ctx.quick)) for _ in range(ctx.pick(5, 40))] + \
            [("disjoint", gen_disjoint_case(rng, ctx.quick)) for _ in range(ctx.pick(6, 60))] + \
            [("pruned", gen_pruned_case(rng)) for _ in range(ctx.pick(10, 150))] + \
            [("extreme-weights", gen_extreme_weights_case(rng)) for _ in range(ctx.pick(10, 120))]
    cases = [(kind, spell_weights(rng, case) if "weights_text" not in case else case) for kind, case in cases]
    kinds = {}
    results = []
    for kind, case in cases:
        res = check_case(ctx, tools, case)
        kinds[kind + ":" + res["status"]] = kinds.get(kind + ":" + res["status"], 0) + 1
        if res["status"] == "skip":
            continue
        if res["status"] == "ok" and kind == "single":
            msg = single_identity(res)
            if msg:
                res.update(status="fail", sig="interpolate:single-model-identity", msg=msg)
        if res["status"] == "fail":
            spec_fail.append(("tool", case, res.get("rc"), res["msg"], res["sig"]))
        if res["status"] == "ok" and len(case["comps"]) > 1:
            nontrivial += 1
        model_in.append(res["model_line"])
        model_expect.append(("tool", case, res))
        results.append(res)

    # (3) correspondence with the extracted model
    mismatches = []
    model_broken = None
    window_over_component = 0
    try:
        model = vlib.ocaml_model("C13")
        mout = vlib.run_lines(model, model_in, timeout=1200)
        for (kind, case, exp), ans in zip(model_expect, mout):
            if kind == "vocab":
                if ans != exp:
                    mismatches.append((case, exp, ans))
                continue
            res = exp
            if ans.startswith("MODEL-EXCEPTION") or ans.startswith("DRIVER-DIED") or ans == "<no answer>":
                mismatches.append((case, "model run", ans[:300]))
                continue
            wbi = {v: k for k, v in res["ids"].items()}
            mtable, ok_buggy, ok_fixed = parse_model(ans, wbi)
            res["model_reunify"] = (ok_buggy, ok_fixed)
            if res["rc"] == 0 and "out" in res:
                # the longest run of records the normaliser rewinds over (successors of one context), per order: model vs the
                # tool's output; it never exceeds the union vocabulary, and may exceed every component's vocabulary
                tool_f = []
                for sec in res["out"]["sections"]:
                    cnt = {}
                    for g in sec:
                        cnt[g[:-1]] = cnt.get(g[:-1], 0) + 1
                    tool_f.append(max(cnt.values()) if cnt else 0)
                union_v, comp_v = parse_model.last_vocab
                if tool_f != parse_model.last_followers or max(tool_f + [0]) > union_v or union_v != len(res["out"]["sections"][0]):
                    mismatches.append((case, "tool: successors per context %s, union vocabulary %d" % (tool_f, len(res["out"]["sections"][0])),
                                       "model: %s, union vocabulary %d" % (parse_model.last_followers, union_v)))
                if max(tool_f + [0]) > comp_v:
                    window_over_component += 1
            if res["rc"] == 0 and "out" in res:
                msg = model_check(mtable, res["out"], max(res["orders"]))
                if msg:
                    mismatches.append((case, "tool output", msg))
            elif res.get("sig") == F10_SIG and ok_buggy:
                mismatches.append((case, "tool aborts in ReunifyBackoff", "model of the shipped pipeline predicts equal stream lengths"))
    except vlib.ModelBroken as e:
        model_broken = str(e)

    ctx.count("evaluations", len(vcases) + len(cases))
    ctx.coverage["distinct_nontrivial"] = nontrivial + sum(1 for c, o in zip(vcases, vout) if ";" in c and "G:-" not in o)
    ctx.coverage["rule"] = ("tool cases: 2-4 lmplz --intermediate models (orders 2-4, corpora of 1-30 sentences over shared / partly disjoint / "
                            "random vocabularies, identical components), weights from a pool incl. 0, negative and > 1; mixed-order cases; "
                            "single-model cases.  Non-trivial tool case: at least two components and the tool succeeded (every context of the "
                            "output is then checked over the whole union vocabulary).  Vocabulary-merge cases: 1-6 vocabularies incl. empty, "
                            "full and overlapping; non-trivial when at least two vocabularies and a non-empty union.")
    ctx.coverage["case_kinds"] = kinds
    ctx.coverage["cases_where_a_context_has_more_successors_than_any_component_vocabulary"] = window_over_component
    ctx.coverage["memory_settings"] = ["-S %s --sort_block %s" % m for m in MEM_CONFIGS + TINY_BLOCKS + MIN_MEM]
    ctx.coverage["second_setting_runs"] = sum(1 for r in results if "mem2_identical" in r)
    ctx.coverage["second_setting_byte_identical"] = sum(1 for r in results if r.get("mem2_identical"))
    ctx.coverage["traces_validated_against_impl"] = len(model_in) - len(mismatches)
    for (kind, case), res in list(zip(cases, results))[:2]:
        ctx.sample({"kind": kind, "orders": res.get("orders"), "weights": case["weights"], "status": res["status"],
                    "counts": res.get("out", {}).get("counts")})
    ctx.sample({"vocab_case": vcases[5][:200], "impl": vout[5][:300]})
    ctx.assumptions += ["component models are lmplz --intermediate outputs (context- and suffix-closed, <unk> <s> </s> listed, no n-gram above order 1 contains <unk>)",
                        "pow/log10 in long double are not modelled: tool and specification are compared with tolerance 2e-5 (log p) and 1e-4 (sum to one)",
                        "p(<s>) is excluded from every sum, as in the property and in the tool (z -= 1.0)",
                        "64-bit vocabulary hashes are treated as injective and non-zero",
                        "extraction (ExtrOcamlBasic only), the OCaml/C++ drivers and this Python oracle are trusted"]
    # decide
    seen = set()
    for f in spec_fail:
        if f[0] == "vocab":
            ctx.report("spec:merge_vocab", f[3], {"kind": "vocab", "case": f[1], "impl_output": f[2]})
        elif f[0] == "bse":
            ctx.report("spec:bounded_sequence_encoding", f[3], {"kind": "bse", "case": f[1], "impl_output": f[2][:600]})
        else:
            _, case, rc, msg, sig = f
            if sig in seen:
                continue
            seen.add(sig)
            ctx.report(sig, msg, {"kind": "tool", "case": dump(case), "rc": rc})
    hard = [f for f in spec_fail if not (f[0] == "tool" and is_known(ctx, f[4]))]
    if not hard:
        if mismatches:
            c, a, b = mismatches[0]
            ctx.report("correspondence:" + ("vocab" if isinstance(c, str) else "tool"),
                       "extracted model and implementation disagree (the specification oracle accepts the implementation's answer)",
                       {"correspondence": "C13 extracted model vs bin/interpolate / c13_driver", "case": c if isinstance(c, str) else dump(c),
                        "impl": str(a)[:1500], "model": str(b)[:1500], "n_mismatches": len(mismatches)}, found=False)
        elif model_broken:
            ctx.report("model-broken", "executable model no longer builds", {"log": model_broken[-2000:]}, found=False)
        ctx.report_proof(pres)
    ctx.coverage["spec_oracle_failures"] = len(spec_fail)
    ctx.coverage["correspondence_mismatches"] = len(mismatches)


def corpus_cases():
    import json
    p = os.path.join(vlib.ROOT, "corpus", "C13", "cases.jsonl")
    out = []
    if os.path.exists(p):
        for l in open(p):
            l = l.strip()
            if l and not l.startswith("#"):
                o = json.loads(l)
                out.append((o["kind"], undump(o["case"])))
    return out


def is_known(ctx, sig):
    return any(k.get("status") == "known" and k.get("signature") == sig for k in ctx.known)


def dump(case):
    d = {"comps": [dict({"corpus": c["corpus"].hex(), "order": c["order"]}, **({"prune": c["prune"]} if c.get("prune") else {})) for c in case["comps"]],
         "weights": case["weights"]}
    for k in ("mem", "mem2", "weights_text"):
        if k in case:
            d[k] = case[k]
    return d


def undump(c):
    d = {"comps": [dict({"corpus": bytes.fromhex(x["corpus"]), "order": x["order"]}, **({"prune": x["prune"]} if x.get("prune") else {})) for x in c["comps"]],
         "weights": c["weights"]}
    for k in ("mem", "mem2", "weights_text"):
        if k in c:
            d[k] = c[k]
    return d


def replay(ctx, obj):
    r = obj["replay"]
    if r.get("kind") == "bse":
        impl = vlib.compile_driver("c13_driver", DRIVER, libs=("kenlm_interpolate", "kenlm", "kenlm_util"), extra=("-fopenmp", "-DNDEBUG"))
        o = vlib.run_lines(impl, [r["case"]])[0]
        msg = oracle_bse(r["case"], o)
        print("case:", r["case"][:300], "\nimpl:", o[:300], "\noracle:", msg or "ok")
        return 1 if msg else 0
    if r.get("kind") == "vocab":
        impl = vlib.compile_driver("c13_driver", DRIVER, libs=("kenlm_interpolate", "kenlm", "kenlm_util"), extra=("-fopenmp", "-DNDEBUG"))
        o = vlib.run_lines(impl, [r["case"]])[0]
        msg = o if o.startswith("EXCEPTION") else oracle_vocab(o)
        print("case:", r["case"], "\nimpl:", o, "\noracle:", msg or "ok")
        return 1 if msg else 0
    if r.get("kind") == "tool":
        tools = {n: vlib.tool(n) for n in ("lmplz", "interpolate", "query")}
        case = undump(r["case"])
        res = check_case(ctx, tools, case)
        if res["status"] == "ok" and len(case["comps"]) == 1 and case["weights"] == [1.0]:
            msg = single_identity(res)
            if msg:
                res.update(status="fail", msg=msg)
        print("orders:", res.get("orders"), "weights:", case["weights"], "rc:", res.get("rc"), "\noracle:", res.get("msg") if res["status"] == "fail" else res["status"])
        return 1 if res["status"] == "fail" else 0
    print("replay file names a proof/correspondence break without a concrete input:", obj.get("what"))
    return 1
