"""C20 -- core lookup primitives behave as exact maps and arrays (DESIGN.md section 4, C20)."""
import os
import sys

import vlib
sys.path.insert(0, os.path.join(vlib.ROOT, "translator"))
import cxx2gallina as cg

INST = os.path.join(vlib.ROOT, "translator", "inst")
BITFNS = ["BitPackShift", "BitPackShift32", "ReadOff", "ReadInt57", "WriteInt57", "ReadInt25", "WriteInt25",
          "ReadFloat32", "WriteFloat32", "SetSign", "UnsetSign", "ReadNonPositiveFloat31", "WriteNonPositiveFloat31",
          "RequiredBits"]


def regenerate():
    """translator step: regenerate coq/Gen/{BitPacking,SortedUniform,ProbingMod}.v from the current sources.
    A source the translator can no longer render (a construct outside its subset) is not an infrastructure error: the
    previous rendering stays in place, the unit is returned as broken, and the run goes on to look for a failing input."""
    gen = os.path.join(vlib.COQ, "Gen")
    broken = []

    def unit(name, f):
        try:
            f()
        except Exception as e:            # cg.Unsupported, a clang failure, a changed signature ...
            broken.append((name, "%s: %s" % (type(e).__name__, str(e)[:500])))

    def bitpacking():
        txt = cg.translate(os.path.join(INST, "bit_packing_tu.cc"), "util::", BITFNS, [vlib.REPO],
                           "util/bit_packing.hh, util/bit_packing.cc")
        vlib.write_if_changed(os.path.join(gen, "BitPacking.v"), txt)

    def sorted_uniform():
        docs = cg.clang_ast(os.path.join(INST, "sorted_uniform_tu.cc"), "util::Pivot32", [vlib.REPO])
        tr = cg.Translator(docs, gname=lambda n: "Pivot32_" + n)
        tr.info("Calc")
        vlib.write_if_changed(os.path.join(gen, "SortedUniform.v"), cg.HEADER % "util/sorted_uniform.hh (Pivot32::Calc)" + "\n\n".join(tr.out) + "\n")

    def probing_mod():
        out = []
        for cls in ("Power2Mod", "DivMod"):
            docs = cg.clang_ast(os.path.join(INST, "probing_tu.cc"), "util::" + cls, [vlib.REPO])
            tr = cg.Translator(docs, gname=lambda n, c=cls: c + "_" + n)
            tr.info("RoundBuckets")
            out += tr.out
        vlib.write_if_changed(os.path.join(gen, "ProbingMod.v"), cg.HEADER % "util/probing_hash_table.hh (RoundBuckets)" + "\n\n".join(out) + "\n")

    unit("util/bit_packing.hh, util/bit_packing.cc", bitpacking)
    unit("util/sorted_uniform.hh (Pivot32::Calc)", sorted_uniform)
    unit("util/probing_hash_table.hh (RoundBuckets)", probing_mod)
    return broken


# ---------------------------------------------------------------------------------------------
# generators (all numbers in hex on the wire)
def hx(x):
    return "%x" % x


def gen_bitpack(rng, n):
    cases = []
    for _ in range(n):
        kind = rng.choice(["W57", "W57", "W25", "F32", "F31", "R57", "R25"])
        maxlen = 57 if kind in ("W57", "R57") else 25
        off = rng.choice([rng.below(8), rng.below(64), rng.below(400)])
        nbytes = off // 8 + 8 + rng.below(3)
        if kind[0] == "W":
            ln = rng.choice([0, 1, maxlen, maxlen - 1, rng.range(0, maxlen)])
            val = rng.choice([0, 1, (1 << ln) - 1, rng.below(1 << ln) if ln else 0])
            val = min(val, (1 << ln) - 1)
        elif kind[0] == "F":
            ln = 32 if kind == "F32" else 31
            val = rng.choice([0x80000000, 0xffffffff, 0xbf800000, rng.below(1 << 32) | 0x80000000])
            if kind == "F32" and rng.chance(1, 2):
                val = rng.below(1 << 32)
            if kind == "F31" and rng.chance(1, 5):
                val = 0                 # +0.0: a log probability of exactly 0 is valid ARPA (and what `build_binary -i` substitutes);
                                        # it is non-positive, is stored as 31 zero bits and reads back as -0.0
        else:
            ln = rng.range(0, maxlen)
            val = None
        mem = bytearray(rng.below(256) for _ in range(nbytes)) if rng.chance(2, 3) else bytearray(nbytes)
        if kind[0] in "WF" and rng.chance(5, 6):
            # zero the target bits (the documented precondition of the write functions)
            m = int.from_bytes(mem, "little")
            m &= ~(((1 << ln) - 1) << off)
            mem = bytearray(m.to_bytes(nbytes, "little"))
        if kind[0] == "W":
            cases.append("%s %s %s %s %s" % (kind, mem.hex(), hx(off), hx(ln), hx(val)))
        elif kind[0] == "F":
            cases.append("%s %s %s %s" % (kind, mem.hex(), hx(off), hx(val)))
        else:
            cases.append("%s %s %s %s" % (kind, mem.hex(), hx(off), hx(ln)))
    return cases


def oracle_bitpack(case, out):
    """specification: target bits initially zero => value reads back, every other bit unchanged"""
    f = case.split()
    kind = f[0]
    if kind[0] not in "WF":
        mem = int.from_bytes(bytes.fromhex(f[1]), "little")
        off, ln = int(f[2], 16), int(f[3], 16)
        exp = (mem >> off) & ((1 << ln) - 1)
        return None if out.strip() == hx(exp) else "read returned %s, bits [off,off+len) are %s" % (out, hx(exp))
    mem = int.from_bytes(bytes.fromhex(f[1]), "little")
    off = int(f[2], 16)
    if kind[0] == "W":
        ln, val = int(f[3], 16), int(f[4], 16)
        stored = val
    else:
        ln = 32 if kind == "F32" else 31
        val = int(f[3], 16)
        stored = val & ((1 << ln) - 1)
        if kind == "F31" and not (val & 0x80000000) and val != 0:
            return None     # positive float: outside the domain of WriteNonPositiveFloat31
    if (mem >> off) & ((1 << ln) - 1):
        return None         # precondition (zero target) not met: the spec says nothing
    o = out.split()
    if len(o) != 2:
        return "unexpected output %r" % out
    exp_mem = mem | (stored << off)
    n = len(f[1]) // 2
    if o[0] != exp_mem.to_bytes(n + 16, "little")[:n].hex() or exp_mem >> (8 * n):
        return "memory after write differs from 'only the target bits change'"
    want = 0x80000000 if (kind == "F31" and val == 0) else val       # +0.0 comes back as -0.0 (the sign is not stored)
    if int(o[1], 16) != want:
        return "read back %s, wrote %s" % (o[1], hx(val))
    return None


def gen_scalar(rng, n):
    cases = []
    specials = [0, 1, 2, 3, (1 << 64) - 1, (1 << 63), (1 << 32), (1 << 32) - 1]
    for k in range(64):
        specials += [(1 << k) - 1, 1 << k, (1 << k) + 1]
    for _ in range(n):
        kind = rng.choice(["RB", "RB", "SS", "US", "P32", "RND", "SZ"])
        if kind == "SZ":
            # ProbingHashTable::Size(entries, multiplier): a table of that size must accept `entries` insertions (small tables, where the
            # truncated product is no larger than the entry count, included)
            import struct
            mult = rng.choice([1.0, 1.01, 1.1, 1.2, 1.5, 2.0, 3.0, 7.5, 1.0 + rng.below(1000) / 997.0])
            bits = struct.unpack("<I", struct.pack("<f", mult))[0]
            cases.append("SZ %s %s %s" % (rng.choice("PD"), hx(rng.choice([0, 1, 2, 3, 4, 5, 9, 10, rng.range(0, 40), rng.range(0, 3000)])), hx(bits)))
        elif kind == "RB":
            cases.append("RB " + hx(rng.choice(specials + [rng.below(1 << rng.range(1, 64))]) & ((1 << 64) - 1)))
        elif kind in ("SS", "US"):
            cases.append("%s %s" % (kind, hx(rng.below(1 << 32))))
        elif kind == "P32":
            width = rng.choice([1, 2, rng.range(1, 1 << 16), rng.range(1, (1 << 32) - 1)])
            rangev = rng.choice([0, 1, rng.below(1 << 32), (1 << 32) - 1])
            off = rng.choice([0, rangev, rng.below(rangev + 1)])
            cases.append("P32 %s %s %s" % (hx(off), hx(rangev), hx(width)))
        else:
            cases.append("RND %s %s" % (rng.choice("PD"), hx(rng.choice([1, 2, 3, 4, 5, 7, 8, 9, 1 << 20, (1 << 20) + 1, rng.range(1, 1 << 40)]))))
    return cases


def oracle_scalar(case, out):
    f = case.split()
    if f[0] == "RB":
        x = int(f[1], 16)
        return None if int(out, 16) == x.bit_length() else "RequiredBits(%s)=%s, needs %d bits" % (f[1], out, x.bit_length())
    if f[0] == "P32":
        off, rg, w = (int(x, 16) for x in f[1:])
        r = int(out, 16)
        return None if r < w else "pivot %d not below width %d" % (r, w)
    if f[0] == "SZ":
        n = int(f[2], 16)
        o = out.split()
        if len(o) != 2:
            return "unexpected output %r" % out
        if int(o[0], 16) <= n:
            return "Size(%d entries) gives %d buckets: no spare bucket, the table cannot hold the entries it was sized for" % (n, int(o[0], 16))
        return None if o[1] == "ok" else "a table of Size(%d entries, multiplier) does not accept / return its %d entries: %s" % (n, n, o[1])
    if f[0] == "RND" and f[1] == "P":
        x, r = int(f[2], 16), int(out, 16)
        return None if (r >= x and r & (r - 1) == 0 and r < 2 * x) else "RoundBuckets(%d)=%d is not the next power of two" % (x, r)
    return None


def gen_table(rng, n, big):
    cases = []
    for _ in range(n):
        auto = rng.chance(1, 3)
        pol = "P" if auto else rng.choice("PD")
        if auto:
            init = rng.range(1, 8)
            buckets = auto_buckets(init)
            nops = rng.range(5, 200 if big else 60)
        else:
            buckets = rng.choice([1, 2, 3, 4, 5, 7, 8, 16, rng.range(2, 40)])
            if pol == "P":
                buckets = 1 << rng.range(0, 5) if rng.chance(9, 10) else buckets
            nops = rng.range(1, 2 * buckets + 4)
        style = rng.choice(["same_ideal", "end_cluster", "random", "sequential", "two_clusters"])
        mod = buckets if not auto else 1 << rng.range(3, 10)
        keys = []
        ops = []
        for i in range(nops):
            if style == "same_ideal":
                k = (rng.range(0, 50) * mod) + (mod - 1 if rng.chance(1, 2) else 0)
            elif style == "end_cluster":
                k = rng.range(0, 30) * mod + max(mod - 1 - rng.below(3), 0)
            elif style == "sequential":
                k = i + 1
            elif style == "two_clusters":
                k = rng.range(0, 30) * mod + rng.choice([0, mod // 2])
            else:
                k = rng.below(1 << 64) if rng.chance(1, 4) else rng.below(4 * mod + 4)
            if k == 0 and not rng.chance(1, 20):
                k = mod
            r = rng.below(10)
            if not auto and rng.chance(1, 9):
                # the table's memory moves (ProbingHashTable::Relocate, as when build_binary's mapping is re-made): probe sequences must
                # still wrap at the table's end and new entries must land in the new memory (sixth-round seeded change C20-18)
                ops.append("r:0")
            if keys and r < 3:
                kk = rng.choice(keys) if rng.chance(2, 3) else k
                ops.append("%s:%s" % (rng.choice("qqm"), hx(kk)))
            elif r < 6 and not auto and k not in keys and k != 0:
                ops.append("i:%s:%s" % (hx(k), hx(rng.below(1 << 16))))
                keys.append(k)
            else:
                if k == 0:
                    ops.append("q:0")
                    continue
                ops.append("f:%s:%s" % (hx(k), hx(rng.below(1 << 16))))
                keys.append(k)
        if auto:
            cases.append("AP %s %s %s" % (hx(init), hx(buckets), " ".join(ops)))
        else:
            cases.append("PT %s %s %s" % (pol, hx(buckets), " ".join(ops)))
    return cases


def gen_table_wrap(rng, n):
    """AutoProbing tables that double while a long run of wrapped-around entries sits at the start of the array: more entries than
    any fixed-size side buffer would hold, the first of them (and the entry they wrapped around) belonging to the upper half of the
    doubled table and the later ones to the lower half.  Every key is looked up again through FindOrInsert right after the growth,
    before later insertions can close a gap."""
    cases = []
    for _ in range(n):
        init = rng.range(1, 8)
        S = 1 << rng.range(6, 9)
        thr = min(S - 1, int(S * 0.9))
        ops, keys = [], []
        used = set()

        def ins(k):
            ops.append("f:%s:%s" % (hx(k), hx(rng.below(1 << 16))))
            keys.append(k)

        def middle():
            while True:
                k = rng.range(1, 60) * S * 4 + rng.range(S // 4, S // 2)
                if k not in used:
                    used.add(k)
                    return k
        for _i in range(S // 2):
            ins(middle())
        nup = rng.range(10, 26)
        nlow = rng.range(2, 12)
        wrap = [(2 * j + 1) * S + S - 1 - (j % rng.range(1, 3)) for j in range(nup)] + [(2 * (j + 50)) * S + S - 1 for j in range(nlow)]
        if rng.chance(1, 3):
            rng.shuffle(wrap)
        for k in wrap:
            ins(k)
        for _i in range(max(0, thr - S // 2 - len(wrap)) + rng.below(2)):      # just enough to cross the growth threshold of S buckets
            ins(middle())
        again = list(wrap)
        rng.shuffle(again)
        for k in again:
            ops.append("f:%s:%s" % (hx(k), hx(rng.below(1 << 16))))
        for k in keys[: 20]:
            ops.append("%s:%s" % (rng.choice("qm"), hx(k)))
        cases.append("AP %s %s %s" % (hx(init), hx(auto_buckets(init)), " ".join(ops)))
    return cases


def f32(x):
    import struct
    return struct.unpack("f", struct.pack("f", x))[0]


def auto_buckets(init):
    # Backend::Size(initial_size, 1.2): RoundBuckets(max(entries + 1, uint64(1.2f * float(entries))))
    v = max(init + 1, int(f32(f32(1.2) * f32(float(init)))))
    v -= 1
    for s in (1, 2, 4, 8, 16, 32):
        v |= v >> s
    return v + 1


def oracle_table(case, out):
    """specification: the table behaves as a map while below capacity; at capacity Insert throws"""
    f = case.split()
    auto = f[0] == "AP"
    buckets = int(f[2], 16)
    ops = f[3:]
    res, _, cells = out.partition("|")
    res = res.split()
    if res and res[0] == "ctor-throw":
        return None if (f[1] == "P" and (buckets == 0 or buckets & (buckets - 1))) else "constructor threw"
    ref = {}
    for i, op in enumerate(ops):
        p = op.split(":")
        k = int(p[1], 16)
        r = res[i] if i < len(res) else "<none>"
        if p[0] == "r":
            if r != "r":
                return "op %d: relocation answered %s" % (i, r)
            continue
        if p[0] in "qm":
            if k == 0:
                continue    # looking up the invalid key is outside the table's contract
            exp = hx(ref[k]) if k in ref else "-"
            if r != exp:
                return "op %d %s: lookup returned %s, the map holds %s" % (i, op, r, exp)
        elif p[0] == "i":
            full = (not auto) and len(ref) + 1 >= buckets
            if full:
                return None if r == "throw" else "op %d %s: inserting entry #%d into %d buckets did not throw (%s)" % (i, op, len(ref) + 1, buckets, r)
            if r != "ok":
                return "op %d %s: insert below capacity answered %s" % (i, op, r)
            ref[k] = int(p[2], 16)
        else:
            if k in ref:
                if r != "F:" + hx(ref[k]):
                    return "op %d %s: FindOrInsert on a present key answered %s, the map holds %s" % (i, op, r, hx(ref[k]))
            else:
                full = (not auto) and len(ref) + 1 >= buckets
                if full:
                    return None if r == "throw" else "op %d %s: FindOrInsert of entry #%d into %d buckets did not throw (%s)" % (i, op, len(ref) + 1, buckets, r)
                if r != "I":
                    return "op %d %s: FindOrInsert of a new key answered %s" % (i, op, r)
                ref[k] = int(p[2], 16)
    # final contents = the map (as a set; positions are the algorithm's business)
    got = {}
    for c in cells.split():
        k, v = (int(x, 16) for x in c.split(":"))
        if k:
            if k in got:
                return "key %x stored twice" % k
            got[k] = v
    if got != ref:
        return "final cells hold %d keys, the map %d" % (len(got), len(ref))
    return None


def table_nontrivial(case, out):
    # some key sits away from its ideal bucket (a collision was resolved), or a doubling happened
    f = case.split()
    _, _, cells = out.partition("|")
    cs = cells.split()
    n = len(cs)
    if f[0] == "AP" and n != int(f[2], 16):
        return True
    for i, c in enumerate(cs):
        k = int(c.split(":")[0], 16)
        if k and n and ((k % n) if f[1] == "D" else (k & (n - 1))) != i:
            return True
    return False


def gen_search(rng, n, big):
    cases = []
    for _ in range(n):
        kind = rng.choice(["SU", "SU", "BS", "S64"])
        top = (1 << 64) - 1 if kind == "S64" and rng.chance(1, 2) else (1 << 32) - 1
        ln = rng.choice([0, 1, 2, 3, rng.range(0, 30), rng.range(0, 400 if big else 80)])
        style = rng.choice(["uniform", "cluster", "two_valued", "dups", "edges", "skewed"])
        if style == "uniform":
            a = [rng.below(top + 1) for _ in range(ln)]
        elif style == "cluster":
            c = rng.below(top)
            a = [min(top, c + rng.below(5)) for _ in range(ln)]
            if ln > 2:
                a[0] = 0
                a[-1] = top
        elif style == "two_valued":
            x, y = rng.below(top), rng.below(top)
            a = [rng.choice([x, y]) for _ in range(ln)]
        elif style == "dups":
            a = [rng.below(8) for _ in range(ln)]
        elif style == "edges":
            a = [rng.choice([0, 1, top, top - 1]) for _ in range(ln)]
        else:
            a = [int((rng.below(1000) / 1000.0) ** 6 * top) for _ in range(ln)]
        a.sort()
        if a and rng.chance(2, 3):
            key = rng.choice(a) + rng.choice([0, 0, 1, -1])
            key = max(0, min(top, key))
        else:
            key = rng.choice([0, top, rng.below(top + 1)])
        cases.append("%s %s %s" % (kind, hx(key), " ".join(hx(x) for x in a)))
    return cases


def oracle_search(case, out):
    f = case.split()
    key = int(f[1], 16)
    a = [int(x, 16) for x in f[2:]]
    o = out.split()
    if not o or o[0] not in ("T", "F"):
        return "unexpected output %r" % out
    if o[0] == "T":
        if key not in a:
            return "reported present, key does not occur"
        if len(o) > 1 and a[int(o[1], 16)] != key:
            return "position %s does not hold the key" % o[1]
    elif key in a:
        return "reported absent, key occurs at index %d" % a.index(key)
    return None


def gen_array(rng, n, big):
    """bit-packed arrays of lm/trie.cc: vocabulary sizes at the RequiredBits boundaries, enough records to use up the slack bytes"""
    cases = []
    for _ in range(n):
        k = rng.range(1, 10)
        max_vocab = rng.choice([1 << k, (1 << k) - 1, (1 << k) + 1, rng.range(1, 1 << 12)])
        quant = rng.choice([1, 8, 16, 25, 31, rng.range(1, 31)])
        nrec = rng.choice([0, 1, 2, rng.range(1, 40), rng.range(60, 300 if big else 160)])
        nrec = min(nrec, max_vocab)
        words = sorted(set(rng.below(max_vocab + 1) for _ in range(nrec * 2)))[:nrec] if max_vocab > nrec else list(range(nrec))
        words = [w for w in words if w <= max_vocab]
        cases.append("TA %s %s %s" % (hx(max_vocab), hx(quant), " ".join("%s:%s" % (hx(rng.below(1 << quant)), hx(w)) for w in words)))
    return cases


def gen_middle(rng, n, big):
    """BitPackedMiddle<DontBhiksha|ArrayBhiksha> (lm/trie.cc, lm/bhiksha.hh): records with next pointers; enough records and
    children that pointer bits are actually chopped, and next pointers far above 2^inline_bits"""
    cases = []
    for _ in range(n):
        k = rng.range(7, 14)
        max_vocab = rng.choice([(1 << k) - 1, 1 << k, rng.range(130, 1 << 14)])
        quant = rng.choice([0, 1, 8, 16, 25, 31, rng.range(1, 50)])
        nrec = rng.choice([1, 2, rng.range(3, 40), rng.range(65, 400 if big else 200), rng.range(65, 130)])
        nrec = min(nrec, max_vocab)
        words = sorted(set(rng.below(max_vocab + 1) for _ in range(nrec * 2)))[:nrec]
        style = rng.below(5)
        kind = rng.choice(["A", "A", "A", "D"])
        if style == 4:
            # next pointers of 32 .. 56 bits (an order with 2^31 and more n-grams below it; only the pointers are that large, not the
            # array): the uncompressed pointer field read through BitsMask::ByMax (fifth-round seeded change C20-15: 32-bit shift)
            kind, quant, nrec = "D", rng.choice([0, 1, 8]), min(nrec, 40)
            words = words[:nrec]
        recs = []
        hubs = set(rng.below(max(1, len(words))) for _ in range(rng.range(1, 3))) if style in (3, 4) else set()
        for wi, w in enumerate(words):
            if style == 0:
                ch = rng.below(4)
            elif style == 1:
                ch = rng.choice([0, 0, 0, 1, rng.range(100, 3000)])       # a few hubs
            elif style == 2:
                ch = rng.range(50, 400)
            elif style == 4:
                ch = rng.choice([1 << 31, (1 << 32) - 1, 1 << 32, rng.range(1 << 31, 1 << 40), rng.range(1 << 40, 1 << 54)]) if wi in hubs else rng.below(4)
            else:
                # one to three nodes whose child range spans several blocks of the compressed pointer array
                ch = rng.choice([rng.range(30000, 70000), rng.range(1 << 16, 1 << 19)]) if wi in hubs else rng.below(4)
            recs.append("%s:%s:%s" % (hx(w), hx(rng.below(1 << quant) if quant else 0), hx(ch)))
        if rng.chance(1, 4) and len(recs) > 2:
            # the array below holds EXACTLY 2^k records (RequiredBits steps there: Size() and the constructor must agree on it -- seventh-round
            # seeded change C20-21 let them differ by one bit per record, visible once the records outgrow the 8 slack bytes)
            tot = sum(int(r.split(":")[2], 16) for r in recs)
            k2 = max(1, tot.bit_length())
            w_, p_, c_ = recs[-1].split(":")
            recs[-1] = "%s:%s:%s" % (w_, p_, hx(int(c_, 16) + (1 << k2) - tot))
        bits = rng.choice([0, 1, 2, 3, 8, 22, 64, rng.range(0, 64)])
        cases.append("TM %s %s %s %s %s" % (kind, hx(bits), hx(max_vocab), hx(quant), " ".join(recs)))
    return cases


def oracle_middle(case, out):
    f = case.split()
    recs = [r.split(":") for r in f[5:]]
    o = out.split()
    if not o or o[0] != "guard-ok":
        return "array of %d records wrote beyond the bytes Size() asked for" % len(recs)
    got = o[1:]
    if len(got) != len(recs):
        return "unexpected output"
    start = 0
    for i, ((w, p, c), g) in enumerate(zip(recs, got)):
        want = "%x:%x:%x:%x" % (int(p, 16), i, start, start + int(c, 16))
        if g != want:
            return "record %d (word %s) reads back payload:index:begin:end %s, written %s" % (i, w, g, want)
        start += int(c, 16)
    return None


def oracle_array(case, out):
    f = case.split()
    recs = [r.split(":") for r in f[3:]]
    o = out.split()
    if len(o) < 2 or o[1] != "guard-ok":
        return "array of %d records wrote beyond the bytes Size() asked for" % len(recs)
    got = o[2:]
    if len(got) != len(recs):
        return "unexpected output"
    for (p, w), g in zip(recs, got):
        if g != p:
            return "record for word %s reads back %s, wrote %s" % (w, g, p)
    return None


ORACLES = {"W57": oracle_bitpack, "W25": oracle_bitpack, "F32": oracle_bitpack, "F31": oracle_bitpack, "R57": oracle_bitpack,
           "R25": oracle_bitpack, "RB": oracle_scalar, "SS": oracle_scalar, "US": oracle_scalar, "P32": oracle_scalar,
           "RND": oracle_scalar, "SZ": oracle_scalar, "PT": oracle_table, "AP": oracle_table, "SU": oracle_search, "BS": oracle_search,
           "S64": oracle_search, "TA": oracle_array, "TM": oracle_middle}


def corpus_cases():
    p = os.path.join(vlib.ROOT, "corpus", "C20", "cases.txt")
    return [l.rstrip("\n") for l in open(p)] if os.path.exists(p) else []


def run(ctx):
    untranslatable = regenerate()
    ctx.coverage["untranslatable_units"] = [u for u, _ in untranslatable]
    pres = vlib.coq_prove("C20")
    ctx.set_proof(pres)
    big = not ctx.quick
    cases = corpus_cases()
    ctx.count("corpus_cases", len(cases))
    rng = ctx.rng
    cases += gen_bitpack(rng, ctx.pick(1500, 40000)) + gen_scalar(rng, ctx.pick(600, 10000)) + \
        gen_table(rng, ctx.pick(700, 12000), big) + gen_table_wrap(rng, ctx.pick(40, 600)) + gen_search(rng, ctx.pick(900, 20000), big) + gen_array(rng, ctx.pick(250, 4000), big) + gen_middle(rng, ctx.pick(250, 3000), big)
    impl = vlib.compile_driver("c20_driver", os.path.join(vlib.ROOT, "harness", "drivers", "c20_driver.cc"), libs=("kenlm", "kenlm_util"))
    iout = vlib.run_lines(impl, cases, restarts=12, timeout=ctx.pick(150, 900))
    # step 5: specification oracle on the implementation
    spec_fail = []
    nontrivial = set()
    kinds = {}
    for c, o in zip(cases, iout):
        k = c.split()[0]
        kinds[k] = kinds.get(k, 0) + 1
        msg = ORACLES[k](c, o) if not o.startswith("DRIVER-DIED") and o != "<no answer>" else o
        if "WROTE-PAST-WINDOW" in o:
            msg = "write touched bytes beyond the 8-byte window"
        if msg:
            spec_fail.append((c, o, msg))
        if k in ("PT", "AP"):
            if table_nontrivial(c, o):
                nontrivial.add(c)
        elif k in ("SU", "BS", "S64"):
            if len(c.split()) > 4:
                nontrivial.add(c)
        elif k in ("TA", "TM"):
            if len(c.split()) > 40:
                nontrivial.add(c)
        elif k in ("W57", "W25", "F32", "F31"):
            if int(c.split()[2], 16) % 8:
                nontrivial.add(c)
        else:
            nontrivial.add(c)
    # step 4: correspondence with the extracted model
    mismatches = []
    model_broken = None
    try:
        model = vlib.ocaml_model("C20")
        mout = vlib.run_lines(model, cases, restarts=12)
        for c, a, b in zip(cases, iout, mout):
            if a != b:
                mismatches.append((c, a, b))
    except vlib.ModelBroken as e:
        model_broken = str(e)
    ctx.count("evaluations", len(cases))
    ctx.coverage["distinct_nontrivial"] = len(nontrivial)
    ctx.coverage["rule"] = ("cases = corpus + generated (bit-packing writes/reads at every offset mod 8 and boundary widths; RequiredBits/"
                            "Pivot32/RoundBuckets on 2^k-1,2^k,2^k+1; probing tables with same-ideal / end-of-table / two-cluster key "
                            "families filled to capacity, AutoProbing across doublings; sorted arrays with duplicates, clusters, two "
                            "values, 0 and max).  Non-trivial: write at a non-byte-aligned offset; table in which some key is displaced "
                            "from its ideal bucket or that doubled; search over >= 3 elements; every scalar case.  Distinct = distinct case line.")
    ctx.coverage["case_kinds"] = kinds
    ctx.coverage["traces_validated_against_impl"] = len(cases) - len(mismatches)
    ctx.coverage["translated_functions"] = BITFNS + ["Pivot32::Calc", "Power2Mod::RoundBuckets", "DivMod::RoundBuckets"]
    for c, o in list(zip(cases, iout))[:3] + [(c, o) for c, o in zip(cases, iout) if c.startswith("AP")][:1]:
        ctx.sample({"case": c[:400], "impl": o[:400]})
    ctx.assumptions += ["x86-64 little endian; KENLM_MAX_ORDER=6", "translator cxx2gallina.py and clang 14 AST are trusted, validated by this run's differential execution of every translated function",
                        "extraction (ExtrOcamlBasic only) and the OCaml/C++ drivers are trusted", "hash = IdentityHash, Entry = {uint64 key, uint64 value}, invalid key 0"]
    # decide
    for c, o, msg in spec_fail[:5]:
        ctx.report("spec:" + c.split()[0], msg, {"case": c, "impl_output": o, "how": "echo '<case>' | c20_driver (see harness/drivers/c20_driver.cc)"})
    if not spec_fail:
        if mismatches:
            c, a, b = mismatches[0]
            ctx.report("correspondence:" + c.split()[0], "model and implementation disagree (the specification oracle accepts the implementation's answer)",
                       {"correspondence": "C20 extracted model vs c20_driver", "case": c, "impl": a, "model": b, "n_mismatches": len(mismatches)}, found=False)
        elif model_broken:
            ctx.report("model-broken", "executable model no longer builds", {"log": model_broken[-2000:]}, found=False)
        for u, why in untranslatable:
            ctx.report("translation:" + u, "the translator can no longer render %s in Gallina (%s): the theorems are not re-checked against the current "
                       "source, and the specification oracle found no failing input among %d cases" % (u, why, len(cases)),
                       {"theorem_or_correspondence": "coq/Gen regeneration of " + u, "why": why}, found=False)
        ctx.report_proof(pres)
    ctx.coverage["spec_oracle_failures"] = len(spec_fail)
    ctx.coverage["correspondence_mismatches"] = len(mismatches)


def replay(ctx, obj):
    impl = vlib.compile_driver("c20_driver", os.path.join(vlib.ROOT, "harness", "drivers", "c20_driver.cc"), libs=("kenlm", "kenlm_util"))
    c = obj["replay"]["case"]
    o = vlib.run_lines(impl, [c])[0]
    msg = ORACLES[c.split()[0]](c, o)
    print("case:", c, "\nimpl:", o, "\noracle:", msg or "ok")
    return 1 if msg else 0
