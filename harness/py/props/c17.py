"""C17 -- queues, chains and the thread pool deliver each item exactly once, in order, and terminate.

Tie 1 (translator): coq/Gen/PCQueueProg.v = the synchronisation operations of PCQueue::Produce / Consume / the
constructor, regenerated from util/pcqueue.hh by translator/pcqueue_ops.py; C17_prog_is_expected is proved by
reflexivity and every other theorem goes through it.
Tie 2 (correspondence): the real util::PCQueue<int>, serialised at the KPU_KENLM_VERIF scheduling points under
explicit / exhaustively enumerated (preemption-bounded DFS) / random / PCT schedules, must agree with the extracted
model replaying the same schedule on: which thread is enabled at every step, the values every Consume call returned,
and whether everything finished.  Chains and the thread pool run free with seeded jitter at the same points.
Specification oracle (Python + driver): multiset preserved, per-producer order per consumer, capacity, no deadlock,
chain output = composition of the stage functions in order, every pool request handled exactly once."""
import os
import sys

import vlib
sys.path.insert(0, os.path.join(vlib.ROOT, "translator"))

DRIVER = os.path.join(vlib.ROOT, "harness", "drivers", "c17_driver.cc")


def regenerate():
    import pcqueue_ops
    import cxx2gallina as cg
    gen = os.path.join(vlib.COQ, "Gen", "PCQueueProg.v")
    try:
        txt = pcqueue_ops.gallina(vlib.REPO)
    except cg.Unsupported as e:
        # keep the file well-formed so that the model still builds; the program is then certainly not the expected one
        txt = ("(* GENERATED: extraction FAILED: %s *)\nFrom Coq Require Import List.\nFrom Kenlm Require Import C17.PCQueueOps.\n"
               "Import ListNotations.\nDefinition produce_prog : list op := [Opaque 0].\nDefinition consume_prog : list op := [Opaque 0].\n"
               "Definition ctor_prog : list init := [InitOpaque 0].\nDefinition wait_on_eintr : eintr_action := EintrOpaque.\n") % str(e).replace("*)", "* )")[:500]
    vlib.write_if_changed(gen, txt)
    return ["Gen/PCQueueProg.v"]


# ---------------------------------------------------------------------------------------------
def item_lists(P, ns):
    return [[100 * (i + 1) + n + 1 for n in range(ns[i])] for i in range(P)]


def fmt_items(items):
    return ";".join(",".join(str(v) for v in l) if l else "-" for l in items) if items else "-"


def split_counts(rng, total, C):
    """C non-negative counts summing to total"""
    cuts = sorted(rng.below(total + 1) for _ in range(C - 1))
    cs, prev = [], 0
    for c in cuts + [total]:
        cs.append(c - prev)
        prev = c
    return cs


def gen_config(rng, maxP, maxC, maxk, maxn, balanced=True):
    P, C = rng.range(1, maxP), rng.range(1, maxC)
    k = rng.choice([1, 1, 2, rng.range(1, maxk)])
    ns = [rng.choice([0, 1, 1, 2, rng.range(0, maxn)]) for _ in range(P)]
    total = sum(ns)
    counts = split_counts(rng, total, C)
    if not balanced and total:
        # fewer Consume calls than Produce calls (some values stay queued / producers block) or more (consumers block)
        j = rng.below(C)
        counts[j] = max(0, counts[j] + rng.choice([-1, 1, 2]))
    return k, item_lists(P, ns), counts


def pcq_case(k, items, counts, policy):
    return "PCQ %d %s %s %s" % (k, fmt_items(items), ",".join(str(c) for c in counts), policy)


def gen_cases(ctx):
    rng = ctx.rng
    cases = []
    # exhaustive (preemption-bounded) enumeration of schedules on small configurations
    small = [(1, [1], [1]), (1, [1, 1], [1, 1]), (1, [2], [1, 1]), (2, [1, 1], [2]), (2, [2, 1], [1, 2]), (1, [1, 1], [2]), (2, [2], [2])]
    if not ctx.quick:
        small += [(2, [2, 2], [2, 2]), (1, [2, 1], [2, 1]), (3, [2, 2], [4]), (2, [1, 1, 1], [1, 2]), (1, [3], [1, 1, 1])]
    for k, ns, counts in small:
        bound = ctx.pick(2, 3)
        cases.append(pcq_case(k, item_lists(len(ns), ns), counts, "dfs:%d:%d:%d:%d" % (bound, ctx.pick(1500, 25000), ctx.pick(6, 40), rng.below(1 << 30))))
    # random and PCT schedules on larger configurations
    for _ in range(ctx.pick(120, 3000)):
        k, items, counts = gen_config(rng, 4, 4, 4, 5)
        pol = "rand:%d" % rng.below(1 << 30) if rng.chance(1, 2) else "pct:%d:%d" % (rng.below(1 << 30), rng.range(0, 4))
        cases.append(pcq_case(k, items, counts, pol))
    # explicit random schedules, balanced or not: many stop at a step that is not enabled -> enabled sets are compared
    for _ in range(ctx.pick(150, 3000)):
        k, items, counts = gen_config(rng, 3, 3, 3, 3, balanced=rng.chance(2, 3))
        tids = ["p%d" % i for i in range(len(items))] + ["c%d" % j for j in range(len(counts))]
        total = 6 * (sum(len(l) for l in items) + sum(counts))
        n = rng.range(0, total + 2)
        sched, cur = [], rng.choice(tids)
        for _ in range(n):
            if rng.chance(1, 3):
                cur = rng.choice(tids)
            sched.append(cur)
        cases.append(pcq_case(k, items, counts, "s:" + ",".join(sched)))
    # real concurrency with jitter
    for _ in range(ctx.pick(6, 60)):
        k, items, counts = gen_config(rng, 4, 4, 3, 40)
        cases.append(pcq_case(k, items, counts, "free:%d:%d" % (rng.below(1 << 30) + 1, ctx.pick(20, 100))))
    for _ in range(ctx.pick(40, 600)):
        blocks = rng.choice([1, 1, 2, 3, rng.range(1, 6)])
        per = rng.choice([1, 2, 3, rng.range(1, 16)])
        nst = rng.choice([0, 1, 2, 3, rng.range(0, 5)])
        stages = ",".join(rng.choice(["p", "a%d" % rng.range(1, 9), "f%d" % rng.range(1, 4)]) for _ in range(nst)) or "-"
        n = rng.choice([0, 1, per, per * blocks, per * blocks + 1, rng.range(0, 400)])
        cases.append("CHAIN %d %d %s %d %d" % (blocks, per, stages, n, rng.below(1 << 30) + 1))
    # record-level consumers (util::stream::Stream) fed by stages that empty whole blocks: a dropped value range aligned to
    # 0, 1, 2, 3.. whole blocks at the start / in the middle / at the end of the stream, everything dropped, exactly full
    # last block (Stream::Poison leaves an empty block), Stream stages behind and in front of the dropping stage
    for _ in range(ctx.pick(60, 900)):
        blocks = rng.choice([1, 2, 2, 3, 4, rng.range(1, 6)])
        per = rng.choice([1, 2, 4, 8, rng.range(1, 12)])
        nblk = rng.choice([0, 1, 2, 3, 6, 12, rng.range(0, 30)])
        n = max(0, nblk * per + rng.choice([0, 0, 0, 1, -1, rng.range(0, per - 1)]))
        st = []
        for _ in range(rng.choice([1, 1, 2, 3])):
            kind = rng.choice(["d", "d", "d", "f1", "s", "a", "p", "f"])
            if kind == "d":
                first = rng.choice([0, 0, 1, rng.range(0, max(0, nblk))])           # first emptied block
                cnt = rng.choice([0, 1, 2, 2, 3, rng.range(0, 6), nblk + 1])        # how many whole blocks are emptied
                lo = first * per + 1 + rng.choice([0, 0, 0, -1, 1, rng.range(0, per)])
                hi = (first + cnt) * per + 1 + rng.choice([0, 0, 0, -1, 1])
                lo = max(0, lo)
                st.append("d%d-%d" % (lo, max(lo, hi)))
            elif kind == "s":
                st.append("s%d" % rng.range(1, 9))
            elif kind == "a":
                st.append("a%d" % rng.range(1, 9))
            elif kind == "f":
                st.append("f%d" % rng.range(2, 4))
            else:
                st.append(kind)
        if rng.chance(1, 2):
            st.append("s%d" % rng.range(0, 5))
        cases.append("%s %d %d %s %d %d" % (rng.choice(["CHAINS", "CHAINS", "CHAIN"]), blocks, per, ",".join(st), n, rng.below(1 << 30) + 1))
    for _ in range(ctx.pick(25, 300)):
        cases.append("POOL %d %d %d %d" % (rng.range(1, 6), rng.range(1, 5), rng.choice([0, 1, 2, rng.range(0, 300)]), rng.below(1 << 30) + 1))
    # the file workers of util/stream/io.hh as first / last stage: Read / PRead over files of exactly k blocks (k = 0, 1, 2, many) and
    # +-1 record, Stream / Link sources in front of stages that empty 0 .. more than block_count whole blocks, Write / PWrite /
    # WriteAndRecycle at the end; oracle: the run terminates and the output file holds exactly the surviving records in order
    for _ in range(ctx.pick(70, 900)):
        blocks = rng.choice([1, 2, 2, 3, 4, rng.range(1, 5)])
        per = rng.choice([1, 2, 4, 8, 16, 32, rng.range(1, 12)])
        nblk = rng.choice([0, 1, 2, 3, blocks, blocks + 1, 12, rng.range(0, 40)])
        n = max(0, nblk * per + rng.choice([0, 0, 0, 0, 1, -1, rng.range(0, per - 1)]))
        src = rng.choice(["pread", "pread", "read", "stream", "stream", "link"])
        sink = rng.choice(["war", "war", "write", "pwrite", "stream", "link"])
        st = []
        for _ in range(rng.choice([0, 1, 1, 2])):
            kind = rng.choice(["d", "d", "d", "f1", "s", "a", "p"])
            if kind == "d":
                first = rng.choice([0, 0, 1, rng.range(0, max(0, nblk))])
                cnt = rng.choice([1, 2, blocks - 1, blocks, blocks, blocks + 1, 2 * blocks + 1, nblk + 1, rng.range(0, 8)])     # whole blocks emptied: fewer than / exactly / more than block_count
                lo = max(0, first * per + 1 + rng.choice([0, 0, 0, -1, 1]))
                st.append("d%d-%d" % (lo, max(lo, (first + max(0, cnt)) * per + 1 + rng.choice([0, 0, 0, -1, 1]))))
            elif kind in "sa":
                st.append("%s%d" % (kind, rng.range(1, 9)))
            else:
                st.append(kind)
        cases.append("CHAINIO %d %d %s %d %d %s %s" % (blocks, per, ",".join(st) or "-", n, rng.below(1 << 30) + 1, src, sink))
    # "fill, then drain": the source runs to completion (data + poison) before any consumer is attached; block_count 2..5 and
    # data of exactly block_count-1 blocks, one block less, one block more (then the source must park until the drain starts)
    for _ in range(ctx.pick(40, 500)):
        blocks = rng.choice([2, 3, 4, 5, rng.range(1, 6)])
        per = rng.choice([1, 2, 4, 8, rng.range(1, 9)])
        kind = rng.choice(["CHAINF", "CHAINFS"])
        dblocks = max(0, blocks - 1 + rng.choice([0, 0, 0, -1, 1, -2, 2]))      # data blocks the source emits
        if kind == "CHAINF":
            n = max(0, dblocks * per - rng.choice([0, 0, rng.below(per)]))        # Link source: ceil(n/per) data blocks
        else:
            n = max(0, (dblocks - 1) * per + rng.below(per)) if dblocks else 0  # Stream source: n//per + 1 blocks (the last may be empty)
        st = ",".join(rng.choice(["p", "a%d" % rng.range(1, 9), "s%d" % rng.range(1, 5), "f%d" % rng.range(2, 4)]) for _ in range(rng.choice([0, 0, 1, 2]))) or "-"
        cases.append("%s %d %d %s %d %d" % (kind, blocks, per, st, n, rng.below(1 << 30) + 1))
    # signals (no-op handler without SA_RESTART) delivered to threads parked in Produce / Consume, interleaved with the calls
    for _ in range(ctx.pick(30, 400)):
        k = rng.choice([1, 1, 2, 3])
        acts, nthreads, val = [], 0, 1
        inq, waitp, waitc = 0, 0, 0        # keep at most one producer waiting: which of two blocked producers goes first is not determined
        for _ in range(rng.range(2, 9)):
            r = rng.below(10)
            if r < 3 or nthreads == 0:
                acts.append("c"); nthreads += 1; waitc += 1
            elif r < 6 and waitp == 0:
                acts.append("p%d" % val); val += 1; nthreads += 1; waitp += 1
            else:
                acts.append("i%d" % rng.below(nthreads))
            moved = True
            while moved:
                moved = False
                if waitp and inq < k:
                    waitp -= 1; inq += 1; moved = True
                if waitc and inq:
                    waitc -= 1; inq -= 1; moved = True
        acts.append("i%d" % rng.below(nthreads))
        # end balanced so that every thread can finish: add the missing calls
        np_, nc_ = sum(a[0] == "p" for a in acts), sum(a[0] == "c" for a in acts)
        while nc_ < np_:                   # consumers first: they unblock a waiting producer
            acts.append("c"); nc_ += 1
        while np_ < nc_:
            acts.append("p%d" % val); val += 1; np_ += 1
        cases.append("SIG %d %s" % (k, " ".join(acts)))
    # configuration and life cycle of a Chain: budgets just below / at / above one entry per block, entry sizes 1..16, block_count
    # 0..5; op sequences Add / operator>> / Wait / Start / reuse, including rounds in which the chain owns no thread and an
    # explicit Start() on a chain that is still running
    for _ in range(ctx.pick(70, 900)):
        es = rng.choice([1, 2, 3, 4, 8, 8, 12, 16, 0])
        bc = rng.choice([1, 2, 3, 4, 4, 5, 0])
        need = es * bc
        total = max(0, rng.choice([need, need, need - 1, need + 1, max(0, es - 1), es, need - es, 2 * need, 3 * need + rng.below(max(1, es)), need * rng.range(1, 9) + rng.below(need + 1)]))
        ops = []
        if es and bc and total >= need:
            per = total // (bc * es)
            for _ in range(rng.choice([1, 2, 2, 3, 4])):
                kind = rng.choice(["T", "T", "U", "M", "M", "-"])
                if kind == "M":
                    if bc < 2:
                        kind = "T"
                    else:
                        dblocks = rng.range(1, bc - 1)                       # blocks the Stream writer emits (the last may be empty): fits without a consumer
                        ops.append("M%d" % ((dblocks - 1) * per + rng.below(per)))
                if kind in "TU":
                    ops.append("%s%d" % (kind, rng.choice([0, 1, per, per * bc, per * bc + 1, rng.range(0, 40 * per + 3) % 300])))
                end = rng.choice(["W", "W", "w", "S"])
                if kind == "-" and end == "S" and (not ops or ops[-1] in ("W", "w")):
                    end = "W"                                               # Start() on a stopped chain must be followed by a round (below)
                ops.append(end)
            if ops[-1] == "S":
                ops += ["T%d" % rng.range(0, 30 * per), "W"]
            # an explicit Start() must be followed by a round that has a source (a started chain without one never ends: by design)
            fixed = []
            for i, o in enumerate(ops):
                fixed.append(o)
                if o == "S" and (i + 1 >= len(ops) or ops[i + 1][0] not in "TUM"):
                    fixed.append("U%d" % rng.range(0, 20 * per))
            ops = fixed + ([] if fixed and fixed[-1] == "W" else ["W"])
        else:
            ops = ["T%d" % rng.range(0, 50), "W"]
        cases.append("LIFE %d %d %d %d %s" % (es, bc, total, rng.below(1 << 30) + 1, " ".join(ops)))
    # handlers that throw: the pool must end (abort) or handle everything, never drop the request and carry on
    for _ in range(ctx.pick(12, 120)):
        n = rng.choice([1, 2, 5, rng.range(0, 120)])
        fail_at = rng.choice([0, n - 1, n // 2, rng.range(0, max(0, n - 1)), n + 5])
        cases.append("POOLF %d %d %d %d %d" % (rng.range(1, 5), rng.range(1, 4), n, max(0, fail_at), rng.below(1 << 30) + 1))
    return cases


# ---------------------------------------------------------------------------------------------
def run_cases(exe, cases, timeout=900):
    """one result line per case; the driver exits after printing a deadlock/stuck/HANG line (its threads are parked
    for ever), so it is restarted on the remaining cases"""
    out = []
    rest = list(cases)
    restarts = 0
    while rest:
        if restarts > 5:      # a broken tree: every further case would cost a watchdog period
            out += ["SKIPPED"] * len(rest)
            break
        rc, o, e = vlib.sh([exe], input=("\n".join(rest) + "\n").encode(), timeout=timeout)
        lines = o.split("\n")
        if lines and lines[-1] == "":
            lines.pop()
        lines = lines[:len(rest)]
        out += lines
        if len(lines) == len(rest):
            break
        if rc == 124:
            out.append("HANG driver timed out")
            rest = rest[len(lines) + 1:]
            restarts += 1
        elif rc in (3, 4) and lines:
            rest = rest[len(lines):]      # exit 3/4: the last printed line belongs to the case that ended the driver
            if rc == 3 or "stuck" in lines[-1].split(" sched=")[0]:
                restarts += 1             # a watchdog / stuck ending costs seconds; a deadlock of an unbalanced plan is legitimate and cheap
        else:
            out.append("DRIVER-DIED rc=%d %s" % (rc, e.strip()[-300:].replace("\n", " | ")))
            rest = rest[len(lines) + 1:]
            restarts += 1
    return out


def parse_run(line):
    """'<status...> sched=.. en=.. got=.. fin=.' -> dict"""
    f = line.split(" ")
    d = {"status": [], "raw": line}
    for x in f:
        if "=" in x and x.split("=")[0] in ("sched", "en", "got", "fin", "next"):
            d[x.split("=")[0]] = x.split("=", 1)[1]
        else:
            d["status"].append(x)
    d["status"] = " ".join(d["status"])
    return d


def oracle_pcq(case, d):
    """specification, from the property text: every produced value is handed to exactly one consumer, order of one
    producer's values as seen by one consumer is preserved, nobody blocks for ever while work remains"""
    f = case.split()
    items = [] if f[2] == "-" else [[int(v) for v in l.split(",")] if l != "-" else [] for l in f[2].split(";")]
    counts = [int(c) for c in f[3].split(",")] if f[3] != "-" else []
    st = d["status"]
    if st.startswith("deadlock"):
        if sum(len(l) for l in items) == sum(counts):
            return "deadlock although #Produce = #Consume: " + st
        return None       # unbalanced plans are allowed to block
    if st.startswith("stuck") or st.startswith("HANG") or st.startswith("spec:") or st.startswith("DRIVER") or st.startswith("exception"):
        return st
    if "got" not in d:
        return "unparsable result: " + d["raw"][:200]
    got = [[int(v) for v in g.split(",")] if g != "-" else [] for g in d["got"].split(";")] if d["got"] else []
    allgot = sorted(v for g in got for v in g)
    allitems = sorted(v for l in items for v in l)
    # every returned value was produced, at most once
    rem = list(allitems)
    for v in allgot:
        if v in rem:
            rem.remove(v)
        else:
            return "value %d returned by Consume was never produced or was returned twice" % v
    if d.get("fin") == "1" and st == "ok" and sum(len(l) for l in items) == sum(counts) and rem:
        return "finished, but produced values %s were never consumed" % rem[:5]
    for j, g in enumerate(got):
        for l in items:
            idx = [l.index(v) for v in g if v in l]
            if idx != sorted(idx):
                return "consumer %d saw the values of one producer out of order: %s" % (j, g)
    return None


def oracle_chain(case, out):
    f = case.split()
    blocks, per, stages, n = int(f[1]), int(f[2]), f[3], int(f[4])
    if not out.startswith("ok "):
        return out
    seq = list(range(1, n + 1))
    if stages != "-":
        for s in stages.split(","):
            if s[0] in "as":        # 's' = the same function applied record by record through util::stream::Stream
                seq = [(v + int(s[1:])) & 0xffffffff for v in seq]
            elif s[0] == "f":
                seq = [v for v in seq if v % int(s[1:])]
            elif s[0] == "d":
                lo, hi = (int(x) for x in s[1:].split("-"))
                seq = [v for v in seq if v < lo or v >= hi]
    h = 1469598103934665603
    for v in seq:
        h = ((h ^ v) * 1099511628211) & 0xFFFFFFFFFFFFFFFF
    d = dict(x.split("=") for x in out.split()[1:] if "=" in x)
    if "count" not in d:
        return "unparsable result: " + out[:200]
    if int(d["count"]) != len(seq):
        return "chain delivered %s entries, the stage functions applied in order give %d" % (d["count"], len(seq))
    if int(d["hash"], 16) != h:
        return "chain delivered the right number of entries but not the stage functions applied in production order (head %s)" % d["head"]
    if "count" not in d:
        return "unparsable result: " + out[:200]
    if int(d["distinct_blocks"]) > blocks:
        return "sink saw %s distinct blocks, the chain owns %d" % (d["distinct_blocks"], blocks)
    return None


def oracle_fill(case, out):
    """fill-then-drain: the source finishes without a consumer iff its data blocks plus the poison fit (block_count queues of
    capacity block_count); every queue the chain constructs has capacity block_count"""
    f = case.split()
    blocks, per, n = int(f[1]), int(f[2]), int(f[4])
    d = dict(x.split("=") for x in out.split()[1:] if "=" in x)
    dblocks = -(-n // per) if f[0] == "CHAINF" else n // per + 1
    exp = "done" if dblocks + 1 <= blocks else "parked"
    if d.get("src") != exp:
        return "fill-then-drain: a source writing %d block(s) then the poison into a chain of block_count %d %s without a consumer; it is %s" % (
            dblocks, blocks, "must finish" if exp == "done" else "must wait for the drain", d.get("src"))
    return None


def oracle_caps(case, out):
    blocks = int(case.split()[1])
    d = dict(x.split("=") for x in out.split()[1:] if "=" in x)
    caps = d.get("caps", "")
    if caps and any(c != str(blocks) for c in caps.split(",")):
        return "the chain constructed PCQueues of capacities [%s]; the chain model and its theorems take every queue to have capacity block_count = %d" % (caps, blocks)
    return None


def oracle_sig(case, out):
    """the atomic bounded FIFO with threads that each make one call; a signal changes nothing"""
    f = case.split()
    k, acts = int(f[1]), f[2:]
    if not out.startswith("ok "):
        return out[:300]
    obs = out[3:].split("|")
    if len(obs) != len(acts):
        return "unparsable result: " + out[:200]
    q, wp, wc, fp, fc, ret = [], [], 0, 0, 0, []
    for a, o in zip(acts, obs):
        if a[0] == "p":
            wp.append(int(a[1:]))
        elif a[0] == "c":
            wc += 1
        moved = True
        while moved:
            moved = False
            if wp and len(q) < k:
                q.append(wp.pop(0)); fp += 1; moved = True     # blocked producers: which one goes first is not determined; values differ only in order
            if wc and q:
                ret.append(q.pop(0)); wc -= 1; fc += 1; moved = True
        exp_counts = "P%dC%d" % (fp, fc)
        head, _, vals = o.partition(":")
        got = sorted(int(v) for v in vals.split(",") if v)
        if head != exp_counts or got != sorted(ret):
            return "after action %s: %s returned values %s; the bounded FIFO gives %s %s" % (a, head, got, exp_counts, sorted(ret))
        if any(v not in [int(x[1:]) for x in acts if x[0] == "p"] for v in got) or len(set(got)) != len(got):
            return "after action %s: Consume returned a value that was never produced, or the same value twice: %s" % (a, got)
    return None


def life_hash(n, es, rnd):
    h = 1469598103934665603
    for i in range(n):
        for j in range(es):
            h = ((h ^ ((i * 31 + j * 7 + rnd * 13 + 1) & 0xff)) * 1099511628211) & 0xFFFFFFFFFFFFFFFF
    return h


def oracle_life(case, out):
    """From chain.hh / the property text: a configuration with zero entry size, zero blocks or less than one entry per block is
    refused (ChainConfigException), otherwise block size = total / (block_count * entry_size) * entry_size; when Wait() or Start()
    returns every round started before it has delivered exactly its own entries, in order; after Wait() the chain is not running,
    after Start() it is."""
    f = case.split()
    es, bc, total, ops = int(f[1]), int(f[2]), int(f[3]), f[5:]
    if es == 0 or bc == 0 or total < es * bc:
        return None if out == "config-exception" else "configuration entry_size=%d block_count=%d total_memory=%d (below one entry per block) was not refused: %s" % (es, bc, total, out[:120])
    toks = out.split()
    bs = total // (bc * es) * es
    if not out.startswith("bs=") and out != "config-exception":
        return "the op sequence did not complete on the real Chain: " + out[:300]
    if not toks or toks[0] != "bs=%d" % bs:
        return "block size: expected %d = total_memory / (block_count * entry_size) * entry_size, got %s" % (bs, out[:120])
    reports = toks[1:]
    rounds, ri, rnd = [], 0, 0
    for o in ops:
        if o[0] in "TU":
            rounds.append((rnd, int(o[1:]))); rnd += 1
        elif o[0] == "M":
            rnd += 1
        else:
            if ri >= len(reports):
                return "no report for op %s: %s" % (o, out[:200])
            p = reports[ri].split(":"); ri += 1
            if p[0] != o:
                return "unparsable report %s" % reports[ri - 1]
            want_run = "1" if o == "S" else "0"
            if p[1] != "run=" + want_run:
                return "after %s Running() is %s, must be %s" % ({"W": "Wait()", "w": "Wait(false)", "S": "Start()"}[o], p[1][4:], want_run)
            got = dict(x.split("=") for x in p[3].split(";") if x)
            for r, n in rounds:
                exp = "%d.%x" % (n, life_hash(n, es, r))
                if got.get("r%d" % r) != exp:
                    return "when %s returned, round %d had delivered %s entries.hash; it wrote %s" % (o, r, got.get("r%d" % r), exp)
    return None


def oracle_pool(case, out):
    f = case.split()
    n = int(f[3])
    if not out.startswith("ok "):
        return out
    d = dict(x.split("=") for x in out.split()[1:])
    if int(d["dup"]) or int(d["miss"]) or int(d["stray"]) or int(d["handled"]) != n:
        return "thread pool: %s of %d requests handled, %s twice, %s never, %s unknown" % (d["handled"], n, d["dup"], d["miss"], d["stray"])
    return None


def nontrivial_run(d):
    """a schedule with at least two context switches in which, at some step, some thread was not enabled"""
    s = d.get("sched", "").split(",")
    sw = sum(1 for a, b in zip(s, s[1:]) if a != b)
    ens = d.get("en", "").split("|")
    widths = {len(e) for e in ens}
    return sw >= 2 and len(widths) > 1


def check(ctx, exe, cases, with_model=True):
    """runs the cases; returns (spec_failures, mismatches, model_broken, stats)"""
    iout = run_cases(exe, cases)
    while len(iout) < len(cases):
        iout.append("<no answer>")
    spec_fail, runs = [], []       # runs: (origin case, config prefix, parsed impl run)
    cap_notes = []                 # white-box: queue capacities read through the constructor hook differ from the model's
    kinds = {}
    dfs_runs = 0
    for c, o in zip(cases, iout):
        if o == "SKIPPED":
            continue
        f = c.split()
        kind = f[0] + (":" + f[4].split(":")[0] if f[0] == "PCQ" else "")
        kinds[kind] = kinds.get(kind, 0) + 1
        if f[0] == "LIFE":
            m = oracle_life(c, o)
            if m:
                spec_fail.append(("chain:config" if m.startswith("configuration") or m.startswith("block size") else
                                  "chain:lifecycle:hang" if "HANG" in m else "chain:lifecycle", c, o[:600], m))
            continue
        if f[0] == "SIG":
            m = oracle_sig(c, o)
            if m:
                spec_fail.append(("pcqueue:signal", c, o, m))
            continue
        if f[0] in ("CHAINF", "CHAINFS"):
            m = oracle_chain(c, o) or oracle_fill(c, o)
            if m:
                spec_fail.append(("chain:fill-then-drain", c, o, m))
            elif oracle_caps(c, o):
                cap_notes.append((c, o, oracle_caps(c, o)))
            continue
        if f[0] == "CHAINIO":
            m = oracle_chain(c, o)
            if m:
                spec_fail.append(("chain:io:%s-%s" % (f[6], f[7]), c, o, m))
            continue
        if f[0] in ("CHAIN", "CHAINS") and o.startswith("ok ") and oracle_caps(c, o):
            cap_notes.append((c, o, oracle_caps(c, o)))
        if f[0] in ("CHAIN", "CHAINS"):
            m = oracle_chain(c, o)
            if m:
                spec_fail.append(("chain" if f[0] == "CHAIN" and "s" not in "".join(x[0] for x in f[3].split(",")) else "chain:stream", c, o, m))
        elif f[0] == "POOLF":
            n, fail_at = int(f[3]), int(f[4])
            exp = "ok aborted" if 0 <= fail_at < n else "ok finished handled=%d" % n
            if not o.startswith(exp):
                spec_fail.append(("thread-pool:failing-handler", c, o, "a handler threw on request %d of %d: expected the process to %s, got: %s" %
                                  (fail_at, n, "be aborted" if exp == "ok aborted" else "finish", o[:200])))
        elif f[0] == "POOL":
            m = oracle_pool(c, o)
            if m:
                spec_fail.append(("thread-pool", c, o, m))
        elif f[4].startswith("free"):
            if not o.startswith("ok "):
                spec_fail.append(("pcqueue:free-running", c, o, o[:300]))
        elif f[4].startswith("dfs"):
            parts = o.split(" ## ")
            head = parts[0]
            if not head.startswith("dfs runs="):
                d = parse_run(head.replace("dfs-failed ", ""))
                spec_fail.append(("pcqueue:" + ("stuck" if "stuck" in head else "deadlock" if "deadlock" in head else "hang" if "HANG" in head else "dfs-failed"),
                                  c, o[:600], "exhaustive schedule enumeration: " + head[:300]))
                continue
            hd = dict(x.split("=") for x in head.split(" first=")[0].split()[1:])
            dfs_runs += int(hd["runs"])
            if int(hd["viol"]):
                spec_fail.append(("pcqueue:spec", c, o[:600], "schedule enumeration found %s violating schedules; first: %s" % (hd["viol"], head.split(" first=")[1][:400])))
            for p in parts[1:]:
                runs.append((c, " ".join(f[:4]), parse_run(p)))
        else:
            d = parse_run(o)
            m = oracle_pcq(c, d)
            if m:
                sig = "pcqueue:" + ("deadlock" if "deadlock" in m else "stuck" if m.startswith("stuck") or m.startswith("HANG") else "spec")
                spec_fail.append((sig, c, o[:600], m))
            elif "sched" in d:
                runs.append((c, " ".join(f[:4]), d))
    # correspondence: the extracted model replays every schedule the implementation ran
    mismatches, model_broken = [], None
    nontriv = set()
    for _, cfg, d in runs:
        if nontrivial_run(d):
            nontriv.add(cfg + " " + d.get("sched", ""))
    if with_model and runs:
        try:
            model = vlib.ocaml_model("C17")
            mcases = [cfg + " s:" + d.get("sched", "") + (("," if d.get("sched") else "") + d["status"].split(":")[-1] if d["status"].startswith("notenabled") else "") for _, cfg, d in runs]
            mout = vlib.run_lines(model, mcases)
            for (c, cfg, d), mc, mo in zip(runs, mcases, mout):
                md = parse_run(mo)
                same = all(md.get(key) == d.get(key) for key in ("sched", "en", "got", "fin"))
                if d["status"].startswith("deadlock"):
                    # the implementation's threads all blocked after this schedule: the model must have no enabled thread either
                    same = same and md["status"] == "ok" and md.get("next") == "" and md.get("fin") == "0"
                else:
                    same = same and md["status"] == d["status"]
                if not same:
                    mismatches.append((c, mc, d["raw"], mo))
        except vlib.ModelBroken as e:
            model_broken = str(e)
    # chains and pools: the extracted atomic-FIFO models under their own seed-driven schedules must deliver the same result
    cp = [(c, o) for c, o in zip(cases, iout) if c.split()[0] in ("CHAIN", "CHAINS", "CHAINF", "CHAINFS", "CHAINIO", "SIG", "POOL", "POOLF") and o.startswith("ok ") or c.startswith("LIFE") and (o.startswith("bs=") or o == "config-exception")]
    if with_model and cp and model_broken is None:
        try:
            model = vlib.ocaml_model("C17")
            mo = vlib.run_lines(model, [c for c, _ in cp])
            for (c, o), m in zip(cp, mo):
                if c.startswith("SIG") or c.startswith("LIFE"):
                    if o.strip() != m.strip():
                        mismatches.append((c, c, o, m))
                    continue
                di = dict(x.split("=", 1) for x in o.split()[1:] if "=" in x)
                dm = dict(x.split("=", 1) for x in m.split()[1:] if "=" in x) if m.startswith("ok") else {}
                if c.startswith("POOLF"):
                    if " ".join(o.split()[:2]) != " ".join(m.split()[:2]) or (o.startswith("ok finished") and o.split()[2] != m.split()[2]):
                        mismatches.append((c, c, o, m))
                    continue
                if c.startswith("SIG") or c.startswith("LIFE"):
                    if o.strip() != m.strip():
                        mismatches.append((c, c, o, m))
                    continue
                keys = ("count", "hash", "head", "src", "caps") if c.startswith("CHAIN") else ("handled", "dup", "miss", "stray")
                if not m.startswith("ok") or any(di.get(k) != dm.get(k) for k in keys):
                    mismatches.append((c, c, o, m))
        except vlib.ModelBroken as e:
            model_broken = str(e)
    stats = {"kinds": kinds, "dfs_schedules": dfs_runs, "replayed_in_model": len(runs), "chain_pool_model_runs": len(cp), "nontrivial": nontriv, "iout": iout}
    return spec_fail, mismatches, model_broken, stats


def corpus_cases():
    p = os.path.join(vlib.ROOT, "corpus", "C17", "cases.txt")
    return [l.rstrip("\n") for l in open(p) if l.strip() and not l.startswith("#")] if os.path.exists(p) else []


def run(ctx):
    gen_files = regenerate()
    pres = vlib.coq_prove("C17")
    ctx.set_proof(pres)
    exe = vlib.compile_driver("c17_driver", DRIVER, libs=("kenlm_util",))
    cases = corpus_cases()
    ctx.count("corpus_cases", len(cases))
    cases += gen_cases(ctx)
    spec_fail, mismatches, model_broken, stats = check(ctx, exe, cases)
    ctx.count("evaluations", len(cases) + stats["dfs_schedules"])
    ctx.coverage["distinct_nontrivial"] = len(stats["nontrivial"])
    ctx.coverage["rule"] = ("evaluations = case lines + schedules enumerated by the preemption-bounded DFS (each checked by the specification oracle "
                            "inside the driver).  Non-trivial (counted only among the schedules replayed in the model): a serialised PCQueue run "
                            "with >= 2 context switches in which the enabled set changed size (some thread was blocked at some step); distinct = "
                            "distinct (configuration, schedule).")
    ctx.coverage["case_kinds"] = stats["kinds"]
    ctx.coverage["schedules_enumerated_exhaustively"] = stats["dfs_schedules"]
    ctx.coverage["schedules_replayed_in_extracted_model"] = stats["replayed_in_model"]
    ctx.coverage["chain_and_pool_cases_compared_with_extracted_model"] = stats["chain_pool_model_runs"]
    ctx.coverage["translated_functions"] = ["PCQueue::Produce(const T&)", "PCQueue::Consume(T&)", "PCQueue::PCQueue(size_t)"]
    ctx.coverage["generated_files"] = gen_files
    ctx.coverage["input_distribution"] = ("P,C in 1..4, capacity 1..4, 0..5 items per producer (0..40 free-running); schedules: exhaustive DFS with preemption "
                                          "bound %d on 7 (quick) / 12 (thorough) small configurations, uniform random walk, PCT with 0..4 priority change points, "
                                          "explicit random tid lists incl. unbalanced plans; chains 1..5 blocks x 1..15 entries x 0..4 stages (Link-based and Stream-based sources/stages/sinks, value ranges dropped so that 0..6 whole adjacent blocks become empty); pools 1..5 workers") % ctx.pick(2, 3)
    for c, o in list(zip(cases, stats["iout"]))[:2] + [(c, o) for c, o in zip(cases, stats["iout"]) if c.startswith("CHAIN")][:1]:
        ctx.sample({"case": c[:300], "impl": o[:300]})
    ctx.assumptions += ["boost::interprocess_semaphore / boost::mutex implement counting-semaphore / mutex semantics (modelled, not verified)",
                        "sequential consistency; pre-emption only at the hooked scheduling points (one before each semaphore / mutex / slot / cursor operation)",
                        "T::operator= does not throw (the catch(...) paths of Produce/Consume are outside the model)",
                        "translator/pcqueue_ops.py and clang 14's JSON AST are trusted; the regenerated program is additionally exercised by the correspondence",
                        "chains and the thread pool: theorems over the atomic bounded-FIFO specification (C17_pcqueue_refines_atomic links it to PCQueue step-wise); the real Chain / ThreadPool run under seeded jitter and are compared with the extracted models' results (schedule-independent by C17_chain / C17_thread_pool)"]
    for sig, c, o, m in spec_fail[:6]:
        ctx.report(sig, m, {"case": c, "impl_output": o, "how": "echo '<case>' | c17_driver (harness/drivers/c17_driver.cc)"})
    if not spec_fail:
        if mismatches:
            c, mc, a, b = mismatches[0]
            ctx.report("correspondence:" + ("pcqueue" if c.startswith("PCQ") else "chain" if c.startswith("CHAIN") else "thread-pool"), "extracted model and implementation disagree (PCQueue: enabled sets / returned values under the same schedule; chain / pool: delivered result) "
                       "(the specification oracle accepts the implementation's run)",
                       {"correspondence": "C17 extracted model vs c17_driver", "case": c, "model_case": mc, "impl": a[:1500], "model": b[:1500],
                        "n_mismatches": len(mismatches)}, found=False)
        elif model_broken:
            ctx.report("model-broken", "executable model no longer builds", {"log": model_broken[-2000:]}, found=False)

        def search():
            # wider search with the specification oracle only (the proofs are broken: e.g. the operation sequence changed)
            wide = []
            rng = ctx.rng.fork()
            for k, ns, counts in [(1, [1, 1], [1, 1]), (1, [2], [1, 1]), (2, [2, 1], [1, 2]), (2, [2, 2], [2, 2]), (1, [2, 2], [2, 2]), (2, [3], [1, 2])]:
                wide.append(pcq_case(k, item_lists(len(ns), ns), counts, "dfs:3:30000:0:%d" % rng.below(1 << 30)))
            for _ in range(400):
                k, items, counts = gen_config(rng, 4, 4, 3, 6)
                wide.append(pcq_case(k, items, counts, "pct:%d:%d" % (rng.below(1 << 30), rng.range(1, 5))))
            for _ in range(10):
                k, items, counts = gen_config(rng, 4, 4, 2, 60)
                wide.append(pcq_case(k, items, counts, "free:%d:100" % (rng.below(1 << 30) + 1)))
            sf, _, _, _ = check(ctx, exe, wide, with_model=False)
            for sig, c, o, m in sf[:3]:
                ctx.report(sig, m, {"case": c, "impl_output": o, "found_by": "search after broken proof", "broken_theorems": pres["failed"]})
            return bool(sf)
        ctx.report_proof(pres, search=search)
    ctx.coverage["spec_oracle_failures"] = len(spec_fail)
    ctx.coverage["correspondence_mismatches"] = len(mismatches)


def replay(ctx, obj):
    exe = vlib.compile_driver("c17_driver", DRIVER, libs=("kenlm_util",))
    r = obj["replay"]
    if "case" not in r:
        print("no concrete case in this replay file:", obj.get("what"))
        return 1
    sf, mm, mb, stats = check(ctx, exe, [r["case"]])
    print("case:", r["case"], "\nimpl:", stats["iout"][0][:2000])
    for sig, c, o, m in sf:
        print("oracle:", sig, m)
    for c, mc, a, b in mm:
        print("model differs:\n impl :", a[:1000], "\n model:", b[:1000])
    return 1 if (sf or mm) else 0
