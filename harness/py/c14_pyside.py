"""Runs inside a fresh interpreter with the freshly built kenlm extension first on sys.path.
   argv: <model path>[+lm] ...   (every model is loaded into this one process; +lm = also through every Config.load_method)
   stdin: `<model index> <sentence hex or ->` per line; stdout: one JSON object per line with the raw observations."""
import json
import struct
import sys

import kenlm


def bits(x):
    return "%x" % struct.unpack("<I", struct.pack("<f", x))[0]


def f32(x):
    return struct.unpack("<f", struct.pack("<f", x))[0]


WS = b"\t\n\x0b\x0c\r "


def ref_split(s):
    out, cur = [], bytearray()
    for c in s:
        if c in WS:
            if cur:
                out.append(bytes(cur)); cur = bytearray()
        else:
            cur.append(c)
    if cur:
        out.append(bytes(cur))
    return out


def load(spec):
    """spec = <path> or <path>+lm (also load it through every Config.load_method)"""
    path, _, opt = spec.partition("+")
    m = kenlm.Model(path)
    others = []
    if opt == "lm":
        # PARALLEL_READ is refused by util::MapRead by design ("Parallel read was removed from this repo"): it must raise
        try:
            cfg = kenlm.Config()
            cfg.load_method = kenlm.LoadMethod.PARALLEL_READ
            kenlm.Model(path, cfg)
            parallel = "loaded"
        except (IOError, RuntimeError) as e:
            parallel = "raised"
        for name in ("LAZY", "POPULATE_OR_LAZY", "POPULATE_OR_READ", "READ"):
            cfg = kenlm.Config()
            cfg.load_method = getattr(kenlm.LoadMethod, name)
            cfg.show_progress = False
            others.append((name, kenlm.Model(path, cfg)))
    return m, others


def observe(m, others, s):
    obs = {"combos": []}
    try:
        words = [w.decode("utf-8") for w in ref_split(s)]
        if any(w.encode("utf-8") != b for w, b in zip(words, ref_split(s))):
            words = None
    except UnicodeDecodeError:
        words = None
    for bos, eos in ((True, True), (True, False), (False, True), (False, False)):
        c = {"score": bits(m.score(s, bos=bos, eos=eos))}
        c["fs"] = [[bits(p), n, 1 if oov else 0] for p, n, oov in m.full_scores(s, bos=bos, eos=eos)]
        if words is not None:
            st, out = kenlm.State(), kenlm.State()
            (m.BeginSentenceWrite if bos else m.NullContextWrite)(st)
            total = 0.0
            bfs = []
            for w in words:
                r = m.BaseFullScore(st, w, out)
                x = m.BaseScore(st, w, out)
                bfs.append([bits(r.log_prob), r.ngram_length, 1 if r.oov else 0, bits(x)])
                total = f32(total + x)
                st, out = out, st
            if eos:
                x = m.BaseScore(st, "</s>", out)
                total = f32(total + x)
            c["st"] = bits(total)
            c["bfs"] = bfs
        if others:
            c["lm"] = {name: bits(o.score(s, bos=bos, eos=eos)) for name, o in others}
        obs["combos"].append(c)
    obs["ppl"] = m.perplexity(s).hex()
    obs["contains"] = [1 if (w in m) else 0 for w in ref_split(s)]
    # the same sentence handed over as str (the module encodes it as UTF-8): every entry point again
    try:
        text = s.decode("utf-8")
        if text.encode("utf-8") != s:
            text = None
    except UnicodeDecodeError:
        text = None
    if text is not None:
        st = {"combos": []}
        for bos, eos in ((True, True), (True, False), (False, True), (False, False)):
            st["combos"].append({"score": bits(m.score(text, bos=bos, eos=eos)),
                                 "fs": [[bits(p), n, 1 if oov else 0] for p, n, oov in m.full_scores(text, bos=bos, eos=eos)]})
        st["ppl"] = m.perplexity(text).hex()
        st["contains"] = [1 if (w.decode("utf-8") in m) else 0 for w in ref_split(s)]
        obs["str"] = st
    return obs


def main():
    """argv: model specs, all loaded into THIS interpreter in the given order; stdin: `<model index> <sentence hex|->` per line,
    in whatever order the harness interleaves the models; stdout: one JSON object per line"""
    models = [load(spec) for spec in sys.argv[1:]]
    print(json.dumps({"ready": True, "orders": [m.order for m, _ in models]}))
    sys.stdout.flush()
    for line in sys.stdin:
        k, h = line.split()
        s = b"" if h == "-" else bytes.fromhex(h)
        m, others = models[int(k)]
        print(json.dumps(observe(m, others, s)))
        sys.stdout.flush()


main()
