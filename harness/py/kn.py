"""Shared machinery of the C05 / C06 checks (lmplz): corpus generators, tokeniser, lmplz runner, ARPA and
intermediate-file parsers, the runner of the extracted Coq model, an independent Python Kneser-Ney oracle over
exact fractions (written from the property text, used as the *specification oracle* of C05), and the
well-formedness / normalisation oracle of C06 applied to the real output."""
import math
import os
import re
import struct
from fractions import Fraction

import vlib

SPECIALS = [b"<unk>", b"<s>", b"</s>"]
F32 = lambda x: struct.unpack("f", struct.pack("f", x))[0]


# ---------------------------------------------------------------------------------------------
# cases
class Case:
    """one lmplz run: corpus bytes + options"""

    def __init__(self, data, order, prune=None, limit=None, interp=True, fallback=None, skip=False, renumber=False,
                 intermediate=False, tag="", mem=None, stale=None, io=None, stdin=False):
        self.data, self.order, self.prune, self.limit = data, order, prune, limit
        self.interp, self.fallback, self.skip, self.renumber, self.intermediate, self.tag = interp, fallback, skip, renumber, intermediate, tag
        # mem: memory / block configuration arguments (None = -S 20M --vocab_estimate 1000: everything in one block, no merging)
        # stale: None, or the number of junk bytes every output file holds BEFORE the run (output into pre-existing files)
        self.mem, self.stale = mem, stale
        # io: None, or [seed, permille, pipe]: every read/write/pread/pwrite of the lmplz process transfers, with that
        # probability, fewer bytes than requested (down to 1) or is interrupted (EINTR) -- what a pipe, a socket or a stopped
        # and continued process legitimately does; pipe = the ARPA goes to standard output (a pipe) instead of a file
        self.io = io
        # stdin: the corpus is not given with --text but arrives on standard input (a pipe; lmplz's default): the reader's
        # windows are then the individual read() results, which the io storm makes end anywhere
        self.stdin = stdin

    def to_json(self):
        return {"corpus_hex": self.data.hex(), "order": self.order, "prune": self.prune,
                "limit": None if self.limit is None else [w.hex() for w in self.limit], "interp": self.interp,
                "fallback": self.fallback, "skip": self.skip, "renumber": self.renumber, "intermediate": self.intermediate,
                "mem": self.mem, "stale": self.stale, "io": self.io, "stdin": self.stdin, "tag": self.tag, "corpus_preview": self.data[:300].decode("utf-8", "replace")}

    @staticmethod
    def from_json(o):
        return Case(bytes.fromhex(o["corpus_hex"]), o["order"], o.get("prune"),
                    None if o.get("limit") is None else [bytes.fromhex(w) for w in o["limit"]], o.get("interp", True),
                    o.get("fallback"), o.get("skip", False), o.get("renumber", False), o.get("intermediate", False), o.get("tag", ""),
                    o.get("mem"), o.get("stale"), o.get("io"), o.get("stdin", False))

    def argv(self, text, arpa, scratch, limit_file=None, inter_base=None):
        a = ["-o", str(self.order)] + (list(self.mem) if self.mem else ["-S", "20M", "--vocab_estimate", "1000"]) + \
            ["-T", scratch.rstrip("/") + "/"] + ([] if self.stdin else ["--text", text]) + ["--arpa", arpa]
        if self.prune is not None:
            a += ["--prune"] + [str(x) for x in self.prune]
        if self.limit is not None:
            a += ["--limit_vocab_file", limit_file]
        if not self.interp:
            a += ["--interpolate_unigrams", "0"]
        if self.fallback is not None:
            a += ["--discount_fallback"] + [str(x) for x in self.fallback]
        if self.skip:
            a += ["--skip_symbols"]
        if self.renumber:
            a += ["--renumber"]
        if self.intermediate:
            a += ["--intermediate", inter_base]
        return a


def tokenize(data):
    """corpus_count.cc: lines end with \\n; tokens are separated by NUL, TAB, CR, space"""
    assert data.endswith(b"\n") or data == b""
    lines = data.split(b"\n")[:-1] if data else []
    return [[t for t in re.split(b"[\0\t\r ]+", l) if t] for l in lines]


def number(sents, skip):
    """GrowableVocab ids (first occurrence).  Returns (id sentences, vocab list) or None when a special token
    occurs without --skip_symbols (documented refusal)."""
    vocab = {b"<unk>": 0, b"<s>": 1, b"</s>": 2}
    out = []
    for s in sents:
        ids = []
        for t in s:
            if t in SPECIALS:
                if not skip:
                    return None
                ids.append(vocab[t])      # the model drops them (clean)
                continue
            if t not in vocab:
                vocab[t] = len(vocab)
            ids.append(vocab[t])
        out.append(ids)
    words = [None] * len(vocab)
    for w, i in vocab.items():
        words[i] = w
    return out, words


# ---------------------------------------------------------------------------------------------
# --renumber / --intermediate: ids are reassigned in the order of the 64-bit MurmurHash64A of the word (<unk> stays 0)
_M64 = (1 << 64) - 1


def murmur64a(data, seed=0):
    m, r = 0xc6a4a7935bd1e995, 47
    h = (seed ^ (len(data) * m)) & _M64
    n = len(data) // 8
    for i in range(n):
        k = int.from_bytes(data[8 * i:8 * i + 8], "little")
        k = (k * m) & _M64
        k ^= k >> r
        k = (k * m) & _M64
        h ^= k
        h = (h * m) & _M64
    tail = data[8 * n:]
    if tail:
        h ^= int.from_bytes(tail, "little")
        h = (h * m) & _M64
    h ^= h >> r
    h = (h * m) & _M64
    h ^= h >> r
    return h


def renumbering(words):
    """old id -> new id as SortedVocabulary::ComputeRenumbering assigns them"""
    order = sorted(range(1, len(words)), key=lambda i: murmur64a(words[i]))
    ren = [0] * len(words)
    for new, old in enumerate(order, 1):
        ren[old] = new
    return ren


_POS_POOL = None


def position_pool():
    """word tokens classified by where renumbering puts them relative to the specials: before <s>, between <s> and </s>,
    after </s> (with first-occurrence ids every word comes after both; with hash order about 1 word in 500 precedes <s>)"""
    global _POS_POOL
    if _POS_POOL is None:
        hb, he = murmur64a(b"<s>"), murmur64a(b"</s>")
        lo, hi = min(hb, he), max(hb, he)
        pool = {"before": [], "between": [], "after": []}
        for i in range(30000):
            w = b"v%d" % i
            h = murmur64a(w)
            pool["before" if h < lo else "between" if h < hi else "after"].append(w)
        _POS_POOL = pool
    return _POS_POOL


# ---------------------------------------------------------------------------------------------
# generators
def zipf_pick(rng, n, skew):
    # P(i) ~ 1/(i+1)^skew via inverse transform on a small table
    r = rng.below(1 << 20) / float(1 << 20)
    if skew == 0:
        return rng.below(n)
    tot = sum(1.0 / (i + 1) ** skew for i in range(n))
    acc = 0.0
    for i in range(n):
        acc += 1.0 / (i + 1) ** skew / tot
        if r < acc:
            return i
    return n - 1


WEIRD_TOKENS = [b"a\x0bb", b"d\x0cd", b"\xc2\x85", b"\xc2\xa0x", b"\xc3\xa9t\xc3\xa9", b"a.b", b"-", b"--", b"0", b"1e5", b"\\data\\", b"ngram", b"\\1-grams:", b"<S>", b"</S>", b"<unk", b"s>",
                b"\xff\xfe", b"x" * 40, b"#", b"=", b"\\end\\"]


def make_vocab(rng, types):
    v = []
    placed = rng.chance(1, 3)        # some word types chosen by their position after renumbering
    pool = position_pool() if placed else None
    for i in range(types):
        if placed and rng.chance(1, 3):
            t = rng.choice(pool[rng.choice(["before", "before", "between", "after"])] or pool["after"])
            if t not in v:
                v.append(t)
                continue
        if rng.chance(1, 12):
            t = rng.choice(WEIRD_TOKENS) + (b"%d" % i if rng.chance(1, 2) else b"")
        else:
            t = b"w%d" % i
        if t in v or t in SPECIALS:
            t = b"w%d" % i
        v.append(t)
    return v


def render(rng, sents, plain=False):
    """sentences (lists of token bytes) -> corpus bytes with random separators"""
    out = []
    for s in sents:
        line = b""
        if not plain and rng.chance(1, 10):
            line += rng.choice([b" ", b"\t", b"  ", b"\r"])
        for j, t in enumerate(s):
            if j:
                line += b" " if plain or rng.chance(5, 6) else rng.choice([b"\t", b"  ", b"\r", b"\0", b" \t "])
            line += t
        if not plain and rng.chance(1, 10):
            line += rng.choice([b" ", b"\t", b"\r"])
        out.append(line + b"\n")
    return b"".join(out)


def gen_corpus(rng, big=False):
    style = rng.choice(["zipf", "zipf", "zipf", "tiny", "repeat", "f1", "f1", "uniform", "long", "emptyish"])
    if style == "tiny":
        nsent, types = rng.range(1, 6), rng.range(1, 4)
    elif big and rng.chance(1, 12):
        nsent, types = rng.range(100, 400), rng.range(20, 60)
    else:
        nsent, types = rng.range(5, 60), rng.range(3, 25)
    vocab = make_vocab(rng, types)
    skew = rng.choice([0, 1, 1, 2])
    maxlen = rng.choice([3, 6, 10]) if style != "long" else 25
    sents = []
    for _ in range(nsent):
        if sents and (style == "repeat" and rng.chance(1, 2) or rng.chance(1, 15)):
            sents.append(list(rng.choice(sents)))
            continue
        if rng.chance(1, 12) or (style == "emptyish" and rng.chance(1, 2)):
            sents.append([])
            continue
        ln = rng.range(1, maxlen)
        sents.append([vocab[zipf_pick(rng, types, skew)] for _ in range(ln)])
    if rng.chance(1, 9):
        # very long word types: byte lengths around the 8192-byte buffer of the text output streams (util/file_stream.hh) and
        # several buffers long; at the first and the last position of the vocabulary (= of the unigram section), next to
        # each other, and in the middle of ordinary sentences
        lens = [8191, 8192, 8193, 8194, 16383, 16384, 16385, 20000, 3 * 8192 + 7, 8192 - 20, 4096]
        longs = []
        for i in range(rng.range(1, 3)):
            ln = rng.choice(lens)
            head = b"L%d_" % i
            longs.append(head + bytes([97 + (i + j) % 26 for j in range(ln - len(head))]))
        vocab = list(vocab) + longs
        r = rng.below(4)
        if r == 0:
            sents.insert(0, [longs[0]] + (sents[0] if sents else []))           # first word type of the corpus
        elif r == 1:
            sents.append([rng.choice(vocab), longs[0]])                          # last word type
        elif r == 2:
            sents.insert(rng.below(len(sents) + 1), [longs[0], longs[-1], longs[0]])   # long words next to each other
        for w in longs:
            for _ in range(rng.range(1, 3)):
                t = list(rng.choice(sents)) if sents and rng.chance(2, 3) else []
                t.insert(rng.below(len(t) + 1), w)
                sents.insert(rng.below(len(sents) + 1), t)
    if style == "f1":
        # directed at the class of F1: the word type with the highest id (it must be introduced last) occurs
        # 2..4 times, always after the same word, so that its adjusted count (1) differs from its raw count (< 5);
        # the same for the last bigram / trigram in suffix order (the new word always followed by the same words)
        new = b"zz%d" % rng.below(100)
        left = rng.choice(vocab)
        reps = rng.range(2, 4)
        tail = [rng.choice(vocab) for _ in range(rng.range(0, 2))]
        for _ in range(reps):
            pre = [rng.choice(vocab) for _ in range(rng.range(0, 2))]
            sents.append(pre + [left, new] + (tail if rng.chance(2, 3) else []))
    skip = False
    if rng.chance(1, 10):
        skip = True
        for _ in range(rng.range(1, 4)):
            s = rng.choice(sents)
            s.insert(rng.below(len(s) + 1), rng.choice(SPECIALS))
    return sents, vocab, skip


def gen_mem(rng, order, ntypes):
    """memory / block lattice: from "everything in one block" down to blocks of a dozen records, so that small corpora
    already make corpus_count spill several blocks, the sorter merge runs, and every later chain cross block borders"""
    r = rng.below(10)
    if r < 4:
        return None
    ve = str(rng.choice([ntypes + 3, max(4, ntypes // 2), 12, 40]))
    if r < 6:
        return ["-S", rng.choice(["64K", "250K"]), "--sort_block", rng.choice(["512b", "1024b"]), "--minimum_block", "64b",
                "--block_count", str(rng.range(1, 3)), "--vocab_estimate", ve]
    if r < 8:
        return ["-S", rng.choice(["4K", "8K"]), "--sort_block", rng.choice(["64b", "128b"]), "--minimum_block", "20b",
                "--block_count", str(rng.range(1, 2)), "--vocab_estimate", ve]
    return ["-S", rng.choice(["600b", "1K", "2K"]), "--sort_block", rng.choice(["40b", "64b"]), "--minimum_block", "20b",
            "--block_count", str(rng.range(1, 2)), "--vocab_estimate", str(rng.choice([4, 8, 12]))]


def gen_degenerate(rng):
    """corpora without a single word: only empty lines, blank lines, or lines of special tokens (under --skip_symbols);
    </s> is then the last unigram.  Thresholds around the number of lines."""
    n = rng.range(1, 5)
    kind = rng.choice(["empty", "blank", "symbols"])
    if kind == "empty":
        data, skip = b"\n" * n, rng.chance(1, 3)
    elif kind == "blank":
        data, skip = b"".join(rng.choice([b" \n", b"\t\n", b"\r \n", b"\n"]) for _ in range(n)), False
    else:
        data, skip = b"".join(b" ".join(rng.choice(SPECIALS) for _ in range(rng.range(0, 3))) + b"\n" for _ in range(n)), True
    order = rng.range(1, 4)
    t = rng.choice([n - 1, n, n, n + 1, 0])
    prune = None if rng.chance(1, 4) else [max(t, 0)] * rng.range(1, order)
    return Case(data, order, prune, None, interp=not rng.chance(1, 4), fallback=[], skip=skip, renumber=rng.chance(1, 4),
                intermediate=rng.chance(1, 6), tag="gen:degenerate", mem=gen_mem(rng, order, 0),
                stale=rng.choice([None, None, 5000]))


def gen_case(rng, big=False):
    if rng.chance(1, 25):
        return gen_degenerate(rng)
    sents, vocab, skip = gen_corpus(rng, big)
    data = render(rng, sents, plain=rng.chance(1, 3))
    order = rng.choice([1, 2, 2, 3, 3, 3, 4, 5, 6])
    if len(sents) > 150 and order > 4:
        order = rng.choice([2, 3, 4])       # keeps the exact model's run time per case below a few seconds
    prune = None
    if rng.chance(2, 5):
        ln = rng.range(1, order)
        t, prune = rng.choice([0, 0, 0, 1]), []
        for _ in range(ln):
            t += rng.choice([0, 0, 1, 1, 2])
            prune.append(t)
        if rng.chance(1, 25):
            prune[rng.below(len(prune))] += 3           # possibly decreasing: must be rejected
    limit = None
    if rng.chance(1, 5):
        limit = [w for w in vocab if rng.chance(3, 4)] + ([b"notinthecorpus"] if rng.chance(1, 2) else [])
        if rng.chance(1, 4):
            limit += [b"<s>"]
    fallback = None
    if rng.chance(4, 5):
        fallback = rng.choice([[], [], [], [0.5, 1, 1.5], [0.25], [0.5, 1], [0.75, 1.5, 2.5], [1, 2, 3], [0], [0.5, 0.5, 0.5]])
    return Case(data, order, prune, limit, interp=not rng.chance(1, 4), fallback=fallback, skip=skip,
                renumber=rng.chance(1, 5), intermediate=rng.chance(1, 8), tag="gen", mem=gen_mem(rng, order, len(vocab)),
                stale=rng.choice([None, None, None, 1, 300, 100000]),
                io=[rng.below(1 << 30), rng.choice([100, 300, 600, 900]), rng.chance(1, 2)] if rng.chance(1, 4) else None,
                stdin=rng.chance(1, 3))


# ---------------------------------------------------------------------------------------------
# corpora with PRESCRIBED counts of counts at the highest order, aimed at the case splits of the discount formula
_PROFILES = None


def discount_profiles():
    """small (n1, n2, n3, n4) classified by where the closed form D_j = j - (j+1) Y n_{j+1} / n_j falls relative to the
    accepted range [0, j]: exactly 0, just inside, just outside (negative), D3 exactly 3 (n4 = 0), n_j = 0, interior"""
    global _PROFILES
    if _PROFILES is None:
        cls = {"D2=0": [], "D3=0": [], "D2<0": [], "D3<0": [], "D2>0small": [], "D3>0small": [], "D3=3": [], "nj=0": [], "interior": []}
        R = range(0, 13)
        for n1 in R:
            for n2 in R:
                for n3 in R:
                    for n4 in R:
                        n = (n1, n2, n3, n4)
                        if n1 + n2 + n3 + n4 == 0:
                            continue
                        if 0 in (n1, n2, n3):
                            if n1 + n2 + n3 + n4 <= 8:
                                cls["nj=0"].append(n)
                            continue
                        y = Fraction(n1, n1 + 2 * n2)
                        d2 = 2 - 3 * y * Fraction(n3, n2)
                        d3 = 3 - 4 * y * Fraction(n4, n3)
                        if d2 == 0 and d3 >= 0:
                            cls["D2=0"].append(n)
                        elif d3 == 0 and d2 >= 0:
                            cls["D3=0"].append(n)
                        elif d2 < 0 and d2 > Fraction(-1, 4) and d3 >= 0:
                            cls["D2<0"].append(n)
                        elif d3 < 0 and d3 > Fraction(-1, 4) and d2 >= 0:
                            cls["D3<0"].append(n)
                        elif 0 < d2 < Fraction(1, 6) and d3 >= 0:
                            cls["D2>0small"].append(n)
                        elif 0 < d3 < Fraction(1, 6) and d2 >= 0:
                            cls["D3>0small"].append(n)
                        elif n4 == 0 and d2 >= 0:
                            cls["D3=3"].append(n)
                        elif d2 > 0 and d3 > 0 and n1 + n2 + n3 + n4 <= 14:
                            cls["interior"].append(n)
        _PROFILES = cls
    return _PROFILES


def build_profile_corpus(rng, order, prof, extra5):
    """sentences over fresh word types such that exactly prof[j-1] distinct order-`order` n-grams occur j times (j = 1..4)
    and extra5 occur 5+ times: a sentence of k fresh words, repeated m times, contributes k + 3 - order n-grams of
    count m (order 1: its k words, and </s> once per line)."""
    sents = []
    fresh = [0]

    def words(k):
        out = [b"p%d" % (fresh[0] + i) for i in range(k)]
        fresh[0] += k
        return out
    want = {j: prof[j - 1] for j in (1, 2, 3, 4)}
    want[rng.range(5, 7)] = extra5
    if order == 1:
        # one sentence holding every word the right number of times; </s> then has count 1
        line = []
        if want[1] == 0:
            return None
        want[1] -= 1
        for m, c in want.items():
            for w in words(c):
                line += [w] * m
        rng.shuffle(line)
        return [line]
    kmin = max(order - 2, 1)
    for m, c in sorted(want.items()):
        left = c
        while left > 0:
            sizes = [k + 3 - order for k in range(kmin, kmin + 3) if k + 3 - order <= left]
            if not sizes:
                if order == 2 and left == 1 and not any(not s for s in sents):
                    sents += [[] for _ in range(m)]         # the bigram <s> </s>
                    left = 0
                    continue
                return None
            sz = rng.choice(sizes)
            sents += [words(sz + order - 3)] * m
            left -= sz
    rng.shuffle(sents)
    return sents


def gen_profile_case(rng):
    prof_cls = discount_profiles()
    for _ in range(20):
        cls = rng.choice(sorted(prof_cls))
        if not prof_cls[cls]:
            continue
        prof = rng.choice(prof_cls[cls])
        order = rng.choice([1, 1, 2, 2, 3, 4])
        sents = build_profile_corpus(rng, order, prof, rng.range(0, 3))
        if sents is None:
            continue
        fallback = rng.choice([None, None, [], [0.5, 1, 1.5], [0.25, 0.5, 0.75]])
        return Case(render(rng, sents, plain=True), order, None, None, interp=not rng.chance(1, 5), fallback=fallback,
                    mem=gen_mem(rng, order, 40) if rng.chance(1, 4) else None, tag="gen:profile:%s:%s" % (cls, ",".join(map(str, prof))))
    return gen_case(rng)


# ---------------------------------------------------------------------------------------------
# wide corpora: thousands of distinct contexts at one order, so that every intermediate stream between the stages (gamma
# records, n-gram streams, sorts) is many fixed-size buffers long.  Judged by the Python oracle and the file oracle only:
# the extracted Coq model is quadratic and is not run on them.
def gen_wide_case(rng, kind=None):
    types = rng.range(500, 900)
    vocab = [b"x%d" % i for i in range(types)]
    order = rng.choice([3, 3, 4])
    sents, bigrams = [], set()
    while len(bigrams) < rng.range(6500, 9000) or len(sents) < 800:
        ln = rng.range(2, 8)
        s = [vocab[zipf_pick(rng, types, 0) if rng.chance(2, 3) else rng.below(min(types, 60))] for _ in range(ln)]
        sents.append(s)
        for a, b in zip([b"<s>"] + s, s):
            bigrams.add((a, b))
        if len(sents) > 6000:
            break
    kind = kind or rng.choice(["limit", "limit-few", "step", "limit+step", "uniform", "plain"])
    prune = limit = None
    if "limit" in kind:
        # either a quarter of the word types is excluded, or only a handful (then nearly every context is still looked up)
        if kind.startswith("limit-few") or rng.chance(1, 2):
            drop = {rng.below(types) for _ in range(rng.range(1, 5))}
            limit = [w for i, w in enumerate(vocab) if i not in drop]
        else:
            limit = [w for w in vocab if rng.chance(3, 4)]
    if "step" in kind:
        # thresholds 0 for orders 1..z, positive from order z+1 on; z = 2 puts the step where the wide stream (bigram contexts) is
        z = 2 if rng.chance(3, 4) else rng.range(1, order - 1)
        prune = [0] * z + [rng.range(1, 2)] * rng.range(1, order - z)
    elif kind == "uniform":
        prune = [0] + [1] * rng.range(1, order - 1) if rng.chance(1, 2) else [1]
    return Case(render(rng, sents, plain=True), order, prune, limit, interp=not rng.chance(1, 4), fallback=[],
                renumber=rng.chance(1, 4), mem=None if rng.chance(2, 3) else ["-S", "250K", "--sort_block", "4K", "--minimum_block", "256b",
                                                                           "--block_count", "2", "--vocab_estimate", "1000"],
                tag="gen:wide:" + kind)


# ---------------------------------------------------------------------------------------------
# running lmplz
class Run:
    pass


STAT_RE = re.compile(r"^(\d+) (\d+)(?:/(\d+))? D1=(\S+) D2=(\S+) D3\+=(\S+)$")


def build_shim():
    """harness/shim/io_shim.c (shared with C15/C09/C16), storm mode"""
    import hashlib
    src = os.path.join(vlib.ROOT, "harness", "shim", "io_shim.c")
    outdir = os.path.join(vlib.CACHE, "shim")
    os.makedirs(outdir, exist_ok=True)
    key = hashlib.sha256(open(src, "rb").read()).hexdigest()[:16]
    so = os.path.join(outdir, "io_shim-%s.so" % key)
    if not os.path.exists(so):
        tmp = so + ".%d.tmp" % os.getpid()
        vlib.sh(["gcc", "-O2", "-shared", "-fPIC", "-o", tmp, src, "-ldl"], timeout=120, check=True)
        os.replace(tmp, so)
    return so


def run_lmplz(lmplz, case, scratch, idx=0, keep=False, tmo=30):
    base = os.path.join(scratch, "k%d" % idx)
    text, arpa = base + ".txt", base + ".arpa"
    open(text, "wb").write(case.data)
    limit_file = None
    if case.limit is not None:
        limit_file = base + ".limit"
        open(limit_file, "wb").write(b"\n".join(case.limit) + b"\n")
    inter = base + ".inter" if case.intermediate else None
    if case.stale:
        # the output files exist already and are longer / shorter than what this run writes (a rebuilt model)
        junk = (b"-9.9\tstale stale\t-9.9\n" * (case.stale // 20 + 1))[:case.stale]
        targets = [arpa] + ([inter + ".kenlm_intermediate", inter + ".vocab"] + [inter + ".%d" % k for k in range(1, case.order + 1)] if inter else [])
        for t in targets:
            open(t, "wb").write(junk)
    env = None
    to_pipe = bool(case.io and case.io[2])
    cmd = ["timeout", "-s", "KILL", str(tmo), lmplz] + case.argv(text, "/dev/stdout" if to_pipe else arpa, scratch, limit_file, inter)
    if case.io:
        env = {"LD_PRELOAD": build_shim(), "IO_SHIM_STORM": "%d:%d" % (case.io[0], case.io[1])}
    if to_pipe:
        rc, outb, errb = vlib.sh(cmd, timeout=tmo + 30, env=env, binary=True, input=case.data if case.stdin else None)
        err = errb.decode("utf-8", "replace")
        out = ""
        if rc == 0:
            open(arpa, "wb").write(outb)
        elif os.path.exists(arpa):
            os.remove(arpa)
    else:
        rc, out, err = vlib.sh(cmd, timeout=tmo + 30, env=env, input=case.data if case.stdin else None)
    if rc in (126, 127) and "failed to run command" in err:
        # the binary is being relinked by a concurrent build of the repository: not an observation about lmplz
        import time
        time.sleep(3)
        rc, out, err = vlib.sh(cmd, timeout=tmo + 30, env=env)
        if rc in (126, 127) and "failed to run command" in err:
            raise vlib.InfraError("cannot execute %s: %s" % (lmplz, err.strip()[-200:]))
    r = Run()
    r.rc, r.err, r.cmd = rc, err, cmd
    r.hung = rc in (124, 137, -9)        # killed by `timeout`: lmplz did not terminate
    r.refused = None
    r.stats = []
    if rc != 0:
        for pat, kind in (("Could not calculate Kneser-Ney discounts", "discount"), ("discount out of range", "discount"),
                          ("Pruning thresholds should be in non-decreasing order", "prune-order"),
                          ("You specified pruning thresholds for orders", "prune-len"),
                          ("is not allowed in the corpus", "special-token"),
                          ("exceeds total memory", "memory"), ("Not enough memory to fit", "memory"),
                          ("is below the minimum block size", "memory")):
            if pat in err:
                r.refused = kind
        m = re.search(r"for (\d+)-grams with adjusted count|ERROR: (\d+)-gram discount out of range", err)
        r.refused_order = int(m.group(1) or m.group(2)) if m else None
    lines = err.split("\n")
    if "Statistics:" in lines:
        i = lines.index("Statistics:")
        for l in lines[i + 1:]:
            m = STAT_RE.match(l)
            if not m:
                break
            r.stats.append((int(m.group(2)), int(m.group(3) or m.group(2)), float(m.group(4)), float(m.group(5)), float(m.group(6))))
    r.arpa_path = arpa if rc == 0 and os.path.exists(arpa) else None
    r.inter_base = inter
    r.files = [text, arpa] + ([limit_file] if limit_file else [])
    return r


def cleanup(run):
    for f in run.files:
        try:
            os.remove(f)
        except OSError:
            pass
    if run.inter_base:
        import glob
        for f in glob.glob(run.inter_base + ".*"):
            try:
                os.remove(f)
            except OSError:
                pass


def parse_arpa(path):
    """-> (header counts, orders: list of list of (words tuple natural order, logp, logbo or None)), or raises ValueError"""
    data = open(path, "rb").read()
    lines = data.split(b"\n")
    if lines[0] != b"\\data\\":
        raise ValueError("no \\data\\ header")
    i = 1
    header = []
    while lines[i].startswith(b"ngram "):
        k, c = lines[i][6:].split(b"=")
        header.append(int(c))
        i += 1
    orders = []
    for k in range(1, len(header) + 1):
        while lines[i] == b"":
            i += 1
        if lines[i] != b"\\%d-grams:" % k:
            raise ValueError("expected section %d, got %r" % (k, lines[i]))
        i += 1
        ent = []
        while lines[i] != b"":
            f = lines[i].split(b"\t")
            if len(f) not in (2, 3):
                raise ValueError("bad line %r" % lines[i])
            words = tuple(f[1].split(b" "))
            if len(words) != k:
                raise ValueError("order-%d section holds %r" % (k, lines[i]))
            ent.append((words, float(f[0]), float(f[2]) if len(f) == 3 else None))
            i += 1
        orders.append(ent)
    while lines[i] == b"":
        i += 1
    if lines[i] != b"\\end\\":
        raise ValueError("no \\end\\")
    if lines[i + 1:] != [b""]:
        raise ValueError("%d bytes follow \\end\\" % len(b"\n".join(lines[i + 1:])))
    return header, orders


def parse_intermediate(base, order, expected_vocab=None):
    """-> (counts, orders as in parse_arpa but with float32 values) from base.kenlm_intermediate / .vocab / .1...N"""
    meta = open(base + ".kenlm_intermediate", "rb").read().split(b"\n")
    if meta[0] != b"KenLM intermediate binary file":
        raise ValueError("bad metadata header")
    counts = [int(x) for x in meta[1].split()[1:]]
    if meta[2] != b"Payload pb":
        raise ValueError("payload %r" % meta[2])
    if len(meta) != 4 or meta[3] != b"":
        raise ValueError("metadata file has %d extra bytes" % len(b"\n".join(meta[3:])))
    vraw = open(base + ".vocab", "rb").read()
    if not vraw.endswith(b"\0"):
        raise ValueError("vocabulary file does not end with NUL")
    vocab = vraw.split(b"\0")[:-1]
    if counts and len(vocab) < counts[0]:
        raise ValueError("vocabulary file holds %d words, %d unigrams" % (len(vocab), counts[0]))
    if expected_vocab is not None and sorted(vocab) != sorted(expected_vocab):
        raise ValueError("vocabulary file holds %d words, the corpus has %d types (with the specials)" % (len(vocab), len(expected_vocab)))
    orders = []
    for k in range(1, order + 1):
        raw = open(base + ".%d" % k, "rb").read()
        rec = 4 * k + 8
        if len(raw) % rec:
            raise ValueError("file .%d has %d bytes, not a multiple of %d" % (k, len(raw), rec))
        ent = []
        for j in range(len(raw) // rec):
            ids = struct.unpack_from("<%dI" % k, raw, j * rec)
            p, b = struct.unpack_from("<ff", raw, j * rec + 4 * k)
            ent.append((tuple(vocab[x] for x in ids), p, b))
        orders.append(ent)
    return counts, orders


# ---------------------------------------------------------------------------------------------
# the extracted Coq model
def model_line(which, case, ids, words):
    """case line for ocaml/c05_driver.ml"""
    hx = lambda x: "%x" % x
    prune = "-" if not case.prune else ",".join(hx(x) for x in case.prune)
    if case.limit is None:
        limit = "none"
    else:
        index = {w: i for i, w in enumerate(words)}
        l = sorted({index[w] for w in case.limit if w in index})
        limit = ",".join(hx(x) for x in l) if l else "-"
    if case.fallback is None:
        fb = "-"
    else:
        vals = case.fallback or [0.5, 1, 1.5]
        vals = [vals[i] if i < len(vals) else vals[-1] for i in range(3)]
        fr = [Fraction(F32(v)) for v in vals]
        fb = ",".join("%x/%x" % (f.numerator, f.denominator) for f in fr)
    corpus = "|".join(",".join(hx(w) for w in s) for s in ids) if ids else "."
    return "KN %s %d %d %s %s %s %s" % (which, case.order, 1 if case.interp else 0, prune, limit, fb, corpus)


def parse_q(s):
    a, b = s.split("/")
    return Fraction(int(a, 16), int(b, 16))


def parse_model(out):
    """-> ('refused', k) | ('reject-pruning',) | ('built', counts, discounts, orders) with orders = list of list of
    (ids tuple NATURAL order, prob Fraction, backoff Fraction)"""
    if out.startswith("REFUSED"):
        return ("refused", int(out.split()[1]))
    if out.startswith("REJECT-PRUNING"):
        return ("reject-pruning",)
    if not out.startswith("BUILT"):
        raise ValueError("model answered %r" % out[:200])
    parts = out[6:].split(" ; ")
    counts = [int(x, 16) for x in parts[0].split(",")] if parts[0].strip() else []
    discs = [tuple(parse_q(q) for q in d.split(":")) for d in parts[1].split(",")] if parts[1].strip() else []
    orders = []
    for p in parts[2:]:
        ent = []
        for e in p.split():
            g, pr, bo = e.split("=")
            ids = tuple(int(x, 16) for x in reversed(g.split(".")))
            ent.append((ids, parse_q(pr), parse_q(bo)))
        orders.append(ent)
    return ("built", counts, discs, orders)


# ---------------------------------------------------------------------------------------------
# independent oracle: interpolated modified Kneser-Ney over Fractions, from the property text
def kn_oracle(ids, order, prune, allowed, interp, fallback, force_closed=None):
    """ids: sentences of word ids (specials already removed).  prune: padded thresholds (len = order).  allowed: set of
    ids or None.  fallback: 3 Fractions or None.
    -> ('refused', k) or ('built', counts, discounts, {k: {gram(natural tuple): (prob, backoff)}})"""
    N = order
    cnt = [dict() for _ in range(N + 2)]
    for s in ids:
        toks = [1] + list(s) + [2]
        for k in range(1, N + 2):
            for i in range(1 if k == 1 else 0, len(toks) - k + 1):
                g = tuple(toks[i:i + k])
                cnt[k][g] = cnt[k].get(g, 0) + 1
    adj = [dict() for _ in range(N + 1)]
    for k in range(1, N + 1):
        for g, c in cnt[k].items():
            if k == N or g[0] == 1:
                adj[k][g] = c
            else:
                adj[k][g] = len({h[0] for h in cnt[k + 1] if h[1:] == g})
    adj[1][(0,)] = 0
    adj[1][(1,)] = 0

    def pruned(k, g):
        if k == 1 and g[0] <= 2:
            return False
        if cnt[k].get(g, 0) <= prune[k - 1]:
            return True
        return allowed is not None and any(w > 2 and w not in allowed for w in g)
    keep = [None] + [{g for g in adj[k] if not pruned(k, g)} for k in range(1, N + 1)]
    discounts = []
    for k in range(1, N + 1):
        n = [0] * 6
        for g, a in adj[k].items():
            if a < 5:
                n[a] += 1
        d = None
        if n[1] and n[2] and n[3]:
            y = Fraction(n[1], n[1] + 2 * n[2])
            d = [j - (j + 1) * y * Fraction(n[j + 1], n[j]) for j in (1, 2, 3)]
            if force_closed is not None:
                # the range test is taken from float32 arithmetic (it disagrees with the exact test on this order's boundary)
                if not force_closed[k - 1]:
                    d = None
            elif any(d[j - 1] < 0 or d[j - 1] > j for j in (1, 2, 3)):
                d = None
        if d is None:
            if fallback is None:
                return ("refused", k)
            d = list(fallback)
        discounts.append(d)

    def D(k, a):
        return 0 if a == 0 else discounts[k - 1][min(a, 3) - 1]
    den = [None] + [dict() for _ in range(N)]
    gam_num = [None] + [dict() for _ in range(N)]
    for k in range(1, N + 1):
        for g, a in adj[k].items():
            c = g[:-1]
            den[k][c] = den[k].get(c, 0) + a
            gam_num[k][c] = gam_num[k].get(c, 0) + (D(k, a) if g in keep[k] else a)

    def gamma(k, c):
        return Fraction(gam_num[k][c]) / den[k][c]

    def u(k, g):
        return (adj[k][g] - D(k, adj[k][g])) / Fraction(den[k][g[:-1]]) if g in keep[k] else Fraction(0)
    V = len(keep[1]) - 1
    memo = {}

    def p(c, w):
        key = (c, w)
        if key in memo:
            return memo[key]
        if not c:
            if w == 1:
                r = Fraction(1)
            elif interp:
                r = u(1, (w,)) + gamma(1, ()) / V
            elif w == 0:
                r = gamma(1, ())
            else:
                r = u(1, (w,))
        else:
            k = len(c) + 1
            lower = p(c[1:], w)
            r = u(k, c + (w,)) + gamma(k, c) * lower if den[k].get(c, 0) else lower
        memo[key] = r
        return r
    out = {}
    for k in range(1, N + 1):
        out[k] = {}
        for g in keep[k]:
            bo = gamma(k + 1, g) if k < N and den[k + 1].get(g, 0) else Fraction(1)
            out[k][g] = (p(g[:-1], g[-1]), bo)
    return ("built", [len(keep[k]) for k in range(1, N + 1)], discounts, out)


def count_of_counts(ids, order):
    """n[0..5] of the adjusted counts per order (what StatCollector collects), computed like kn_oracle does"""
    N = order
    cnt = [dict() for _ in range(N + 2)]
    for s in ids:
        toks = [1] + list(s) + [2]
        for k in range(1, N + 2):
            for i in range(1 if k == 1 else 0, len(toks) - k + 1):
                g = tuple(toks[i:i + k])
                cnt[k][g] = cnt[k].get(g, 0) + 1
    out = []
    for k in range(1, N + 1):
        n = [0] * 6
        if k == 1:
            n[0] += 2
        ext = {}
        if k < N:
            for h in cnt[k + 1]:
                ext.setdefault(h[1:], set()).add(h[0])
        for g, c in cnt[k].items():
            a = c if (k == N or g[0] == 1) else len(ext.get(g, ()))
            if a < 5:
                n[a] += 1
        out.append(n)
    return out


def exact_closed_form(n):
    """Chen-Goodman closed form in exact arithmetic: the discounts if they exist and lie in [0, j], else None"""
    if not (n[1] and n[2] and n[3]):
        return None
    y = Fraction(n[1], n[1] + 2 * n[2])
    d = [j - (j + 1) * y * Fraction(n[j + 1], n[j]) for j in (1, 2, 3)]
    return None if any(d[j - 1] < 0 or d[j - 1] > j for j in (1, 2, 3)) else d


def float32_closed_form(n):
    """the same in lmplz's float32 arithmetic, operation by operation (StatCollector::CalculateDiscounts): every float32
    operation is the correctly rounded double operation on float32 operands"""
    if not (n[1] and n[2] and n[3]):
        return None
    y = F32(F32(float(n[1])) / F32(float(n[1]) + 2.0 * float(n[2])))
    d = []
    for j in (1, 2, 3):
        t = F32(F32(float(j + 1)) * y)
        t = F32(t * F32(float(n[j + 1])))
        t = F32(t / F32(float(n[j])))
        v = F32(F32(float(j)) - t)
        if v < 0.0 or v > j:
            return None
        d.append(v)
    return d


def rounding_borderline(ids, order):
    """some order's closed form is accepted in exact arithmetic and rejected in float32 arithmetic or vice versa: only then
    may lmplz legitimately differ from the exact estimate in its choice between closed form and fallback"""
    return any((exact_closed_form(n) is None) != (float32_closed_form(n) is None) for n in count_of_counts(ids, order))


def pad_prune(prune, order):
    """ParsePruning; None = rejected"""
    if not prune:
        return [0] * order
    if len(prune) > order or any(prune[i] > prune[i + 1] for i in range(len(prune) - 1)):
        return None
    return list(prune) + [prune[-1]] * (order - len(prune))


def suffix_sorted(grams):
    return sorted(grams, key=lambda g: tuple(reversed(g)))


# ---------------------------------------------------------------------------------------------
# comparisons
def close(impl_log, exact, rel=2e-5, floor=3e-7):
    """10^impl_log against an exact Fraction"""
    v = 10.0 ** impl_log
    e = float(exact)
    return abs(v - e) <= rel * abs(e) + floor


def compare_with_exact(run_orders, words, exact_orders, check_order=True, what="model", ren=None):
    """run_orders: parse_arpa orders (word tuples); exact_orders: list per order of [(ids, prob, bo)] in expected file order.
    Returns None or a description of the first difference."""
    index = {w: i for i, w in enumerate(words)}
    if len(run_orders) != len(exact_orders):
        return "number of orders: file %d, %s %d" % (len(run_orders), what, len(exact_orders))
    for k, (ro, eo) in enumerate(zip(run_orders, exact_orders), 1):
        try:
            rids = [tuple(index[w] for w in g) for g, _, _ in ro]
        except KeyError as e:
            return "order %d: the file contains a word that is not in the corpus: %r" % (k, e.args[0])
        if ren is not None:
            # renumbered vocabulary: the file is in suffix order of the NEW ids
            eo = sorted(eo, key=lambda t: tuple(ren[w] for w in reversed(t[0])))
        eids = [g for g, _, _ in eo]
        if check_order:
            if rids != eids:
                if sorted(rids) == sorted(eids):
                    j = next(i for i in range(len(rids)) if rids[i] != eids[i])
                    return "order %d: same n-gram set, different line order at line %d (file %s, %s %s)" % (k, j, rids[j], what, eids[j])
                miss = sorted(set(eids) - set(rids))[:3]
                extra = sorted(set(rids) - set(eids))[:3]
                return "order %d: n-gram sets differ: missing from the file %s, unexpected in the file %s" % (
                    k, [[words[i] for i in g] for g in miss], [[words[i] for i in g] for g in extra])
        elif sorted(rids) != sorted(eids):
            miss = sorted(set(eids) - set(rids))[:3]
            extra = sorted(set(rids) - set(eids))[:3]
            return "order %d: n-gram sets differ: missing from the file %s, unexpected in the file %s" % (
                k, [[words[i] for i in g] for g in miss], [[words[i] for i in g] for g in extra])
        ed = {g: (p, b) for g, p, b in eo}
        for g, (gw, lp, lb) in zip(rids, ro):
            p, b = ed[g]
            if not close(lp, p):
                return "order %d, n-gram %s: probability 10^%r = %.8g, exact estimate %.8g" % (k, b" ".join(gw), lp, 10.0 ** lp, float(p))
            if lb is not None and not close(lb, b):
                return "order %d, n-gram %s: back-off 10^%r = %.8g, exact estimate %.8g" % (k, b" ".join(gw), lb, 10.0 ** lb, float(b))
    return None


def compare_discounts(stats, discs):
    """Statistics: lines (printed with 6 significant digits) against exact discounts"""
    if len(stats) != len(discs):
        return "Statistics: %d orders printed, %d expected" % (len(stats), len(discs))
    for k, (s, d) in enumerate(zip(stats, discs), 1):
        for j in range(3):
            e = float(d[j])
            if abs(s[2 + j] - e) > 2e-5 * max(abs(e), 1e-3) + 1e-6:
                return "order %d: printed D%d=%g, exact %.8g" % (k, j + 1, s[2 + j], e)
    return None


# ---------------------------------------------------------------------------------------------
# C06 oracle on a real ARPA (float64)
def arpa_tables(orders):
    return [{g: (p, b) for g, p, b in o} for o in orders]


def bo_logscore(tabs, ctx, w):
    """ARPA back-off recursion in log10; ctx natural order"""
    N = len(tabs)
    ctx = tuple(ctx)[-(N - 1):] if N > 1 else ()
    bo = 0.0
    while True:
        g = ctx + (w,)
        t = tabs[len(g) - 1]
        if g in t:
            return bo + t[g][0]
        if not ctx:
            return bo + tabs[0][(b"<unk>",)][0]
        e = tabs[len(ctx) - 1].get(ctx)
        if e is not None and e[1] is not None:
            bo += e[1]
        ctx = ctx[1:]


def wellformed(header, orders):
    """header counts, closure, log p <= 0, specials.  -> list of (signature, message)"""
    bad = []
    for k, (h, o) in enumerate(zip(header, orders), 1):
        if h != len(o):
            bad.append(("header-count", "header says ngram %d=%d, the section holds %d entries" % (k, h, len(o))))
            break
    tabs = arpa_tables(orders)
    for k, o in enumerate(orders, 1):
        if len(tabs[k - 1]) != len(o):
            bad.append(("duplicate", "order %d contains a duplicate n-gram" % k))
        for g, p, b in o:
            if not (p <= 0.0) or math.isnan(p):
                bad.append(("positive-logprob", "log probability %r of %s" % (p, b" ".join(g))))
                break
            if b is not None and (math.isnan(b) or b == float('inf')):
                bad.append(("bad-backoff", "back-off %r of %s" % (b, b" ".join(g))))
                break
            if k > 1 and (g[:-1] not in tabs[k - 2] or g[1:] not in tabs[k - 2]):
                bad.append(("closure", "%s is present but its %s is not" % (b" ".join(g), "context" if g[:-1] not in tabs[k - 2] else "suffix")))
                break
    for s in SPECIALS:
        if not orders or (s,) not in tabs[0]:
            bad.append(("specials", "%s is not a unigram" % s))
    return bad


def sum_check(orders, rng, budget, exhaustive_limit=8, tol=1e-4):
    """sum over the vocabulary (minus <s>) of the back-off recursion for contexts up to length N-1.
    Exhaustive when the vocabulary has <= exhaustive_limit words, sampled otherwise (contexts from the model,
    mutated contexts, random contexts).  -> (number of contexts, exhaustive?, first failure or None)"""
    tabs = arpa_tables(orders)
    N = len(orders)
    V = [g[0] for g in tabs[0]]
    Vs = [w for w in V if w != b"<s>"]
    ctxs = []
    exhaustive = False
    if len(V) <= exhaustive_limit and len(V) ** max(N - 1, 0) <= budget:
        exhaustive = True
        import itertools
        for L in range(0, N):
            ctxs += list(itertools.product(V, repeat=L))
    else:
        ctxs.append(())
        pool = []
        for k in range(1, N):
            pool += [g for g in tabs[k - 1]]
        for _ in range(budget):
            r = rng.below(10)
            if pool and r < 5:
                c = rng.choice(pool)
            elif pool and r < 8:
                c = list(rng.choice(pool))
                c[rng.below(len(c))] = rng.choice(V)
                c = tuple(c)
            else:
                c = tuple(rng.choice(V) for _ in range(rng.range(0, max(N - 1, 0))))
            ctxs.append(c)
    for c in ctxs:
        s = math.fsum(10.0 ** bo_logscore(tabs, c, w) for w in Vs)
        if not abs(s - 1.0) <= tol:
            return len(ctxs), exhaustive, (c, s)
    return len(ctxs), exhaustive, None
