"""C10 generators: small valid ARPA models and structured / byte-level mutants of ARPA text and of binary files.
All randomness comes from the vlib.Rng passed in.  A mutant is (bytes, [mutation names])."""
import re
import struct

MAX_COUNT = 2000000          # counts are capped so that the requested allocation stays far below 64 MB


# ---------------------------------------------------------------------------------------------
# valid base models
def dy(rng, lo=1, hi=400):
    """a negative dyadic log-probability with a short decimal expansion (exact in float32)"""
    return "-%s" % ("%.6f" % (rng.range(lo, hi) / 64.0)).rstrip("0").rstrip(".")


def gen_model(rng, order=None, nwords=None, unk=True, sloppy=False):
    """a random valid model as a structure: {'order', 'grams': {n: [(prob, [words], backoff|None)]}}.
    Closed under context and suffix unless sloppy (SRI-style pruning: then some structures legitimately reject it)."""
    order = order or rng.range(2, 4)
    nwords = nwords or rng.range(2, 6)
    pool = ["a", "b", "c", "dd", "eé", "f.f", "g", "h"]
    body = pool[:nwords]
    vocab = (["<unk>"] if unk else []) + ["<s>", "</s>"] + body
    grams = {1: []}
    for w in vocab:
        bo = None if w == "</s>" else dy(rng, 0, 100)
        grams[1].append(("-99" if w == "<s>" else dy(rng), [w], bo))
    prev = [[w] for w in vocab if w != "</s>"]
    for n in range(2, order + 1):
        cur = []
        for ctx in prev:
            for w in body + ["</s>"]:
                if w == "<s>":
                    continue
                g = ctx + [w]
                # suffix must exist (closed model) unless sloppy
                if n > 2 and not sloppy and g[1:] not in [x[1] for x in grams[n - 1]]:
                    continue
                if rng.chance(2, 5 if n == 2 else 4):
                    cur.append(g)
        if not cur:
            # keep the announced order honest: at least one n-gram
            ctx = prev[0] if prev else None
            if ctx is None:
                order = n - 1
                break
            cur = [ctx + ["</s>"]]
            if n > 2 and not sloppy and cur[0][1:] not in [x[1] for x in grams[n - 1]]:
                grams[n - 1].append((dy(rng), cur[0][1:], dy(rng, 0, 100)))
        if n < order and cur and all(g[-1] == "</s>" for g in cur) and prev:
            # keep the chain alive: one n-gram that can serve as a context (a missing suffix only costs a blank)
            cur.append(prev[0] + [body[0]])
        grams[n] = [(dy(rng), g, (dy(rng, 0, 100) if n < order else None)) for g in cur]
        prev = [g for g in cur if g[-1] != "</s>"]
        if not prev and n < order:
            order = n
            grams[n] = [(p, g, None) for p, g, _ in grams[n]]
            break
    # fix: highest order carries no backoff
    grams[order] = [(p, g, None) for p, g, _ in grams[order]]
    for n in list(grams):
        if n > order:
            del grams[n]
    if sloppy and order >= 3 and rng.chance(1, 2):
        # drop a lower-order n-gram that something extends (SRI pruning)
        n = rng.range(2, order - 1)
        if len(grams[n]) > 1:
            del grams[n][rng.below(len(grams[n]))]
    return {"order": order, "grams": grams}


def gen_big_model(rng, nwords=700, nbigrams=2500):
    """a valid order-3 model large enough for its binary files to span several pages (truncation by whole pages)"""
    body = ["w%d" % i for i in range(nwords)]
    vocab = ["<unk>", "<s>", "</s>"] + body
    grams = {1: [("-99" if w == "<s>" else dy(rng), [w], None if w == "</s>" else dy(rng, 0, 100)) for w in vocab]}
    bi = set()
    while len(bi) < nbigrams:
        bi.add((rng.choice(["<s>"] + body), rng.choice(body + ["</s>"])))
    bi = sorted(bi)
    grams[2] = [(dy(rng), list(g), dy(rng, 0, 100)) for g in bi]
    starts = {}
    for a, b in bi:
        starts.setdefault(a, []).append(b)
    tri = set()
    for a, b in bi:
        for c in starts.get(b, [])[:2]:
            if rng.chance(1, 3):
                tri.add((a, b, c))
    if not tri:
        a, b = bi[0]
        tri.add((a, b, "</s>"))
        grams[2].append((dy(rng), [b, "</s>"], dy(rng, 0, 100))) if (b, "</s>") not in bi else None
    grams[3] = [(dy(rng), list(g), None) for g in sorted(tri)]
    return {"order": 3, "grams": grams}


def gen_filler_model(rng, n):
    """a valid order-3 chain model with n filler words: its binary image grows smoothly with n, so n can be chosen to make
    the image end just after a page boundary"""
    body = ["f%03d" % i for i in range(n)]
    vocab = ["<unk>", "<s>", "</s>"] + body
    grams = {1: [("-99" if w == "<s>" else dy(rng), [w], None if w == "</s>" else dy(rng, 0, 100)) for w in vocab]}
    chain = ["<s>"] + body + ["</s>"]
    grams[2] = [(dy(rng), chain[i:i + 2], dy(rng, 0, 100)) for i in range(len(chain) - 1)]
    grams[3] = [(dy(rng), chain[i:i + 3], None) for i in range(len(chain) - 2)]
    return {"order": 3, "grams": grams}


def arpa_sections(data):
    """{n: [[word bytes]]} of a well-formed ARPA text"""
    out, n = {}, 0
    for l in data.split(b"\n"):
        l = l.rstrip(b"\r")
        m = re.match(rb"\\(\d+)-grams:$", l)
        if m:
            n = int(m.group(1)); out[n] = []
        elif l == b"\\end\\":
            n = 0
        elif n and l.strip():
            f = l.split(b"\t")
            if len(f) >= 2:
                out[n].append(f[1].split(b" "))
    return out


def vocab_strings_len(data):
    """bytes of the vocabulary strings a binary built from this ARPA text carries after its image: <unk> first, NUL-terminated"""
    return 6 + sum(len(w[0]) + 1 for w in arpa_sections(data).get(1, []) if w[0] not in (b"<unk>", b"<UNK>"))


def image_cuts(rng, total_map, hdr, n):
    """file lengths for truncations of the memory image [0, total_map): short by 1 .. about the header size, and ending
    on / just after / just before the last page boundaries"""
    cuts = {total_map - 1, total_map - hdr, total_map - hdr + 1, total_map - hdr - 1, total_map - 8}
    for _ in range(n):
        cuts.add(total_map - rng.range(1, hdr))
        cuts.add(total_map - rng.range(1, 3 * hdr))
    page = (total_map - 1) // 4096 * 4096
    for p in (page, page - 4096):
        for d in (-1, 0, 1, rng.range(2, 64)):
            cuts.add(p + d)
    cuts = sorted(c for c in cuts if hdr < c < total_map)
    rng.shuffle(cuts)
    return cuts[:n]


def container_mutants(rng, comp, n_cuts):
    """damage to a compressed *container* (the ARPA text inside is valid): the stream cut short in its header, in the middle and
    inside its trailer (interrupted copy / download), one byte changed, bytes appended, two members concatenated, the bare magic"""
    n = len(comp)
    cuts = {1, 5, 6, 7, 10, n // 3, n // 2, n - 9, n - 8, n - 4, n - 1, rng.range(11, max(12, n - 10)), rng.range(11, max(12, n - 10))}
    cuts = sorted(c for c in cuts if 0 < c < n)
    rng.shuffle(cuts)
    early = [c for c in cuts if c <= 10][:1]
    tail = [c for c in cuts if c >= n - 9][:1]
    mid = [c for c in cuts if 10 < c < n - 9]
    for c in (early + tail + mid)[:n_cuts]:
        yield comp[:c], "container:truncated:%d/%d" % (c, n)
    k = rng.range(12, max(13, n - 10))
    yield comp[:k] + bytes([comp[k] ^ (1 << rng.below(8))]) + comp[k + 1:], "container:byte-changed"
    yield comp + bytes(rng.below(256) for _ in range(rng.range(1, 40))), "container:bytes-appended"
    yield comp + comp, "container:two-members"


def render(model, shuffle_rng=None):
    out = ["\\data\\"]
    for n in sorted(model["grams"]):
        out.append("ngram %d=%d" % (n, len(model["grams"][n])))
    out.append("")
    for n in sorted(model["grams"]):
        out.append("\\%d-grams:" % n)
        gs = list(model["grams"][n])
        if shuffle_rng:
            shuffle_rng.shuffle(gs)
        for p, g, bo in gs:
            out.append(p + "\t" + " ".join(g) + ("\t" + bo if bo is not None else ""))
        out.append("")
    out.append("\\end\\")
    return ("\n".join(out) + "\n").encode("utf-8")


# ---------------------------------------------------------------------------------------------
# structure of an ARPA text: line kinds
def classify(lines):
    """kind of every line: data, count, blank, header(n), entry(n), end, other"""
    kinds = []
    n = 0
    seen_data = False
    for l in lines:
        s = l.rstrip(b"\r")
        if s == b"\\data\\":
            kinds.append(("data", 0)); seen_data = True
        elif re.match(rb"\\\d+-grams:$", s):
            n = int(s[1:s.index(b"-")]); kinds.append(("header", n))
        elif s == b"\\end\\":
            kinds.append(("end", 0)); n = 0
        elif not s.strip():
            kinds.append(("blank", n))
        elif s.startswith(b"ngram ") and seen_data and n == 0:
            kinds.append(("count", 0))
        elif n:
            kinds.append(("entry", n))
        else:
            kinds.append(("other", 0))
    return kinds


BAD_NUMBERS = [b"abc", b"", b"1e", b"--1", b"1.2.3", b"nan", b"NaN", b"inf", b"-inf", b"+0.5", b"0.25", b"1e999", b"-1e999", b"0x1p3",
               b"-1e-999", b"1e-60", b"-", b"+", b".", b"-.5", b"5.", b"-0", b"0", b"+0.0", b"-0.0e5", b"1,5", b"\xd9\xa1", b"-1.5x", b"-1.5e", b"-1.5e+",
               b"-1.5E2", b"-1.5 ", b" -1.5", b"-99999999999999999999999999999999999999999", b"-0.000000000000000000000000000000000000000000000001", b"infinity", b"-INF",
               b"3.4028235e38", b"3.4028236e38", b"-3.5e38", b"1e-46", b"7e-46"]
BAD_COUNTS = [b"0", b"1", b"-0", b"abc", b"", b" 5", b"5 ", b"5x", b"+3", b"0x10", b"1e3", b"18446744073709551615", b"18446744073709551616",
              b"99999999999999999999999", b"3.5", b"\xd9\xa1"]


NUMBER_TOKENS = [b"NaN", b"nan", b"-NaN", b"+NaN", b"NaNx", b"NAN", b"inf", b"-inf", b"+inf", b"Infinity", b"-Infinity", b"INF", b"-in", b"in"]


def number_token_mutants(data):
    """every special number spelling of the converter (its "NaN" and "inf" symbols, signs, case, trailing junk) in probability and
    in back-off position of a unigram, a middle-order and a highest-order entry: run on every check so that both verdicts of
    each are exercised (a literal NaN probability is *accepted* by the code, a NaN / infinite back-off is not)"""
    lines = data.split(b"\n")
    kinds = classify(lines)
    orders = sorted({n for k, n in kinds if k == "header"})
    if not orders:
        return
    picks = []
    for n in sorted({1, orders[len(orders) // 2], orders[-1]}):
        idx = [i for i, k in enumerate(kinds) if k == ("entry", n) and lines[i].count(b"\t") >= (2 if n < orders[-1] else 1)
               and not lines[i].split(b"\t")[1].startswith(b"<")]
        if idx:
            picks.append((n, idx[len(idx) // 2]))
    for n, i in picks:
        f = lines[i].split(b"\t")
        for tok in NUMBER_TOKENS:
            for pos in ("prob", "backoff"):
                g = list(f)
                if pos == "prob":
                    g[0] = tok
                elif len(g) >= 3:
                    g[2] = tok
                else:
                    g.append(tok)
                out = list(lines)
                out[i] = b"\t".join(g)
                yield b"\n".join(out), "number-token:%s:%s:order%d" % (tok.decode(), pos, n)


WINDOW = 1048576 + 4096      # FilePiece's first mapping with the default min_buffer: 1 MB rounded up plus a page


def long_line_mutants(rng, data, n_lengths):
    """lines / tokens longer than FilePiece's mapping window, in a file that is itself longer than the window (so the reader has
    to remap and grow the window): a long # comment before \\data\\ (valid), a long blank line before \\1-grams: (valid), an
    extra unigram with a very long word (valid, count adjusted), a very long junk token where the first probability should be
    (malformed).  All near the start of the file (the model's cost per later number is linear in what is left of the file)."""
    lines = data.split(b"\n")
    kinds = classify(lines)
    lengths = [WINDOW + 1, WINDOW - 1, WINDOW, 2 * WINDOW + rng.range(1, 5000), 3000000, WINDOW + rng.range(2, 100000)]
    rng.shuffle(lengths)
    h1 = next((i for i, k in enumerate(kinds) if k == ("header", 1)), None)
    for n in lengths[:n_lengths]:
        yield b"# " + b"c" * n + b"\n" + data, "long-line:comment:%d" % n
        if h1 is not None:
            out = list(lines); out.insert(h1, b" " * n)
            yield b"\n".join(out), "long-line:blank:%d" % n
            out = list(lines); out.insert(h1 + 1, b"-2.5\t" + b"W" * n + b"\t-0.25")
            adjust_count(out, classify(out), 1, 1)
            yield b"\n".join(out), "long-line:word:%d" % n
            out = list(lines); out[h1 + 1] = b"9" * n + b"x" + out[h1 + 1]
            yield b"\n".join(out), "long-line:junk-number:%d" % n


def long_word_mutants(rng, data, n):
    """valid files with an extra vocabulary word of tens to hundreds of thousands of bytes as the FIRST unigram (count adjusted):
    whatever copies vocabulary strings while loading (enumerate_vocab, write_mmap + include_vocab) meets it before anything else"""
    lines = data.split(b"\n")
    kinds = classify(lines)
    h1 = next((i for i, k in enumerate(kinds) if k == ("header", 1)), None)
    if h1 is None:
        return
    lengths = [33, 40, 64, 100, 257, 1000, 5000, 70000, 200000, rng.range(33, 48), rng.range(100, 4000)]
    rng.shuffle(lengths)
    for L in lengths[:n]:
        out = list(lines)
        out.insert(h1 + 1, b"-2.5\t" + bytes(97 + (j * 7 + L) % 26 for j in range(L)) + b"\t-0.25")
        adjust_count(out, classify(out), 1, 1)
        yield b"\n".join(out), "long-word-first:%d" % L


def pick_line(rng, kinds, want):
    idx = [i for i, k in enumerate(kinds) if k[0] in want]
    return rng.choice(idx) if idx else None


def set_count(lines, kinds, n, value):
    """rewrite the count line of order n to value (bytes); returns False when there is none"""
    for i, (k, _) in enumerate(kinds):
        if k == "count":
            m = re.match(rb"ngram (\d+)=(.*)$", lines[i])
            if m and int(m.group(1)) == n:
                lines[i] = b"ngram %d=" % n + value
                return True
    return False


def get_count(lines, kinds, n):
    for i, (k, _) in enumerate(kinds):
        if k == "count":
            m = re.match(rb"ngram (\d+)=(\d+)\s*$", lines[i])
            if m and int(m.group(1)) == n:
                return int(m.group(2))
    return None


def adjust_count(lines, kinds, n, delta):
    c = get_count(lines, kinds, n)
    if c is not None and c + delta >= 0:
        set_count(lines, kinds, n, b"%d" % (c + delta))


def mutate_arpa(rng, data):
    """one structured mutation of ARPA text; returns (bytes, name)"""
    lines = data.split(b"\n")
    trailing = lines and lines[-1] == b""
    if trailing:
        lines.pop()
    kinds = classify(lines)
    orders = sorted({n for k, n in kinds if k == "header"})
    top = orders[-1] if orders else 1
    kind = rng.choice(["truncate", "truncate", "delete-line", "delete-line", "dup-line", "dup-line", "swap-lines", "move-line", "count", "count",
                       "count-consistent", "bad-prob", "bad-prob", "bad-backoff", "unknown-word", "drop-section", "drop-header", "drop-end", "drop-data",
                       "stray-bytes", "stray-bytes", "field", "special", "context", "dup-section", "swap-sections", "crlf", "magic", "extra-order",
                       "backoff-on-top", "trailing", "tiny", "tab-space", "dup-unigram", "count-line-format"])
    if not lines:
        kind = rng.choice(["tiny", "magic", "trailing"])
    name = kind

    def join():
        return b"\n".join(lines) + (b"\n" if trailing else b"")

    if kind == "truncate":
        how = rng.below(5)
        if how == 0:
            k = rng.below(len(data) + 1)
        elif how == 1:      # at a line boundary
            i = rng.below(len(lines) + 1)
            k = len(b"\n".join(lines[:i])) + (1 if i and rng.chance(1, 2) else 0)
        elif how == 2:      # inside the last section / just before \end\
            k = max(0, len(data) - rng.range(1, 12))
        elif how == 3:      # inside the counts
            k = rng.range(0, min(len(data), 60))
        else:               # in the middle of an entry
            i = pick_line(rng, kinds, ("entry",))
            k = len(b"\n".join(lines[:i])) + 1 + rng.below(len(lines[i]) + 1) if i is not None else rng.below(len(data) + 1)
        return data[:k], "truncate"
    if kind == "delete-line":
        i = pick_line(rng, kinds, (rng.choice(["data", "count", "header", "entry", "entry", "end", "blank"]),))
        if i is None:
            i = rng.below(len(lines))
        name += ":" + kinds[i][0]
        fix = kinds[i][0] == "entry" and rng.chance(1, 2)
        n = kinds[i][1]
        del lines[i]
        if fix:
            adjust_count(lines, classify(lines), n, -1); name += "+count"
        return join(), name
    if kind == "dup-line":
        i = pick_line(rng, kinds, (rng.choice(["data", "count", "header", "entry", "entry", "end", "blank"]),))
        if i is None:
            i = rng.below(len(lines))
        name += ":" + kinds[i][0]
        lines.insert(i, lines[i])
        if kinds[i][0] == "entry" and rng.chance(1, 2):
            adjust_count(lines, classify(lines), kinds[i][1], 1); name += "+count"
        return join(), name
    if kind == "swap-lines":
        i, j = rng.below(len(lines)), rng.below(len(lines))
        lines[i], lines[j] = lines[j], lines[i]
        return join(), name + ":%s<->%s" % (kinds[i][0], kinds[j][0])
    if kind == "move-line":
        i = pick_line(rng, kinds, ("entry",))
        if i is None:
            return data[:len(data) // 2], "truncate"
        l = lines.pop(i)
        j = rng.below(len(lines) + 1)
        lines.insert(j, l)
        return join(), name
    if kind == "count":
        n = rng.choice(orders) if orders else 1
        c = get_count(lines, kinds, n) or 0
        v = rng.choice([b"%d" % max(0, c - 1), b"%d" % (c + 1), b"%d" % (2 * c), b"%d" % (c + 100), b"%d" % min(MAX_COUNT, 1000 * (c + 1))] + BAD_COUNTS)
        set_count(lines, kinds, n, v)
        return join(), name + ":" + ("number" if v.isdigit() else "malformed")
    if kind == "count-line-format":
        i = pick_line(rng, kinds, ("count",))
        if i is None:
            return data[:10], "truncate"
        l = lines[i]
        lines[i] = rng.choice([l.replace(b"=", b" = "), l.replace(b"=", b""), l.replace(b"ngram ", b"ngram"), l.replace(b"ngram ", b"ngram  "),
                               l.replace(b"ngram", b"NGRAM"), l + b" ", l + b"\t#", b" " + l, l.replace(b"=", b"=="), l.replace(b"ngram ", b"ngram -"),
                               l.replace(b"ngram ", b"ngram 0"), l.replace(b"ngram ", b"ngram +"), l.replace(b"ngram ", b"ngram 4294967297"[: 7 + rng.range(0, 9)])])
        return join(), name
    if kind == "count-consistent":
        # delete or add a whole consistent entry: the file stays well formed unless structure breaks
        i = pick_line(rng, kinds, ("entry",))
        if i is None:
            return data, "identity"
        n = kinds[i][1]
        del lines[i]
        adjust_count(lines, classify(lines), n, -1)
        return join(), name
    if kind in ("bad-prob", "bad-backoff"):
        i = pick_line(rng, kinds, ("entry",))
        if i is None:
            return data, "identity"
        f = lines[i].split(b"\t")
        bad = rng.choice(BAD_NUMBERS)
        if kind == "bad-prob":
            f[0] = bad
        elif len(f) >= 3:
            f[2] = bad
        else:
            f.append(bad)
        lines[i] = b"\t".join(f)
        return join(), name + ":" + bad.decode("latin-1")[:12]
    if kind == "backoff-on-top":
        idx = [i for i, k in enumerate(kinds) if k == ("entry", top)]
        if not idx:
            return data, "identity"
        i = rng.choice(idx)
        lines[i] = lines[i] + b"\t" + rng.choice([b"0", b"-0", b"0.0", b"-0.5", b"0.5", b"1e-50", b"nan", b"", b"x"])
        return join(), name
    if kind == "unknown-word":
        idx = [i for i, k in enumerate(kinds) if k[0] == "entry" and k[1] >= 2]
        if not idx:
            return data, "identity"
        i = rng.choice(idx)
        f = lines[i].split(b"\t")
        if len(f) >= 2:
            ws = f[1].split(b" ")
            ws[rng.below(len(ws))] = rng.choice([b"NOTAWORD", b"<unk>", b"<UNK>", b"<Unk>", b"\xff", b"a\x0bb", b"", b"<s>", b"</s>"])
            f[1] = b" ".join(ws)
            lines[i] = b"\t".join(f)
        return join(), name
    if kind == "drop-section" or kind == "dup-section" or kind == "swap-sections":
        if not orders:
            return data, "identity"
        n = rng.choice(orders)
        start = next(i for i, k in enumerate(kinds) if k == ("header", n))
        end = start + 1
        while end < len(lines) and kinds[end][0] in ("entry", "blank"):
            end += 1
        sec = lines[start:end]
        if kind == "drop-section":
            del lines[start:end]
            if rng.chance(1, 2):
                ks = classify(lines)
                for i, (k, _) in enumerate(ks):
                    if k == "count" and lines[i].startswith(b"ngram %d=" % n):
                        del lines[i]; name += "+countline"
                        break
        elif kind == "dup-section":
            lines[end:end] = sec
        else:
            m = rng.choice(orders)
            s2 = next(i for i, k in enumerate(kinds) if k == ("header", m))
            e2 = s2 + 1
            while e2 < len(lines) and kinds[e2][0] in ("entry", "blank"):
                e2 += 1
            if m != n:
                (a, b), (c, d) = sorted([(start, end), (s2, e2)])
                lines = lines[:a] + lines[c:d] + lines[b:c] + lines[a:b] + lines[d:]
        return join(), name
    if kind == "drop-header":
        i = pick_line(rng, kinds, ("header",))
        if i is None:
            return data, "identity"
        if rng.chance(1, 2):
            del lines[i]
        else:
            lines[i] = rng.choice([b"\\%d-grams" % kinds[i][1], b"\\%d-gram:" % kinds[i][1], b"\\%d-grams:" % (kinds[i][1] + 1), b"\\0-grams:", b"\\-1-grams:",
                                   b" \\%d-grams:" % kinds[i][1], b"\\%d-grams: " % kinds[i][1], b"\\%d-GRAMS:" % kinds[i][1], b"\\01-grams:"])
        return join(), name
    if kind == "drop-end":
        i = pick_line(rng, kinds, ("end",))
        if i is not None:
            if rng.chance(1, 2):
                del lines[i]
            else:
                lines[i] = rng.choice([b"\\end", b"\\END\\", b"\\end\\ x", b" \\end\\", b"\\end\\\\"])
        return join(), name
    if kind == "drop-data":
        i = pick_line(rng, kinds, ("data",))
        if i is not None:
            if rng.chance(1, 2):
                del lines[i]
            else:
                lines[i] = rng.choice([b"\\data", b"\\DATA\\", b" \\data\\", b"\\data\\ ", b"data", b"#\\data\\", b"iARPA", b"blmt", b"x\\data\\"])
        return join(), name
    if kind == "stray-bytes":
        b = bytearray(data)
        for _ in range(rng.range(1, 3)):
            k = rng.below(len(b) + 1)
            stray = rng.choice([b"\x00", b"\xff", b"\r", b"\t", b" ", b"\x0b", b"\x0c", b"\n", b"\x1f\x8b", b"#", b"\\", b"=", b"-", b"9", b"e", b"\xc3\xa9", b"\x80"])
            how = rng.below(3)
            if how == 0 or not b:
                b[k:k] = stray
            elif how == 1:
                b[k:k + 1] = stray
            else:
                del b[k:k + rng.range(1, 2)]
        return bytes(b), name
    if kind == "field":
        i = pick_line(rng, kinds, ("entry",))
        if i is None:
            return data, "identity"
        f = lines[i].split(b"\t")
        how = rng.below(7)
        if how == 0 and len(f) >= 2:
            f[1] = f[1] + b" extra"
        elif how == 1 and len(f) >= 2 and b" " in f[1]:
            f[1] = f[1].rsplit(b" ", 1)[0]
        elif how == 2 and len(f) >= 2:
            f[1] = b""
        elif how == 3:
            f = f[:1]
        elif how == 4:
            f.append(b"-0.5")
        elif how == 5 and len(f) >= 2:
            f[1] = f[1].replace(b" ", b"  ", 1) if b" " in f[1] else b" " + f[1]
        else:
            f = [f[0]] + [b""] + f[1:]
        lines[i] = b"\t".join(f)
        return join(), name + ":%d" % how
    if kind == "special":
        w = rng.choice([b"<s>", b"</s>", b"<unk>"])
        for i, (k, n) in enumerate(kinds):
            if k == "entry" and n == 1 and lines[i].split(b"\t")[1:2] == [w]:
                how = rng.below(3)
                if how == 0:
                    del lines[i]
                    adjust_count(lines, classify(lines), 1, -1)
                elif how == 1:
                    lines[i] = lines[i].replace(w, w.upper() if w == b"<unk>" else b"<x>")
                else:
                    lines.insert(i, lines[i]); adjust_count(lines, classify(lines), 1, 1)
                break
        return join(), name + ":" + w.decode()
    if kind == "dup-unigram":
        i = pick_line(rng, kinds, ("entry",))
        idx = [j for j, k in enumerate(kinds) if k == ("entry", 1)]
        if not idx:
            return data, "identity"
        i = rng.choice(idx)
        lines.insert(rng.choice(idx), lines[i])
        adjust_count(lines, classify(lines), 1, 1)
        return join(), name
    if kind == "context":
        # remove an (n-1)-gram that is the context (or the suffix) of an n-gram, keeping the counts consistent
        idx = [i for i, k in enumerate(kinds) if k[0] == "entry" and k[1] >= 3]
        if not idx:
            idx = [i for i, k in enumerate(kinds) if k[0] == "entry" and k[1] >= 2]
        if not idx:
            return data, "identity"
        i = rng.choice(idx)
        f = lines[i].split(b"\t")
        if len(f) < 2:
            return data, "identity"
        ws = f[1].split(b" ")
        target = b" ".join(ws[:-1] if rng.chance(2, 3) else ws[1:])
        n = kinds[i][1] - 1
        for j, (k, m) in enumerate(kinds):
            if k == "entry" and m == n and lines[j].split(b"\t")[1:2] == [target]:
                del lines[j]
                adjust_count(lines, classify(lines), n, -1)
                break
        return join(), name
    if kind == "crlf":
        how = rng.below(3)
        if how == 0:
            return data.replace(b"\n", b"\r\n"), name + ":all"
        if how == 1:
            i = rng.below(len(lines))
            lines[i] = lines[i] + b"\r"
            return join(), name + ":one"
        k = data.find(b"\n", rng.below(len(data)))
        return (data[:k] + b"\r" + data[k + 1:]) if k >= 0 else data, name + ":bare-cr"
    if kind == "magic":
        pre = rng.choice([b"\x1f\x8b\x08\x00", b"mmap lm http://kheafield.com/code format version 5\n\x00", b"mmap lm http://kheafield.com/code incomplete\n",
                          b"blmt", b"iARPA\n", b"BZh9", b"\xfd7zXZ\x00", b"\xef\xbb\xbf", b"# comment\n\n", b"\n\n\n", b" \n\t\n"])
        return pre + data, name
    if kind == "extra-order":
        # announce one more order than KENLM_MAX_ORDER allows, or skip an order
        how = rng.below(3)
        i = max([j for j, k in enumerate(kinds) if k[0] == "count"] or [0])
        if how == 0:
            for n in range(top + 1, 8):
                i += 1
                lines.insert(i, b"ngram %d=1" % n)
        elif how == 1:
            lines.insert(i + 1, b"ngram %d=1" % (top + 2))
        else:
            lines.insert(i + 1, b"ngram %d=1" % top)
        return join(), name + ":%d" % how
    if kind == "trailing":
        return data + rng.choice([b"x", b"\n\n  \n", b"\\end\\\n", b"\x00", b"trailing line\n", b"\n\\1-grams:\n", b" "]), name
    if kind == "tiny":
        return rng.choice([b"", b"\n", b"\\data\\", b"\\data\\\n", b"\\data\\\n\n", b"\\data\\\nngram 1=0\n\n\\1-grams:\n\n\\end\\\n",
                           b"\\data\\\nngram 1=1\n\n\\1-grams:\n-1\ta\n\n\\end\\\n", b"\\data\\\nngram 1=0\nngram 2=0\n\n\\1-grams:\n\n\\2-grams:\n\n\\end\\\n",
                           b"\\data\\\nngram 1=3\nngram 2=0\n\n\\1-grams:\n-1\t<unk>\n-1\t<s>\t-1\n-1\t</s>\n\n\\2-grams:\n\n\\end\\\n",
                           b"\\data\\\nngram 1=2\nngram 2=1\n\n\\1-grams:\n-1\t<s>\t-1\n-1\t</s>\n\n\\2-grams:\n-1\t<s> </s>\n\n\\end\\\n",
                           b"#\n" * 50, b"\\data\\\nngram 1=1\nngram 2=1", b"\\data\\\nngram 1=2\nngram 2=1\n\n\\1-grams:\n-1\t<s>\t-1\n-1\t</s>\n\n\\2-grams:\n-1\t<s> </s>"]), name
    if kind == "tab-space":
        i = pick_line(rng, kinds, ("entry",))
        if i is None:
            return data, "identity"
        how = rng.below(3)
        lines[i] = lines[i].replace(b"\t", b" ", 1) if how == 0 else lines[i].replace(b" ", b"\t", 1) if how == 1 else lines[i].replace(b"\t", b"\t\t", 1)
        return join(), name + ":%d" % how
    return data, "identity"


def mutate_bytes(rng, data):
    b = bytearray(data)
    for _ in range(rng.range(1, 3)):
        if not b:
            break
        k = rng.below(len(b))
        how = rng.below(4)
        if how == 0:
            b[k] ^= 1 << rng.below(8)
        elif how == 1:
            b[k] = rng.below(256)
        elif how == 2:
            del b[k]
        else:
            b.insert(k, rng.below(256))
    return bytes(b), "bytes"


def header_counts(data):
    """counts announced by an ARPA text (best effort, to enforce the allocation cap)"""
    out = []
    for m in re.finditer(rb"^ngram[^=\n]*=\s*([-+]?)(\d+)", data, re.M):
        # istream >> uint64_t accepts a sign; a negative number wraps around to a huge count
        out.append(MAX_COUNT + 1 if (m.group(1) == b"-" and int(m.group(2)) != 0) else int(m.group(2)))
    return out


def arpa_mutant(rng, bases):
    """bases: list of bytes.  Returns (bytes, names) with the announced counts under the cap."""
    if rng.chance(1, 40):
        # a well-formed model of an order the build does not support (KENLM_MAX_ORDER = 6)
        m = gen_model(rng, order=rng.choice([7, 7, 8]), nwords=2)
        if m["order"] >= 7:
            return render(m), ["valid-order-%d" % m["order"]]
    for _ in range(20):
        data = rng.choice(bases)
        names = []
        for _ in range(1 if rng.chance(4, 5) else 2):
            if rng.chance(1, 6):
                data, n = mutate_bytes(rng, data)
            else:
                data, n = mutate_arpa(rng, data)
            names.append(n)
        if all(c <= MAX_COUNT for c in header_counts(data)) and len(data) < 4000000:
            return data, names
    return rng.choice(bases), ["identity"]


# ---------------------------------------------------------------------------------------------
# binary files.  Layout of the header (lm/binary_format.cc): Sanity (88 bytes: 56 magic, 3 floats, 3 uint32, 1 uint64),
# FixedWidthParameters (order u8, probing_multiplier f32, model_type u32, has_vocabulary u8/bool, search_version u32), counts u64[order]
SANITY = 88
OFF_ORDER, OFF_MULT, OFF_TYPE, OFF_HASVOCAB, OFF_SEARCHV, FIXED = SANITY + 0, SANITY + 4, SANITY + 8, SANITY + 12, SANITY + 16, 20


def binary_regions(data):
    order = data[OFF_ORDER]
    hdr = (SANITY + FIXED + 8 * order + 7) // 8 * 8
    return order, hdr


def mutate_binary(rng, data):
    """truncations and header-field mismatches of a valid binary file"""
    order, hdr = binary_regions(data)
    kind = rng.choice(["truncate", "truncate", "truncate", "magic", "version", "sanity", "order", "multiplier", "type", "has-vocab", "search-version",
                       "incomplete", "extend"])
    b = bytearray(data)
    if kind == "truncate" and len(b) > 3 * 4096 and rng.chance(2, 3):
        # whole pages off the end: a mapping of the announced size would reach past the end of the file
        k = max(hdr + 1, len(b) - 4096 * rng.range(1, max(1, len(b) // 4096 - 1)) - rng.below(4096))
        return bytes(b[:k]), "truncate:pages"
    if kind == "truncate":
        how = rng.below(6)
        k = [rng.below(SANITY + 1), rng.range(SANITY, hdr), rng.range(hdr, min(len(b), hdr + 64)), rng.below(len(b) + 1), max(0, len(b) - rng.range(1, 300)),
             rng.choice([0, 1, SANITY - 1, SANITY, SANITY + 1, hdr - 1, hdr, hdr + 1, len(b) - 1])][how]
        return bytes(b[:max(0, min(k, len(b)))]), "truncate:%s" % ["in-magic", "in-params", "after-header", "anywhere", "near-end", "boundary"][how]
    if kind == "magic":
        k = rng.below(52)
        b[k] = rng.choice([b[k] ^ 0x20, 0, 0xff, 10])
        return bytes(b), "magic"
    if kind == "version":
        v = rng.choice([b"4", b"6", b"0", b"15", b"-5", b"5 ", b"x", b"05"])
        s = b"mmap lm http://kheafield.com/code format version " + v + b"\n\x00"
        b[0:len(s)] = s
        return bytes(b), "version:" + v.decode()
    if kind == "sanity":
        k = rng.range(56, SANITY - 1)
        b[k] ^= 1 << rng.below(8)
        return bytes(b), "sanity"
    if kind == "order":
        # 0, above KENLM_MAX_ORDER, and any other order than the file's own (the image then no longer matches the header)
        v = rng.choice([0, 7, 8, 255] + [o for o in range(1, 7) if o != order] * 2)
        b[OFF_ORDER] = v
        if v > order and rng.chance(1, 2):
            b[SANITY + FIXED + 8 * order:SANITY + FIXED + 8 * order] = struct.pack("<Q", 1) * (v - order)
        return bytes(b), "order:%d" % v
    if kind == "multiplier":
        v = rng.choice([0.0, 0.5, 0.999, -1.5, float("nan"), float("inf"), 1.0])
        b[OFF_MULT:OFF_MULT + 4] = struct.pack("<f", v)
        return bytes(b), "multiplier:%r" % v
    if kind == "type":
        v = rng.choice([0, 1, 2, 3, 4, 5, 6, 7, 255, 0xffffffff, 0x80000000])
        b[OFF_TYPE:OFF_TYPE + 4] = struct.pack("<I", v)
        return bytes(b), "type:%d" % v
    if kind == "has-vocab":
        # claim / deny the vocabulary strings; optionally cut them off
        if rng.chance(1, 2):
            b[OFF_HASVOCAB] = 0
            return bytes(b), "has-vocab:0"
        return bytes(b[:len(b) - rng.range(1, 40)]), "has-vocab:strings-cut"
    if kind == "search-version":
        v = rng.choice([0, 1, 2, 99, 0xffffffff])
        b[OFF_SEARCHV:OFF_SEARCHV + 4] = struct.pack("<I", v)
        return bytes(b), "search-version:%d" % v
    if kind == "incomplete":
        s = b"mmap lm http://kheafield.com/code incomplete\n"
        b[0:len(s)] = s
        return bytes(b), "incomplete"
    return bytes(b) + bytes(rng.below(256) for _ in range(rng.range(1, 20))), "extend"
