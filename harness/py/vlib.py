"""Shared machinery for every ./check Cxx run.

Pipeline of one check (DESIGN.md section 2.2):
  1. build /repo's *current working tree* out of tree, hooks on  (build_repo)
  2. regenerate coq/Gen/*.v from the current sources             (translator, per property)
  3. proof step: make Properties_Cxx.vo, Print Assumptions, forbidden-token grep (coq_prove)
  4. correspondence step: extracted OCaml model vs C++ driver on the same cases
  5. specification oracle on the implementation
  6. decide, print KNOWN-FINDING / VIOLATION, write evidence
"""
import fcntl
import glob
import hashlib
import json
import os
import re
import shutil
import subprocess
import sys
import time

ROOT = os.path.dirname(os.path.dirname(os.path.dirname(os.path.abspath(__file__))))
REPO = os.environ.get("VERIF_REPO", "/repo")
CACHE = os.environ.get("VERIF_CACHE", "/var/tmp/kpu-kenlm-verif")
# when a check is pointed at another tree (seeded-change experiments in a scratch worktree) its evidence and
# replays go next to that cache, never into /verif/evidence
OUT = ROOT if REPO == "/repo" else os.path.join(CACHE, "out")
COQ = os.path.join(ROOT, "coq")
NPROC = os.cpu_count() or 4
GUARD = "KPU_KENLM_VERIF"

BOOST_LIBS = ["-lboost_program_options", "-lboost_system", "-lboost_thread", "-lboost_atomic"]
SYS_LIBS = ["-lz", "-lbz2", "-llzma", "-lpthread", "-lrt"]
KENLM_DEFS = ["-DKENLM_MAX_ORDER=6", "-DHAVE_CLOCKGETTIME", "-DHAVE_ZLIB", "-DHAVE_BZLIB", "-DHAVE_XZLIB", "-D" + GUARD]

ALLOWED_AXIOMS = {
    # standard-library axioms the brief allows, each named in DESIGN.md section 5
    "FunctionalExtensionality.functional_extensionality_dep",
    "functional_extensionality_dep",
    "ClassicalDedekindReals.sig_forall_dec",
    "ClassicalDedekindReals.sig_not_dec",
    "sig_forall_dec",
    "sig_not_dec",
    "Eqdep.Eq_rect_eq.eq_rect_eq",
    "eq_rect_eq",
    "Classical_Prop.classic",
    "classic",
    "JMeq.JMeq_eq",
    "ProofIrrelevance.proof_irrelevance",
}

FORBIDDEN = re.compile(
    r"\b(Admitted|admit|Axiom|Axioms|Parameter|Parameters|Conjecture|Conjectures|"
    r"Admit\s+Obligations|native_compute|bypass_check)\b|"
    r"Unset\s+(Guard|Positivity|Universe)\s+Checking|type-in-type|impredicative-set")


class InfraError(Exception):
    pass


# ---------------------------------------------------------------------------------------------
# PRNG: one splitmix64 stream per run; every random choice derives from it
class Rng:
    def __init__(self, seed):
        # the start state is a *mixed* function of the seed: with state = seed * gamma + c the streams of neighbouring seeds were
        # the same orbit shifted by one draw (noticed when seeds 1 and 2 produced the same late cases)
        z = (seed * 0x9E3779B97F4A7C15 + 0x1234567) & 0xFFFFFFFFFFFFFFFF
        z = ((z ^ (z >> 30)) * 0xBF58476D1CE4E5B9) & 0xFFFFFFFFFFFFFFFF
        z = ((z ^ (z >> 27)) * 0x94D049BB133111EB) & 0xFFFFFFFFFFFFFFFF
        self.s = (z ^ (z >> 31)) & 0xFFFFFFFFFFFFFFFF

    def next(self):
        self.s = (self.s + 0x9E3779B97F4A7C15) & 0xFFFFFFFFFFFFFFFF
        z = self.s
        z = ((z ^ (z >> 30)) * 0xBF58476D1CE4E5B9) & 0xFFFFFFFFFFFFFFFF
        z = ((z ^ (z >> 27)) * 0x94D049BB133111EB) & 0xFFFFFFFFFFFFFFFF
        return z ^ (z >> 31)

    def below(self, n):
        return self.next() % n if n > 0 else 0

    def range(self, lo, hi):  # inclusive
        return lo + self.below(hi - lo + 1)

    def choice(self, xs):
        return xs[self.below(len(xs))]

    def chance(self, num, den):
        return self.below(den) < num

    def shuffle(self, xs):
        for i in range(len(xs) - 1, 0, -1):
            j = self.below(i + 1)
            xs[i], xs[j] = xs[j], xs[i]

    def fork(self):
        return Rng(self.next())


# ---------------------------------------------------------------------------------------------
def _big_stack():
    """extracted models recurse over their inputs (inductive lists, Peano numbers): give the child the largest stack allowed,
    so that a long input (a 128 KB word, a 100 000-line section) is not answered with 'Stack overflow'"""
    import resource
    try:
        soft, hard = resource.getrlimit(resource.RLIMIT_STACK)
        resource.setrlimit(resource.RLIMIT_STACK, (hard, hard))
    except Exception:
        pass


def sh(cmd, timeout=600, cwd=None, env=None, input=None, check=False, binary=False, big_stack=False):
    """Run a command under a timeout; returns (rc, stdout, stderr). rc=124 on timeout."""
    e = dict(os.environ)
    if env:
        e.update(env)
    try:
        p = subprocess.run(cmd, cwd=cwd, env=e, input=input, stdout=subprocess.PIPE, stderr=subprocess.PIPE,
                           timeout=timeout, shell=isinstance(cmd, str), preexec_fn=_big_stack if big_stack else None)
        out, err, rc = p.stdout, p.stderr, p.returncode
    except subprocess.TimeoutExpired as t:
        out, err, rc = t.stdout or b"", t.stderr or b"", 124
    if not binary:
        out = out.decode("utf-8", "replace")
        err = err.decode("utf-8", "replace")
    if check and rc != 0:
        raise InfraError("command failed (%d): %s\n%s\n%s" % (rc, cmd, out[-3000:], err[-3000:]))
    return rc, out, err


class _Lock:
    def __init__(self, path):
        os.makedirs(os.path.dirname(path), exist_ok=True)
        self.path = path

    def __enter__(self):
        self.f = open(self.path, "w")
        fcntl.flock(self.f, fcntl.LOCK_EX)
        return self

    def __exit__(self, *a):
        fcntl.flock(self.f, fcntl.LOCK_UN)
        self.f.close()


# ---------------------------------------------------------------------------------------------
# Step 1: build the code under test from /repo's current working tree
VARIANTS = {
    "release": ("Release", "-D%s" % GUARD),
    "asan": ("RelWithDebInfo",
             "-D%s -O1 -fsanitize=address,undefined -fno-sanitize=alignment -fno-sanitize-recover=all "
             "-fno-omit-frame-pointer" % GUARD),
    "tsan": ("RelWithDebInfo", "-D%s -O1 -fsanitize=thread" % GUARD),
}


def build_dir(variant="release"):
    return os.path.join(CACHE, variant)


def build_repo(targets, variant="release"):
    """ninja-build the named targets of /repo (current working tree) with hooks on; returns build dir.
    The directory is a cache: recreated when missing, incremental otherwise (ninja recompiles whatever
    changed in /repo, so nothing stale is used)."""
    bdir = build_dir(variant)
    with _Lock(os.path.join(CACHE, variant + ".lock")):
        if not os.path.exists(os.path.join(bdir, "build.ninja")):
            os.makedirs(bdir, exist_ok=True)
            btype, flags = VARIANTS[variant]
            link = ""
            if variant == "asan":
                link = "-fsanitize=address,undefined"
            elif variant == "tsan":
                link = "-fsanitize=thread"
            cmd = ["cmake", "-G", "Ninja", "-S", REPO, "-B", bdir, "-DCMAKE_BUILD_TYPE=" + btype,
                   "-DKENLM_MAX_ORDER=6", "-DCMAKE_CXX_FLAGS=" + flags, "-DCOMPILE_TESTS=OFF"]
            if link:
                cmd += ["-DCMAKE_EXE_LINKER_FLAGS=" + link]
            rc, out, err = sh(cmd, timeout=300)
            if rc != 0:
                shutil.rmtree(bdir, ignore_errors=True)
                raise InfraError("cmake failed:\n" + out[-2000:] + err[-2000:])
        rc, out, err = sh(["ninja", "-C", bdir, "-j", str(NPROC)] + list(targets), timeout=1800)
        if rc != 0:
            raise InfraError("build of /repo failed (targets %s):\n%s\n%s" % (targets, out[-4000:], err[-2000:]))
    return bdir


def compile_driver(name, src, libs=("kenlm", "kenlm_util"), variant="release", extra=(), std="c++11", opt="-O2"):
    """Compile a harness driver against /repo's headers and the freshly built static libs.
    Cached on (driver source, flags, mtimes of the libs and of every header under /repo/lm,/repo/util)."""
    lib_targets = list(libs)
    bdir = build_repo(lib_targets, variant)
    outdir = os.path.join(CACHE, "drivers", variant)
    os.makedirs(outdir, exist_ok=True)
    out = os.path.join(outdir, name)
    h = hashlib.sha256()
    h.update(open(src, "rb").read())
    h.update(repr((libs, extra, std, opt)).encode())
    for l in libs:
        st = os.stat(os.path.join(bdir, "lib", "lib%s.a" % l))
        h.update(("%s:%d:%d" % (l, st.st_mtime_ns, st.st_size)).encode())
    for pat in ("lm/*.hh", "lm/*/*.hh", "util/*.hh", "util/*/*.hh", "util/*/*.h"):
        for f in sorted(glob.glob(os.path.join(REPO, pat))):
            st = os.stat(f)
            h.update(("%s:%d:%d" % (f, st.st_mtime_ns, st.st_size)).encode())
    stamp = out + ".stamp"
    key = h.hexdigest()
    if os.path.exists(out) and os.path.exists(stamp) and open(stamp).read() == key:
        return out
    flags = [opt, "-g", "-std=" + std, "-Wno-error", "-w"] + KENLM_DEFS + ["-I" + REPO, "-I" + os.path.join(ROOT, "harness")]
    if variant == "asan":
        flags += VARIANTS["asan"][1].split()
    elif variant == "tsan":
        flags += VARIANTS["tsan"][1].split()
    cmd = ["g++"] + flags + list(extra) + [src, "-o", out, "-L" + os.path.join(bdir, "lib")] + \
          ["-l" + l for l in libs] + BOOST_LIBS + SYS_LIBS
    with _Lock(out + ".lock"):
        rc, o, e = sh(cmd, timeout=600)
        if rc != 0:
            raise InfraError("driver %s does not compile against the current /repo:\n%s" % (name, (o + e)[-4000:]))
        open(stamp, "w").write(key)
    return out


def tool(name, variant="release"):
    bdir = build_repo([name], variant)
    return os.path.join(bdir, "bin", name)


# ---------------------------------------------------------------------------------------------
# Step 3: proof step
def coq_project():
    """(Re)generate _CoqProject and Makefile from the .v files present (Gen/ included)."""
    vs = sorted(glob.glob(os.path.join(COQ, "**", "*.v"), recursive=True))
    vs = [os.path.relpath(v, COQ) for v in vs if "/scratch/" not in v and not os.path.basename(v).startswith("Assumptions_")
          and not os.path.basename(v).startswith("cases_")]
    os.makedirs(os.path.join(COQ, "extracted"), exist_ok=True)
    content = "-Q . Kenlm\n-arg -w -arg -all\n" + "\n".join(vs) + "\n"
    p = os.path.join(COQ, "_CoqProject")
    old = open(p).read() if os.path.exists(p) else None
    if old != content or not os.path.exists(os.path.join(COQ, "Makefile")):
        open(p, "w").write(content)
        sh(["coq_makefile", "-f", "_CoqProject", "-o", "Makefile"], cwd=COQ, check=True)


def write_if_changed(path, content):
    old = open(path).read() if os.path.exists(path) else None
    if old != content:
        os.makedirs(os.path.dirname(path), exist_ok=True)
        open(path, "w").write(content)
        return True
    return False


def theorems_in(vfile):
    txt = open(vfile).read()
    return [(m.group(2), txt[:m.start()].count("\n") + 1)
            for m in re.finditer(r"^\s*(Theorem|Corollary)\s+([A-Za-z0-9_']+)", txt, re.M)]


def grep_forbidden(files):
    bad = []
    for f in files:
        txt = open(f).read()
        # strip comments (non-nested good enough: we never write the tokens in comments of proof files)
        txt2 = re.sub(r"\(\*.*?\*\)", lambda m: "\n" * m.group(0).count("\n"), txt, flags=re.S)
        for m in FORBIDDEN.finditer(txt2):
            bad.append("%s:%d:%s" % (os.path.relpath(f, ROOT), txt2[:m.start()].count("\n") + 1, m.group(0)))
    return bad


def coq_deps(target_v):
    """All project .v files the target depends on (through coqdep output in .Makefile.d)."""
    rc, out, err = sh(["coqdep", "-Q", ".", "Kenlm", "-sort"] + [os.path.relpath(target_v, COQ)], cwd=COQ)
    return out.split()


def coq_prove(prop, timeout=900):
    """Build coq/<prop>/Properties_<prop>.vo (full .vo build) and collect per-theorem assumptions.
    Returns dict(obligations, discharged, failed=[names], axioms={thm: [..]}, log, files)."""
    rel = "%s/Properties_%s" % (prop, prop)
    vfile = os.path.join(COQ, rel + ".v")
    thms = theorems_in(vfile)
    res = {"obligations": len(thms), "discharged": 0, "failed": [], "axioms": {}, "log": "", "theorems": [t for t, _ in thms],
           "forbidden": [], "bad_axioms": []}
    t0 = time.time()
    with _Lock(os.path.join(CACHE, "coq-make.lock")):
        coq_project()
        rc, out, err = sh(["make", "-k", "-j%d" % NPROC, rel + ".vo"], cwd=COQ, timeout=timeout)
    res["make_s"] = round(time.time() - t0, 1)
    res["log"] = (out + err)[-6000:]
    ok = rc == 0 and os.path.exists(os.path.join(COQ, rel + ".vo"))
    # forbidden tokens anywhere in the files this property depends on
    # forbidden tokens are searched in the transitive dependencies of the property file
    res["files"] = transitive_deps(vfile)
    res["forbidden"] = grep_forbidden(res["files"])
    if not ok:
        # which theorem(s) failed?  If the error is in the properties file map the line to a theorem,
        # otherwise every theorem of the file is undischarged and the failing dependency is named.
        m = re.search(r'File "\./?%s\.v", line (\d+)' % re.escape(rel), out + err)
        if m:
            line = int(m.group(1))
            name = None
            for t, l in thms:
                if l <= line:
                    name = t
            res["failed"] = [name or thms[0][0]]
            res["discharged"] = 0
        else:
            m = re.search(r'File "\./?([^"]+)\.v", line (\d+)', out + err)
            res["failed"] = [t for t, _ in thms]
            res["broken_dependency"] = (m.group(1) + ":" + m.group(2)) if m else "unknown (see log)"
        return res
    # Print Assumptions for every theorem (fresh coqc each run; fast)
    afile = os.path.join(COQ, prop, "Assumptions_%s.v" % prop)
    body = "Require Import Kenlm.%s.Properties_%s.\n" % (prop, prop)
    for t, _ in thms:
        body += 'Redirect "%s/assum_%s" Print Assumptions %s.\n' % (prop, t, t)
    open(afile, "w").write(body)
    rc, out, err = sh(["coqc", "-Q", ".", "Kenlm", "-w", "-all", os.path.relpath(afile, COQ)], cwd=COQ, timeout=600)
    if rc != 0:
        res["failed"] = [t for t, _ in thms]
        res["log"] += "\nPrint Assumptions failed:\n" + (out + err)[-2000:]
        return res
    for t, _ in thms:
        p = os.path.join(COQ, prop, "assum_%s.out" % t)
        txt = open(p).read() if os.path.exists(p) else ""
        if "Closed under the global context" in txt:
            ax = []
        else:
            ax = [a for a in re.findall(r"^([A-Za-z_][A-Za-z0-9_.']*)\s*:", txt, re.M) if a != "Axioms"]
        res["axioms"][t] = ax
        for a in ax:
            if a not in ALLOWED_AXIOMS and a.split(".")[-1] not in ALLOWED_AXIOMS:
                res["bad_axioms"].append("%s depends on %s" % (t, a))
        try:
            os.remove(p)
        except OSError:
            pass
    for f in (afile, afile[:-2] + ".vo", afile[:-2] + ".glob", afile[:-2] + ".vok", afile[:-2] + ".vos"):
        try:
            os.remove(f)
        except OSError:
            pass
    res["discharged"] = len(thms) if not (res["forbidden"] or res["bad_axioms"]) else 0
    if res["forbidden"] or res["bad_axioms"]:
        res["failed"] = [t for t, _ in thms]
    return res


def transitive_deps(vfile):
    """Project .v files reachable from vfile through Require (parsed textually, Kenlm.* only)."""
    seen, todo = [], [vfile]
    while todo:
        f = todo.pop()
        if f in seen or not os.path.exists(f):
            continue
        seen.append(f)
        txt = open(f).read()
        for m in re.finditer(r"(?:From\s+Kenlm(?:\.([A-Za-z0-9_.]+))?\s+)?Require\s+(?:Import|Export)?\s+([^.]*(?:\.[A-Za-z0-9_]+)*)\s*\.", txt):
            pref = m.group(1) or ""
            for mod in m.group(2).split():
                parts = mod.split(".")
                if parts[0] == "Kenlm":
                    parts = parts[1:]
                elif pref:
                    parts = pref.split(".") + parts
                else:
                    # unqualified: try any directory
                    cands = glob.glob(os.path.join(COQ, "*", parts[-1] + ".v"))
                    todo.extend(cands)
                    continue
                todo.append(os.path.join(COQ, *parts) + ".v")
    return seen


# ---------------------------------------------------------------------------------------------
# Step 4: running the extracted model
def ocaml_model(prop, timeout=600):
    """Build ocaml/_build/<prop>_model from coq/extracted/<prop>_model.ml(i) (written by the Coq build
    of <prop>/Extract_<prop>.v) and ocaml/<prop>_driver.ml.  Returns path of the executable."""
    rel = "%s/Extract_%s" % (prop, prop)
    with _Lock(os.path.join(CACHE, "coq-make.lock")):
        coq_project()
        rc, out, err = sh(["make", "-j%d" % NPROC, rel + ".vo"], cwd=COQ, timeout=timeout)
    if rc != 0:
        raise ModelBroken("the executable model of %s no longer compiles in Coq:\n%s" % (prop, (out + err)[-3000:]))
    ml = os.path.join(COQ, "extracted", "%s_model.ml" % prop.lower())
    drv = os.path.join(ROOT, "ocaml", "%s_driver.ml" % prop.lower())
    bdir = os.path.join(ROOT, "ocaml", "_build", prop)
    os.makedirs(bdir, exist_ok=True)
    exe = os.path.join(bdir, "%s_model" % prop.lower())
    srcs = [ml[:-3] + ".mli", ml, drv]
    if os.path.exists(exe) and all(os.path.getmtime(exe) >= os.path.getmtime(s) for s in srcs + [os.path.join(ROOT, "ocaml", "zio.ml.inc")]):
        return exe
    with _Lock(exe + ".lock"):
        for s in srcs[:2]:
            shutil.copy(s, bdir)
        inc = open(os.path.join(ROOT, "ocaml", "zio.ml.inc")).read()
        open(os.path.join(bdir, os.path.basename(drv)), "w").write(open(drv).read().replace("(*INCLUDE zio*)", inc))
        names = [os.path.basename(s) for s in srcs]
        rc, out, err = sh(["ocamlfind", "ocamlopt", "-O3", "-w", "-a", "-package", "str", "-linkpkg"] + names + ["-o", exe],
                          cwd=bdir, timeout=timeout)
        if rc != 0:
            rc, out, err = sh(["ocamlfind", "ocamlopt", "-w", "-a", "-package", "str", "-linkpkg"] + names + ["-o", exe],
                              cwd=bdir, timeout=timeout)
        if rc != 0:
            raise InfraError("ocaml build failed for %s:\n%s" % (prop, (out + err)[-3000:]))
    return exe


class ModelBroken(Exception):
    pass


# ---------------------------------------------------------------------------------------------
# known findings
def load_known():
    p = os.path.join(ROOT, "known_findings.jsonl")
    out = []
    if os.path.exists(p):
        for l in open(p):
            l = l.strip()
            if l and not l.startswith("#"):
                out.append(json.loads(l))
    return out


# ---------------------------------------------------------------------------------------------
class Ctx:
    """One run of one property check."""

    def __init__(self, prop, tier, seed, level="proof"):
        self.prop, self.tier, self.seed, self.level = prop, tier, seed, level
        self.rng = Rng(seed)
        self.t0 = time.time()
        self.violations = []        # (replay_path, found_input)
        self.known_hits = []
        self.coverage = {"samples": []}
        self.assumptions = []
        self.known = [k for k in load_known() if k.get("property") == prop]
        self.replay_dir = os.path.join(OUT, "replays", prop)
        self.scratch = os.path.join(CACHE, "scratch", "%s-%d" % (prop, os.getpid()))
        os.makedirs(self.scratch, exist_ok=True)
        self.counts = {}
        self.reported = {}
        # replay mode (./check Cxx --replay F for the modules that re-run their check on the replayed input):
        # nothing is written under /verif (no evidence, replay files go to the scratch directory)
        self.replaying = False
        self.replay_model = None
        self.replay_obj = {}

    def start_replay(self, obj):
        self.replaying = True
        self.replay_obj = obj.get("replay", {}) if isinstance(obj.get("replay"), dict) else {}
        self.replay_dir = os.path.join(self.scratch, "replays")

    @property
    def quick(self):
        return self.tier == "quick"

    def pick(self, q, t):
        return q if self.quick else t

    def count(self, key, n=1):
        self.counts[key] = self.counts.get(key, 0) + n

    def sample(self, obj, limit=6):
        if len(self.coverage["samples"]) < limit:
            self.coverage["samples"].append(obj)

    # -- reporting -------------------------------------------------------------------------
    def report(self, signature, what, replay, found=True):
        """A property failure was observed.  signature identifies the failing call site / input class.
        Known (status=known) signatures print KNOWN-FINDING and do not fail the run."""
        for k in self.known:
            if k.get("status") == "known" and k.get("signature") == signature:
                if signature not in self.known_hits:
                    self.known_hits.append(signature)
                    print("KNOWN-FINDING: property=%s %s" % (self.prop, k.get("what", what)))
                return False
        if signature in self.reported:
            self.reported[signature] += 1
            return True
        self.reported[signature] = 1
        os.makedirs(self.replay_dir, exist_ok=True)
        idx = len(self.violations)
        path = os.path.join(self.replay_dir, "%s-seed%d-%d.json" % (self.tier, self.seed, idx))
        obj = {"property": self.prop, "signature": signature, "what": what, "seed": self.seed, "tier": self.tier,
               "failing_input_found": found, "replay": replay}
        json.dump(obj, open(path, "w"), indent=1, default=str)
        self.violations.append((path, found))
        print("VIOLATION property=%s replay=%s%s" % (self.prop, path, "" if found else " no-failing-input-found"))
        sys.stdout.flush()
        return True

    def report_proof(self, pres, search=None):
        """Report a broken proof step.  `search` is a callable that looks for a concrete failing input on
        the implementation (spec oracle); it must itself call report(found=True) and return True when it finds one."""
        if pres["discharged"] == pres["obligations"] and not pres["failed"]:
            return
        found = False
        if search is not None:
            try:
                found = bool(search())
            except ModelBroken:
                found = False
        if not found:
            self.report("proof:" + ",".join(pres["failed"]),
                        "proof obligations no longer check: %s" % ", ".join(pres["failed"]),
                        {"theorems": pres["failed"], "broken_dependency": pres.get("broken_dependency"),
                         "forbidden": pres.get("forbidden"), "bad_axioms": pres.get("bad_axioms"),
                         "log_tail": pres["log"][-3000:]}, found=False)

    def set_proof(self, pres):
        c = self.coverage
        c["obligations"] = pres["obligations"]
        c["discharged"] = pres["discharged"]
        c["checker_cmd"] = "make -k -C coq %s/Properties_%s.vo (coqc 8.16.1, full .vo build) + Print Assumptions per theorem" % (self.prop, self.prop)
        c["theorems"] = pres["theorems"]
        c["axioms_per_theorem"] = pres["axioms"]
        c["proof_make_s"] = pres.get("make_s")
        tb = ["Coq 8.16.1 kernel incl. vm_compute (no native_compute)"]
        used = sorted({a for axs in pres["axioms"].values() for a in axs})
        tb.append("axioms reported by Print Assumptions: " + (", ".join(used) if used else "none (closed under the global context)"))
        c["trusted_base"] = tb

    def finish(self):
        c = self.coverage
        c.update(self.counts)
        if known_listed := [k for k in self.known if k.get("status") == "known"]:
            c["known_findings_listed"] = [k["signature"] for k in known_listed]
            c["known_findings_hit"] = self.known_hits
        ev = {"property_id": self.prop, "tier": self.tier, "seed": self.seed, "level": self.level,
              "coverage": c, "assumptions": self.assumptions, "wall_s": round(time.time() - self.t0, 2),
              "violations": len(self.violations)}
        if self.replaying:
            shutil.rmtree(self.scratch, ignore_errors=True)
            return 1 if self.violations else 0
        os.makedirs(os.path.join(OUT, "evidence"), exist_ok=True)
        tmp = os.path.join(OUT, "evidence", ".%s.json.tmp" % self.prop)
        json.dump(ev, open(tmp, "w"), indent=1, default=str)
        os.replace(tmp, os.path.join(OUT, "evidence", "%s.json" % self.prop))
        shutil.rmtree(self.scratch, ignore_errors=True)
        return 1 if self.violations else 0


def diff_lines(a, b, limit=5):
    """first differing lines between two lists of strings"""
    out = []
    for i in range(max(len(a), len(b))):
        x = a[i] if i < len(a) else "<missing>"
        y = b[i] if i < len(b) else "<missing>"
        if x != y:
            out.append((i, x, y))
            if len(out) >= limit:
                break
    return out


def run_lines(exe, lines, timeout=600, env=None, prefix=(), restarts=0):
    """feed one case per line to a line-oriented driver; returns list of output lines (same length).  When the driver dies, the
    first case without an answer gets `DRIVER-DIED ...` and the cases after it are fed to a fresh process (up to `restarts` times),
    so that one crashing case does not take the verdicts of the others with it (for stateless drivers: the default restarts=0 is for a
    session-oriented driver whose later lines depend on earlier ones)."""
    out_all = []
    todo = list(lines)
    while True:
        data = ("\n".join(todo) + "\n").encode()
        rc, out, err = sh(list(prefix) + [exe], input=data, timeout=timeout, env=env, big_stack=True)
        res = out.split("\n")
        if res and res[-1] == "":
            res.pop()
        if rc == 0 and len(res) == len(todo):
            return out_all + res
        res = res[:len(todo)]
        died = "DRIVER-DIED rc=%d %s" % (rc, err.strip()[-300:].replace("\n", " | "))
        if rc == 124:
            # no answer within the time limit: the case does not terminate; do not wait as long again for the ones after it
            died = "DRIVER-DIED rc=124 no answer within %d s (the case does not terminate) %s" % (timeout, err.strip()[-200:].replace("\n", " | "))
            timeout = min(timeout, 60)
            restarts = min(restarts, 3)
        if restarts <= 0 or len(res) + 1 >= len(todo):
            return (out_all + res + [died] + ["<no answer>"] * (len(todo) - len(res) - 1))[:len(lines)]
        out_all += res + [died]
        todo = todo[len(res) + 1:]
        restarts -= 1
