#!/bin/bash
# seed_test.sh <prop> <patch.diff> [seed]  -- run ./check <prop> against a scratch worktree of /repo with the patch applied.
# (Other builders work against /repo at the same time, so seeded changes are never applied to /repo itself while they run.)
# The check runs from a PRIVATE COPY of /verif: the generated Coq files (coq/Gen), the compiled proofs and the extracted models are
# rebuilt from the patched sources, and must not be seen by checks that are running against /repo from /verif at the same time.
set -u
prop=$1; patch=$2; seed=${3:-1}
wt=/var/tmp/wt-seed-$prop; cache=/var/tmp/kpu-kenlm-verif-seed-$prop; vcopy=/var/tmp/verif-seed-$prop
if [ ! -d $wt ]; then git -C /repo worktree add --detach $wt HEAD >/dev/null 2>&1; fi
git -C $wt reset -q --hard; git -C $wt checkout -q --detach $(git -C /repo rev-parse HEAD)
case "$patch" in /*) ;; *) patch=$(pwd)/$patch ;; esac
if ! git -C $wt apply --3way "$patch" 2>/dev/null && ! git -C $wt apply "$patch"; then echo "PATCH-DOES-NOT-APPLY"; exit 3; fi
mkdir -p $vcopy
rsync -a --delete --exclude .git --exclude replays --exclude seeded --exclude scratch /verif/ $vcopy/
cd $vcopy && VERIF_SEED=$seed VERIF_REPO=$wt VERIF_CACHE=$cache timeout 1500 ./check $prop
rc=$?
git -C $wt reset -q --hard
exit $rc
