#!/bin/bash
# seed_verify.sh <dir with patch.diff and run.sh>  -- confirm a seeded change: applies, builds with tests, ctest passes,
# its demonstration fails with the change and passes without it.  Uses two scratch worktrees outside /repo and /verif.
set -u
d=$1
# one verification at a time (the two worktrees are shared)
exec 9>/var/tmp/seed-verify.lock; flock 9
base=/var/tmp/wt-seedv-base; mut=/var/tmp/wt-seedv-mut
for w in $base $mut; do
  if [ ! -d $w ]; then git -C /repo worktree add --detach $w HEAD >/dev/null 2>&1; fi
  git -C $w reset -q --hard; git -C $w checkout -q --detach $(git -C /repo rev-parse HEAD)
done
( git -C $mut apply --3way $d/patch.diff 2>/dev/null || git -C $mut apply $d/patch.diff ) || { echo "RESULT patch-does-not-apply"; exit 3; }
for w in $base $mut; do
  cmake -G Ninja -S $w -B $w-build -DCMAKE_BUILD_TYPE=RelWithDebInfo -DCOMPILE_TESTS=ON -DKENLM_MAX_ORDER=6 -DCMAKE_CXX_FLAGS=-Wno-error >/dev/null 2>&1
  cmake --build $w-build -j16 >/dev/null 2>&1 || { echo "RESULT build-failed $w"; exit 4; }
done
ctest --test-dir $mut-build -j8 --timeout 900 2>&1 | tail -3 > /tmp/seedv_ctest.txt
grep -q "100% tests passed" /tmp/seedv_ctest.txt; t=$?
if [ $t -ne 0 ]; then ctest --test-dir $mut-build --timeout 900 --rerun-failed 2>&1 | tail -3 > /tmp/seedv_ctest.txt; grep -q "100% tests passed" /tmp/seedv_ctest.txt; t=$?; fi
( cd $d && timeout 900 bash run.sh $mut-build >/tmp/seedv_mut.log 2>&1 ); rm=$?
( cd $d && timeout 900 bash run.sh $base-build >/tmp/seedv_base.log 2>&1 ); rb=$?
echo "RESULT ctest_pass=$((1-t)) demo_with_change_rc=$rm demo_without_change_rc=$rb"
git -C $mut reset -q --hard
