#!/usr/bin/env python3
"""mk_design.py -- assemble /verif/DESIGN.md from design.d/_head.md, the per-property notes design.d/Cxx.md, the evidence
files, the seeded-change records and design.d/_tail.md.  Run after the checks so that the theorem tables are current."""
import glob, json, os, re

ROOT = os.path.dirname(os.path.dirname(os.path.abspath(__file__)))
J = lambda *a: os.path.join(ROOT, *a)


def props():
    out = []
    for l in open(J("properties.jsonl")):
        l = l.strip()
        if l:
            out.append(json.loads(l))
    return out


def findings():
    out = []
    for l in open(J("known_findings.jsonl")):
        l = l.strip()
        if l:
            try:
                out.append(json.loads(l))
            except Exception:
                pass
    return out


def demote(md):
    """per-property notes start at '#': push every heading two levels down (the section header is '### Cxx')"""
    res = []
    infence = False
    for line in md.split("\n"):
        if line.startswith("```"):
            infence = not infence
        if not infence and re.match(r"^#{1,4} ", line):
            line = "###" + line
        res.append(line)
    return "\n".join(res)


def theorem_table(pid):
    p = J("evidence", pid + ".json")
    if not os.path.exists(p):
        return "_no evidence file yet_\n"
    e = json.load(open(p))
    c = e.get("coverage", {})
    ths = c.get("theorems", [])
    ax = c.get("axioms_per_theorem", {})
    lines = ["Last run: tier %s, seed %s, %s/%s obligations discharged, %s s.  Checker: `%s`." % (
        e.get("tier"), e.get("seed"), c.get("discharged"), c.get("obligations"), e.get("wall_s", c.get("wall_s", "?")), c.get("checker_cmd", ""))]
    withax = {t: a for t, a in ax.items() if a}
    lines.append("")
    lines.append("Theorems (%d): %s." % (len(ths), ", ".join("`%s`" % t for t in ths)))
    lines.append("")
    if withax:
        for t, a in withax.items():
            lines.append("* `%s` depends on: %s" % (t, ", ".join("`%s`" % x for x in a)))
        lines.append("* every other theorem: closed under the global context")
    else:
        lines.append("Axioms: none — every theorem is closed under the global context.")
    return "\n".join(lines) + "\n"


def axiom_summary():
    found = {}
    for p in sorted(glob.glob(J("evidence", "C*.json"))):
        e = json.load(open(p))
        for t, a in e.get("coverage", {}).get("axioms_per_theorem", {}).items():
            if a:
                found[t] = a
    if not found:
        return "none: every property theorem is closed under the global context."
    parts = []
    for t, a in found.items():
        parts.append("`%s`: %s" % (t, ", ".join("`%s`" % x for x in a)))
    return ("only these theorems depend on axioms, all of them declared by the standard library (the classical real numbers "
            "and what `Reals` brings in): " + "; ".join(parts) + ".")


def seeded_rows(pid=None):
    rows = []
    for d in sorted(glob.glob(J("seeded", "C??-*"))):
        mp = os.path.join(d, "meta.json")
        if not os.path.exists(mp):
            continue
        m = json.load(open(mp))
        if pid and m.get("property") != pid:
            continue
        patch = ""
        try:
            files = re.findall(r"^\+\+\+ b/(\S+)", open(os.path.join(d, "patch.diff")).read(), re.M)
            patch = ", ".join(sorted(set(files)))
        except Exception:
            pass
        sigs = ", ".join("`%s`" % r["signature"] for r in m.get("reported", [])[:3])
        rows.append((os.path.basename(d), m.get("property"), patch, "caught" if m.get("caught_by_check") else "**missed**", sigs))
    return rows


def seeded_table(pid=None):
    rows = seeded_rows(pid)
    if not rows:
        return "_no independent seeded change recorded_\n"
    out = ["| change | touches | quick check | reported as |", "|---|---|---|---|"]
    for name, p, patch, res, sigs in rows:
        out.append("| `seeded/%s` | %s | %s | %s |" % (name, patch, res, sigs))
    n = len(rows)
    c = sum(1 for r in rows if r[3] == "caught")
    out.append("")
    out.append("%d of %d caught." % (c, n))
    return "\n".join(out) + "\n"


def findings_table():
    fs = findings()
    out = ["| property | status | commit | signature | what |", "|---|---|---|---|---|"]
    for f in fs:
        what = f.get("what", "").replace("|", "\\|").replace("\n", " ")
        if len(what) > 420:
            what = what[:417] + "..."
        out.append("| %s | %s | %s | `%s` | %s |" % (f.get("property"), f.get("status"), f.get("commit", "—"), f.get("signature"), what))
    return "\n".join(out) + "\n", fs


def main():
    head = open(J("design.d", "_head.md")).read()
    tail = open(J("design.d", "_tail.md")).read()
    ftab, fs = findings_table()
    nfix = sum(1 for f in fs if f.get("status") == "fixed")
    nknown = sum(1 for f in fs if f.get("status") == "known")
    head = head.replace("{N_TOTAL}", str(nfix + nknown)).replace("{N_FIXED}", str(nfix)).replace("{N_KNOWN}", str(nknown))
    body = []
    for p in props():
        pid = p["id"]
        body.append("### %s — %s\n" % (pid, p["title"]))
        body.append("> " + p["statement"].replace("\n", " ") + "\n")
        body.append(theorem_table(pid))
        note = J("design.d", pid + ".md")
        if os.path.exists(note):
            txt = open(note).read().strip()
            if len(txt.split("\n")) <= 2 and "C01.md" in txt:
                body.append("As-built note: shared with C01 (the language-model core), see the C01 section above.\n")
            else:
                body.append(demote(txt) + "\n")
        body.append("**Independent seeded changes for %s**\n" % pid)
        body.append(seeded_table(pid))
        body.append("")
    tail = tail.replace("{FINDINGS_TABLE}", ftab).replace("{SEEDED_TABLE}", seeded_table()).replace("{AXIOM_SUMMARY}", axiom_summary())
    open(J("DESIGN.md"), "w").write(head + "\n" + "\n".join(body) + "\n" + tail)
    print("DESIGN.md written: %d lines" % (len(open(J("DESIGN.md")).read().split("\n"))))


if __name__ == "__main__":
    main()
