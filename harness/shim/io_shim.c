/* io_shim.c -- LD_PRELOAD interposer used by the C15 and C09 checks (lives in /verif, not in kenlm).
 *
 * Three independent modes, selected by how it is driven:
 *
 * 1. ORACLE mode (C15 correspondence).  The driver program calls io_shim_arm(fd, script) (found with
 *    dlsym(RTLD_DEFAULT, ..)).  From then on every read/write/pread/pwrite/fsync/ftruncate on that fd is
 *    answered from the script -- the same outcome list the Coq model receives:
 *        dN  Done N   transfer min(N, count) bytes with the real call (N = 0: return 0 without calling)
 *        i   Eintr    return -1, errno = EINTR
 *        fE  Fail E   return -1, errno = E
 *    io_shim_disarm() returns the number of script entries consumed (bit 30 set when the script ran out).
 *
 * 2. STORM mode (C15 tool level): IO_SHIM_STORM=<seed>:<permille>.  Every read/write/pread/pwrite on a
 *    descriptor other than stderr (stdin and stdout carry data in these tools) is, with the given probability, interrupted (EINTR) or shortened to a random
 *    positive length.  Transient conditions only; never an error.
 *
 * 3. TRACE mode (C09): IO_SHIM_TRACK=<path> IO_SHIM_LOG=<file> [IO_SHIM_SNAPDIR=<dir>].  Every
 *    open/ftruncate/mmap/munmap/msync/lseek/write/pwrite/fsync/close that concerns <path> is logged, one
 *    line per call, and (with SNAPDIR) the content of the file as the page cache holds it *before* the call
 *    is copied to <dir>/<index>.img.  IO_SHIM_SAMPLE_US=<n>[:<max>] adds at most <max> (default 40) timer snapshots
 *    ("sample" lines), the first after n microseconds, each interval a quarter longer than the one before.
 *
 * 4. FAIL mode (debugging aid, process-wide counting unlike strace's per-thread counting):
 *    IO_SHIM_FAIL=<call>:<k>:<errno> makes the k-th call of that kind (read, write, pread, pwrite, ftruncate,
 *    fsync, msync, mmap, open) on a descriptor > 2 fail with errno.
 *
 * Only calls that go through the PLT are seen (kenlm's own util/file.cc, util/mmap.cc calls do; glibc's
 * internal stdio writes do not -- the tool-level fault enumeration therefore uses strace injection).
 * The *64 entry points are wrapped as well. */
#define _GNU_SOURCE
#include <dlfcn.h>
#include <errno.h>
#include <fcntl.h>
#include <stdarg.h>
#include <stdint.h>
#include <stdio.h>
#include <stdlib.h>
#include <string.h>
#include <unistd.h>
#include <sys/mman.h>
#include <signal.h>
#include <sys/stat.h>
#include <sys/time.h>
#include <sys/syscall.h>
#include <sys/types.h>

typedef ssize_t (*read_t)(int, void *, size_t);
typedef ssize_t (*write_t)(int, const void *, size_t);
typedef ssize_t (*pread_t)(int, void *, size_t, off_t);
typedef ssize_t (*pwrite_t)(int, const void *, size_t, off_t);
typedef int (*fd_t)(int);
typedef int (*ftrunc_t)(int, off_t);
typedef void *(*mmap_t)(void *, size_t, int, int, int, off_t);
typedef int (*munmap_t)(void *, size_t);
typedef int (*msync_t)(void *, size_t, int);
typedef off_t (*lseek_t)(int, off_t, int);
typedef int (*open_t)(const char *, int, ...);
typedef int (*openat_t)(int, const char *, int, ...);

static read_t real_read;
static write_t real_write;
static pread_t real_pread;
static pwrite_t real_pwrite;
static fd_t real_fsync, real_fdatasync, real_close;
static ftrunc_t real_ftruncate;
static mmap_t real_mmap;
static munmap_t real_munmap;
static msync_t real_msync;
static lseek_t real_lseek;
static open_t real_open;
static openat_t real_openat;

/* ---- oracle mode ---- */
enum { K_DONE, K_EINTR, K_FAIL };
static struct { int kind; long val; } script[1 << 16];
static int script_len, script_pos, script_out;
static long armed_transferred;
static int armed_fd = -1;

/* ---- storm mode ---- */
static int storm_on;
static uint64_t storm_seed, storm_ctr;
static unsigned storm_permille;

/* ---- first-read mode: IO_SHIM_FIRST_READ=<n> limits the FIRST read() on every descriptor (stderr excepted) to n bytes:
   the boundary "the first transfer is shorter than what the caller wants at once" (a pipe whose writer has sent little so far) */
static long first_read_n;
static unsigned char first_read_done[4096];
static size_t first_read_count(int fd, size_t count) {
  if (first_read_n <= 0 || fd < 0 || fd == 2 || fd >= (int)sizeof first_read_done || count == 0) return count;
  if (__sync_lock_test_and_set(&first_read_done[fd], 1)) return count;
  return (size_t)first_read_n < count ? (size_t)first_read_n : count;
}

/* ---- short mode: IO_SHIM_SHORT=<k>:<n> -- the k-th write()/pwrite() on the TRACKED file transfers only n bytes (n >= 1; "h" = half
   of the request, "m" = all but one byte) and returns that count: a partial transfer, as a filling disk produces; every later call
   is served normally ---- */
static long short_k, short_ctr;
static char short_n[16];
static size_t short_count(size_t count) {
  if (!short_k || count < 2) return count;
  if (__sync_add_and_fetch(&short_ctr, 1) != short_k) return count;
  size_t n = short_n[0] == 'h' ? count / 2 : short_n[0] == 'm' ? count - 1 : (size_t)atol(short_n);
  if (n < 1) n = 1;
  return n < count ? n : count;
}

/* ---- fail mode ---- */
static char fail_call[16];
static long fail_k, fail_ctr;
static int fail_tracked_only;   /* IO_SHIM_FAIL_TRACKED=1: count only fsync/msync calls on the tracked file */
static int fail_errno;
static int fail_now(const char *call, int fd) {
  if (!fail_call[0] || (fd >= 0 && fd <= 2) || strcmp(call, fail_call)) return 0;
  if (__sync_add_and_fetch(&fail_ctr, 1) != fail_k) return 0;
  const char *rp = getenv("IO_SHIM_FAIL_REPORT");
  if (rp) {   /* which thread got the failure: the main thread's tid is the pid */
    int r = real_open(rp, O_WRONLY | O_CREAT | O_TRUNC | O_CLOEXEC, 0644);
    if (r >= 0) {
      const char *w = (long)syscall(SYS_gettid) == (long)getpid() ? "main-thread\n" : "worker-thread\n";
      real_write(r, w, strlen(w));
      real_close(r);
    }
  }
  errno = fail_errno;
  return 1;
}

/* ---- trace mode ---- */
static const char *track_path, *snap_dir;
static int log_fd = -1, trace_idx;
/* every descriptor open on the tracked path (a nested writer may open the output a second time while the first is still open) */
static int track_fds[16], n_track;
static int tracked(int fd) {
  if (fd < 0) return 0;
  for (int i = 0; i < n_track; ++i) if (track_fds[i] == fd) return 1;
  return 0;
}
static void track_add(int fd) { if (!tracked(fd) && n_track < 16) track_fds[n_track++] = fd; }
static void track_del(int fd) { for (int i = 0; i < n_track; ++i) if (track_fds[i] == fd) { track_fds[i] = track_fds[--n_track]; return; } }
static struct { char *addr; size_t len; off_t off; } maps[64];
static int nmaps;

static void on_alarm(int sig);
/* sampler: a bounded number of one-shot timers whose interval grows by a quarter each time, so that the number of
   snapshots does not depend on how long the build takes (a slow, cold or loaded machine must not get more of them) */
static long sample_interval_us, sample_left;
static void arm_sample_timer(void) {
  struct itimerval it;
  memset(&it, 0, sizeof it);
  it.it_value.tv_sec = sample_interval_us / 1000000;
  it.it_value.tv_usec = sample_interval_us % 1000000;
  setitimer(ITIMER_REAL, &it, NULL);
}

static void init(void) {
  static int done;
  if (done) return;
  done = 1;
  real_read = (read_t)dlsym(RTLD_NEXT, "read");
  real_write = (write_t)dlsym(RTLD_NEXT, "write");
  real_pread = (pread_t)dlsym(RTLD_NEXT, "pread64");
  real_pwrite = (pwrite_t)dlsym(RTLD_NEXT, "pwrite64");
  real_fsync = (fd_t)dlsym(RTLD_NEXT, "fsync");
  real_fdatasync = (fd_t)dlsym(RTLD_NEXT, "fdatasync");
  real_close = (fd_t)dlsym(RTLD_NEXT, "close");
  real_ftruncate = (ftrunc_t)dlsym(RTLD_NEXT, "ftruncate64");
  real_mmap = (mmap_t)dlsym(RTLD_NEXT, "mmap64");
  real_munmap = (munmap_t)dlsym(RTLD_NEXT, "munmap");
  real_msync = (msync_t)dlsym(RTLD_NEXT, "msync");
  real_lseek = (lseek_t)dlsym(RTLD_NEXT, "lseek64");
  real_open = (open_t)dlsym(RTLD_NEXT, "open64");
  real_openat = (openat_t)dlsym(RTLD_NEXT, "openat64");
  const char *s = getenv("IO_SHIM_STORM");
  if (s) {
    storm_seed = strtoull(s, NULL, 10);
    const char *c = strchr(s, ':');
    storm_permille = c ? (unsigned)atoi(c + 1) : 200;
    storm_on = 1;
  }
  s = getenv("IO_SHIM_SHORT");
  if (s) {
    short_k = atol(s);
    const char *c = strchr(s, ':');
    snprintf(short_n, sizeof short_n, "%s", c ? c + 1 : "h");
  }
  s = getenv("IO_SHIM_FIRST_READ");
  if (s) first_read_n = atol(s);
  s = getenv("IO_SHIM_FAIL");
  if (s) {
    const char *c1 = strchr(s, ':');
    if (c1 && (size_t)(c1 - s) < sizeof fail_call) {
      memcpy(fail_call, s, (size_t)(c1 - s));
      fail_k = strtol(c1 + 1, NULL, 10);
      const char *c2 = strchr(c1 + 1, ':');
      fail_errno = c2 ? atoi(c2 + 1) : EIO;
    }
  }
  fail_tracked_only = getenv("IO_SHIM_FAIL_TRACKED") != NULL;
  track_path = getenv("IO_SHIM_TRACK");
  snap_dir = getenv("IO_SHIM_SNAPDIR");
  const char *lp = getenv("IO_SHIM_LOG");
  if (track_path && lp) log_fd = real_open(lp, O_WRONLY | O_CREAT | O_TRUNC | O_CLOEXEC, 0644);
  const char *us = getenv("IO_SHIM_SAMPLE_US");
  if (log_fd >= 0 && us && atol(us) > 0) {
    const char *mx = strchr(us, ':');
    sample_interval_us = atol(us);
    sample_left = mx ? atol(mx + 1) : 40;
    struct sigaction sa;
    memset(&sa, 0, sizeof sa);
    sa.sa_handler = on_alarm;
    sa.sa_flags = SA_RESTART;
    sigaction(SIGALRM, &sa, NULL);
    arm_sample_timer();
  }
}

__attribute__((constructor)) static void ctor(void) { init(); }

/* ------------------------------------------------------------------------------------------ */
void io_shim_arm(int fd, const char *s) {
  init();
  script_len = script_pos = script_out = 0;
  armed_transferred = 0;
  while (*s) {
    while (*s == ' ') ++s;
    if (!*s) break;
    char k = *s++;
    long v = 0;
    if (k == 'd' || k == 'f') v = strtol(s, (char **)&s, 10);
    script[script_len].kind = k == 'd' ? K_DONE : k == 'i' ? K_EINTR : K_FAIL;
    script[script_len].val = v;
    if (script_len < (1 << 16) - 1) ++script_len;
  }
  armed_fd = fd;
}

long io_shim_transferred(void) { return armed_transferred; }

static ssize_t tally(ssize_t r) { if (r > 0) armed_transferred += r; return r; }

int io_shim_disarm(void) {
  armed_fd = -1;
  return script_pos | (script_out ? (1 << 30) : 0);
}

/* next outcome for a transfer of `count` bytes: returns 1 and sets *n to the (positive) number of bytes to
   really transfer, or returns 0 with *ret / errno set */
static int oracle_next(size_t count, size_t *n, ssize_t *ret) {
  if (script_pos >= script_len) { script_out = 1; errno = EIO; *ret = -1; return 0; }
  int k = script[script_pos].kind;
  long v = script[script_pos].val;
  ++script_pos;
  if (k == K_EINTR) { errno = EINTR; *ret = -1; return 0; }
  if (k == K_FAIL) { errno = (int)v; *ret = -1; return 0; }
  size_t m = (size_t)v < count ? (size_t)v : count;
  if (m == 0) { *ret = 0; return 0; }
  *n = m;
  return 1;
}

static uint64_t mix(uint64_t z) {
  z += 0x9E3779B97F4A7C15ULL;
  z = (z ^ (z >> 30)) * 0xBF58476D1CE4E5B9ULL;
  z = (z ^ (z >> 27)) * 0x94D049BB133111EBULL;
  return z ^ (z >> 31);
}

/* storm: 0 = interrupt now, otherwise the count to use */
static size_t storm_count(int fd, size_t count) {
  if (!storm_on || fd == 2 || fd < 0 || count == 0) return count;
  uint64_t r = mix(storm_seed + __sync_fetch_and_add(&storm_ctr, 1) * 0x9E3779B97F4A7C15ULL);
  if (r % 1000 >= storm_permille) return count;
  r = mix(r);
  if (r % 3 == 0) return 0;
  r = mix(r);
  size_t c = (r % 4 == 0) ? 1 : (size_t)(1 + r % count);
  return c < count ? c : count;
}

/* ------------------------------------------------------------------------------------------ */
static void snapshot(int idx) {
  if (!snap_dir || n_track == 0) return;
  int track_fd = track_fds[0];
  char name[4096];
  snprintf(name, sizeof name, "%s/%05d.img", snap_dir, idx);
  int out = real_open(name, O_WRONLY | O_CREAT | O_TRUNC | O_CLOEXEC, 0644);
  if (out < 0) return;
  static char buf[1 << 16];
  off_t off = 0;
  for (;;) {
    ssize_t g = real_pread(track_fd, buf, sizeof buf, off);
    if (g <= 0) break;
    ssize_t w = 0;
    while (w < g) {
      ssize_t x = real_write(out, buf + w, (size_t)(g - w));
      if (x <= 0) break;
      w += x;
    }
    off += g;
  }
  real_close(out);
}

static volatile int in_log;

static void logcall(const char *fmt, ...) {
  if (log_fd < 0) return;
  in_log = 1;
  int idx = trace_idx++;
  snapshot(idx);
  char line[512];
  int n = snprintf(line, sizeof line, "%d ", idx);
  va_list ap;
  va_start(ap, fmt);
  n += vsnprintf(line + n, sizeof line - (size_t)n - 2, fmt, ap);
  va_end(ap);
  line[n++] = '\n';
  real_write(log_fd, line, (size_t)n);
  in_log = 0;
}

/* IO_SHIM_SAMPLE_US=<n>: additionally snapshot the tracked file every n microseconds (instants between system calls:
   stores through the mapping are visible to nobody else) */
static void on_alarm(int sig) {
  (void)sig;
  int saved = errno;
  if (!in_log && n_track > 0) {       /* only instants at which the output file is open count (and lengthen the interval) */
    logcall("sample");
    --sample_left;
    sample_interval_us += sample_interval_us / 4 + 1;
  }
  if (sample_left > 0) arm_sample_timer();
  errno = saved;
}

static int is_tracked_path(const char *p) { return track_path && p && !strcmp(p, track_path); }

static int find_map(void *addr) {
  for (int i = 0; i < nmaps; ++i)
    if ((char *)addr >= maps[i].addr && (char *)addr < maps[i].addr + maps[i].len) return i;
  return -1;
}

/* ------------------------------------------------------------------------------------------ */
static int do_open(const char *path, int flags, mode_t mode) {
  init();
  if ((flags & O_ACCMODE) != O_RDONLY && fail_now("open", -1)) return -1;
  int fd = real_open(path, flags, mode);
  if (fd >= 0 && is_tracked_path(path) && (flags & O_ACCMODE) != O_RDONLY) {
    track_add(fd);
    logcall("open flags=%s%s", (flags & O_CREAT) ? "C" : "", (flags & O_TRUNC) ? "T" : "");
  }
  return fd;
}
int open(const char *path, int flags, ...) {
  mode_t mode = 0;
  if (flags & (O_CREAT | O_TMPFILE)) { va_list ap; va_start(ap, flags); mode = va_arg(ap, mode_t); va_end(ap); }
  return do_open(path, flags, mode);
}
int open64(const char *path, int flags, ...) {
  mode_t mode = 0;
  if (flags & (O_CREAT | O_TMPFILE)) { va_list ap; va_start(ap, flags); mode = va_arg(ap, mode_t); va_end(ap); }
  return do_open(path, flags, mode);
}
static int do_openat(int dirfd, const char *path, int flags, mode_t mode) {
  init();
  if ((flags & O_ACCMODE) != O_RDONLY && fail_now("open", -1)) return -1;
  int fd = real_openat(dirfd, path, flags, mode);
  if (fd >= 0 && dirfd == AT_FDCWD && is_tracked_path(path) && (flags & O_ACCMODE) != O_RDONLY) {
    track_add(fd);
    logcall("open flags=%s%s", (flags & O_CREAT) ? "C" : "", (flags & O_TRUNC) ? "T" : "");
  }
  return fd;
}
int openat(int dirfd, const char *path, int flags, ...) {
  mode_t mode = 0;
  if (flags & (O_CREAT | O_TMPFILE)) { va_list ap; va_start(ap, flags); mode = va_arg(ap, mode_t); va_end(ap); }
  return do_openat(dirfd, path, flags, mode);
}
int openat64(int dirfd, const char *path, int flags, ...) {
  mode_t mode = 0;
  if (flags & (O_CREAT | O_TMPFILE)) { va_list ap; va_start(ap, flags); mode = va_arg(ap, mode_t); va_end(ap); }
  return do_openat(dirfd, path, flags, mode);
}

ssize_t read(int fd, void *buf, size_t count) {
  init();
  if (fd == armed_fd) {
    size_t n; ssize_t r;
    if (!oracle_next(count, &n, &r)) return r;
    return tally(real_read(fd, buf, n));
  }
  if (fail_now("read", fd)) return -1;
  count = first_read_count(fd, count);
  size_t c = storm_count(fd, count);
  if (count && !c) { errno = EINTR; return -1; }
  return real_read(fd, buf, c);
}

ssize_t write(int fd, const void *buf, size_t count) {
  init();
  if (fd == armed_fd) {
    size_t n; ssize_t r;
    if (!oracle_next(count, &n, &r)) return r;
    return tally(real_write(fd, buf, n));
  }
  if (fail_now("write", fd)) return -1;
  if (tracked(fd)) {
    size_t sc = short_count(count);
    if (sc != count) {
      logcall("write off=%lld len=%zu short=1", (long long)real_lseek(fd, 0, SEEK_CUR), sc);
      return real_write(fd, buf, sc);
    }
    logcall("write off=%lld len=%zu", (long long)real_lseek(fd, 0, SEEK_CUR), count);
  }
  size_t c = storm_count(fd, count);
  if (count && !c) { errno = EINTR; return -1; }
  return real_write(fd, buf, c);
}

static ssize_t do_pread(int fd, void *buf, size_t count, off_t off) {
  init();
  if (fd == armed_fd) {
    size_t n; ssize_t r;
    if (!oracle_next(count, &n, &r)) return r;
    return tally(real_pread(fd, buf, n, off));
  }
  if (fail_now("pread", fd)) return -1;
  size_t c = storm_count(fd, count);
  if (count && !c) { errno = EINTR; return -1; }
  return real_pread(fd, buf, c, off);
}
ssize_t pread(int fd, void *buf, size_t count, off_t off) { return do_pread(fd, buf, count, off); }
ssize_t pread64(int fd, void *buf, size_t count, off_t off) { return do_pread(fd, buf, count, off); }

static ssize_t do_pwrite(int fd, const void *buf, size_t count, off_t off) {
  init();
  if (fd == armed_fd) {
    size_t n; ssize_t r;
    if (!oracle_next(count, &n, &r)) return r;
    return tally(real_pwrite(fd, buf, n, off));
  }
  if (fail_now("pwrite", fd)) return -1;
  if (tracked(fd)) {
    size_t sc = short_count(count);
    if (sc != count) {
      logcall("write off=%lld len=%zu short=1", (long long)off, sc);
      return real_pwrite(fd, buf, sc, off);
    }
    logcall("write off=%lld len=%zu", (long long)off, count);
  }
  size_t c = storm_count(fd, count);
  if (count && !c) { errno = EINTR; return -1; }
  return real_pwrite(fd, buf, c, off);
}
ssize_t pwrite(int fd, const void *buf, size_t count, off_t off) { return do_pwrite(fd, buf, count, off); }
ssize_t pwrite64(int fd, const void *buf, size_t count, off_t off) { return do_pwrite(fd, buf, count, off); }

static int single(int fd, int *ret) {
  size_t n; ssize_t r;
  if (fd != armed_fd) return 0;
  if (oracle_next(1, &n, &r)) return 0;           /* Done n>0: perform the real call */
  if (r == 0) return 0;                            /* Done 0: still "success" for a call without a length */
  *ret = -1;
  return 1;
}

int fsync(int fd) {
  init();
  int ret;
  if (single(fd, &ret)) return ret;
  if ((!fail_tracked_only || (tracked(fd))) && fail_now("fsync", fd)) {
    int e = errno;
    if (tracked(fd)) logcall("fsync fail=%d", e);   /* a failed sync forces nothing to stable storage */
    errno = e;
    return -1;
  }
  if (tracked(fd)) logcall("fsync");
  return real_fsync(fd);
}
int fdatasync(int fd) {
  init();
  int ret;
  if (single(fd, &ret)) return ret;
  if (tracked(fd)) logcall("fsync");
  return real_fdatasync(fd);
}

static int do_ftruncate(int fd, off_t len) {
  init();
  int ret;
  if (single(fd, &ret)) return ret;
  if (fail_now("ftruncate", fd)) return -1;
  if (tracked(fd)) logcall("ftruncate len=%lld", (long long)len);
  return real_ftruncate(fd, len);
}
int ftruncate(int fd, off_t len) { return do_ftruncate(fd, len); }
int ftruncate64(int fd, off_t len) { return do_ftruncate(fd, len); }

static void *do_mmap(void *addr, size_t len, int prot, int flags, int fd, off_t off) {
  init();
  if (fd > 2 && fail_now("mmap", fd)) return MAP_FAILED;
  if (tracked(fd) && (flags & MAP_SHARED) && (prot & PROT_WRITE))
    logcall("mmap off=%lld len=%zu", (long long)off, len);
  void *r = real_mmap(addr, len, prot, flags, fd, off);
  if (r != MAP_FAILED && tracked(fd) && (flags & MAP_SHARED) && (prot & PROT_WRITE) && nmaps < 64) {
    maps[nmaps].addr = (char *)r; maps[nmaps].len = len; maps[nmaps].off = off; ++nmaps;
  }
  return r;
}
void *mmap(void *addr, size_t len, int prot, int flags, int fd, off_t off) { return do_mmap(addr, len, prot, flags, fd, off); }
void *mmap64(void *addr, size_t len, int prot, int flags, int fd, off_t off) { return do_mmap(addr, len, prot, flags, fd, off); }

int munmap(void *addr, size_t len) {
  init();
  int i = find_map(addr);
  if (i >= 0) {
    logcall("munmap off=%lld len=%zu", (long long)(maps[i].off + ((char *)addr - maps[i].addr)), len);
    maps[i] = maps[--nmaps];
  }
  return real_munmap(addr, len);
}

int msync(void *addr, size_t len, int flags) {
  init();
  int i = find_map(addr);
  if ((!fail_tracked_only || i >= 0) && fail_now("msync", -1)) {
    int e = errno;
    if (i >= 0) logcall("msync off=%lld len=%zu fail=%d", (long long)(maps[i].off + ((char *)addr - maps[i].addr)), len, e);
    errno = e;
    return -1;
  }
  if (i >= 0) logcall("msync off=%lld len=%zu", (long long)(maps[i].off + ((char *)addr - maps[i].addr)), len);
  return real_msync(addr, len, flags);
}

int close(int fd) {
  init();
  if (tracked(fd)) {
    logcall("close");
    track_del(fd);
  }
  if (fd == armed_fd) armed_fd = -1;
  if (fd >= 0 && fd < (int)sizeof first_read_done) first_read_done[fd] = 0;
  return real_close(fd);
}
