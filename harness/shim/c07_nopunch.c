/* c07_nopunch.c -- LD_PRELOAD shim used by the C07 and C16 checks (lives in /verif, not in kenlm).
 * A temporary directory on a file system that cannot punch holes (NFS before 4.2, ext2/ext3, vfat, many FUSE file systems):
 * fallocate(FALLOC_FL_PUNCH_HOLE) fails with EOPNOTSUPP there.  kenlm's sort only uses hole punching to give disk space back
 * early (util::HolePunch, failure deliberately ignored), so its output must not depend on it. */
#define _GNU_SOURCE
#include <dlfcn.h>
#include <errno.h>
#include <fcntl.h>
#include <sys/types.h>
#ifndef FALLOC_FL_PUNCH_HOLE
#define FALLOC_FL_PUNCH_HOLE 0x02
#endif
typedef int (*fallocate_fn)(int, int, off_t, off_t);
static int deny(int fd, int mode, off_t offset, off_t len, const char *name) {
  if (mode & FALLOC_FL_PUNCH_HOLE) { errno = EOPNOTSUPP; return -1; }
  return ((fallocate_fn)dlsym(RTLD_NEXT, name))(fd, mode, offset, len);
}
int fallocate(int fd, int mode, off_t offset, off_t len) { return deny(fd, mode, offset, len, "fallocate"); }
int fallocate64(int fd, int mode, off_t offset, off_t len) { return deny(fd, mode, offset, len, "fallocate64"); }
