#!/usr/bin/env python3
"""seed_keep.py <prop> <source dir> <name>: confirm a seeded change (seed_verify.sh), run the property's check against it
(seed_test.sh), and keep it as /verif/seeded/<name>/ (patch.diff, the demonstration, meta.json)."""
import glob, json, os, re, shutil, subprocess, sys
prop, src, name = sys.argv[1:4]
seeds = sys.argv[4:] or ["1"]
root = os.path.dirname(os.path.dirname(os.path.abspath(__file__)))
v = subprocess.run([os.path.join(root, "harness", "seed_verify.sh"), src], capture_output=True, text=True).stdout.strip().split("\n")[-1]
m = re.search(r"ctest_pass=(\d) demo_with_change_rc=(\d+) demo_without_change_rc=(\d+)", v)
ok = bool(m) and m.group(1) == "1" and m.group(2) != "0" and m.group(3) == "0"
print("verify:", v, "->", "confirmed" if ok else "NOT CONFIRMED")
if not ok:
    sys.exit(1)
caught, sigs = False, []
out = ""
for seed in seeds:
    t = subprocess.run([os.path.join(root, "harness", "seed_test.sh"), prop, os.path.join(src, "patch.diff"), seed], capture_output=True, text=True)
    out = t.stdout
    vio = [l for l in out.split("\n") if l.startswith("VIOLATION")]
    for l in vio:
        rp = l.split("replay=")[1].split()[0]
        try:
            o = json.load(open(rp))
            sigs.append({"signature": o["signature"], "what": o["what"][:300], "failing_input_found": o["failing_input_found"]})
        except Exception:
            pass
    if vio:
        caught = True
        break
dst = os.path.join(root, "seeded", name)
os.makedirs(dst, exist_ok=True)
for f in os.listdir(src):
    p = os.path.join(src, f)
    if os.path.isfile(p) and os.path.getsize(p) < 600000:
        shutil.copy(p, dst)
    elif os.path.isdir(p) and sum(os.path.getsize(x) for x in glob.glob(p + "/**", recursive=True) if os.path.isfile(x)) < 600000:
        shutil.copytree(p, os.path.join(dst, f), dirs_exist_ok=True)
readme = open(os.path.join(src, "README.md")).read() if os.path.exists(os.path.join(src, "README.md")) else ""
meta = {"property": prop, "origin": "independent sub-agent given only the property text and a scratch worktree",
        "needs_to_manifest": (re.search(r"(?is)(needs?|manifest).{0,1200}", readme).group(0)[:1200] if re.search(r"(?is)(needs?|manifest)", readme) else "see README.md"),
        "confirmed": {"applies_and_builds": True, "ctest_passes_with_change": True, "demo_fails_with_change": True, "demo_passes_without_change": True,
                      "how": "harness/seed_verify.sh (two scratch worktrees under /var/tmp, full build with tests, run.sh against both builds)"},
        "check_run": "harness/seed_test.sh %s seeded/%s/patch.diff (quick tier, VERIF_SEED in %s) on a scratch worktree" % (prop, name, seeds),
        "caught_by_check": caught, "reported": sigs[:8]}
json.dump(meta, open(os.path.join(dst, "meta.json"), "w"), indent=1)
print("kept", dst, "caught" if caught else "MISSED", [s["signature"] for s in sigs[:4]])
