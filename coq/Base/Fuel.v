(* Base/Fuel.v -- loops of translated code: a step function st -> st * bool (new state, continue?)
   run with explicit fuel; None = out of fuel (a distinct error every theorem must exclude). *)
From Coq Require Import ZArith Lia.

Section While.
  Context {St : Type}.
  Variable step : St -> St * bool.
  Fixpoint while_fuel (fuel : nat) (st : St) : option St :=
    match fuel with
    | O => None
    | S f => let '(st', continue) := step st in if continue then while_fuel f st' else Some st'
    end.

  (* iterate a total step n times *)
  Fixpoint iter (n : nat) (f : St -> St) (st : St) : St :=
    match n with O => st | S k => iter k f (f st) end.

  Lemma while_fuel_mono : forall f1 f2 st r, (f1 <= f2)%nat -> while_fuel f1 st = Some r -> while_fuel f2 st = Some r.
  Proof.
    induction f1 as [|f1 IH]; intros f2 st r Hle H; [discriminate|].
    destruct f2 as [|f2]; [lia|]. simpl in *. destruct (step st) as [st' c]. destruct c; [|exact H].
    apply IH; [lia|exact H].
  Qed.
End While.
