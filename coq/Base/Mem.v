(* Base/Mem.v -- machine words and memory for the translator-generated definitions.
   A memory is one non-negative Z read as a little-endian bit string: byte a = bits [8a, 8a+8).
   (x86-64 only; the BIG_ENDIAN / __arm__ branches of the sources are out of scope.) *)
From Coq Require Import ZArith Lia Bool.
Local Open Scope Z_scope.
Arguments Z.ones : simpl never.
Arguments Z.testbit : simpl never.
Arguments Z.shiftl : simpl never.
Arguments Z.shiftr : simpl never.
Arguments Z.land : simpl never.
Arguments Z.lor : simpl never.
Arguments Z.ldiff : simpl never.
Arguments Z.mul : simpl never.
Arguments Z.add : simpl never.
Arguments Z.sub : simpl never.
Arguments Z.pow : simpl never.

Definition wrap (w x : Z) : Z := x mod 2 ^ w.
Definition swrap (w x : Z) : Z := (x + 2 ^ (w - 1)) mod 2 ^ w - 2 ^ (w - 1).

Definition loadw (w mem a : Z) : Z := Z.land (Z.shiftr mem (8 * a)) (Z.ones w).
Definition storew (w mem a v : Z) : Z :=
  Z.lor (Z.ldiff mem (Z.shiftl (Z.ones w) (8 * a))) (Z.shiftl (Z.land v (Z.ones w)) (8 * a)).

Definition load8 := loadw 8.   Definition store8 := storew 8.
Definition load16 := loadw 16. Definition store16 := storew 16.
Definition load32 := loadw 32. Definition store32 := storew 32.
Definition load64 := loadw 64. Definition store64 := storew 64.

Lemma wrap_small : forall w x, 0 <= x < 2 ^ w -> wrap w x = x.
Proof. intros. unfold wrap. apply Z.mod_small. assumption. Qed.

Lemma wrap_range : forall w x, 0 <= w -> 0 <= wrap w x < 2 ^ w.
Proof. intros. unfold wrap. apply Z.mod_pos_bound. apply Z.pow_pos_nonneg; lia. Qed.

Lemma wrap_land_ones : forall w x, 0 <= w -> wrap w x = Z.land x (Z.ones w).
Proof. intros. unfold wrap. rewrite Z.land_ones by lia. reflexivity. Qed.

Lemma testbit_ones : forall n i, 0 <= n -> 0 <= i -> Z.testbit (Z.ones n) i = (i <? n).
Proof.
  intros n i Hn Hi. destruct (Z.ltb_spec i n).
  - apply Z.ones_spec_low; lia.
  - apply Z.ones_spec_high; lia.
Qed.

Lemma wrap_bit : forall w x i, 0 <= w -> 0 <= i -> Z.testbit (wrap w x) i = Z.testbit x i && (i <? w).
Proof. intros. rewrite wrap_land_ones, Z.land_spec, testbit_ones by lia. reflexivity. Qed.

Lemma loadw_bit : forall w mem a i, 0 <= w -> 0 <= a -> 0 <= i ->
  Z.testbit (loadw w mem a) i = Z.testbit mem (i + 8 * a) && (i <? w).
Proof. intros. unfold loadw. rewrite Z.land_spec, Z.shiftr_spec, testbit_ones by lia. reflexivity. Qed.

Lemma storew_bit : forall w mem a v i, 0 <= w -> 0 <= a -> 0 <= i ->
  Z.testbit (storew w mem a v) i =
  if (8 * a <=? i) && (i <? 8 * a + w) then Z.testbit v (i - 8 * a) else Z.testbit mem i.
Proof.
  intros w mem a v i Hw Ha Hi. unfold storew. rewrite Z.lor_spec, Z.ldiff_spec.
  do 2 rewrite Z.shiftl_spec by lia. rewrite Z.land_spec.
  destruct (Z.leb_spec (8 * a) i) as [H1|H1]; simpl.
  - rewrite !testbit_ones by lia.
    destruct (Z.ltb_spec i (8 * a + w)); destruct (Z.ltb_spec (i - 8 * a) w); try lia; simpl.
    + rewrite andb_false_r, andb_true_r. reflexivity.
    + rewrite andb_true_r, andb_false_r, orb_false_r. reflexivity.
  - rewrite !(Z.testbit_neg_r _ (i - 8 * a)) by lia. simpl.
    rewrite andb_true_r, orb_false_r. reflexivity.
Qed.

Lemma loadw_range : forall w mem a, 0 <= w -> 0 <= loadw w mem a < 2 ^ w.
Proof.
  intros. unfold loadw. rewrite Z.land_ones by lia. apply Z.mod_pos_bound. apply Z.pow_pos_nonneg; lia.
Qed.

Lemma storew_nonneg : forall w mem a v, 0 <= mem -> 0 <= w -> 0 <= a -> 0 <= storew w mem a v.
Proof.
  intros. unfold storew. apply Z.lor_nonneg. split.
  - apply Z.ldiff_nonneg. left. assumption.
  - apply Z.shiftl_nonneg. apply Z.land_nonneg. right. rewrite Z.ones_equiv. pose proof (Z.pow_pos_nonneg 2 w ltac:(lia) ltac:(lia)). lia.
Qed.

(* a value below 2^len has no bits at or above len *)
Lemma small_no_high_bits : forall v len i, 0 <= len -> 0 <= v < 2 ^ len -> len <= i -> Z.testbit v i = false.
Proof.
  intros v len i Hl Hv Hi. destruct (Z.eq_dec v 0) as [->|Hn]; [apply Z.bits_0|].
  apply Z.bits_above_log2; [lia|]. apply Z.log2_lt_pow2; [lia|].
  apply Z.lt_le_trans with (2 ^ len); [lia|]. apply Z.pow_le_mono_r; lia.
Qed.

(* bytes view, used to exchange memories with the implementation drivers *)
Fixpoint Z_of_bytes (l : list Z) : Z :=
  match l with nil => 0 | cons b r => Z.lor (Z.land b 255) (Z.shiftl (Z_of_bytes r) 8) end.
Fixpoint bytes_of_Z (n : nat) (m : Z) : list Z :=
  match n with O => nil | S k => cons (Z.land m 255) (bytes_of_Z k (Z.shiftr m 8)) end.
