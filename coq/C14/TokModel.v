(* C14 -- executable model of the two tokenisers and of the Python module's scoring loops.
   No proofs in this file.

   python/kenlm.pyx          Model.score / full_scores / perplexity (slow path: bytes.split())
   python/score_sentence.cc  lm::base::ScoreSentence (fast path: util::TokenIter<BoolCharacter,true>
                             over util::kSpaces on a C string)
   util/tokenize_piece.hh    BoolCharacter::Find, TokenIter::operator++
   lm/facade.hh              BaseScore = FullScore(...).prob, BaseFullScore = FullScore(...)      *)
From Coq Require Import List NArith Bool.
From Kenlm Require Import Gen.Spaces.
Import ListNotations.
Local Open Scope N_scope.

(* a byte is an N; every definition below is total on N and the tables answer false above 255 *)
Definition kSpaces (b : N) : bool := nth (N.to_nat b) kSpaces_table false.

(* CPython Py_ISSPACE on bytes: \t \n \v \f \r and space *)
Definition is_py_space (b : N) : bool :=
  (b =? 9) || (b =? 10) || (b =? 11) || (b =? 12) || (b =? 13) || (b =? 32).

(* bytes.split() without arguments: the maximal runs of non-whitespace bytes, in order.
   cur = the current run, reversed. *)
(* List.rev of the standard library is quadratic; the executable model uses the linear one (fast_rev_eq: the same list) *)
Definition fast_rev (l : list N) : list N := rev_append l [].
Fixpoint split_gen (sp : N -> bool) (s : list N) (cur : list N) : list (list N) :=
  match s with
  | [] => match cur with [] => [] | _ => [fast_rev cur] end
  | c :: r => if sp c
              then match cur with [] => split_gen sp r [] | _ => fast_rev cur :: split_gen sp r [] end
              else split_gen sp r (c :: cur)
  end.
Definition split_py (s : list N) : list (list N) := split_gen is_py_space s [].

(* ---- util::TokenIter<util::BoolCharacter, true>, line by line -------------------------------- *)
(* BoolCharacter::Find(in): (bytes before the first delimiter, Some rest-after-it | None when no
   delimiter occurs: the returned piece then sits at in.data()+in.size()) *)
Fixpoint find (sp : N -> bool) (s : list N) : list N * option (list N) :=
  match s with
  | [] => ([], None)
  | c :: r => if sp c then ([], Some r) else let '(t, a) := find sp r in (c :: t, a)
  end.

(* one pass through the body of operator++'s do-loop.  A StringPiece with data()==NULL is None.
   after_ = NULL: Find over the empty range returns (NULL,0), current_ = (NULL,0), after_ stays NULL. *)
Definition step_iter (sp : N -> bool) (after : option (list N)) : option (list N) * option (list N) :=
  match after with
  | None => (None, None)
  | Some s => let '(t, a) := find sp s in (Some t, a)
  end.

(* do { ... } while (SkipEmpty && current_.data() && current_.empty());   None = out of fuel *)
Fixpoint incr (sp : N -> bool) (fuel : nat) (after : option (list N))
  : option (option (list N) * option (list N)) :=
  match fuel with
  | O => None
  | S f => let '(cur, a) := step_iter sp after in
           match cur with
           | Some [] => incr sp f a
           | _ => Some (cur, a)
           end
  end.

Definition after_len (a : option (list N)) : nat := match a with None => O | Some s => S (length s) end.
Definition incr_f sp (after : option (list N)) := incr sp (S (after_len after)) after.

(* for (TokenIter i(s, kSpaces); i; ++i) yield *i;       None = out of fuel *)
Fixpoint collect (sp : N -> bool) (fuel : nat) (cur after : option (list N)) : option (list (list N)) :=
  match fuel with
  | O => None
  | S f => match cur with
           | None => Some []
           | Some t => match incr_f sp after with
                       | None => None
                       | Some (cur', a') => option_map (cons t) (collect sp f cur' a')
                       end
           end
  end.

Definition token_iter (sp : N -> bool) (s : list N) : option (list (list N)) :=
  match incr_f sp (Some s) with          (* the constructor runs ++*this once *)
  | None => None
  | Some (cur, a) => collect sp (S (S (length s))) cur a
  end.

Definition split_kspaces (s : list N) : option (list (list N)) := token_iter kSpaces s.

(* a bytes object handed to a `const char *` parameter is read up to its first NUL *)
Fixpoint cstr (s : list N) : list N :=
  match s with [] => [] | c :: r => if c =? 0 then [] else c :: cstr r end.

(* ---- the scoring loops over an abstract model --------------------------------------------------- *)
Section Scoring.
  Variables State Score : Type.
  Variable zero : Score.
  Variable add : Score -> Score -> Score.              (* float += : no algebraic law is assumed *)
  Variables begin_state null_state : State.
  Variable index : list N -> N.                        (* Vocabulary::Index(StringPiece); 0 = <unk> *)
  Variable eos : N.                                    (* Vocabulary::EndSentence() *)
  Variable full_score : State -> N -> Score * nat * State.    (* typed FullScore: prob, ngram_length, out_state *)

  (* lm/facade.hh: the virtual calls forward to the typed ones *)
  Definition base_full_score (st : State) (w : N) : Score * nat * State := full_score st w.
  Definition base_score (st : State) (w : N) : Score * State :=
    let '(p, _, st') := full_score st w in (p, st').

  (* _kenlm.pxd declares `WordIndex Index(char *p)`: a bytes token handed over by the .pyx is looked up as the
     C string it starts with (F7b); ScoreSentence looks up StringPieces *)
  Definition index_c (t : list N) : N := index (cstr t).

  (* ret += model->BaseScore(state, index, state2); swap(state, state2) *)
  Fixpoint score_words (idx : list N -> N) (toks : list (list N)) (st : State) (acc : Score) : Score * State :=
    match toks with
    | [] => (acc, st)
    | t :: r => let '(p, st') := base_score st (idx t) in score_words idx r st' (add acc p)
    end.

  (* python/score_sentence.cc *)
  Definition score_sentence (sentence : list N) : option Score :=
    match split_kspaces sentence with
    | None => None
    | Some toks => let '(acc, st) := score_words index toks begin_state zero in
                   Some (add acc (fst (base_score st eos)))
    end.

  Definition start (bos : bool) : State := if bos then begin_state else null_state.

  (* kenlm.pyx Model.score *)
  Definition score (sentence : list N) (bos eos_flag : bool) : option Score :=
    if bos && eos_flag then score_sentence (cstr sentence)
    else let '(acc, st) := score_words index_c (split_py sentence) (start bos) zero in
         Some (if eos_flag then add acc (fst (base_score st eos)) else acc).

  (* kenlm.pyx Model.full_scores: yields (prob, ngram_length, oov) *)
  Fixpoint full_words (toks : list (list N)) (st : State) : list (Score * nat * bool) * State :=
    match toks with
    | [] => ([], st)
    | t :: r => let wid := index_c t in
                let '(p, len, st') := base_full_score st wid in
                let '(l, st'') := full_words r st' in ((p, len, wid =? 0) :: l, st'')
    end.
  Definition full_scores (sentence : list N) (bos eos_flag : bool) : list (Score * nat * bool) :=
    let '(l, st) := full_words (split_py sentence) (start bos) in
    if eos_flag then let '(p, len, _) := base_full_score st eos in l ++ [(p, len, false)] else l.

  (* Python's sum(), left to right, starting from zero *)
  Definition sum_probs (l : list (Score * nat * bool)) : Score :=
    fold_left (fun a x => add a (fst (fst x))) l zero.

  (* kenlm.pyx Model.perplexity = 10.0 ** (-score(sentence) / words): the two arguments of the formula *)
  Definition perplexity_args (sentence : list N) : option Score * nat :=
    (score sentence true true, S (length (split_py sentence))).

  (* the stateful API as example.py uses it: two State objects swapped after every word *)
  Fixpoint stateful_loop (words : list (list N)) (st_in st_out : State) (acc : Score) : Score * State * State :=
    match words with
    | [] => (acc, st_in, st_out)
    | w :: r => let '(p, out') := base_score st_in (index_c w) in
                (* out_state now holds out'; state, out_state = out_state, state *)
                stateful_loop r out' st_in (add acc p)
    end.
  Definition stateful_total (words : list (list N)) (bos eos_flag : bool) : Score :=
    let '(acc, st, _) := stateful_loop words (start bos) null_state zero in
    if eos_flag then add acc (fst (base_score st eos)) else acc.
End Scoring.

(* ---- LoadVirtual: which typed class serves a file (lm/model.cc:328-346) ----------------------------- *)
Inductive model_class := ProbingC | RestProbingC | TrieC | QuantTrieC | ArrayTrieC | QuantArrayTrieC.
Definition type_code (c : model_class) : N :=
  match c with ProbingC => 0 | RestProbingC => 1 | TrieC => 2 | QuantTrieC => 3 | ArrayTrieC => 4 | QuantArrayTrieC => 5 end.
(* recognised = Some header.model_type for a binary file, None for ARPA text; requested = the caller's default *)
Definition load_virtual (recognised : option N) (requested : N) : option model_class :=
  let t := match recognised with Some t => t | None => requested end in
  match t with
  | 0 => Some ProbingC | 1 => Some RestProbingC | 2 => Some TrieC
  | 3 => Some QuantTrieC | 4 => Some ArrayTrieC | 5 => Some QuantArrayTrieC
  | _ => None          (* FormatLoadException "Confused by model type" *)
  end.
