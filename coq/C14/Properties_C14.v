(* C14 -- the property theorems and nothing else.  Each is closed by `exact <lemma>`; vlib runs
   Print Assumptions on every one of them on every check run.
   Scores are an abstract type with an abstract, law-free `add` (float +=): equalities below are
   therefore equalities of the very same sequence of additions, i.e. bit-equal float totals. *)
From Coq Require Import List NArith Bool ZArith.
From Kenlm Require Import Gen.Spaces C14.TokModel C14.TokProofs.
Import ListNotations.
Local Open Scope N_scope.

(* util::kSpaces (regenerated from util/spaces.cc on every run) marks exactly the bytes Python's
   bytes.split() treats as whitespace; above 255 both answer false. *)
Theorem C14_kspaces_is_py_whitespace : forall b, kSpaces b = is_py_space b.
Proof. exact kspaces_is_py_whitespace. Qed.

(* TokenIter<BoolCharacter,true> never runs out of fuel and, on a byte string without NUL handed over as
   a C string, yields exactly the tokens of bytes.split(). *)
Theorem C14_tokenisers_agree : forall s, ~ In 0 s -> split_kspaces (cstr s) = Some (split_py s).
Proof. exact tokenisers_agree. Qed.

(* score() equals the left-to-right sum of the probabilities full_scores() yields, for all four bos/eos
   combinations (the fast path is taken for bos && eos), any model, any vocabulary, any NUL-free bytes. *)
Theorem C14_score_is_sum_of_full_scores :
  forall (State Score : Type) (zero : Score) (add : Score -> Score -> Score) (begin_state null_state : State)
         (index : list N -> N) (eos : N) (full_score : State -> N -> Score * nat * State)
         (s : list N) (bos eos_flag : bool),
  ~ In 0 s ->
  score State Score zero add begin_state null_state index eos full_score s bos eos_flag
  = Some (sum_probs Score zero add (full_scores State Score begin_state null_state index eos full_score s bos eos_flag)).
Proof. exact score_is_sum_of_full_scores. Qed.

(* the total accumulated through the stateful API (BaseScore over two swapped State objects) is score() *)
Theorem C14_stateful_total_is_score :
  forall (State Score : Type) (zero : Score) (add : Score -> Score -> Score) (begin_state null_state : State)
         (index : list N -> N) (eos : N) (full_score : State -> N -> Score * nat * State)
         (s : list N) (bos eos_flag : bool),
  ~ In 0 s ->
  Some (stateful_total State Score zero add begin_state null_state index eos full_score (split_py s) bos eos_flag)
  = score State Score zero add begin_state null_state index eos full_score s bos eos_flag.
Proof. exact stateful_is_score. Qed.

(* perplexity = 10 ** (-(a / n)) with a = the sum of the per-word log probabilities including </s> and
   n = their number *)
Theorem C14_perplexity :
  forall (State Score : Type) (zero : Score) (add : Score -> Score -> Score) (begin_state null_state : State)
         (index : list N -> N) (eos : N) (full_score : State -> N -> Score * nat * State) (s : list N),
  ~ In 0 s ->
  perplexity_args State Score zero add begin_state null_state index eos full_score s
  = (Some (sum_probs Score zero add (full_scores State Score begin_state null_state index eos full_score s true true)),
     length (full_scores State Score begin_state null_state index eos full_score s true true)).
Proof. exact perplexity_spec. Qed.

(* the OOV flag of every yielded word of a NUL-free sentence is "typed vocabulary id = 0", in sentence order *)
Theorem C14_oov_flags :
  forall (State Score : Type) (begin_state null_state : State) (index : list N -> N) (eos : N)
         (full_score : State -> N -> Score * nat * State) (s : list N) (bos : bool),
  ~ In 0 s ->
  map (fun x => snd x) (full_scores State Score begin_state null_state index eos full_score s bos false)
  = map (fun t => index t =? 0) (split_py s).
Proof. exact oov_flags. Qed.

(* F7b (confirmed, listed): a word containing a NUL byte is looked up through `Index(char* )`, i.e. as its prefix *)
Theorem C14_nul_word_refuted :
  map (fun x => snd x) (full_scores unit Z tt tt dot_index 2 unit_full_score [46; 0] true false)
  <> map (fun t => dot_index t =? 0) (split_py [46; 0]).
Proof. exact nul_word_refuted. Qed.

(* F7 (confirmed on the built extension, listed in known_findings.jsonl): with a NUL byte in the
   sentence the claim "score = sum of full_scores" is FALSE for bos = eos = True ... *)
Theorem C14_nul_sentence_refuted :
  score unit Z 0%Z Z.add tt tt (fun _ => 1) 2 unit_full_score nul_sentence true true
  <> Some (sum_probs Z 0%Z Z.add (full_scores unit Z tt tt (fun _ => 1) 2 unit_full_score nul_sentence true true)).
Proof. exact nul_sentence_refuted. Qed.

(* ... what does hold for every byte string: the fast path scores the prefix before the first NUL *)
Theorem C14_fast_path_scores_c_string_prefix :
  forall (State Score : Type) (zero : Score) (add : Score -> Score -> Score) (begin_state null_state : State)
         (index : list N -> N) (eos : N) (full_score : State -> N -> Score * nat * State) (s : list N),
  score State Score zero add begin_state null_state index eos full_score s true true
  = Some (sum_probs Score zero add (full_scores State Score begin_state null_state index eos full_score (cstr s) true true)).
Proof. exact score_fast_path_is_prefix. Qed.

(* LoadVirtual serves a file with the class whose kModelType is the header's type (the caller's default for
   ARPA text), and succeeds for each of the six types *)
Theorem C14_virtual_dispatch : forall recognised requested c,
  load_virtual recognised requested = Some c ->
  type_code c = match recognised with Some t => t | None => requested end.
Proof. exact load_virtual_dispatch. Qed.

Theorem C14_virtual_dispatch_total : forall c recognised requested,
  match recognised with Some t => t | None => requested end = type_code c ->
  load_virtual recognised requested = Some c.
Proof. exact load_virtual_total_on_types. Qed.
