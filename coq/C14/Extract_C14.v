(* Extraction of the C14 executable model (ExtrOcamlBasic only; N/positive/nat stay inductive types). *)
From Coq Require Import NArith ZArith List Extraction ExtrOcamlBasic.
From Kenlm Require Import Gen.Spaces C14.TokModel.
Extraction Language OCaml.
Extraction "extracted/c14_model.ml"
  kSpaces is_py_space split_py split_kspaces cstr score full_scores sum_probs perplexity_args stateful_total load_virtual type_code
  Z.of_N Z.to_N.   (* Z is needed by the shared driver glue (ocaml/zio.ml.inc) *)
