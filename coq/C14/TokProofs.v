(* C14 -- proofs about the tokenisers and the scoring loops of TokModel.v *)
From Coq Require Import List NArith Bool Lia Arith ZArith.
From Kenlm Require Import Gen.Spaces C14.TokModel.
Import ListNotations.
Local Open Scope N_scope.

(* ---- the table: a genuinely finite sweep ----------------------------------------------------------- *)
Definition all_bytes : list N := map N.of_nat (seq 0 256).

Lemma table_length : length kSpaces_table = 256%nat.
Proof. vm_compute. reflexivity. Qed.

Lemma sweep : forallb (fun b => Bool.eqb (kSpaces b) (is_py_space b)) all_bytes = true.
Proof. vm_compute. reflexivity. Qed.

Lemma in_all_bytes : forall b, b < 256 -> In b all_bytes.
Proof.
  intros b H. unfold all_bytes. rewrite <- (N2Nat.id b). apply in_map. apply in_seq. lia.
Qed.

Lemma kspaces_is_py_whitespace : forall b, kSpaces b = is_py_space b.
Proof.
  intros b. destruct (N.ltb_spec b 256) as [Hlt|Hge].
  - pose proof sweep as H. rewrite forallb_forall in H. specialize (H b (in_all_bytes b Hlt)).
    apply Bool.eqb_prop in H. exact H.
  - unfold kSpaces. rewrite nth_overflow by (rewrite table_length; lia).
    unfold is_py_space. symmetry.
    repeat (apply orb_false_intro); apply N.eqb_neq; lia.
Qed.

Lemma fast_rev_eq : forall l, fast_rev l = rev l.
Proof. intros l. unfold fast_rev. symmetry. apply rev_alt. Qed.
Arguments fast_rev : simpl never.

(* ---- TokenIter never runs out of fuel and yields the maximal runs --------------------------------- *)
Section Tok.
  Variable sp : N -> bool.

  (* skip delimiters, then one Find *)
  Fixpoint next (s : list N) : option (list N) * option (list N) :=
    match s with
    | [] => (None, None)
    | c :: r => if sp c then next r else let '(t, a) := find sp s in (Some t, a)
    end.

  Lemma incr_none : forall fuel, (1 <= fuel)%nat -> incr sp fuel None = Some (None, None).
  Proof. intros [|f] H; [lia|reflexivity]. Qed.

  Lemma incr_next : forall s fuel, (length s + 2 <= fuel)%nat -> incr sp fuel (Some s) = Some (next s).
  Proof.
    induction s as [|c r IH]; intros fuel H.
    - destruct fuel as [|f]; [simpl in H; lia|]. simpl. apply incr_none. simpl in H. lia.
    - destruct fuel as [|f]; [simpl in H; lia|]. simpl. destruct (sp c) eqn:E.
      + apply IH. simpl in H. lia.
      + destruct (find sp r) as [t a]. reflexivity.
  Qed.

  Lemma incr_f_some : forall s, incr_f sp (Some s) = Some (next s).
  Proof. intros s. unfold incr_f. apply incr_next. simpl. lia. Qed.
  Lemma incr_f_none : incr_f sp None = Some (None, None).
  Proof. reflexivity. Qed.

  Definition G (s : list N) (cur : list N) := split_gen sp s cur.
  Definition rest (a : option (list N)) : list (list N) := match a with None => [] | Some r => G r [] end.
  Definition emit (t : list N) (l : list (list N)) := match t with [] => l | _ => t :: l end.

  Lemma emit_rev_cons : forall c cur l, emit (rev (c :: cur)) l = rev (c :: cur) :: l.
  Proof.
    intros c cur l. simpl. destruct (rev cur ++ [c]) eqn:E; [|reflexivity].
    apply app_eq_nil in E. destruct E as [_ E]. discriminate.
  Qed.

  Lemma G_find : forall s cur t a, find sp s = (t, a) -> G s cur = emit (rev cur ++ t) (rest a).
  Proof.
    induction s as [|c r IH]; intros cur t a H; simpl in H.
    - inversion H; subst. simpl. rewrite app_nil_r. unfold G. simpl. rewrite ?fast_rev_eq.
      destruct cur as [|x cur]; [reflexivity|]. rewrite emit_rev_cons. reflexivity.
    - unfold G. simpl. rewrite ?fast_rev_eq. destruct (sp c) eqn:E.
      + inversion H; subst. rewrite app_nil_r. simpl.
        destruct cur as [|x cur]; [reflexivity|]. rewrite emit_rev_cons. reflexivity.
      + destruct (find sp r) as [t' a'] eqn:F. inversion H; subst.
        fold (G r (c :: cur)). rewrite (IH (c :: cur) t' a eq_refl). simpl. rewrite <- app_assoc. reflexivity.
  Qed.

  Lemma find_after_len : forall s t a, find sp s = (t, a) -> (after_len a <= length s)%nat.
  Proof.
    induction s as [|c r IH]; intros t a H; simpl in H.
    - inversion H; subst. simpl. lia.
    - destruct (sp c).
      + inversion H; subst. simpl. lia.
      + destruct (find sp r) as [t' a'] eqn:F. inversion H; subst. specialize (IH _ _ eq_refl). simpl. lia.
  Qed.

  (* what one increment delivers, relative to the reference splitter *)
  Lemma next_spec : forall s,
    match next s with
    | (None, a) => a = None /\ G s [] = []
    | (Some t, a) => t <> [] /\ G s [] = t :: rest a /\ (after_len a <= length s)%nat
    end.
  Proof.
    induction s as [|c r IH].
    - simpl. split; reflexivity.
    - simpl. destruct (sp c) eqn:E.
      + unfold G in *. simpl. rewrite E. destruct (next r) as [[t|] a].
        * destruct IH as [H1 [H2 H3]]. repeat split; auto.
        * exact IH.
      + destruct (find sp r) as [t a] eqn:F. split; [discriminate|]. split.
        * assert (H : find sp (c :: r) = (c :: t, a)) by (simpl; rewrite E, F; reflexivity).
          rewrite (G_find _ [] _ _ H). reflexivity.
        * apply find_after_len in F. lia.
  Qed.

  Lemma collect_spec : forall fuel cur a, (S (after_len a) < fuel)%nat -> (cur = None -> a = None) -> cur <> Some [] ->
    collect sp fuel cur a = Some (match cur with None => [] | Some t => t :: rest a end).
  Proof.
    induction fuel as [|f IH]; intros cur a Hf Hn Hne; [lia|].
    simpl. destruct cur as [t|]; [|reflexivity].
    destruct a as [r|].
    - rewrite incr_f_some. pose proof (next_spec r) as S. destruct (next r) as [[t'|] a'].
      + destruct S as [S1 [S2 S3]]. rewrite IH.
        * simpl. rewrite S2. reflexivity.
        * simpl in Hf. lia.
        * discriminate.
        * intro X; inversion X; subst; auto.
      + destruct S as [S1 S2]. subst a'. rewrite IH.
        * simpl. rewrite S2. reflexivity.
        * simpl in *. lia.
        * auto.
        * discriminate.
    - rewrite incr_f_none. destruct f as [|f']; [simpl in Hf; lia|]; reflexivity.
  Qed.

  Lemma token_iter_spec : forall s, token_iter sp s = Some (split_gen sp s []).
  Proof.
    intros s. unfold token_iter. rewrite incr_f_some. pose proof (next_spec s) as S.
    destruct (next s) as [[t|] a].
    - destruct S as [S1 [S2 S3]]. rewrite collect_spec.
      + fold (G s []). rewrite S2. reflexivity.
      + lia.
      + discriminate.
      + intro X; inversion X; subst; auto.
    - destruct S as [S1 S2]. subst a. simpl. fold (G s []). rewrite S2. reflexivity.
  Qed.
End Tok.

Lemma split_gen_ext : forall f g, (forall b, f b = g b) -> forall s cur, split_gen f s cur = split_gen g s cur.
Proof.
  intros f g H. induction s as [|c r IH]; intros cur; simpl; [reflexivity|].
  rewrite H. destruct (g c); [|apply IH]. rewrite IH. reflexivity.
Qed.

Lemma split_kspaces_total : forall s, split_kspaces s = Some (split_py s).
Proof.
  intros s. unfold split_kspaces. rewrite token_iter_spec. f_equal.
  apply split_gen_ext. exact kspaces_is_py_whitespace.
Qed.

Lemma cstr_no_nul : forall s, ~ In 0 s -> cstr s = s.
Proof.
  induction s as [|c r IH]; intros H; [reflexivity|]. simpl.
  destruct (N.eqb_spec c 0) as [E|E].
  - exfalso. apply H. left. auto.
  - f_equal. apply IH. intro X. apply H. right. exact X.
Qed.

Lemma cstr_nul_free : forall s, ~ In 0 (cstr s).
Proof.
  induction s as [|c r IH]; simpl; [tauto|]. destruct (N.eqb_spec c 0) as [E|E]; simpl; [tauto|].
  intros [X|X]; [congruence|tauto].
Qed.

Lemma split_gen_in : forall sp s cur t x, In t (split_gen sp s cur) -> In x t -> In x s \/ In x cur.
Proof.
  intros sp. induction s as [|c r IH]; intros cur t x Ht Hx; simpl in Ht; rewrite ?fast_rev_eq in Ht.
  - destruct cur as [|y cur]; [contradiction|]. destruct Ht as [Ht|[]]. subst t. right. apply in_rev. exact Hx.
  - destruct (sp c).
    + destruct cur as [|y cur].
      * destruct (IH [] t x Ht Hx) as [H|H]; [left; right; exact H|contradiction].
      * destruct Ht as [Ht|Ht].
        -- subst t. right. apply in_rev. exact Hx.
        -- destruct (IH [] t x Ht Hx) as [H|H]; [left; right; exact H|contradiction].
    + destruct (IH (c :: cur) t x Ht Hx) as [H|[H|H]].
      * left; right; exact H.
      * left; left; exact H.
      * right; exact H.
Qed.

Lemma split_py_nul_free : forall s t, ~ In 0 s -> In t (split_py s) -> ~ In 0 t.
Proof.
  intros s t Hs Ht X. destruct (split_gen_in _ _ _ _ _ Ht X) as [H|H]; [exact (Hs H)|contradiction].
Qed.

Lemma tokenisers_agree : forall s, ~ In 0 s -> split_kspaces (cstr s) = Some (split_py s).
Proof. intros s H. rewrite (cstr_no_nul s H). apply split_kspaces_total. Qed.

(* ---- scoring loops ------------------------------------------------------------------------------------- *)
Section ScoringProofs.
  Variables State Score : Type.
  Variable zero : Score.
  Variable add : Score -> Score -> Score.
  Variables begin_state null_state : State.
  Variable index : list N -> N.
  Variable eos : N.
  Variable full_score : State -> N -> Score * nat * State.

  Notation score_words := (score_words State Score add full_score).
  Notation index_c := (index_c index).
  Notation full_words := (full_words State Score index full_score).
  Notation base_score := (base_score State Score full_score).
  Notation score := (score State Score zero add begin_state null_state index eos full_score).
  Notation full_scores := (full_scores State Score begin_state null_state index eos full_score).
  Notation sum_probs := (sum_probs Score zero add).
  Notation start := (start State begin_state null_state).

  Definition addp (a : Score) (x : Score * nat * bool) : Score := add a (fst (fst x)).

  Lemma score_words_ext : forall idx1 idx2 toks st acc, (forall t, In t toks -> idx1 t = idx2 t) ->
    score_words idx1 toks st acc = score_words idx2 toks st acc.
  Proof.
    intros idx1 idx2. induction toks as [|t r IH]; intros st acc H; [reflexivity|].
    simpl. rewrite (H t (or_introl eq_refl)). destruct (base_score st (idx2 t)) as [p st'].
    apply IH. intros t' Ht'. apply H. right. exact Ht'.
  Qed.

  Lemma index_c_nul_free : forall t, ~ In 0 t -> index_c t = index t.
  Proof. intros t H. unfold TokModel.index_c. rewrite (cstr_no_nul t H). reflexivity. Qed.

  Lemma score_words_full_words : forall toks st acc,
    score_words index_c toks st acc =
      (fold_left addp (fst (full_words toks st)) acc, snd (full_words toks st)).
  Proof.
    induction toks as [|t r IH]; intros st acc; [reflexivity|].
    simpl. unfold TokModel.base_score, base_full_score.
    destruct (full_score st (index_c t)) as [[p len] st'] eqn:E.
    rewrite IH. destruct (full_words r st') as [l st'']. reflexivity.
  Qed.

  (* the slow path, any flags, any bytes *)
  Definition finish (e : bool) (p : Score * State) : Score :=
    let '(acc, st) := p in if e then add acc (fst (base_score st eos)) else acc.

  Lemma slow_is_sum : forall s bos e,
    finish e (score_words index_c (split_py s) (start bos) zero) = sum_probs (full_scores s bos e).
  Proof.
    intros s bos e. unfold finish. rewrite score_words_full_words. unfold TokModel.full_scores, TokModel.sum_probs.
    destruct (full_words (split_py s) (start bos)) as [l st]. simpl.
    destruct e; [|reflexivity].
    unfold TokModel.base_score, base_full_score. destruct (full_score st eos) as [[p len] st'].
    rewrite fold_left_app. reflexivity.
  Qed.

  Lemma score_cstr : forall s, score s true true =
    Some (finish true (score_words index_c (split_py (cstr s)) begin_state zero)).
  Proof.
    intros s. unfold TokModel.score. simpl. unfold score_sentence. rewrite split_kspaces_total.
    rewrite (score_words_ext index index_c).
    - unfold finish. destruct (score_words index_c (split_py (cstr s)) begin_state zero). reflexivity.
    - intros t Ht. symmetry. apply index_c_nul_free. exact (split_py_nul_free _ _ (cstr_nul_free s) Ht).
  Qed.

  Lemma score_is_sum_of_full_scores : forall s bos e, ~ In 0 s ->
    score s bos e = Some (sum_probs (full_scores s bos e)).
  Proof.
    intros s bos e H. destruct (bos && e) eqn:B.
    - apply andb_prop in B. destruct B; subst. rewrite score_cstr. rewrite (cstr_no_nul s H).
      f_equal. exact (slow_is_sum s true true).
    - unfold TokModel.score. rewrite B. pose proof (slow_is_sum s bos e) as S.
      unfold finish in S. destruct (score_words index_c (split_py s) (start bos) zero) as [acc st]. f_equal. exact S.
  Qed.

  (* with a NUL byte: the fast path scores the C-string prefix as a sentence of its own *)
  Lemma score_fast_path_is_prefix : forall s,
    score s true true = Some (sum_probs (full_scores (cstr s) true true)).
  Proof. intros s. rewrite score_cstr. f_equal. exact (slow_is_sum (cstr s) true true). Qed.

  Lemma full_words_length : forall toks st, length (fst (full_words toks st)) = length toks.
  Proof.
    induction toks as [|t r IH]; intros st; [reflexivity|]. simpl. unfold base_full_score.
    destruct (full_score st (index_c t)) as [[p len] st']. specialize (IH st').
    destruct (full_words r st') as [l st'']. simpl in *. f_equal. exact IH.
  Qed.

  Lemma full_scores_length : forall s bos e,
    length (full_scores s bos e) = (length (split_py s) + (if e then 1 else 0))%nat.
  Proof.
    intros s bos e. unfold TokModel.full_scores. pose proof (full_words_length (split_py s) (start bos)) as L.
    destruct (full_words (split_py s) (start bos)) as [l st]. simpl in L. destruct e.
    - unfold base_full_score. destruct (full_score st eos) as [[p len] st']. rewrite app_length. simpl. lia.
    - lia.
  Qed.

  Lemma perplexity_spec : forall s, ~ In 0 s ->
    perplexity_args State Score zero add begin_state null_state index eos full_score s =
      (Some (sum_probs (full_scores s true true)), length (full_scores s true true)).
  Proof.
    intros s H. unfold perplexity_args. rewrite (score_is_sum_of_full_scores s true true H).
    rewrite full_scores_length. f_equal. lia.
  Qed.

  (* stateful API: the running total over two swapped State objects *)
  Lemma stateful_loop_spec : forall words st_in st_out acc,
    fst (fst (stateful_loop State Score add index full_score words st_in st_out acc)) = fst (score_words index_c words st_in acc)
    /\ snd (fst (stateful_loop State Score add index full_score words st_in st_out acc)) = snd (score_words index_c words st_in acc).
  Proof.
    induction words as [|w r IH]; intros st_in st_out acc; [split; reflexivity|].
    simpl. destruct (base_score st_in (index_c w)) as [p out']. apply IH.
  Qed.

  Lemma stateful_is_score : forall s bos e, ~ In 0 s ->
    Some (stateful_total State Score zero add begin_state null_state index eos full_score (split_py s) bos e)
      = score s bos e.
  Proof.
    intros s bos e H. rewrite (score_is_sum_of_full_scores s bos e H). f_equal.
    rewrite <- (slow_is_sum s bos e). unfold stateful_total.
    destruct (stateful_loop_spec (split_py s) (start bos) null_state zero) as [A B].
    destruct (stateful_loop State Score add index full_score (split_py s) (start bos) null_state zero) as [[acc st] o].
    destruct (score_words index_c (split_py s) (start bos) zero) as [acc' st']. simpl in A, B. subst. reflexivity.
  Qed.

  Lemma oov_flags_c : forall toks st,
    map (fun x => snd x) (fst (full_words toks st)) = map (fun t => index_c t =? 0) toks.
  Proof.
    induction toks as [|t r IH]; intros st; [reflexivity|]. simpl. unfold base_full_score.
    destruct (full_score st (index_c t)) as [[p len] st']. specialize (IH st').
    destruct (full_words r st') as [l st'']. simpl in *. f_equal. exact IH.
  Qed.

  (* the OOV flags full_scores yields for the words of a NUL-free sentence are "typed vocabulary id = 0" *)
  Lemma oov_flags : forall s bos, ~ In 0 s ->
    map (fun x => snd x) (full_scores s bos false) = map (fun t => index t =? 0) (split_py s).
  Proof.
    intros s bos H. unfold TokModel.full_scores. pose proof (oov_flags_c (split_py s) (start bos)) as F.
    destruct (full_words (split_py s) (start bos)) as [l st]. simpl in F. rewrite F.
    apply map_ext_in. intros t Ht. rewrite index_c_nul_free; [reflexivity|]. exact (split_py_nul_free s t H Ht).
  Qed.
End ScoringProofs.

(* ---- F7: a sentence with a NUL byte ------------------------------------------------------------------- *)
(* a one-state model in which every word costs 1 (Score = Z, add = Z.add) *)
Definition unit_full_score (st : unit) (w : N) : Z * nat * unit := (1%Z, 1%nat, tt).
Definition nul_sentence : list N := [97; 0; 32; 98].        (* b"a\x00 b" *)

Lemma nul_sentence_refuted :
  score unit Z 0%Z Z.add tt tt (fun _ => 1) 2 unit_full_score nul_sentence true true
  <> Some (sum_probs Z 0%Z Z.add (full_scores unit Z tt tt (fun _ => 1) 2 unit_full_score nul_sentence true true)).
Proof. vm_compute. discriminate. Qed.

(* F7b: a word with a NUL byte is looked up as its C-string prefix: "." is in the vocabulary (id 5), ".\000" is not *)
Definition dot_index (t : list N) : N := match t with [46] => 5 | _ => 0 end.
Lemma nul_word_refuted :
  map (fun x => snd x) (full_scores unit Z tt tt dot_index 2 unit_full_score [46; 0] true false)
  <> map (fun t => dot_index t =? 0) (split_py [46; 0]).
Proof. vm_compute. discriminate. Qed.

(* the hypotheses of the positive theorems are satisfiable, and the statement is not vacuous *)
Example agree_example : split_kspaces (cstr [32; 97; 98; 9; 9; 99; 10]) = Some [[97; 98]; [99]]
                        /\ split_py [32; 97; 98; 9; 9; 99; 10] = [[97; 98]; [99]] /\ ~ In 0 [32; 97; 98; 9; 9; 99; 10].
Proof. repeat split; try (vm_compute; reflexivity). simpl. intuition discriminate. Qed.

Example vt_ff_are_separators : split_py [97; 11; 98; 12; 99] = [[97]; [98]; [99]].
Proof. vm_compute. reflexivity. Qed.

(* ---- LoadVirtual dispatch ------------------------------------------------------------------------------ *)
Lemma load_virtual_dispatch : forall recognised requested c,
  load_virtual recognised requested = Some c ->
  type_code c = match recognised with Some t => t | None => requested end.
Proof.
  intros recognised requested c. unfold load_virtual.
  set (t := match recognised with Some t => t | None => requested end).
  destruct t as [|p]; [intros H; inversion H; reflexivity|].
  do 3 (destruct p as [p|p|]; try (intros H; inversion H; reflexivity); try discriminate).
Qed.

Lemma load_virtual_total_on_types : forall c recognised requested,
  match recognised with Some t => t | None => requested end = type_code c ->
  load_virtual recognised requested = Some c.
Proof. intros c recognised requested H. unfold load_virtual. rewrite H. destruct c; reflexivity. Qed.
