(* C06/SumProofs.v -- for every table of adjusted counts that is closed under context and suffix with monotone pruning
   marks, the interpolated Kneser-Ney distribution of `finish` sums to one in every context. *)
From Coq Require Import List NArith ZArith QArith Bool Lia Lqa.
From Kenlm Require Import C05.KNDefs C05.KNSpec C05.KNLex C06.SumQ.
Import ListNotations.
Local Open Scope Q_scope.

Lemma find_NoDup : forall (l : list entry) e, NoDup (map e_gram l) -> In e l ->
  find (fun x => geqb (e_gram x) (e_gram e)) l = Some e.
Proof.
  intros l e Hnd Hin. induction l as [|x l IH]; [destruct Hin|]. simpl in Hnd. inversion Hnd as [|? ? Hx Hl]; subst. simpl.
  destruct Hin as [->|Hin]; [rewrite geqb_refl; reflexivity|].
  destruct (geqb (e_gram x) (e_gram e)) eqn:E; [|apply IH; assumption].
  apply geqb_eq in E. exfalso. apply Hx. rewrite E. apply in_map. exact Hin.
Qed.

Lemma find_none_iff : forall (l : list entry) g, find (fun x => geqb (e_gram x) g) l = None <-> ~ In g (map e_gram l).
Proof.
  intros l g. induction l as [|x l IH]; simpl; [tauto|]. destruct (geqb (e_gram x) g) eqn:E.
  - apply geqb_eq in E. split; [discriminate|]. intros H. exfalso. apply H. left. exact E.
  - apply geqb_neq in E. rewrite IH. tauto.
Qed.

Lemma hd_removelast : forall (g : gram) d, (2 <= length g)%nat -> hd d (removelast g) = hd d g.
Proof. intros [|x [|y t]] d H; simpl in *; try lia; reflexivity. Qed.

Lemma removelast_length : forall (g : gram), length (removelast g) = (length g - 1)%nat.
Proof. induction g as [|x [|y t] IH]; simpl in *; try reflexivity. rewrite IH. simpl. lia. Qed.

Lemma NoDup_map_filter : forall {A B} (f : A -> B) (p : A -> bool) l, NoDup (map f l) -> NoDup (map f (filter p l)).
Proof.
  intros A B f p l H. induction l as [|x l IH]; simpl in *; [constructor|]. inversion H as [|? ? Hx Hl]; subst.
  destruct (p x); simpl; [|apply IH; exact Hl]. constructor; [|apply IH; exact Hl].
  intro Hin. apply Hx. apply in_map_iff in Hin. destruct Hin as [y [E Hy]]. apply filter_In in Hy. rewrite <- E. apply in_map. tauto.
Qed.

Lemma NoDup_map_inj_on : forall {A B C} (f : A -> B) (h : B -> C) l, NoDup (map f l) ->
  (forall x y, In x l -> In y l -> h (f x) = h (f y) -> f x = f y) -> NoDup (map (fun x => h (f x)) l).
Proof.
  intros A B C f h l H Hinj. induction l as [|x l IH]; simpl in *; [constructor|]. inversion H as [|? ? Hx Hl]; subst.
  constructor.
  - intro Hin. apply in_map_iff in Hin. destruct Hin as [y [E Hy]]. apply Hx. rewrite <- (Hinj y x); [apply in_map; exact Hy|right; exact Hy|left; reflexivity|exact E].
  - apply IH; [exact Hl|]. intros a b Ha Hb. apply Hinj; right; assumption.
Qed.

(* the mass of a context splits into the kept and the pruned extensions *)
Lemma split_mass : forall (p : entry -> bool) l,
  QN (sumN (map e_adj (filter p l))) ==
  sumQ (fun e => QN (e_adj e)) (filter (fun e => p e && kept e) l) + QN (sumN (map e_adj (filter (fun e => p e && e_marked e) l))).
Proof.
  intros p l. induction l as [|a l IH]; simpl; [reflexivity|]. unfold kept at 1.
  destruct (p a); destruct (e_marked a); simpl; rewrite ?QN_add, IH; ring.
Qed.

(* AddRight's  D1*c1 + D2*c2 + D3*c3  is the sum of the discounts of the kept extensions *)
Lemma disc_mass : forall (d1 d2 d3 : Q) (p : entry -> bool) l,
  sumQ (fun e => Dget (d1, d2, d3) (e_adj e)) (filter p l) ==
  d1 * QN (lenN (filter (fun e => p e && (N.min (e_adj e) 3 =? 1)%N) l)) +
  d2 * QN (lenN (filter (fun e => p e && (N.min (e_adj e) 3 =? 2)%N) l)) +
  d3 * QN (lenN (filter (fun e => p e && (N.min (e_adj e) 3 =? 3)%N) l)).
Proof.
  intros d1 d2 d3 p l. induction l as [|a l IH]; [simpl; unfold lenN, QN; simpl; ring|].
  cbn [filter]. destruct (p a); cbn [andb]; [|exact IH].
  cbn [sumQ]. rewrite IH. unfold Dget.
  destruct (N.eq_dec (e_adj a) 0) as [E0|N0]; [rewrite E0; cbn; ring|].
  destruct (N.eq_dec (e_adj a) 1) as [E1|N1]; [rewrite E1; cbn [N.min N.eqb N.compare Pos.compare Pos.compare_cont Pos.eqb]; rewrite QN_succ_len; ring|].
  destruct (N.eq_dec (e_adj a) 2) as [E2|N2]; [rewrite E2; cbn [N.min N.eqb N.compare Pos.compare Pos.compare_cont Pos.eqb]; rewrite QN_succ_len; ring|].
  assert (Hm : N.min (e_adj a) 3 = 3%N) by lia. rewrite Hm.
  assert (H0 : (e_adj a =? 0)%N = false) by (apply N.eqb_neq; exact N0).
  assert (H1 : (e_adj a =? 1)%N = false) by (apply N.eqb_neq; exact N1).
  assert (H2 : (e_adj a =? 2)%N = false) by (apply N.eqb_neq; exact N2).
  rewrite H0, H1, H2. cbn [N.eqb Pos.eqb]. rewrite QN_succ_len. ring.
Qed.

Lemma filter_all : forall {A} (p : A -> bool) l, (forall y, In y l -> p y = true) -> filter p l = l.
Proof.
  intros A p l H. induction l as [|x l IH]; simpl; [reflexivity|]. rewrite (H x) by (left; reflexivity). f_equal. apply IH.
  intros y Hy. apply H. right. exact Hy.
Qed.

Lemma filter_remove_one : forall (l : list N) b, NoDup l -> In b l -> length l = S (length (filter (fun w => negb (w =? b)%N) l)).
Proof.
  intros l b Hnd Hin. induction l as [|x l IH]; [destruct Hin|]. inversion Hnd as [|? ? Hx Hl]; subst. simpl.
  destruct (N.eqb_spec x b) as [->|Hne]; simpl.
  - f_equal. rewrite filter_all; [reflexivity|]. intros y Hy. apply negb_true_iff. apply N.eqb_neq. intros ->. contradiction.
  - f_equal. apply IH; [exact Hl|]. destruct Hin as [E|Hin]; [congruence|exact Hin].
Qed.

Section Sum.
  Variable n : nat.
  Variable tab : list (list entry).
  Variable ds : list (Q * Q * Q).
  Variable interp : bool.

  Notation E := (ents tab).
  Notation den := (denom tab).
  Notation gam := (gamma tab ds).
  Notation uu := (u tab ds).
  Notation P := (pkn tab ds interp).

  Record good : Prop := mkGood {
    g_nodup : forall k, NoDup (map e_gram (E k));
    g_len : forall k e, (1 <= k)%nat -> In e (E k) -> length (e_gram e) = k;
    g_ctx : forall k e, (1 <= k)%nat -> In e (E (S k)) ->
            exists e', In e' (E k) /\ e_gram e' = tl (e_gram e) /\ (e_marked e' = true -> e_marked e = true);
    g_sfx : forall k e, (1 <= k)%nat -> In e (E (S k)) -> e_marked e = false ->
            exists e', In e' (E k) /\ e_gram e' = removelast (e_gram e) /\ e_marked e' = false;
    g_hd : forall k e, (2 <= k)%nat -> In e (E k) -> hd UNK (e_gram e) <> BOS;
    g_unk : In (mkE [UNK] 0 false 0) (E 1);
    g_bos : In (mkE [BOS] 0 false 0) (E 1);
    g_eos : exists a, (1 <= a)%N /\ In (mkE [EOS] a false a) (E 1)
  }.
  Hypothesis G : good.

  (* ---- Lemma A: the kept extensions of a context and its gamma share the whole mass *)
  Definition KC (k : nat) (rc : gram) : list entry := filter (fun e => in_ctx rc e && kept e) (E k).

  Lemma u_kept : forall k rc e, In e (KC k rc) ->
    uu k (e_gram e) = (QN (e_adj e) - Dget (dk ds k) (e_adj e)) / QN (den k rc).
  Proof.
    intros k rc e He. unfold KC in He. apply filter_In in He. destruct He as [He Hc]. apply andb_true_iff in Hc. destruct Hc as [Hc Hk].
    unfold u, find_kept. rewrite (find_NoDup (E k) e (g_nodup G k) He). unfold kept in Hk. apply negb_true_iff in Hk. rewrite Hk.
    unfold in_ctx in Hc. apply geqb_eq in Hc. rewrite Hc. reflexivity.
  Qed.

  Lemma ctx_mass : forall k rc, den k rc <> 0%N -> sumQ (fun e => uu k (e_gram e)) (KC k rc) + gam k rc == 1.
  Proof.
    intros k rc Hd. rewrite (sumQ_ext _ (fun e => / QN (den k rc) * (QN (e_adj e) - Dget (dk ds k) (e_adj e)))).
    2:{ intros e He. rewrite (u_kept k rc e He). unfold Qdiv. ring. }
    rewrite sumQ_scal. unfold gamma. destruct (dk ds k) as [[d1 d2] d3] eqn:Ed.
    rewrite (sumQ_ext _ (fun e => QN (e_adj e) + (-1) * Dget (d1, d2, d3) (e_adj e))) by (intros; ring).
    rewrite sumQ_plus, sumQ_scal. unfold KC. rewrite disc_mass. unfold cnt_i.
    pose proof (split_mass (in_ctx rc) (E k)) as Hs. fold (den k rc) in Hs. fold (msum tab k rc) in Hs.
    assert (Hq : ~ QN (den k rc) == 0).
    { intro H. assert (0 < QN (den k rc)) by (apply QN_pos; lia). lra. }
    set (S1 := sumQ (fun e => QN (e_adj e)) (filter (fun e => in_ctx rc e && kept e) (E k))) in *.
    set (c1 := QN (lenN (filter (fun e => in_ctx rc e && kept e && (N.min (e_adj e) 3 =? 1)%N) (E k)))).
    set (c2 := QN (lenN (filter (fun e => in_ctx rc e && kept e && (N.min (e_adj e) 3 =? 2)%N) (E k)))).
    set (c3 := QN (lenN (filter (fun e => in_ctx rc e && kept e && (N.min (e_adj e) 3 =? 3)%N) (E k)))).
    unfold Qdiv. setoid_replace (/ QN (den k rc) * (S1 + -1 * (d1 * c1 + d2 * c2 + d3 * c3)) + (d1 * c1 + d2 * c2 + d3 * c3 + QN (msum tab k rc)) * / QN (den k rc))
      with ((S1 + QN (msum tab k rc)) * / QN (den k rc)) by ring.
    rewrite <- Hs. field. exact Hq.
  Qed.

  (* ---- the vocabulary: kept unigrams minus <s> *)
  Definition V1 : list word := map (fun e => hd UNK (e_gram e)) (filter kept (E 1)).
  Definition V' : list word := filter (fun w => negb (w =? BOS)%N) V1.

  Lemma uni_gram : forall e, In e (E 1) -> e_gram e = [hd UNK (e_gram e)].
  Proof.
    intros e He. pose proof (g_len G 1 e ltac:(lia) He) as Hl. destruct (e_gram e) as [|x [|y t]]; simpl in Hl; try lia. reflexivity.
  Qed.

  Lemma V1_NoDup : NoDup V1.
  Proof.
    unfold V1. apply (NoDup_map_inj_on e_gram (hd UNK)).
    - apply NoDup_map_filter. apply (g_nodup G 1).
    - intros x y Hx Hy Hh. apply filter_In in Hx. apply filter_In in Hy. rewrite (uni_gram x), (uni_gram y) by tauto. congruence.
  Qed.

  Lemma V'_NoDup : NoDup V'.
  Proof. unfold V'. apply NoDup_filter. exact V1_NoDup. Qed.

  Lemma In_V1 : forall w, In w V1 <-> exists e, In e (E 1) /\ e_marked e = false /\ e_gram e = [w].
  Proof.
    intros w. unfold V1. rewrite in_map_iff. split.
    - intros [e [<- He]]. apply filter_In in He. destruct He as [He Hk]. unfold kept in Hk. apply negb_true_iff in Hk.
      exists e. split; [exact He|]. split; [exact Hk|apply uni_gram; exact He].
    - intros [e [He [Hk Hg]]]. exists e. split; [rewrite Hg; reflexivity|]. apply filter_In. split; [exact He|]. unfold kept. rewrite Hk. reflexivity.
  Qed.

  (* the newest word of a kept n-gram is a kept unigram *)
  Lemma kept_head : forall k e, (1 <= k)%nat -> In e (E k) -> e_marked e = false -> In (hd UNK (e_gram e)) V1.
  Proof.
    induction k as [|k IH]; intros e Hk He Hm; [lia|]. destruct (Nat.eq_dec k 0) as [->|Hk0].
    - apply In_V1. exists e. split; [exact He|]. split; [exact Hm|apply uni_gram; exact He].
    - destruct (g_sfx G k e ltac:(lia) He Hm) as [e' [He' [Hg' Hm']]].
      pose proof (g_len G (S k) e ltac:(lia) He) as Hl.
      rewrite <- (hd_removelast (e_gram e) UNK) by lia. rewrite <- Hg'. apply (IH e'); [lia|exact He'|exact Hm'].
  Qed.

  (* ---- Lemma B: summing u over the vocabulary = summing over the kept extensions *)
  Lemma KC_gram : forall k rc e, (1 <= k)%nat -> In e (KC (S k) rc) -> e_gram e = hd UNK (e_gram e) :: rc.
  Proof.
    intros k rc e Hk He. unfold KC in He. apply filter_In in He. destruct He as [He Hc]. apply andb_true_iff in Hc. destruct Hc as [Hc _].
    unfold in_ctx in Hc. apply geqb_eq in Hc. pose proof (g_len G (S k) e ltac:(lia) He) as Hl.
    destruct (e_gram e) as [|x t]; [simpl in Hl; lia|]. simpl in *. rewrite Hc. reflexivity.
  Qed.

  Lemma vocab_to_ctx : forall k rc, (1 <= k)%nat ->
    sumQ (fun w => uu (S k) (w :: rc)) V' == sumQ (fun e => uu (S k) (e_gram e)) (KC (S k) rc).
  Proof.
    intros k rc Hk. set (W := map (fun e => hd UNK (e_gram e)) (KC (S k) rc)).
    assert (HW : NoDup W).
    { unfold W. apply (NoDup_map_inj_on e_gram (hd UNK)).
      - unfold KC. apply NoDup_map_filter. apply (g_nodup G (S k)).
      - intros x y Hx Hy Hh. rewrite (KC_gram k rc x Hk Hx), (KC_gram k rc y Hk Hy). simpl in *. congruence. }
    rewrite (sumQ_subset N.eq_dec (fun w => uu (S k) (w :: rc)) V' W V'_NoDup HW).
    - unfold W. rewrite sumQ_map. apply sumQ_ext. intros e He. rewrite <- (KC_gram k rc e Hk He). reflexivity.
    - intros w Hw. unfold W in Hw. apply in_map_iff in Hw. destruct Hw as [e [<- He]].
      pose proof He as He2. unfold KC in He2. apply filter_In in He2. destruct He2 as [HeE Hc]. apply andb_true_iff in Hc. destruct Hc as [_ Hkept].
      unfold kept in Hkept. apply negb_true_iff in Hkept. unfold V'. apply filter_In. split.
      + apply (kept_head (S k) e); [lia|exact HeE|exact Hkept].
      + apply negb_true_iff. apply N.eqb_neq. apply (g_hd G (S k) e); [lia|exact HeE].
    - intros w Hw Hn. unfold u, find_kept. destruct (find (fun e => geqb (e_gram e) (w :: rc)) (E (S k))) as [e|] eqn:Ef; [|reflexivity].
      destruct (e_marked e) eqn:Em; [reflexivity|]. exfalso. apply Hn. apply find_some in Ef. destruct Ef as [He Hg]. apply geqb_eq in Hg.
      unfold W. apply in_map_iff. exists e. split; [rewrite Hg; reflexivity|]. unfold KC. apply filter_In. split; [exact He|].
      unfold in_ctx, kept. rewrite Hg, Em. simpl. rewrite geqb_refl. reflexivity.
  Qed.

  (* ---- the unigram level *)
  Lemma all_in_ctx_nil : forall e, In e (E 1) -> in_ctx [] e = true.
  Proof. intros e He. unfold in_ctx. rewrite (uni_gram e He). reflexivity. Qed.

  Lemma den1_pos : den 1 [] <> 0%N.
  Proof.
    destruct (g_eos G) as [a [Ha Hin]]. unfold denom.
    assert (Hf : In (mkE [EOS] a false a) (filter (in_ctx []) (E 1))) by (apply filter_In; split; [exact Hin|reflexivity]).
    induction (filter (in_ctx []) (E 1)) as [|x l IH]; [destruct Hf|]. simpl. destruct Hf as [->|Hf]; [simpl; lia|]. specialize (IH Hf). lia.
  Qed.

  Lemma KC1 : KC 1 [] = filter kept (E 1).
  Proof. unfold KC. apply filter_ext_in. intros e He. rewrite (all_in_ctx_nil e He). reflexivity. Qed.

  Lemma u1_special : forall w, (w = UNK \/ w = BOS) -> uu 1 [w] == 0.
  Proof.
    intros w Hw. unfold u, find_kept.
    assert (He : In (mkE [w] 0 false 0) (E 1)) by (destruct Hw as [->| ->]; [apply (g_unk G)|apply (g_bos G)]).
    pose proof (find_NoDup (E 1) _ (g_nodup G 1) He) as Hf. cbn [e_gram] in Hf. rewrite Hf. cbn [e_marked e_adj].
    unfold Dget. destruct (dk ds 1) as [[d1 d2] d3]. change (0 =? 0)%N with true. cbv iota. change (QN 0) with 0. unfold Qdiv. ring.
  Qed.

  Lemma sum_u_V1 : sumQ (fun w => uu 1 [w]) V1 + gam 1 [] == 1.
  Proof.
    rewrite <- (ctx_mass 1 [] den1_pos). rewrite KC1. unfold V1. rewrite sumQ_map.
    apply Qplus_inj_r. apply sumQ_ext. intros e He. apply filter_In in He. rewrite <- (uni_gram e) by tauto. reflexivity.
  Qed.

  Lemma sum_u_V' : sumQ (fun w => uu 1 [w]) V' + gam 1 [] == 1.
  Proof.
    rewrite <- sum_u_V1. apply Qplus_inj_r.
    rewrite (sumQ_filter_split (fun w => uu 1 [w]) (fun w => negb (w =? BOS)%N) V1). fold V'.
    rewrite (sumQ_zero _ (filter (fun x => negb (negb (x =? BOS)%N)) V1)); [ring|].
    intros w Hw. apply filter_In in Hw. destruct Hw as [_ Hw]. rewrite negb_involutive in Hw. apply N.eqb_eq in Hw. apply u1_special. right. exact Hw.
  Qed.

  Lemma bos_in_V1 : In BOS V1.
  Proof. apply In_V1. exists (mkE [BOS] 0 false 0). split; [apply (g_bos G)|]. split; reflexivity. Qed.
  Lemma unk_in_V' : In UNK V'.
  Proof.
    unfold V'. apply filter_In. split; [|reflexivity]. apply In_V1. exists (mkE [UNK] 0 false 0). split; [apply (g_unk G)|]. split; reflexivity.
  Qed.

  Lemma lenN_V' : QN (lenN V') == QN (vocab_size tab).
  Proof.
    unfold vocab_size. assert (H : length V1 = S (length V')) by (unfold V'; apply filter_remove_one; [exact V1_NoDup|exact bos_in_V1]).
    unfold lenN. assert (E2 : length (filter kept (E 1)) = length V1) by (unfold V1; rewrite map_length; reflexivity).
    rewrite E2, H. rewrite Nat2N.inj_succ. replace (N.succ (N.of_nat (length V')) - 1)%N with (N.of_nat (length V')) by lia. reflexivity.
  Qed.

  Lemma V'_nonempty : 0 < QN (lenN V').
  Proof.
    apply QN_pos. unfold lenN. pose proof unk_in_V' as H. destruct V'; [destruct H|]. simpl. lia.
  Qed.

  Lemma uni_sum : sumQ (p_uni tab ds interp) V' == 1.
  Proof.
    assert (HnB : forall w, In w V' -> (w =? BOS)%N = false).
    { intros w Hw. unfold V' in Hw. apply filter_In in Hw. destruct Hw as [_ Hw]. apply negb_true_iff in Hw. exact Hw. }
    unfold p_uni. destruct interp.
    - rewrite (sumQ_ext _ (fun w => uu 1 [w] + gam 1 [] * (1 / QN (vocab_size tab)))) by (intros w Hw; rewrite (HnB w Hw); reflexivity).
      rewrite sumQ_plus, sumQ_const. rewrite lenN_V'. pose proof V'_nonempty as Hp. rewrite lenN_V' in Hp.
      pose proof sum_u_V' as Hs. set (S0 := sumQ (fun w => uu 1 [w]) V') in *. set (g := gam 1 []) in *. set (vs := QN (vocab_size tab)) in *.
      assert (Hvs : ~ vs == 0) by (intro H; rewrite H in Hp; lra).
      setoid_replace (S0 + g * (1 / vs) * vs) with (S0 + g) by (field; exact Hvs). exact Hs.
    - rewrite (sumQ_ext _ (fun w => uu 1 [w] + (if (w =? UNK)%N then gam 1 [] else 0))).
      2:{ intros w Hw. rewrite (HnB w Hw). destruct (N.eqb_spec w UNK) as [->|]; [rewrite u1_special by (left; reflexivity)|]; ring. }
      rewrite sumQ_plus. rewrite <- sum_u_V'. apply Qplus_inj_l. clear HnB.
      pose proof V'_NoDup as Hnd. pose proof unk_in_V' as Hin. induction V' as [|x l IH]; [destruct Hin|].
      inversion Hnd as [|? ? Hx Hl]; subst. simpl. destruct (N.eqb_spec x UNK) as [->|Hne].
      + rewrite sumQ_zero; [ring|]. intros y Hy. destruct (N.eqb_spec y UNK) as [->|]; [contradiction|reflexivity].
      + destruct Hin as [E|Hin]; [congruence|]. rewrite (IH Hl Hin). ring.
  Qed.

  (* ---- every context *)
  Theorem pkn_sums_to_one : forall c, sumQ (P c) V' == 1.
  Proof.
    induction c as [|x c IH]; [exact uni_sum|].
    cbn [pkn]. set (rc := rev (x :: c)). set (k := S (length (x :: c))).
    destruct (N.eqb_spec (den k rc) 0) as [Hz|Hnz]; [exact IH|].
    rewrite sumQ_plus, sumQ_scal, IH. unfold k. cbn [length]. rewrite (vocab_to_ctx (S (length c)) rc) by lia.
    rewrite Qmult_1_r. apply ctx_mass. exact Hnz.
  Qed.
End Sum.
