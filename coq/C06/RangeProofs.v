(* C06/RangeProofs.v -- with discounts in their legal range every interpolated probability lies in [0,1]
   (so every written log probability is at most 0) and every back-off weight is non-negative. *)
From Coq Require Import List NArith ZArith QArith Bool Lia Lqa.
From Kenlm Require Import C05.KNDefs C05.KNSpec C05.KNLex C05.KNAdjustE C06.SumQ C06.SumProofs.
Import ListNotations.
Local Open Scope Q_scope.

Definition disc_ok (d : Q * Q * Q) : Prop :=
  let '(d1, d2, d3) := d in 0 <= d1 /\ d1 <= 1 /\ 0 <= d2 /\ d2 <= 2 /\ 0 <= d3 /\ d3 <= 3.

Lemma QN_ge : forall a b : N, (a <= b)%N -> QN a <= QN b.
Proof. exact QN_le. Qed.

Lemma Dget_range : forall d a, disc_ok d -> 0 <= Dget d a /\ Dget d a <= QN a.
Proof.
  intros [[d1 d2] d3] a [H1 [H2 [H3 [H4 [H5 H6]]]]]. unfold Dget.
  destruct (N.eqb_spec a 0) as [->|N0]; [split; [lra|apply QN_nonneg]|].
  destruct (N.eqb_spec a 1) as [->|N1]; [split; [lra|change (QN 1) with 1; lra]|].
  destruct (N.eqb_spec a 2) as [->|N2]; [split; [lra|change (QN 2) with 2; lra]|].
  split; [lra|]. assert (H : QN 3 <= QN a) by (apply QN_le; lia). change (QN 3) with 3 in H. lra.
Qed.

Lemma Qdiv_nonneg : forall a b, 0 <= a -> 0 <= b -> 0 <= a / b.
Proof.
  intros a b Ha Hb. unfold Qdiv. apply Qmult_le_0_compat; [exact Ha|]. apply Qinv_le_0_compat. exact Hb.
Qed.

Section Range.
  Variable tab : list (list entry).
  Variable ds : list (Q * Q * Q).
  Variable interp : bool.
  Hypothesis G : good tab.
  Hypothesis Hd : forall k, disc_ok (dk ds k).

  Notation E := (ents tab).
  Notation P := (pkn tab ds interp).

  Lemma u_nonneg : forall k g, 0 <= u tab ds k g.
  Proof.
    intros k g. unfold u. destruct (find_kept tab k g) as [a|]; [|lra].
    destruct (Dget_range (dk ds k) a (Hd k)) as [_ H2]. apply Qdiv_nonneg; [lra|apply QN_nonneg].
  Qed.

  Lemma gamma_nonneg : forall k rc, 0 <= gamma tab ds k rc.
  Proof.
    intros k rc. unfold gamma. pose proof (Hd k) as H. destruct (dk ds k) as [[d1 d2] d3]. destruct H as [H1 [_ [H3 [_ [H5 _]]]]].
    apply Qdiv_nonneg; [|apply QN_nonneg].
    pose proof (QN_nonneg (cnt_i tab k rc 1)). pose proof (QN_nonneg (cnt_i tab k rc 2)). pose proof (QN_nonneg (cnt_i tab k rc 3)).
    pose proof (QN_nonneg (msum tab k rc)).
    assert (0 <= d1 * QN (cnt_i tab k rc 1)) by (apply Qmult_le_0_compat; assumption).
    assert (0 <= d2 * QN (cnt_i tab k rc 2)) by (apply Qmult_le_0_compat; assumption).
    assert (0 <= d3 * QN (cnt_i tab k rc 3)) by (apply Qmult_le_0_compat; assumption). lra.
  Qed.

  Lemma u_gamma_le : forall k g, denom tab k (tl g) <> 0%N -> u tab ds k g + gamma tab ds k (tl g) <= 1.
  Proof.
    intros k g Hden. pose proof (ctx_mass tab ds G k (tl g) Hden) as Hm.
    assert (Hs : 0 <= sumQ (fun e => u tab ds k (e_gram e)) (KC tab k (tl g))) by (apply sumQ_nonneg; intros; apply u_nonneg).
    unfold u at 1. destruct (find_kept tab k g) as [a|] eqn:Efk; [|lra].
    unfold find_kept in Efk. destruct (find (fun e => geqb (e_gram e) g) (E k)) as [e|] eqn:Ef; [|discriminate].
    destruct (e_marked e) eqn:Em; [discriminate|]. injection Efk as <-. apply find_some in Ef. destruct Ef as [He Hg]. apply geqb_eq in Hg.
    assert (Hin : In e (KC tab k (tl g))).
    { unfold KC. apply filter_In. split; [exact He|]. unfold in_ctx, kept. rewrite Hg, Em, geqb_refl. reflexivity. }
    pose proof (sumQ_ge_elem (fun e => u tab ds k (e_gram e)) (KC tab k (tl g)) e (fun y _ => u_nonneg k (e_gram y)) Hin) as Hge.
    cbv beta in Hge. rewrite (u_kept tab ds G k (tl g) e Hin) in Hge. lra.
  Qed.

  Lemma vocab_size_ge1 : 1 <= QN (vocab_size tab).
  Proof.
    rewrite <- (lenN_V' tab G). pose proof (unk_in_V' tab G) as H. unfold lenN. destruct (V' tab) as [|x l]; [destruct H|].
    change 1 with (QN 1). apply QN_le. simpl length. lia.
  Qed.

  Lemma p_uni_range : forall w, 0 <= p_uni tab ds interp w /\ p_uni tab ds interp w <= 1.
  Proof.
    intros w. unfold p_uni. destruct (w =? BOS)%N; [split; lra|].
    pose proof (u_nonneg 1 [w]) as Hu. pose proof (gamma_nonneg 1 []) as Hg.
    pose proof (u_gamma_le 1 [w] (den1_pos tab G)) as Hle. cbn [tl] in Hle.
    destruct interp.
    - pose proof vocab_size_ge1 as Hv.
      assert (Hinv : 0 <= 1 / QN (vocab_size tab) /\ 1 / QN (vocab_size tab) <= 1).
      { split; [apply Qdiv_nonneg; lra|]. apply Qle_shift_div_r; lra. }
      destruct Hinv as [Hi1 Hi2].
      assert (0 <= gamma tab ds 1 [] * (1 / QN (vocab_size tab))) by (apply Qmult_le_0_compat; assumption).
      assert (gamma tab ds 1 [] * (1 / QN (vocab_size tab)) <= gamma tab ds 1 [] * 1) by (apply Qmult_le_l' || (rewrite !(Qmult_comm (gamma tab ds 1 [])); apply Qmult_le_compat_r; assumption)).
      split; lra.
    - destruct (w =? UNK)%N; split; lra.
  Qed.

  Theorem pkn_range : forall c w, 0 <= P c w /\ P c w <= 1.
  Proof.
    induction c as [|x c IH]; intros w; [apply p_uni_range|].
    cbn [pkn]. set (k := S (length (x :: c))). set (rc := rev (x :: c)).
    destruct (N.eqb_spec (denom tab k rc) 0) as [Hz|Hnz]; [apply IH|].
    destruct (IH w) as [H0 H1]. pose proof (u_nonneg k (w :: rc)) as Hu. pose proof (gamma_nonneg k rc) as Hg.
    pose proof (u_gamma_le k (w :: rc) Hnz) as Hle. cbn [tl] in Hle.
    assert (0 <= gamma tab ds k rc * P c w) by (apply Qmult_le_0_compat; assumption).
    assert (gamma tab ds k rc * P c w <= gamma tab ds k rc * 1) by (rewrite !(Qmult_comm (gamma tab ds k rc)); apply Qmult_le_compat_r; assumption).
    split; lra.
  Qed.

  Lemma backoff_nonneg : forall n k g, 0 <= backoff n tab ds k g.
  Proof.
    intros n k g. unfold backoff. destruct (k <? n)%nat; [|lra]. destruct (denom tab (S k) g =? 0)%N; [lra|apply gamma_nonneg].
  Qed.
End Range.

(* ---- the discounts CalculateDiscounts accepts are in range *)
Definition fallback_ok (fb : option (Q * Q * Q)) : Prop := match fb with Some d => disc_ok d | None => True end.

Lemma in_range_spec : forall d j, in_range d j = true -> 0 <= d /\ d <= j.
Proof. intros d j H. unfold in_range in H. apply andb_true_iff in H. destruct H as [H1 H2]. apply Qle_bool_iff in H1. apply Qle_bool_iff in H2. tauto. Qed.

Lemma mk_disc_ok : forall a b c d, mk_disc a b c = Some d -> disc_ok d.
Proof.
  intros a b c d H. unfold mk_disc in H. destruct (in_range a 1 && in_range b 2 && in_range c 3) eqn:Eb; [|discriminate]. injection H as <-.
  apply andb_true_iff in Eb. destruct Eb as [Eb E3]. apply andb_true_iff in Eb. destruct Eb as [E1 E2].
  apply in_range_spec in E1. apply in_range_spec in E2. apply in_range_spec in E3.
  pose proof (Qred_correct a) as Q1. pose proof (Qred_correct b) as Q2. pose proof (Qred_correct c) as Q3.
  set (RA := Qred a) in *. set (RB := Qred b) in *. set (RC := Qred c) in *. unfold disc_ok. lra.
Qed.

Lemma closed_form_ok : forall s d, closed_form s = Some d -> disc_ok d.
Proof.
  intros s d H. unfold closed_form in H. destruct ((s_n1 s =? 0)%N || (s_n2 s =? 0)%N || (s_n3 s =? 0)%N); [discriminate|].
  cbv zeta in H. apply mk_disc_ok in H. exact H.
Qed.

Lemma all_discounts_ok : forall fb ss k ds, fallback_ok fb -> all_discounts fb k ss = inl ds -> Forall disc_ok ds.
Proof.
  intros fb ss. induction ss as [|s ss IH]; intros k ds Hfb H; simpl in H; [injection H as <-; constructor|].
  destruct (order_discount fb s) as [d|] eqn:Ed; [|discriminate].
  destruct (all_discounts fb (S k) ss) as [ds'|] eqn:Er; [|discriminate]. injection H as <-. constructor; [|apply (IH (S k)); assumption].
  unfold order_discount in Ed. destruct (closed_form s) as [d'|] eqn:Ec; [injection Ed as <-; apply (closed_form_ok s); exact Ec|].
  subst fb. exact Hfb.
Qed.

Lemma dk_ok : forall ds, Forall disc_ok ds -> forall k, disc_ok (dk ds k).
Proof.
  intros ds H k. unfold dk. destruct (nth_in_or_default (k - 1) ds (0, 0, 0)) as [Hin|E].
  - rewrite Forall_forall in H. apply H. exact Hin.
  - rewrite E. unfold disc_ok. lra.
Qed.
