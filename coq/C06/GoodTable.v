(* C06/GoodTable.v -- the specification's table of adjusted counts is closed under context and suffix, its pruning
   marks are monotone (non-decreasing thresholds), specials are present: it is a `good` table of SumProofs.v. *)
From Coq Require Import List NArith ZArith QArith Bool Lia.
From Kenlm Require Import C05.KNDefs C05.KNSpec C05.KNModel C05.KNLex C05.KNEvents C05.KNAdjustD C05.KNAdjustE C05.KNNgramSet C06.SumQ C06.SumProofs.
Import ListNotations.

Definition thr_mono (o : options) (n : nat) : Prop := forall j k, (1 <= j <= k)%nat -> (k <= n)%nat -> (thr o j <= thr o k)%N.

Definition ind (b : bool) : nat := if b then 1%nat else 0%nat.
Lemma filter_length_cons : forall {A} (p : A -> bool) x l, length (filter p (x :: l)) = (ind (p x) + length (filter p l))%nat.
Proof. intros. simpl. destruct (p x); reflexivity. Qed.

Lemma events_cons : forall s c, events (s :: c) = sent_events [BOS] (clean s) ++ events c.
Proof. reflexivity. Qed.

Lemma filter_le_events : forall (p1 p2 : gram -> bool) c,
  (forall s, (length (filter p1 (sent_events [BOS] (clean s))) <= length (filter p2 (sent_events [BOS] (clean s))))%nat) ->
  (length (filter p1 (events c)) <= length (filter p2 (events c)))%nat.
Proof.
  intros p1 p2 c H. induction c as [|s c IH]; [simpl; lia|]. rewrite events_cons, !filter_app, !app_length. specialize (H s). lia.
Qed.

(* an (k+1)-gram  w . rc  occurs at most as often as its context rc, counting the sentence start *)
Lemma sent_ctx_count : forall k w rc s hist,
  (length (filter (fun e => geqb (firstn (S k) e) (w :: rc)) (sent_events hist s)) <=
   length (filter (fun e => geqb (firstn k e) rc) (sent_events hist s)) + ind (geqb (firstn k hist) rc))%nat.
Proof.
  intros k w rc s. induction s as [|x s IH]; intros hist.
  - cbn [sent_events]. rewrite !filter_length_cons. cbn [filter length firstn].
    assert (H : (ind (geqb (EOS :: firstn k hist) (w :: rc)) <= ind (geqb (firstn k hist) rc))%nat).
    { destruct (geqb (EOS :: firstn k hist) (w :: rc)) eqn:E; [|simpl; lia]. apply geqb_eq in E. injection E as _ E. rewrite E, geqb_refl. simpl. lia. }
    lia.
  - cbn [sent_events]. rewrite !filter_length_cons. specialize (IH (x :: hist)). cbn [firstn] in *.
    assert (H : (ind (geqb (x :: firstn k hist) (w :: rc)) <= ind (geqb (firstn k hist) rc))%nat).
    { destruct (geqb (x :: firstn k hist) (w :: rc)) eqn:E; [|simpl; lia]. apply geqb_eq in E. injection E as _ E. rewrite E, geqb_refl. simpl. lia. }
    lia.
Qed.

Lemma tcount_ctx : forall (c : corpus) (g : gram), (2 <= length g)%nat -> tl g <> [BOS] ->
  (tcount (events c) g <= tcount (events c) (tl g))%N.
Proof.
  intros c g Hl Hne. destruct g as [|w rc]; [simpl in Hl; lia|]. cbn [tl] in *. unfold tcount, lenN.
  apply N2Z.inj_le. rewrite !nat_N_Z. apply Nat2Z.inj_le. cbn [length].
  apply filter_le_events. intros s. pose proof (sent_ctx_count (length rc) w rc (clean s) [BOS]) as H.
  assert (E : geqb (firstn (length rc) [BOS]) rc = false).
  { apply geqb_neq. intro E. apply Hne. destruct rc as [|y [|z t]]; simpl in *; try lia; [|discriminate E]. rewrite <- E. reflexivity. }
  rewrite E in H. simpl ind in H. lia.
Qed.

Lemma firstn_removelast : forall (g e : gram), firstn (length g) e = g -> firstn (length (removelast g)) e = removelast g.
Proof.
  intros g e H. rewrite removelast_length, (removelast_firstn_len g).
  transitivity (firstn (pred (length g)) (firstn (length g) e)); [rewrite firstn_firstn; f_equal; lia|rewrite H; reflexivity].
Qed.

Lemma tcount_sfx : forall (ev : list gram) (g : gram), (tcount ev g <= tcount ev (removelast g))%N.
Proof.
  intros ev g. unfold tcount, lenN. apply N2Z.inj_le. rewrite !nat_N_Z. apply Nat2Z.inj_le.
  induction ev as [|e ev IH]; [simpl; lia|]. rewrite !filter_length_cons.
  assert (H : (ind (geqb (firstn (length g) e) g) <= ind (geqb (firstn (length (removelast g)) e) (removelast g)))%nat).
  { destruct (geqb (firstn (length g) e) g) eqn:E; [|simpl; lia]. apply geqb_eq in E.
    rewrite (firstn_removelast g e E), geqb_refl. simpl. lia. }
  lia.
Qed.

Lemma existsb_tl : forall (p : N -> bool) (g : gram), existsb p (tl g) = true -> existsb p g = true.
Proof. intros p [|x t] H; simpl in *; [exact H|]. rewrite H. apply orb_true_r. Qed.

Lemma existsb_removelast : forall (p : N -> bool) (g : gram), existsb p (removelast g) = true -> existsb p g = true.
Proof.
  intros p g. induction g as [|x [|y t] IH]; simpl in *; intros H; try discriminate.
  apply orb_true_iff in H. destruct H as [H|H]; [rewrite H; reflexivity|]. rewrite (IH H). apply orb_true_r.
Qed.

Lemma grams_length : forall ev k g, In g (grams ev k) -> (1 <= k)%nat -> length g = k.
Proof.
  intros ev k g H Hk. apply In_grams in H. destruct H as [[-> [->| ->]]|[e [He [Hl ->]]]]; try reflexivity.
  rewrite firstn_length. lia.
Qed.

Section Good.
  Variable c : corpus.
  Variable n : nat.
  Variable o : options.
  Hypothesis Hc : c <> [].
  Hypothesis Hn : (1 <= n)%nat.
  Hypothesis Hmono : thr_mono o n.
  Let ev := events c.
  Let tab := table n o ev.

  Lemma Hev : Forall wf_event ev.
  Proof. apply events_wf. Qed.

  Lemma ents_cases : forall k, (1 <= k <= n)%nat /\ ents tab k = entries n o ev k \/ (k = 0%nat /\ ents tab k = entries n o ev 1) \/ ((n < k)%nat /\ ents tab k = []).
  Proof.
    intros k. destruct (Nat.eq_dec k 0) as [->|Hk0].
    - right; left. split; [reflexivity|]. unfold tab. change (ents (table n o ev) 0) with (ents (table n o ev) 1). apply ents_table. lia.
    - destruct (Nat.le_gt_cases k n) as [Hle|Hgt].
      + left. split; [lia|]. apply ents_table. lia.
      + right; right. split; [exact Hgt|]. unfold tab, ents, table. apply nth_overflow. rewrite map_length, seq_length. lia.
  Qed.

  Lemma In_ents : forall k e, (1 <= k)%nat -> In e (ents tab k) -> (k <= n)%nat /\ In (e_gram e) (grams ev k) /\ e = sp n o ev k (e_gram e).
  Proof.
    intros k e Hk He. destruct (ents_cases k) as [[Hkn E]|[[E0 _]|[Hgt E]]]; [|lia|rewrite E in He; destruct He].
    rewrite E, entries_sp in He. apply in_map_iff in He. destruct He as [g [<- Hg]]. split; [lia|]. split; [exact Hg|reflexivity].
  Qed.

  Lemma ents_In : forall k g, (1 <= k <= n)%nat -> In g (grams ev k) -> In (sp n o ev k g) (ents tab k).
  Proof.
    intros k g Hk Hg. destruct (ents_cases k) as [[_ E]|[[E0 _]|[Hgt _]]]; try lia. rewrite E, entries_sp. apply in_map. exact Hg.
  Qed.

  Lemma gram_event : forall k g, (2 <= k)%nat -> In g (grams ev k) -> exists e, In e ev /\ (k <= length e)%nat /\ g = firstn k e.
  Proof. intros k g Hk Hg. apply In_grams in Hg. destruct Hg as [[E _]|H]; [lia|exact H]. Qed.

  (* context closure and monotone marks *)
  Lemma ctx_closed : forall k g, (1 <= k)%nat -> (S k <= n)%nat -> In g (grams ev (S k)) ->
    In (tl g) (grams ev k) /\ (marked o ev k (tl g) = true -> marked o ev (S k) g = true).
  Proof.
    intros k g Hk Hkn Hg. destruct (gram_event (S k) g ltac:(lia) Hg) as [e [He [Hl ->]]].
    destruct e as [|x t]; [simpl in Hl; lia|]. cbn [firstn tl].
    assert (Hlen : length (x :: firstn k t) = S k) by (cbn [length]; rewrite firstn_length; simpl in Hl; lia).
    destruct (events_tl c (x :: t) He) as [Et|Ht]; cbn [tl] in *.
    - subst t. simpl in Hl. assert (k = 1%nat) by lia. subst k. cbn [firstn]. split; [apply In_grams; left; tauto|].
      unfold marked at 1. cbn [special1]. discriminate.
    - split; [apply In_grams; right; exists t; split; [exact Ht|]; split; [simpl in Hl; lia|reflexivity]|].
      unfold marked. assert (Es : special1 (x :: firstn k t) = false).
      { destruct (firstn k t) as [|y u] eqn:Ef; [|reflexivity]. exfalso. assert (length (firstn k t) = 0%nat) by (rewrite Ef; reflexivity).
        rewrite firstn_length in H. simpl in Hl. lia. }
      rewrite Es. destruct (special1 (firstn k t)) eqn:Es2; [discriminate|]. intros H. apply orb_true_iff in H. apply orb_true_iff.
      destruct H as [H|H].
      + left. apply N.leb_le in H. apply N.leb_le.
        assert (Hne : firstn k t <> [BOS]) by (intro E; rewrite E in Es2; discriminate Es2).
        pose proof (tcount_ctx c (x :: firstn k t) ltac:(lia) Hne) as H1. cbn [tl] in H1. fold ev in H1.
        pose proof (Hmono k (S k) ltac:(lia) ltac:(lia)) as H2. lia.
      + right. apply (existsb_tl _ (x :: firstn k t)). exact H.
  Qed.

  Lemma sfx_closed : forall k g, (1 <= k)%nat -> (S k <= n)%nat -> In g (grams ev (S k)) ->
    In (removelast g) (grams ev k) /\ (marked o ev k (removelast g) = true -> marked o ev (S k) g = true).
  Proof.
    intros k g Hk Hkn Hg. destruct (gram_event (S k) g ltac:(lia) Hg) as [e [He [Hl Eg]]].
    assert (Hlen : length g = S k) by (rewrite Eg, firstn_length; lia).
    assert (Er : removelast g = firstn k e).
    { rewrite (removelast_firstn_len g), Hlen, Eg, firstn_firstn. f_equal. lia. }
    split; [rewrite Er; apply In_grams; right; exists e; split; [exact He|]; split; [lia|reflexivity]|].
    unfold marked. assert (Es : special1 g = false) by (destruct g as [|x [|y t]]; simpl in Hlen; try lia; reflexivity).
    rewrite Es. destruct (special1 (removelast g)); [discriminate|]. intros H. apply orb_true_iff in H. apply orb_true_iff.
    destruct H as [H|H].
    - left. apply N.leb_le in H. apply N.leb_le. pose proof (tcount_sfx ev g) as H1. pose proof (Hmono k (S k) ltac:(lia) ltac:(lia)) as H2. lia.
    - right. apply existsb_removelast. exact H.
  Qed.

  Lemma sp_gram : forall k g, e_gram (sp n o ev k g) = g.
  Proof. reflexivity. Qed.
  Lemma sp_marked : forall k g, e_marked (sp n o ev k g) = marked o ev k g.
  Proof. reflexivity. Qed.

  Lemma adj_special : forall w, (w <= 1)%N -> adj n ev 1 (grams ev 2) [w] = 0%N.
  Proof.
    intros w Hw. unfold adj.
    assert (Ht : tcount ev [w] = 0%N).
    { unfold tcount. rewrite filter_none; [reflexivity|]. intros e He. apply geqb_neq. intro Eq.
      destruct (hd_event ev Hev e He) as [x [t [-> Hx]]]. simpl in Eq. injection Eq as Eq. lia. }
    assert (Hl : lext (grams ev 2) [w] = 0%N).
    { unfold lext. rewrite filter_none; [reflexivity|]. intros q Hq. apply geqb_neq. intro Eq.
      destruct (gram_event 2 q ltac:(lia) Hq) as [e [He [Hl ->]]].
      destruct (hd_event ev Hev e He) as [x [t [-> Hx]]]. simpl in Eq. injection Eq as Eq. lia. }
    rewrite Ht, Hl. destruct ((1 =? n)%nat || (last [w] UNK =? BOS)%N); reflexivity.
  Qed.

  Lemma eos_event : exists t, In (EOS :: t) ev.
  Proof.
    unfold ev. destruct c as [|s c']; [congruence|]. rewrite events_cons.
    assert (H : forall s hist, exists t, In (EOS :: t) (sent_events hist s)).
    { induction s0 as [|x s0 IH]; intros hist; simpl; [exists hist; left; reflexivity|].
      destruct (IH (x :: hist)) as [t Ht]. exists t. right. exact Ht. }
    destruct (H (clean s) [BOS]) as [t Ht]. exists t. apply in_or_app. left. exact Ht.
  Qed.

  Lemma adj_eos : (1 <= adj n ev 1 (grams ev 2) [EOS])%N.
  Proof.
    destruct eos_event as [t Ht]. unfold adj. cbn [last]. assert (E : (EOS =? BOS)%N = false) by reflexivity. rewrite E, orb_false_r.
    pose proof (wf_event_length _ (ev_wf ev Hev _ Ht)) as Hl.
    destruct (1 =? n)%nat.
    - unfold tcount, lenN. assert (Hin : In (EOS :: t) (filter (fun e => geqb (firstn (length [EOS]) e) [EOS]) ev)) by (apply filter_In; split; [exact Ht|reflexivity]).
      destruct (filter _ ev); [destruct Hin|simpl; lia].
    - unfold lext, lenN. assert (Hin : In (firstn 2 (EOS :: t)) (filter (fun q => geqb (firstn (length [EOS]) q) [EOS]) (grams ev 2))).
      { apply filter_In. split; [apply In_grams; right; exists (EOS :: t); split; [exact Ht|]; split; [exact Hl|reflexivity]|].
        destruct t; reflexivity. }
      destruct (filter _ (grams ev 2)); [destruct Hin|simpl; lia].
  Qed.

  Theorem table_good : good tab.
  Proof.
    constructor.
    - intros k. destruct (ents_cases k) as [[_ E]|[[_ E]|[_ E]]]; rewrite E; try constructor.
      all: rewrite entries_sp, map_map; cbn [sp e_gram]; rewrite map_id; apply gsorted_NoDup; unfold grams; apply sort_uniq_sorted.
    - intros k e Hk He. destruct (In_ents k e Hk He) as [_ [Hg _]]. apply (grams_length ev k); assumption.
    - intros k e Hk He. destruct (In_ents (S k) e ltac:(lia) He) as [Hkn [Hg Ee]].
      destruct (ctx_closed k (e_gram e) Hk Hkn Hg) as [Hin Hm].
      exists (sp n o ev k (tl (e_gram e))). split; [apply ents_In; [lia|exact Hin]|]. split; [reflexivity|].
      rewrite sp_marked. intros H. rewrite Ee, sp_marked. apply Hm. exact H.
    - intros k e Hk He Hkept. destruct (In_ents (S k) e ltac:(lia) He) as [Hkn [Hg Ee]].
      destruct (sfx_closed k (e_gram e) Hk Hkn Hg) as [Hin Hm].
      exists (sp n o ev k (removelast (e_gram e))). split; [apply ents_In; [lia|exact Hin]|]. split; [reflexivity|].
      rewrite sp_marked. destruct (marked o ev k (removelast (e_gram e))) eqn:Em; [|reflexivity].
      rewrite Ee, sp_marked, (Hm eq_refl) in Hkept. discriminate.
    - intros k e Hk He. destruct (In_ents k e ltac:(lia) He) as [_ [Hg _]]. destruct (gram_event k _ Hk Hg) as [e' [He' [Hl ->]]].
      destruct (hd_event ev Hev e' He') as [x [t [-> Hx]]]. destruct k; [lia|]. simpl. unfold BOS. lia.
    - assert (E : mkE [UNK] 0 false 0 = sp n o ev 1 [UNK]) by (unfold sp; rewrite (adj_special UNK) by (unfold UNK; lia); reflexivity).
      rewrite E. apply ents_In; [lia|]. apply In_grams. left. tauto.
    - assert (E : mkE [BOS] 0 false 0 = sp n o ev 1 [BOS]) by (unfold sp; rewrite (adj_special BOS) by (unfold BOS; lia); reflexivity).
      rewrite E. apply ents_In; [lia|]. apply In_grams. left. tauto.
    - exists (adj n ev 1 (grams ev 2) [EOS]). split; [apply adj_eos|].
      change (mkE [EOS] (adj n ev 1 (grams ev 2) [EOS]) false (adj n ev 1 (grams ev 2) [EOS])) with (sp n o ev 1 [EOS]).
      apply ents_In; [lia|]. destruct eos_event as [t Ht]. apply In_grams. right. exists (EOS :: t). split; [exact Ht|].
      pose proof (wf_event_length _ (ev_wf ev Hev _ Ht)). split; [lia|reflexivity].
  Qed.
End Good.
