(* C06 -- the property theorems and nothing else (each closed by `exact <lemma>`).
   All statements are about the model written by kn_spec (coq/C05/KNSpec.v) in exact rational arithmetic; by
   C05_impl_refines_spec they hold for kn_impl, the model of the lmplz pipeline.  Hypotheses: at least one line in the
   corpus, order >= 1, pruning thresholds non-decreasing (enforced by ParsePruning), fallback discounts in range
   (enforced by ParseDiscountFallback).  `Refused` (no closed-form discount and no fallback) is a distinct result. *)
From Coq Require Import List NArith ZArith QArith Bool.
From Kenlm Require Import C05.KNDefs C05.KNSpec C05.KNModel C05.KNWitness C05.KNAdjustF C06.SumQ C06.SumProofs C06.GoodTable C06.RangeProofs
  C06.Final C06.PruneModel C06.PruneProofs C06.Examples.
Import ListNotations.
Local Open Scope Q_scope.

(* For every context -- any list of words, in the model or not, of any length -- the probabilities that the ARPA
   back-off recursion over the written n-grams assigns to the vocabulary words other than <s> sum to exactly one;
   with count pruning, vocabulary limiting, either unigram mode and closed-form or fallback discounts. *)
Theorem C06_sums_to_one : forall (c : corpus) (n : nat) (o : options) (m : model),
  c <> [] -> (1 <= n)%nat -> thr_mono o n -> kn_spec c n o = Built m ->
  forall ctx : list word, sumQ (bo_prob m ctx) (filter (fun w => negb (w =? BOS)%N) (vocab m)) == 1.
Proof. exact spec_sums_to_one. Qed.

(* context and suffix of every written n-gram are written one order lower, also under pruning *)
Theorem C06_closed : forall (c : corpus) (n : nat) (o : options) (m : model),
  (1 <= n)%nat -> thr_mono o n -> kn_spec c n o = Built m ->
  forall k g, (2 <= k <= n)%nat -> In g (map a_gram (nth (k - 1) (m_orders m) [])) ->
  In (tl g) (map a_gram (nth (k - 2) (m_orders m) [])) /\ In (removelast g) (map a_gram (nth (k - 2) (m_orders m) [])).
Proof. exact spec_closed. Qed.

(* every probability lies in [0,1], i.e. every log probability is at most 0; back-off weights are non-negative *)
Theorem C06_probs_nonpositive : forall (c : corpus) (n : nat) (o : options) (m : model),
  c <> [] -> (1 <= n)%nat -> thr_mono o n -> kn_spec c n o = Built m -> fallback_ok (o_fallback o) ->
  forall k a, (1 <= k)%nat -> In a (nth (k - 1) (m_orders m) []) -> 0 <= a_prob a /\ a_prob a <= 1 /\ 0 <= a_bo a.
Proof. exact spec_probs_range. Qed.

(* header counts = number of entries per order; for kn_impl they come from StatCollector's count_pruned *)
Theorem C06_header_counts : forall (c : corpus) (n : nat) (o : options) (m : model),
  (1 <= n)%nat -> (forall k, (thr o k < MAX64)%N) -> kn_impl c n o = Built m -> m_counts m = map lenN (m_orders m).
Proof. exact impl_header_counts. Qed.

Theorem C06_specials_present : forall (c : corpus) (n : nat) (o : options) (m : model),
  c <> [] -> (1 <= n)%nat -> thr_mono o n -> kn_spec c n o = Built m ->
  In [UNK] (map a_gram (nth 0 (m_orders m) [])) /\ In [BOS] (map a_gram (nth 0 (m_orders m) [])) /\ In [EOS] (map a_gram (nth 0 (m_orders m) [])).
Proof. exact spec_specials_present. Qed.

(* F12L, the unrepaired marking of </s> (fix_eos = false): counts_pruned of the unigrams is 4 while 5 unigrams are written *)
Theorem C06_header_counts_eos_refuted :
  let r := adjust true false 2 opts_p1 (sorted_counts 2 (events f12_corpus)) in
  map s_count_pruned (snd r) = [4; 1]%N /\
  map e_gram (filter (fun e => negb (e_marked e) || special1 (e_gram e)) (nth 0 (fst r) [])) = [[0];[1];[2];[3];[4]]%N.
Proof. exact f12_eos_marked. Qed.

(* PruneNGramStream: the repaired in-place compaction delivers exactly the unmarked entries and the special unigrams,
   for every block content; the unrepaired one loses a special that follows a pruned entry (F13L). *)
Theorem C06_prune_stream_keeps_specials : forall special mem, prune_block true special mem = prune_spec special mem.
Proof. exact prune_block_correct. Qed.
Theorem C06_prune_stream_special_lost_refuted :
  map e_gram (prune_block false ren_special f13_block) = [[0];[1];[2];[4]]%N /\
  map e_gram (prune_spec ren_special f13_block) = [[0];[1];[3];[4]]%N.
Proof. exact f13_special_lost. Qed.

(* ParsePruning's accepted vectors satisfy the threshold hypothesis of the theorems above *)
Theorem C06_parse_pruning_monotone : forall p n t o, parse_pruning p n = Some t -> o_prune o = t -> thr_mono o n /\ length t = n.
Proof. exact parse_pruning_mono. Qed.

(* the hypotheses are satisfiable, and the theorems are not vacuous: a model is built and the sum is a sum of 5 terms *)
Theorem C06_example_built : exists m, kn_spec example_corpus 3 example_opts = Built m /\ thr_mono example_opts 3 /\
  fallback_ok (o_fallback example_opts) /\ length (filter (fun w => negb (w =? BOS)%N) (vocab m)) = 5%nat.
Proof. exact example_built. Qed.
