(* C06/BoProofs.v -- the ARPA back-off recursion over the model written by `finish` computes the interpolated
   probabilities, hence sums to one; probabilities lie in [0,1]. *)
From Coq Require Import List NArith ZArith QArith Bool Lia Lqa.
From Kenlm Require Import C05.KNDefs C05.KNSpec C05.KNLex C05.KNAdjustE C06.SumQ C06.SumProofs.
Import ListNotations.
Local Open Scope Q_scope.

Lemma find_map_gram : forall (f : entry -> arpa) (l : list entry) g, (forall e, a_gram (f e) = e_gram e) ->
  find (fun a => geqb (a_gram a) g) (map f l) = option_map f (find (fun e => geqb (e_gram e) g) l).
Proof.
  intros f l g H. induction l as [|x l IH]; simpl; [reflexivity|]. rewrite H. destruct (geqb (e_gram x) g); [reflexivity|exact IH].
Qed.

Lemma find_filter_kept : forall (l : list entry) g, NoDup (map e_gram l) ->
  find (fun e => geqb (e_gram e) g) (filter kept l) =
  match find (fun e => geqb (e_gram e) g) l with Some e => if e_marked e then None else Some e | None => None end.
Proof.
  intros l g Hnd. induction l as [|x l IH]; simpl; [reflexivity|]. simpl in Hnd. inversion Hnd as [|? ? Hx Hl]; subst.
  unfold kept at 1. destruct (e_marked x) eqn:Em; simpl.
  - destruct (geqb (e_gram x) g) eqn:Eg.
    + rewrite Em. apply geqb_eq in Eg. rewrite (IH Hl).
      assert (Hn : find (fun e => geqb (e_gram e) g) l = None) by (apply find_none_iff; rewrite <- Eg; exact Hx). rewrite Hn. reflexivity.
    + apply IH. exact Hl.
  - destruct (geqb (e_gram x) g); [rewrite Em; reflexivity|apply IH; exact Hl].
Qed.

Section Bo.
  Variable n : nat.
  Variable tab : list (list entry).
  Variable ds : list (Q * Q * Q).
  Variable interp : bool.
  Variable m : model.
  Hypothesis G : good tab.
  Hypothesis Hlen : length tab = n.
  Hypothesis Hm : m_orders m = map (emit_order n tab ds interp) (seq 1 n).

  Notation E := (ents tab).
  Notation P := (pkn tab ds interp).

  Lemma ents_overflow : forall k, (n < k)%nat -> E k = [].
  Proof. intros k Hk. unfold ents. apply nth_overflow. lia. Qed.

  Lemma order_nth : forall k, (1 <= k <= n)%nat -> nth (k - 1) (m_orders m) [] = emit_order n tab ds interp k.
  Proof.
    intros k Hk. rewrite Hm. rewrite (nth_indep _ [] (emit_order n tab ds interp 0)) by (rewrite map_length, seq_length; lia).
    rewrite map_nth, seq_nth by lia. f_equal. lia.
  Qed.

  Lemma order_overflow : forall k, (n < k)%nat -> nth (k - 1) (m_orders m) [] = [].
  Proof. intros k Hk. apply nth_overflow. rewrite Hm, map_length, seq_length. lia. Qed.

  (* what a lookup in the written model returns *)
  Lemma lookup_spec : forall g, (1 <= length g)%nat ->
    lookup m g = match find (fun e => geqb (e_gram e) g) (E (length g)) with
                 | Some e => if e_marked e then None else Some (emit n tab ds interp (length g) e)
                 | None => None
                 end.
  Proof.
    intros g Hg. unfold lookup. destruct (Nat.le_gt_cases (length g) n) as [Hle|Hgt].
    - rewrite order_nth by lia. unfold emit_order. rewrite find_map_gram by reflexivity.
      rewrite find_filter_kept by (apply (g_nodup tab G)).
      destruct (find (fun e => geqb (e_gram e) g) (E (length g))) as [e|]; [|reflexivity]. destruct (e_marked e); reflexivity.
    - rewrite order_overflow by lia. rewrite ents_overflow by lia. reflexivity.
  Qed.

  Lemma lookup_none_u : forall k g, length g = k -> (1 <= k)%nat -> lookup m g = None -> u tab ds k g == 0.
  Proof.
    intros k g Hk Hk1 Hl. rewrite lookup_spec in Hl by lia. unfold u, find_kept. rewrite Hk in Hl.
    destruct (find (fun e => geqb (e_gram e) g) (E k)) as [e|]; [|reflexivity]. destruct (e_marked e); [reflexivity|discriminate].
  Qed.

  (* the back-off weight found for a context is gamma, or 1 when the context has no kept extension at all *)
  Lemma all_marked_gamma : forall k rc, (forall e, In e (E k) -> in_ctx rc e = true -> e_marked e = true) ->
    denom tab k rc <> 0%N -> gamma tab ds k rc == 1.
  Proof.
    intros k rc Hall Hd. unfold gamma, cnt_i. destruct (dk ds k) as [[d1 d2] d3].
    assert (Hz : forall i, filter (fun e => in_ctx rc e && kept e && (N.min (e_adj e) 3 =? i)%N) (E k) = []).
    { intros i. apply filter_none. intros e He. destruct (in_ctx rc e) eqn:Ec; [|reflexivity]. unfold kept. rewrite (Hall e He Ec). reflexivity. }
    rewrite !Hz. assert (Em : msum tab k rc = denom tab k rc).
    { unfold msum, denom. f_equal. f_equal. apply filter_ext_in. intros e He. destruct (in_ctx rc e) eqn:Ec; [|reflexivity]. rewrite (Hall e He Ec). reflexivity. }
    rewrite Em. change (QN (lenN [])) with 0. assert (Hq : ~ QN (denom tab k rc) == 0).
    { intro H. assert (0 < QN (denom tab k rc)) by (apply QN_pos; lia). lra. }
    field. exact Hq.
  Qed.

  Lemma bo_weight : forall c, c <> [] ->
    let k := S (length c) in let rc := rev c in
    (match lookup m rc with Some a => a_bo a | None => 1 end) == (if (denom tab k rc =? 0)%N then 1 else gamma tab ds k rc).
  Proof.
    intros c Hc k rc. assert (Hl : length rc = length c) by (unfold rc; apply rev_length).
    assert (Hc1 : (1 <= length c)%nat) by (destruct c; [congruence|simpl; lia]).
    rewrite lookup_spec by lia. rewrite Hl.
    destruct (Nat.le_gt_cases k n) as [Hkn|Hkn].
    - destruct (find (fun e => geqb (e_gram e) rc) (E (length c))) as [e'|] eqn:Ef.
      + apply find_some in Ef. destruct Ef as [He' Hg']. apply geqb_eq in Hg'.
        destruct (e_marked e') eqn:Em'.
        * (* the context itself is pruned: all its extensions are *)
          destruct (N.eqb_spec (denom tab k rc) 0) as [Hz|Hnz]; [reflexivity|]. symmetry. apply all_marked_gamma; [|exact Hnz].
          intros e He Hctx. destruct (g_ctx tab G (length c) e Hc1 He) as [e2 [He2 [Hg2 Himp]]].
          unfold in_ctx in Hctx. apply geqb_eq in Hctx. apply Himp.
          assert (e2 = e').
          { pose proof (find_NoDup (E (length c)) e2 (g_nodup tab G _) He2) as F2. pose proof (find_NoDup (E (length c)) e' (g_nodup tab G _) He') as F1.
            rewrite Hg2, Hctx in F2. rewrite Hg' in F1. congruence. }
          subst e2. exact Em'.
        * cbn [emit a_bo]. rewrite Qred_correct. unfold backoff. rewrite Hg'.
          assert (Elt : (length c <? n)%nat = true) by (apply Nat.ltb_lt; unfold k in Hkn; lia). rewrite Elt. reflexivity.
      + (* the context is not an n-gram at all: it has no extension *)
        assert (Hd : denom tab k rc = 0%N).
        { unfold denom. rewrite filter_none; [reflexivity|]. intros e He. destruct (in_ctx rc e) eqn:Ec; [|reflexivity]. exfalso.
          destruct (g_ctx tab G (length c) e Hc1 He) as [e2 [He2 [Hg2 _]]]. unfold in_ctx in Ec. apply geqb_eq in Ec.
          pose proof (find_none _ _ Ef e2 He2) as Hfn. cbv beta in Hfn. rewrite Hg2, Ec, geqb_refl in Hfn. discriminate Hfn. }
        rewrite Hd. reflexivity.
    - assert (Hd : denom tab k rc = 0%N) by (unfold denom; rewrite ents_overflow by lia; reflexivity). rewrite Hd. cbn [N.eqb].
      destruct (find (fun e => geqb (e_gram e) rc) (E (length c))) as [e'|]; [|reflexivity]. destruct (e_marked e'); [reflexivity|].
      cbn [emit a_bo]. rewrite Qred_correct. unfold backoff. assert (Elt : (length c <? n)%nat = false) by (apply Nat.ltb_ge; unfold k in Hkn; lia).
      rewrite Elt. reflexivity.
  Qed.

  (* ---- the recursion over the written model computes pkn *)
  Theorem bo_prob_pkn : forall c w, In w (V' tab) -> bo_prob m c w == P c w.
  Proof.
    induction c as [|x c IH]; intros w Hw.
    - cbn [bo_prob rev app]. rewrite lookup_spec by (simpl; lia). cbn [length].
      unfold V' in Hw. apply filter_In in Hw. destruct Hw as [Hw _]. apply (In_V1 tab G) in Hw. destruct Hw as [e [He [Hm' Hg]]].
      pose proof (find_NoDup (E 1) e (g_nodup tab G 1) He) as Hf. rewrite Hg in Hf. rewrite Hf, Hm'. cbn [emit a_prob]. rewrite Qred_correct, Hg. reflexivity.
    - cbn [bo_prob]. destruct (lookup m (w :: rev (x :: c))) as [a|] eqn:El.
      + rewrite lookup_spec in El by (simpl; lia).
        destruct (find (fun e => geqb (e_gram e) (w :: rev (x :: c))) (E (length (w :: rev (x :: c))))) as [e|] eqn:Ef; [|discriminate].
        destruct (e_marked e); [discriminate|]. injection El as <-. apply find_some in Ef. destruct Ef as [_ Hg]. apply geqb_eq in Hg.
        cbn [emit a_prob]. rewrite Qred_correct, Hg. cbn [tl hd]. rewrite rev_involutive. reflexivity.
      + rewrite (IH w Hw). pose proof (bo_weight (x :: c) ltac:(discriminate)) as Hb. cbv zeta in Hb. rewrite Hb.
        cbn [pkn]. set (k := S (length (x :: c))). set (rc := rev (x :: c)).
        destruct (denom tab k rc =? 0)%N; [ring|].
        rewrite (lookup_none_u k (w :: rc)); [ring| |lia|exact El]. unfold k, rc. cbn [length]. rewrite rev_length. reflexivity.
  Qed.

  Lemma vocab_V1 : vocab m = V1 tab.
  Proof.
    unfold vocab, V1. pose proof (order_nth 1) as H1. destruct (Nat.eq_dec n 0) as [Hn0|Hn0].
    - exfalso. pose proof (g_unk tab G) as Hu. unfold ents in Hu. rewrite nth_overflow in Hu by lia. destruct Hu.
    - change (nth 0 (m_orders m) []) with (nth (1 - 1) (m_orders m) []). rewrite H1 by lia. unfold emit_order. rewrite map_map. reflexivity.
  Qed.

  Theorem model_sums_to_one : forall c, sumQ (bo_prob m c) (filter (fun w => negb (w =? BOS)%N) (vocab m)) == 1.
  Proof.
    intros c. rewrite vocab_V1. fold (V' tab). rewrite (sumQ_ext _ (P c)) by (intros w Hw; apply bo_prob_pkn; exact Hw).
    apply pkn_sums_to_one. exact G.
  Qed.
End Bo.
