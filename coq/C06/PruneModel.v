(* C06/PruneModel.v -- PruneNGramStream::operator++ (lm/builder/initial_probabilities.cc) over one block:
   entries are compacted in place; `dest` is the write position, `cur` the read position.  No proofs here.
   fixed = false is the unrepaired code: a special unigram (<unk>, <s>, </s>) advances dest WITHOUT being copied,
   which is only harmless while no pruned entry precedes it (ids 0,1,2 come first unless the vocabulary was
   renumbered: --renumber / --intermediate).  Defect F13L. *)
From Coq Require Import List NArith PeanoNat Bool.
From Kenlm Require Import C05.KNDefs.
Import ListNotations.

Fixpoint upd {A} (i : nat) (x : A) (l : list A) : list A :=
  match l, i with
  | [], _ => []
  | _ :: t, O => x :: t
  | h :: t, S j => h :: upd j x t
  end.

Section Prune.
  Variable fixed : bool.
  Variable special : entry -> bool.     (* order 1 and specials_.IsSpecial(word) *)
  Definition dflt := mkE [] 0 true 0.
  Definition copy_down (mem : list entry) (dest cur : nat) : list entry :=
    if Nat.ltb dest cur then upd dest (nth cur mem dflt) mem else mem.
  Fixpoint prune_run (fuel : nat) (mem : list entry) (dest cur : nat) : list entry :=
    match fuel with
    | O => firstn dest mem                              (* block_->SetValidSize(dest - base) *)
    | S f =>
        let e := nth cur mem dflt in
        if special e then prune_run f (if fixed then copy_down mem dest cur else mem) (S dest) (S cur)
        else if negb (e_marked e) then prune_run f (copy_down mem dest cur) (S dest) (S cur)   (* CutoffCount() > 0 *)
        else prune_run f mem dest (S cur)
    end.
  Definition prune_block (mem : list entry) : list entry := prune_run (length mem) mem 0 0.
End Prune.

(* what the stream must deliver: every entry that is not marked, and every special unigram *)
Definition prune_spec (special : entry -> bool) (mem : list entry) : list entry :=
  filter (fun e => special e || negb (e_marked e)) mem.
