(* C06/Final.v -- the C06 clauses for the model written by kn_spec, for every corpus, order and option set. *)
From Coq Require Import List NArith ZArith QArith Bool Lia Lqa.
From Kenlm Require Import C05.KNDefs C05.KNSpec C05.KNModel C05.KNLex C05.KNEvents C05.KNAdjustD C05.KNAdjustE C05.KNAdjustF C05.KNNgramSet
  C06.SumQ C06.SumProofs C06.GoodTable C06.BoProofs C06.RangeProofs.
Import ListNotations.
Local Open Scope Q_scope.

Lemma table_length : forall n o ev, length (table n o ev) = n.
Proof. intros. unfold table. rewrite map_length, seq_length. reflexivity. Qed.

Lemma spec_shape : forall c n o m, kn_spec c n o = Built m ->
  exists ds, all_discounts (o_fallback o) 1 (map order_stat (table n o (events c))) = inl ds /\
    m = mkM (map s_count_pruned (map order_stat (table n o (events c)))) ds
            (map (emit_order n (table n o (events c)) ds (o_interp_uni o)) (seq 1 n)).
Proof.
  intros c n o m H. unfold kn_spec, finish, finish_with in H.
  destruct (all_discounts (o_fallback o) 1 (map order_stat (table n o (events c)))) as [ds|k]; [|discriminate].
  injection H as <-. exists ds. split; reflexivity.
Qed.

Section Final.
  Variable c : corpus.
  Variable n : nat.
  Variable o : options.
  Variable m : model.
  Hypothesis Hc : c <> [].
  Hypothesis Hn : (1 <= n)%nat.
  Hypothesis Hmono : thr_mono o n.
  Hypothesis H : kn_spec c n o = Built m.
  Let ev := events c.
  Let tab := table n o ev.

  Lemma G : good tab.
  Proof. apply table_good; assumption. Qed.

  Theorem spec_sums_to_one : forall ctx : list word,
    sumQ (bo_prob m ctx) (filter (fun w => negb (w =? BOS)%N) (vocab m)) == 1.
  Proof.
    intros ctx. destruct (spec_shape c n o m H) as [ds [_ Em]].
    assert (Hm : m_orders m = map (emit_order n tab ds (o_interp_uni o)) (seq 1 n)) by exact (f_equal m_orders Em).
    exact (model_sums_to_one n tab ds (o_interp_uni o) m G (table_length n o ev) Hm ctx).
  Qed.

  Lemma In_order : forall k a, In a (nth (k - 1) (m_orders m) []) -> (1 <= k)%nat ->
    exists ds e, all_discounts (o_fallback o) 1 (map order_stat tab) = inl ds /\ (k <= n)%nat /\
      In e (ents tab k) /\ e_marked e = false /\ a = emit n tab ds (o_interp_uni o) k e.
  Proof.
    intros k a Ha Hk. destruct (spec_shape c n o m H) as [ds [Hds Em]]. exists ds.
    destruct (Nat.le_gt_cases k n) as [Hle|Hgt].
    - rewrite (order_nth n tab ds (o_interp_uni o) m (table_length n o ev) (f_equal m_orders Em)) in Ha by lia.
      unfold emit_order in Ha. apply in_map_iff in Ha. destruct Ha as [e [<- He]]. apply filter_In in He. destruct He as [He Hk'].
      exists e. unfold kept in Hk'. apply negb_true_iff in Hk'. repeat split; try assumption.
    - rewrite (f_equal m_orders Em) in Ha. cbn [m_orders] in Ha. rewrite nth_overflow in Ha by (rewrite map_length, seq_length; lia). destruct Ha.
  Qed.

  (* every written probability is in [0,1] (log10 <= 0), every back-off weight is non-negative *)
  Theorem spec_probs_range : fallback_ok (o_fallback o) -> forall k a, (1 <= k)%nat -> In a (nth (k - 1) (m_orders m) []) ->
    0 <= a_prob a /\ a_prob a <= 1 /\ 0 <= a_bo a.
  Proof.
    intros Hfb k a Hk Ha. destruct (In_order k a Ha Hk) as [ds [e [Hds [Hkn [He [Hm ->]]]]]].
    assert (Hd : forall j, disc_ok (dk ds j)) by (apply dk_ok; apply (all_discounts_ok _ _ _ _ Hfb Hds)).
    cbn [emit a_prob a_bo]. rewrite !Qred_correct.
    destruct (pkn_range tab ds (o_interp_uni o) G Hd (rev (tl (e_gram e))) (hd UNK (e_gram e))) as [H0 H1].
    split; [exact H0|]. split; [exact H1|]. apply backoff_nonneg. exact Hd.
  Qed.

  (* closure: context and suffix of every written n-gram are written one order lower *)
  Theorem spec_closed : forall k g, (2 <= k <= n)%nat -> In g (map a_gram (nth (k - 1) (m_orders m) [])) ->
    In (tl g) (map a_gram (nth (k - 2) (m_orders m) [])) /\ In (removelast g) (map a_gram (nth (k - 2) (m_orders m) [])).
  Proof.
    intros k g Hk Hg. rewrite (emitted_ngrams c n o m k H) in Hg by lia.
    replace (k - 2)%nat with ((k - 1) - 1)%nat by lia. rewrite (emitted_ngrams c n o m (k - 1) H) by lia.
    apply filter_In in Hg. destruct Hg as [Hg Hm]. apply negb_true_iff in Hm.
    replace k with (S (k - 1)) in Hg, Hm by lia.
    destruct (ctx_closed c n o Hn Hmono (k - 1) g ltac:(lia) ltac:(lia) Hg) as [Hc1 Hc2].
    destruct (sfx_closed c n o Hn Hmono (k - 1) g ltac:(lia) ltac:(lia) Hg) as [Hs1 Hs2].
    split; apply filter_In; (split; [assumption|]); apply negb_true_iff.
    - destruct (marked o (events c) (k - 1) (tl g)) eqn:E; [|reflexivity]. rewrite (Hc2 eq_refl) in Hm. discriminate.
    - destruct (marked o (events c) (k - 1) (removelast g)) eqn:E; [|reflexivity]. rewrite (Hs2 eq_refl) in Hm. discriminate.
  Qed.

  (* header counts = number of entries written per order *)
  Theorem spec_header_counts : m_counts m = map lenN (m_orders m).
  Proof.
    destruct (spec_shape c n o m H) as [ds [_ Em]]. rewrite (f_equal m_counts Em), (f_equal m_orders Em). cbn [m_counts m_orders].
    transitivity (map (fun k => lenN (filter kept (entries n o (events c) k))) (seq 1 n)).
    - unfold table. rewrite !map_map. apply map_ext. intros k. reflexivity.
    - rewrite map_map. apply map_ext_in. intros k Hk. apply in_seq in Hk. unfold emit_order, lenN.
      rewrite map_length, (ents_table n o (events c) k) by lia. reflexivity.
  Qed.

  Theorem spec_specials_present :
    In [UNK] (map a_gram (nth 0 (m_orders m) [])) /\ In [BOS] (map a_gram (nth 0 (m_orders m) [])) /\ In [EOS] (map a_gram (nth 0 (m_orders m) [])).
  Proof.
    change (nth 0 (m_orders m) []) with (nth (1 - 1) (m_orders m) []). rewrite (emitted_ngrams c n o m 1 H) by lia.
    pose proof G as HG. destruct HG as [_ _ _ _ _ Hu Hb [a [Ha He]]].
    assert (Hin : forall e, In e (ents tab 1) -> e_marked e = false -> In (e_gram e) (filter (fun g => negb (marked o (events c) 1 g)) (grams (events c) 1))).
    { intros e Hin Hm. destruct (In_ents c n o Hn 1 e ltac:(lia) Hin) as [_ [Hg Ee]]. apply filter_In. split; [exact Hg|].
      rewrite Ee in Hm. cbn [sp e_marked] in Hm. rewrite Hm. reflexivity. }
    split; [|split]; [apply (Hin _ Hu)|apply (Hin _ Hb)|apply (Hin _ He)]; reflexivity.
  Qed.
End Final.
