(* C06/Examples.v -- satisfiability of the hypotheses of the C06 theorems, and the kn_impl version of the header clause. *)
From Coq Require Import List NArith ZArith QArith Bool Lia Lqa.
From Kenlm Require Import C05.KNDefs C05.KNSpec C05.KNModel C05.KNAdjustF C06.SumQ C06.SumProofs C06.GoodTable C06.RangeProofs C06.Final.
Import ListNotations.

Definition example_corpus : corpus := [[3;4;5;3;4]; [3;4]; []; [4;5;6]]%N.
Definition example_opts : options := mkOpts [0;0;1]%N (Some [3;4;5]%N) true (Some (1#2, 1, 3#2)).

Lemma example_mono : thr_mono example_opts 3.
Proof.
  intros j k Hjk Hk. unfold thr, example_opts, o_prune.
  assert (Hj : (j = 1 \/ j = 2 \/ j = 3)%nat) by lia. assert (Hk' : (k = 1 \/ k = 2 \/ k = 3)%nat) by lia.
  destruct Hj as [->|[->| ->]]; destruct Hk' as [->|[->| ->]]; simpl; lia.
Qed.

Lemma example_built : exists m, kn_spec example_corpus 3 example_opts = Built m /\ thr_mono example_opts 3 /\
  fallback_ok (o_fallback example_opts) /\ length (filter (fun w => negb (w =? BOS)%N) (vocab m)) = 5%nat.
Proof.
  eexists. split; [vm_compute; reflexivity|]. split; [exact example_mono|]. split; [|vm_compute; reflexivity].
  unfold fallback_ok, example_opts, o_fallback, disc_ok. lra.
Qed.

Lemma impl_header_counts : forall (c : corpus) (n : nat) (o : options) (m : model),
  (1 <= n)%nat -> (forall k, (thr o k < MAX64)%N) -> kn_impl c n o = Built m -> m_counts m = map lenN (m_orders m).
Proof.
  intros c n o m Hn Hthr H. rewrite (impl_refines_spec c n o Hn Hthr) in H.
  destruct (spec_shape c n o m H) as [ds [_ ->]]. cbn [m_counts m_orders].
  transitivity (map (fun k => lenN (filter kept (entries n o (events c) k))) (seq 1 n)).
  - unfold table. rewrite !map_map. apply map_ext. intros k. reflexivity.
  - rewrite map_map. apply map_ext_in. intros k Hk. apply in_seq in Hk. unfold emit_order, lenN.
    rewrite map_length, (KNNgramSet.ents_table n o (events c) k) by lia. reflexivity.
Qed.

(* ParsePruning (lmplz_main.cc) only lets non-decreasing threshold vectors through, padded to the order *)
Lemma nondecreasing_nth : forall l i j, nondecreasing l = true -> (i <= j)%nat -> (j < length l)%nat -> (nth i l 0 <= nth j l 0)%N.
Proof.
  induction l as [|x l IH]; intros i j H Hij Hj; [simpl in Hj; lia|].
  destruct l as [|y l'].
  - simpl in Hj. assert (i = 0%nat) by lia. assert (j = 0%nat) by lia. subst. simpl. lia.
  - cbn [nondecreasing] in H. apply andb_true_iff in H. destruct H as [Hxy Hrest]. apply N.leb_le in Hxy.
    destruct i as [|i]; destruct j as [|j]; try lia.
    + cbn [nth]. specialize (IH 0%nat j Hrest ltac:(lia) ltac:(simpl in *; lia)). cbn [nth] in IH. lia.
    + cbn [nth]. apply IH; [exact Hrest|lia|simpl in *; lia].
Qed.

Lemma nd_repeat : forall x k, nondecreasing (x :: repeat x k) = true.
Proof. induction k as [|k IH]; [reflexivity|]. cbn [repeat]. cbn [nondecreasing]. rewrite N.leb_refl. exact IH. Qed.

Lemma nondecreasing_pad : forall l k, l <> [] -> nondecreasing l = true -> nondecreasing (l ++ repeat (last l 0%N) k) = true.
Proof.
  induction l as [|x l IH]; intros k Hne H; [congruence|]. destruct l as [|y l'].
  - cbn [last app]. apply nd_repeat.
  - cbn [nondecreasing] in H. apply andb_true_iff in H. destruct H as [Hxy Hrest].
    change ((x :: y :: l') ++ repeat (last (x :: y :: l') 0%N) k) with (x :: ((y :: l') ++ repeat (last (y :: l') 0%N) k)).
    specialize (IH k ltac:(discriminate) Hrest). cbn [app] in *. cbn [nondecreasing]. rewrite Hxy. exact IH.
Qed.

Lemma parse_pruning_mono : forall p n t o, parse_pruning p n = Some t -> o_prune o = t -> thr_mono o n /\ length t = n.
Proof.
  intros p n t o H Ho. unfold parse_pruning in H. destruct p as [|x p'].
  - injection H as <-. split; [|apply repeat_length]. intros j k Hjk Hk. unfold thr. rewrite Ho.
    rewrite !nth_repeat. lia.
  - destruct ((length (x :: p') <=? n)%nat && nondecreasing (x :: p')) eqn:E; [|discriminate].
    set (q := x :: p') in *.
    assert (Ht : t = q ++ repeat (last q 0%N) (n - length q)) by congruence. clear H.
    apply andb_true_iff in E. destruct E as [El End]. apply Nat.leb_le in El.
    assert (Hlen : length t = n) by (rewrite Ht, app_length, repeat_length; lia).
    split; [|exact Hlen]. intros j k Hjk Hk. unfold thr. rewrite Ho, Ht.
    apply nondecreasing_nth; [apply nondecreasing_pad; [discriminate|exact End]|lia|rewrite <- Ht; lia].
Qed.
