(* C06/Examples.v -- satisfiability of the hypotheses of the C06 theorems, and the kn_impl version of the header clause. *)
From Coq Require Import List NArith ZArith QArith Bool Lia Lqa.
From Kenlm Require Import C05.KNDefs C05.KNSpec C05.KNModel C05.KNAdjustF C06.SumQ C06.SumProofs C06.GoodTable C06.RangeProofs C06.Final.
Import ListNotations.

Definition example_corpus : corpus := [[3;4;5;3;4]; [3;4]; []; [4;5;6]]%N.
Definition example_opts : options := mkOpts [0;0;1]%N (Some [3;4;5]%N) true (Some (1#2, 1, 3#2)).

Lemma example_mono : thr_mono example_opts 3.
Proof.
  intros j k Hjk Hk. unfold thr, example_opts, o_prune.
  assert (Hj : (j = 1 \/ j = 2 \/ j = 3)%nat) by lia. assert (Hk' : (k = 1 \/ k = 2 \/ k = 3)%nat) by lia.
  destruct Hj as [->|[->| ->]]; destruct Hk' as [->|[->| ->]]; simpl; lia.
Qed.

Lemma example_built : exists m, kn_spec example_corpus 3 example_opts = Built m /\ thr_mono example_opts 3 /\
  fallback_ok (o_fallback example_opts) /\ length (filter (fun w => negb (w =? BOS)%N) (vocab m)) = 5%nat.
Proof.
  eexists. split; [vm_compute; reflexivity|]. split; [exact example_mono|]. split; [|vm_compute; reflexivity].
  unfold fallback_ok, example_opts, o_fallback, disc_ok. lra.
Qed.

Lemma impl_header_counts : forall (c : corpus) (n : nat) (o : options) (m : model),
  (1 <= n)%nat -> (forall k, (thr o k < MAX64)%N) -> kn_impl c n o = Built m -> m_counts m = map lenN (m_orders m).
Proof.
  intros c n o m Hn Hthr H. rewrite (impl_refines_spec c n o Hn Hthr) in H.
  destruct (spec_shape c n o m H) as [ds [_ ->]]. cbn [m_counts m_orders].
  transitivity (map (fun k => lenN (filter kept (entries n o (events c) k))) (seq 1 n)).
  - unfold table. rewrite !map_map. apply map_ext. intros k. reflexivity.
  - rewrite map_map. apply map_ext_in. intros k Hk. apply in_seq in Hk. unfold emit_order, lenN.
    rewrite map_length, (KNNgramSet.ents_table n o (events c) k) by lia. reflexivity.
Qed.
