(* C06/SumQ.v -- finite sums of rationals over lists. *)
From Coq Require Import List NArith ZArith QArith Bool Lia Lqa.
From Kenlm Require Import C05.KNDefs C05.KNSpec.
Import ListNotations.
Local Open Scope Q_scope.

Lemma sumQ_ext : forall {A} (f g : A -> Q) l, (forall x, In x l -> f x == g x) -> sumQ f l == sumQ g l.
Proof.
  intros A f g l H. induction l as [|x l IH]; simpl; [reflexivity|].
  rewrite (H x) by (left; reflexivity). rewrite IH; [reflexivity|]. intros y Hy. apply H. right. exact Hy.
Qed.

Lemma sumQ_plus : forall {A} (f g : A -> Q) l, sumQ (fun x => f x + g x) l == sumQ f l + sumQ g l.
Proof. intros A f g l. induction l as [|x l IH]; simpl; [reflexivity|]. rewrite IH. ring. Qed.

Lemma sumQ_scal : forall {A} (f : A -> Q) (a : Q) l, sumQ (fun x => a * f x) l == a * sumQ f l.
Proof. intros A f a l. induction l as [|x l IH]; simpl; [ring|]. rewrite IH. ring. Qed.

Lemma sumQ_const : forall {A} (a : Q) (l : list A), sumQ (fun _ => a) l == a * QN (lenN l).
Proof.
  intros A a l. unfold lenN, QN. induction l as [|x l IH]; simpl sumQ; [simpl; ring|]. rewrite IH.
  simpl length. rewrite Nat2N.inj_succ, N2Z.inj_succ. unfold Z.succ. rewrite inject_Z_plus. ring.
Qed.

Lemma sumQ_zero : forall {A} (f : A -> Q) l, (forall x, In x l -> f x == 0) -> sumQ f l == 0.
Proof.
  intros A f l H. induction l as [|x l IH]; simpl; [reflexivity|]. rewrite (H x) by (left; reflexivity).
  rewrite IH; [ring|]. intros y Hy. apply H. right. exact Hy.
Qed.

Lemma sumQ_map : forall {A B} (h : A -> B) (f : B -> Q) l, sumQ f (map h l) = sumQ (fun x => f (h x)) l.
Proof. intros A B h f l. induction l as [|x l IH]; simpl; [reflexivity|]. rewrite IH. reflexivity. Qed.

Lemma sumQ_app : forall {A} (f : A -> Q) l1 l2, sumQ f (l1 ++ l2) == sumQ f l1 + sumQ f l2.
Proof. intros A f l1 l2. induction l1 as [|x l IH]; simpl; [ring|]. rewrite IH. ring. Qed.

Lemma sumQ_nonneg : forall {A} (f : A -> Q) l, (forall x, In x l -> 0 <= f x) -> 0 <= sumQ f l.
Proof.
  intros A f l H. induction l as [|x l IH]; simpl; [lra|].
  assert (0 <= f x) by (apply H; left; reflexivity). assert (0 <= sumQ f l) by (apply IH; intros y Hy; apply H; right; exact Hy). lra.
Qed.

Lemma sumQ_ge_elem : forall {A} (f : A -> Q) l x, (forall y, In y l -> 0 <= f y) -> In x l -> f x <= sumQ f l.
Proof.
  intros A f l x H Hx. induction l as [|y l IH]; [destruct Hx|]. simpl.
  assert (Hy : 0 <= f y) by (apply H; left; reflexivity).
  assert (Hs : 0 <= sumQ f l) by (apply sumQ_nonneg; intros z Hz; apply H; right; exact Hz).
  destruct Hx as [->|Hx]; [lra|]. assert (f x <= sumQ f l) by (apply IH; [intros z Hz; apply H; right; exact Hz|exact Hx]). lra.
Qed.

(* split a sum by a predicate *)
Lemma sumQ_filter_split : forall {A} (f : A -> Q) (p : A -> bool) l,
  sumQ f l == sumQ f (filter p l) + sumQ f (filter (fun x => negb (p x)) l).
Proof.
  intros A f p l. induction l as [|x l IH]; simpl; [ring|]. destruct (p x); simpl; rewrite IH; ring.
Qed.

(* a sum over a duplicate-free list only depends on the part where the summand is not zero *)
Section Subset.
  Context {A : Type}.
  Variable eq_dec : forall x y : A, {x = y} + {x <> y}.

  Lemma sumQ_remove : forall (f : A -> Q) l v, NoDup l -> In v l -> sumQ f l == f v + sumQ f (remove eq_dec v l).
  Proof.
    intros f l v Hnd Hin. induction l as [|x l IH]; [destruct Hin|]. inversion Hnd as [|? ? Hx Hl]; subst. simpl.
    destruct (eq_dec v x) as [->|Hne].
    - rewrite (notin_remove eq_dec l x Hx). reflexivity.
    - destruct Hin as [E|Hin]; [congruence|]. simpl. rewrite (IH Hl Hin). ring.
  Qed.

  Lemma NoDup_remove' : forall (l : list A) v, NoDup l -> NoDup (remove eq_dec v l).
  Proof.
    intros l v H. induction H as [|x l Hx Hl IH]; simpl; [constructor|]. destruct (eq_dec v x); [exact IH|].
    constructor; [|exact IH]. intro Hin. apply in_remove in Hin. tauto.
  Qed.

  Lemma sumQ_subset : forall (f : A -> Q) V W, NoDup V -> NoDup W -> incl W V ->
    (forall v, In v V -> ~ In v W -> f v == 0) -> sumQ f V == sumQ f W.
  Proof.
    intros f V. induction V as [|v V IH]; intros W HV HW Hincl Hz.
    - destruct W as [|w W]; [reflexivity|]. exfalso. apply (Hincl w). left. reflexivity.
    - inversion HV as [|? ? Hv HV']; subst. simpl.
      destruct (in_dec eq_dec v W) as [Hin|Hnin].
      + rewrite (sumQ_remove f W v HW Hin). rewrite (IH (remove eq_dec v W)); [reflexivity|exact HV'|apply NoDup_remove'; exact HW| |].
        * intros x Hx. apply in_remove in Hx. destruct Hx as [Hx Hne]. destruct (Hincl x Hx) as [E|H]; [congruence|exact H].
        * intros x Hx Hn. apply Hz; [right; exact Hx|]. intro HxW. apply Hn. apply in_in_remove; [|exact HxW]. intro E. subst. contradiction.
      + rewrite (Hz v) by (try (left; reflexivity); exact Hnin). rewrite (IH W); [ring|exact HV'|exact HW| |].
        * intros x Hx. destruct (Hincl x Hx) as [E|H]; [subst; contradiction|exact H].
        * intros x Hx Hn. apply Hz; [right; exact Hx|exact Hn].
  Qed.
End Subset.

Lemma QN_0 : QN 0 == 0.
Proof. reflexivity. Qed.
Lemma QN_add : forall a b, QN (a + b) == QN a + QN b.
Proof. intros a b. unfold QN. rewrite N2Z.inj_add, inject_Z_plus. reflexivity. Qed.
Lemma QN_nonneg : forall a, 0 <= QN a.
Proof. intros a. unfold QN. change 0 with (inject_Z 0). rewrite <- Zle_Qle. apply N2Z.is_nonneg. Qed.
Lemma QN_pos : forall a, (0 < a)%N -> 0 < QN a.
Proof. intros a H. unfold QN. change 0 with (inject_Z 0). rewrite <- Zlt_Qlt. lia. Qed.
Lemma QN_le : forall a b, (a <= b)%N -> QN a <= QN b.
Proof. intros a b H. unfold QN. rewrite <- Zle_Qle. lia. Qed.
Lemma QN_sumN : forall l, QN (sumN l) == sumQ QN l.
Proof. induction l as [|x l IH]; simpl; [reflexivity|]. rewrite QN_add, IH. reflexivity. Qed.
Lemma QN_succ_len : forall {A} (x : A) l, QN (lenN (x :: l)) == QN (lenN l) + 1.
Proof. intros A x l. unfold lenN, QN. simpl length. rewrite Nat2N.inj_succ, N2Z.inj_succ. unfold Z.succ. rewrite inject_Z_plus. reflexivity. Qed.
