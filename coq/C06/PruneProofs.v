From Coq Require Import List NArith PeanoNat Bool Lia.
From Kenlm Require Import C05.KNDefs C06.PruneModel.
Import ListNotations.

(* renumbered unigram block  <unk> <s> a(pruned) </s> b : the unrepaired stream delivers <unk> <s> a b *)
Definition ren_special (e : entry) : bool := match e_gram e with [w] => (w =? 0)%N || (w =? 1)%N || (w =? 3)%N | _ => false end.
Definition f13_block : list entry :=
  [mkE [0%N] 0 false 0; mkE [1%N] 0 false 0; mkE [2%N] 1 true 1; mkE [3%N] 1 false 1; mkE [4%N] 1 false 1].
Lemma f13_special_lost :
  map e_gram (prune_block false ren_special f13_block) = [[0];[1];[2];[4]]%N /\
  map e_gram (prune_spec ren_special f13_block) = [[0];[1];[3];[4]]%N.
Proof. vm_compute. split; reflexivity. Qed.

(* ---- the repaired stream delivers exactly the kept entries and the special unigrams, for every block *)
Lemma upd_length : forall {A} i (x : A) l, length (upd i x l) = length l.
Proof. intros A i x l. revert i. induction l as [|h t IH]; intros [|i]; simpl; try reflexivity. rewrite IH. reflexivity. Qed.

Lemma firstn_upd_ge : forall {A} i j (x : A) l, (j <= i)%nat -> firstn j (upd i x l) = firstn j l.
Proof.
  intros A i j x l. revert i j. induction l as [|h t IH]; intros [|i] [|j] H; simpl; try reflexivity; try lia. rewrite IH by lia. reflexivity.
Qed.

Lemma skipn_upd_lt : forall {A} i j (x : A) l, (i < j)%nat -> skipn j (upd i x l) = skipn j l.
Proof.
  intros A i j x l. revert i j. induction l as [|h t IH]; intros [|i] [|j] H; simpl; try reflexivity; try lia. apply IH. lia.
Qed.

Lemma firstn_S_upd : forall {A} i (x d : A) l, (i < length l)%nat -> firstn (S i) (upd i x l) = firstn i l ++ [x].
Proof.
  intros A i x d l. revert i. induction l as [|h t IH]; intros [|i] H; simpl in *; try lia; [reflexivity|]. rewrite IH by lia. reflexivity.
Qed.

Lemma firstn_S_nth : forall {A} i (d : A) l, (i < length l)%nat -> firstn (S i) l = firstn i l ++ [nth i l d].
Proof.
  intros A i d l. revert i. induction l as [|h t IH]; intros [|i] H; simpl in *; try lia; [reflexivity|]. rewrite (IH i) by lia. reflexivity.
Qed.

Lemma nth_hd_skipn : forall {A} i (d : A) l, nth i l d = hd d (skipn i l).
Proof. intros A i d l. revert i. induction l as [|h t IH]; intros [|i]; simpl; try reflexivity. apply IH. Qed.

Lemma nth_skipn_eq : forall {A} i (d : A) l l', skipn i l = skipn i l' -> nth i l d = nth i l' d.
Proof. intros A i d l l' H. rewrite !nth_hd_skipn, H. reflexivity. Qed.

Lemma skipn_S_of : forall {A} i (l l' : list A), skipn i l = skipn i l' -> skipn (S i) l = skipn (S i) l'.
Proof.
  intros A i l l' H. assert (E : forall j (x : list A), skipn (S j) x = tl (skipn j x)).
  { intros j x. revert j. induction x as [|h t IH]; intros [|j]; simpl; try reflexivity. apply IH. }
  rewrite !E, H. reflexivity.
Qed.

Lemma prune_spec_snoc : forall special l e, prune_spec special (l ++ [e]) = prune_spec special l ++ (if special e || negb (e_marked e) then [e] else []).
Proof. intros. unfold prune_spec. rewrite filter_app. reflexivity. Qed.

Lemma prune_run_inv : forall special fuel mem0 mem dest cur,
  (cur + fuel = length mem0)%nat -> length mem = length mem0 -> (dest <= cur)%nat ->
  firstn dest mem = prune_spec special (firstn cur mem0) -> skipn cur mem = skipn cur mem0 ->
  prune_run true special fuel mem dest cur = prune_spec special mem0.
Proof.
  intros special. induction fuel as [|fuel IH]; intros mem0 mem dest cur Hf Hl Hd Hpre Hsuf.
  - simpl. rewrite Hpre. replace cur with (length mem0) by lia. rewrite firstn_all. reflexivity.
  - cbn [prune_run]. assert (Hc : (cur < length mem0)%nat) by lia.
    assert (En : nth cur mem dflt = nth cur mem0 dflt) by (apply nth_skipn_eq; exact Hsuf).
    set (e := nth cur mem dflt) in *.
    assert (Hnext : firstn (S cur) mem0 = firstn cur mem0 ++ [e]) by (rewrite En; apply firstn_S_nth; exact Hc).
    assert (Hkeep : forall mem', mem' = copy_down mem dest cur -> special e || negb (e_marked e) = true ->
              prune_run true special fuel mem' (S dest) (S cur) = prune_spec special mem0).
    { intros mem' -> Hk. unfold copy_down. fold e. destruct (Nat.ltb_spec dest cur) as [Hlt|Hge].
      - apply IH; [lia|rewrite upd_length; exact Hl|lia| |].
        + rewrite (firstn_S_upd dest e dflt mem) by lia. rewrite Hpre, Hnext, prune_spec_snoc, Hk. reflexivity.
        + rewrite skipn_upd_lt by lia. apply skipn_S_of. exact Hsuf.
      - assert (dest = cur) by lia. subst dest. apply IH; [lia|exact Hl|lia| |apply skipn_S_of; exact Hsuf].
        rewrite (firstn_S_nth cur dflt mem) by lia. fold e. rewrite Hpre, Hnext, prune_spec_snoc, Hk. reflexivity. }
    destruct (special e) eqn:Es.
    + apply Hkeep; [reflexivity|reflexivity].
    + destruct (negb (e_marked e)) eqn:Em.
      * apply Hkeep; [reflexivity|reflexivity].
      * apply IH; [lia|exact Hl|lia| |apply skipn_S_of; exact Hsuf].
        rewrite Hpre, Hnext, prune_spec_snoc, Es, Em. simpl. rewrite app_nil_r. reflexivity.
Qed.

Theorem prune_block_correct : forall special mem, prune_block true special mem = prune_spec special mem.
Proof.
  intros special mem. unfold prune_block. apply prune_run_inv; try reflexivity; lia.
Qed.
