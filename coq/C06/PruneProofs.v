From Coq Require Import List NArith Bool Lia.
From Kenlm Require Import C05.KNDefs C06.PruneModel.
Import ListNotations.

(* renumbered unigram block  <unk> <s> a(pruned) </s> b : the unrepaired stream delivers <unk> <s> a b *)
Definition ren_special (e : entry) : bool := match e_gram e with [w] => (w =? 0)%N || (w =? 1)%N || (w =? 3)%N | _ => false end.
Definition f13_block : list entry :=
  [mkE [0%N] 0 false 0; mkE [1%N] 0 false 0; mkE [2%N] 1 true 1; mkE [3%N] 1 false 1; mkE [4%N] 1 false 1].
Lemma f13_special_lost :
  map e_gram (prune_block false ren_special f13_block) = [[0];[1];[2];[4]]%N /\
  map e_gram (prune_spec ren_special f13_block) = [[0];[1];[3];[4]]%N.
Proof. vm_compute. split; reflexivity. Qed.
