(* C19 -- the general results instantiated with the constants regenerated from the sources. *)
From Coq Require Import List ZArith NArith Bool Lia.
From Kenlm Require Import Gen.FloatToStringC19 Gen.FileStreamC19 C19.FormatModel C19.FormatProofs C18.FilePieceModel.
Import ListNotations.
Local Open Scope Z_scope.

Definition kenlm_params : dparams :=
  mk_dparams c19_flags c19_flag_emit_positive_exponent_sign c19_flag_emit_trailing_decimal_point
             c19_flag_emit_trailing_zero_after_point c19_flag_unique_zero c19_decimal_in_shortest_low
             c19_decimal_in_shortest_high c19_min_exponent_width c19_infinity_symbol_len c19_nan_symbol_len
             c19_exponent_character.

Theorem float_layout_bound : forall p D emin emax neg is_zero digits point,
  1 <= zlen digits <= D -> emin <= point - 1 <= emax -> Z.abs (point - 1) < 100000 ->
  zlen (shortest p neg is_zero digits point) <= max_len p D emin emax.
Proof.
  intros p D emin emax neg is_zero digits point Hn He Ha.
  rewrite shortest_length by lia. now apply shortest_len_bound.
Qed.

Theorem max_len_kenlm :
  max_len kenlm_params c19_max_digits_double c19_min_exp10_double c19_max_exp10_double = 25 /\
  max_len kenlm_params c19_max_digits_float c19_min_exp10_float c19_max_exp10_float = 22 /\
  shortest_len kenlm_params true false 17 (-5) = 25 /\ shortest_len kenlm_params true false 8 21 = 22.
Proof. vm_compute. repeat split; reflexivity. Qed.

Theorem reserved_suffices :
  max_len kenlm_params c19_max_digits_double c19_min_exp10_double c19_max_exp10_double + 1 <= c19_kbytes_double /\
  max_len kenlm_params c19_max_digits_float c19_min_exp10_float c19_max_exp10_float + 1 <= c19_kbytes_float /\
  (forall nan neg, special_len kenlm_params nan neg + 1 <= Z.min c19_kbytes_double c19_kbytes_float) /\
  Z.max c19_kbytes_double (Z.max c19_kbytes_float (Z.max c19_kbytes_u64 (Z.max c19_kbytes_i64 (Z.max c19_kbytes_ptr
        (Z.max c19_kbytes_u32 (Z.max c19_kbytes_i32 (Z.max c19_kbytes_u16 (Z.max c19_kbytes_i16 c19_kbytes_bool))))))))
    <= c19_ktostring_max_bytes.
Proof.
  split; [vm_compute; discriminate|]. split; [vm_compute; discriminate|]. split.
  - intros nan neg. destruct nan, neg; vm_compute; discriminate.
  - vm_compute. discriminate.
Qed.

Theorem reserved_refuted :
  zlen (shortest kenlm_params true false [49; 50; 51; 52; 53; 54; 55; 56]%N 21) + 1 > 19 /\
  zlen (shortest kenlm_params true false [49; 50; 51; 52; 53; 54; 55; 56; 57; 48; 49; 50; 51; 52; 53; 54; 55]%N (-5)) + 1 > 19.
Proof. split; vm_compute; reflexivity. Qed.

Theorem int_len_bound :
  (forall z, 0 <= z < 2 ^ 16 -> zlen (print_unsigned z) <= c19_kbytes_u16) /\
  (forall z, - 2 ^ 15 <= z < 2 ^ 15 -> zlen (print_signed z) <= c19_kbytes_i16) /\
  (forall z, 0 <= z < 2 ^ 32 -> zlen (print_unsigned z) <= c19_kbytes_u32) /\
  (forall z, - 2 ^ 31 <= z < 2 ^ 31 -> zlen (print_signed z) <= c19_kbytes_i32) /\
  (forall z, 0 <= z < 2 ^ 64 -> zlen (print_unsigned z) <= c19_kbytes_u64) /\
  (forall z, - 2 ^ 63 <= z < 2 ^ 63 -> zlen (print_signed z) <= c19_kbytes_i64) /\
  (forall z, zlen (print_pointer z) <= c19_kbytes_ptr) /\ c19_kbytes_ptr = 2 * c19_sizeof_ptr + 2.
Proof.
  repeat split.
  - intros z Hz. apply (print_unsigned_len' 5 z (2 ^ 16)); [lia|vm_compute; discriminate|vm_compute; discriminate|exact Hz].
  - intros z Hz. apply (print_signed_len' 5 z (- 2 ^ 15) (2 ^ 15)); [lia|vm_compute; reflexivity|vm_compute; discriminate|vm_compute; discriminate|exact Hz].
  - intros z Hz. apply (print_unsigned_len' 10 z (2 ^ 32)); [lia|vm_compute; discriminate|vm_compute; discriminate|exact Hz].
  - intros z Hz. apply (print_signed_len' 10 z (- 2 ^ 31) (2 ^ 31)); [lia|vm_compute; reflexivity|vm_compute; discriminate|vm_compute; discriminate|exact Hz].
  - intros z Hz. apply (print_unsigned_len' 20 z (2 ^ 64)); [lia|vm_compute; discriminate|vm_compute; discriminate|exact Hz].
  - intros z Hz. apply (print_signed_len' 19 z (- 2 ^ 63) (2 ^ 63)); [lia|vm_compute; reflexivity|vm_compute; discriminate|vm_compute; discriminate|exact Hz].
  - intros z. pose proof (print_pointer_len z). assert (18 <= c19_kbytes_ptr) by (vm_compute; discriminate). lia.
Qed.

Theorem no_extra_chars :
  (forall z, 0 <= z -> forallb is_digit (print_unsigned z) = true) /\
  (forall z, z < 0 -> exists ds, print_signed z = 45%N :: ds /\ forallb is_digit ds = true).
Proof.
  split.
  - intros z Hz. now apply dec_all_digits.
  - intros z Hz. unfold print_signed. destruct (Z.ltb_spec z 0); [|lia]. eexists. split; [reflexivity|]. apply dec_all_digits. lia.
Qed.

(* the hypotheses of the bound theorems are satisfiable (and the instance is not vacuous): "1" with point 1, and the
   empty continuation for the print/parse round trip *)
Example layout_bound_hypotheses_satisfiable :
  1 <= zlen [49%N] <= c19_max_digits_double /\ c19_min_exp10_double <= 1 - 1 <= c19_max_exp10_double /\ Z.abs (1 - 1) < 100000 /\
  shortest kenlm_params false false [49%N] 1 = [49%N] /\ ends_number [] /\ ends_number [32%N].
Proof. repeat split; try (vm_compute; discriminate); try reflexivity. Qed.

(* FileStream(fd, buffer_size): the two size expressions of the constructor (regenerated from util/file_stream.hh) agree:
   end_ never lies beyond the allocation, and the buffer can always take one in-place number (kToStringMaxBytes).  Hence
   whatever Ensure(amount) returns for amount <= kToStringMaxBytes, `amount` bytes from there are inside the allocation. *)
Theorem filestream_reservation : forall n amount current,
  0 <= n -> 0 <= current <= c19_fs_capacity n -> 0 <= amount <= c19_ktostring_max_bytes ->
  c19_fs_capacity n <= c19_fs_alloc n /\
  0 <= fs_ensure (c19_fs_capacity n) amount current /\
  fs_ensure (c19_fs_capacity n) amount current + amount <= c19_fs_alloc n.
Proof.
  intros n amount current Hn Hc Ha. unfold fs_ensure, c19_fs_capacity, c19_fs_alloc in *.
  destruct (Z.ltb_spec (Z.max n c19_ktostring_max_bytes) (current + amount)); lia.
Qed.
