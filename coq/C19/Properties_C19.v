(* C19 -- the property theorems and nothing else.  The constants c19_* are regenerated from the current sources
   (Gen/FloatToStringC19.v) on every run, so the instance theorems below are re-checked against what the headers say now. *)
From Coq Require Import List ZArith NArith Bool Lia.
From Kenlm Require Import Gen.FloatToStringC19 Gen.FileStreamC19 C19.FormatModel C19.FormatProofs C19.FormatInstances C18.FilePieceModel.
Import ListNotations.
Local Open Scope Z_scope.

(* the length of ToShortest's output as a closed form of (sign, number of digits, decimal point), for every parameter set *)
Theorem C19_float_layout_length : forall p neg is_zero digits point, 1 <= zlen digits -> Z.abs (point - 1) < 100000 ->
  zlen (shortest p neg is_zero digits point) = shortest_len p neg is_zero (zlen digits) point.
Proof. exact shortest_length. Qed.

(* ... and its maximum over all signs, all digit strings of 1..D digits and all decimal exponents emin..emax *)
Theorem C19_float_layout_bound : forall p D emin emax neg is_zero digits point,
  1 <= zlen digits <= D -> emin <= point - 1 <= emax -> Z.abs (point - 1) < 100000 ->
  zlen (shortest p neg is_zero digits point) <= max_len p D emin emax.
Proof. exact float_layout_bound. Qed.

(* with kenlm's converter parameters (regenerated): 25 characters for double, 22 for float; the maximum is attained *)
Theorem C19_max_len_kenlm :
  max_len kenlm_params c19_max_digits_double c19_min_exp10_double c19_max_exp10_double = 25 /\
  max_len kenlm_params c19_max_digits_float c19_min_exp10_float c19_max_exp10_float = 22 /\
  shortest_len kenlm_params true false 17 (-5) = 25 /\ shortest_len kenlm_params true false 8 21 = 22.
Proof. exact max_len_kenlm. Qed.

(* what ToString writes (the characters and the terminating NUL of StringBuilder::Finalize) fits the bytes reserved by
   CallToString (ToStringBuf<T>::kBytes), for finite values and for inf / NaN; every reservation fits the stream buffers *)
Theorem C19_reserved_suffices :
  max_len kenlm_params c19_max_digits_double c19_min_exp10_double c19_max_exp10_double + 1 <= c19_kbytes_double /\
  max_len kenlm_params c19_max_digits_float c19_min_exp10_float c19_max_exp10_float + 1 <= c19_kbytes_float /\
  (forall nan neg, special_len kenlm_params nan neg + 1 <= Z.min c19_kbytes_double c19_kbytes_float) /\
  Z.max c19_kbytes_double (Z.max c19_kbytes_float (Z.max c19_kbytes_u64 (Z.max c19_kbytes_i64 (Z.max c19_kbytes_ptr
        (Z.max c19_kbytes_u32 (Z.max c19_kbytes_i32 (Z.max c19_kbytes_u16 (Z.max c19_kbytes_i16 c19_kbytes_bool))))))))
    <= c19_ktostring_max_bytes.
Proof. exact reserved_suffices. Qed.

(* the tree before the fix: reserved 19 bytes; a float needs 22 + 1, a double 25 + 1 (digit strings produced by the real
   DoubleToAscii for -1.2345678e20f and -1.2345678901234567e-6, replayed by the check) *)
Theorem C19_reserved_refuted :
  zlen (shortest kenlm_params true false [49; 50; 51; 52; 53; 54; 55; 56]%N 21) + 1 > 19 /\
  zlen (shortest kenlm_params true false [49; 50; 51; 52; 53; 54; 55; 56; 57; 48; 49; 50; 51; 52; 53; 54; 55]%N (-5)) + 1 > 19.
Proof. exact reserved_refuted. Qed.

(* integers: at most kBytes characters, whatever the value *)
Theorem C19_int_len_bound :
  (forall z, 0 <= z < 2 ^ 16 -> zlen (print_unsigned z) <= c19_kbytes_u16) /\
  (forall z, - 2 ^ 15 <= z < 2 ^ 15 -> zlen (print_signed z) <= c19_kbytes_i16) /\
  (forall z, 0 <= z < 2 ^ 32 -> zlen (print_unsigned z) <= c19_kbytes_u32) /\
  (forall z, - 2 ^ 31 <= z < 2 ^ 31 -> zlen (print_signed z) <= c19_kbytes_i32) /\
  (forall z, 0 <= z < 2 ^ 64 -> zlen (print_unsigned z) <= c19_kbytes_u64) /\
  (forall z, - 2 ^ 63 <= z < 2 ^ 63 -> zlen (print_signed z) <= c19_kbytes_i64) /\
  (forall z, zlen (print_pointer z) <= c19_kbytes_ptr) /\ c19_kbytes_ptr = 2 * c19_sizeof_ptr + 2.
Proof. exact int_len_bound. Qed.

(* printing then parsing with the input layer's strtoul / strtol grammar gives the value back and consumes exactly the
   printed characters, whatever non-digit follows *)
Theorem C19_int_print_parse :
  (forall z r, 0 <= z < 2 ^ 64 -> ends_number r -> parse_ulong (print_unsigned z ++ r) = Some (RInt z, length (print_unsigned z))) /\
  (forall z r, - 2 ^ 63 <= z < 2 ^ 63 -> ends_number r -> parse_long (print_signed z ++ r) = Some (RInt z, length (print_signed z))).
Proof. exact (conj print_parse_unsigned print_parse_signed). Qed.

(* no characters beyond the number: digits only, after an optional '-' *)
Theorem C19_no_extra_chars :
  (forall z, 0 <= z -> forallb is_digit (print_unsigned z) = true) /\
  (forall z, z < 0 -> exists ds, print_signed z = 45%N :: ds /\ forallb is_digit ds = true).
Proof. exact no_extra_chars. Qed.

(* the stream's own buffer: for every buffer_size the constructor is given, end_ lies within what was malloc'ed and every
   reservation Ensure(amount <= kToStringMaxBytes) hands out lies inside the allocation (both expressions regenerated from
   util/file_stream.hh; with C19_reserved_suffices: every number is formatted inside allocated memory) *)
Theorem C19_filestream_reservation : forall n amount current,
  0 <= n -> 0 <= current <= c19_fs_capacity n -> 0 <= amount <= c19_ktostring_max_bytes ->
  c19_fs_capacity n <= c19_fs_alloc n /\
  0 <= fs_ensure (c19_fs_capacity n) amount current /\
  fs_ensure (c19_fs_capacity n) amount current + amount <= c19_fs_alloc n.
Proof. exact filestream_reservation. Qed.
