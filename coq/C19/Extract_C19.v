(* Extraction of the C19 executable model (ExtrOcamlBasic only; Z/N/positive/nat stay inductive types). *)
From Coq Require Import List ZArith NArith Extraction ExtrOcamlBasic.
From Kenlm Require Import Gen.FloatToStringC19 C19.FormatModel C19.FormatInstances.
Extraction Language OCaml.
Extraction "extracted/c19_model.ml" shortest special_len kenlm_params print_unsigned print_signed print_pointer.
