(* C19 -- lengths of the layouts (closed forms, for all signs / digit strings / point positions), decimal printing of
   integers: length bounds, characters, and the round trip through the number reader of the input layer
   (C18.FilePieceModel.parse_long / parse_ulong: the strtol / strtoul grammar). *)
From Coq Require Import List ZArith NArith Bool Lia.
From Kenlm Require Import C19.FormatModel C18.FilePieceModel.
Import ListNotations.
Local Open Scope Z_scope.

Lemma zlen_app : forall a b, zlen (a ++ b) = zlen a + zlen b.
Proof. intros. unfold zlen. rewrite app_length. lia. Qed.
Lemma zlen_cons : forall x a, zlen (x :: a) = 1 + zlen a.
Proof. intros. unfold zlen. simpl length. lia. Qed.
Lemma zlen_nil : zlen [] = 0.
Proof. reflexivity. Qed.
Lemma zlen_nonneg : forall a, 0 <= zlen a.
Proof. intros. unfold zlen. lia. Qed.
Lemma zlen_pad : forall c n, zlen (pad c n) = Z.max 0 n.
Proof. intros. unfold zlen, pad. rewrite repeat_length. lia. Qed.
Lemma zlen_firstn : forall k (l : list N), 0 <= k <= zlen l -> zlen (firstn (Z.to_nat k) l) = k.
Proof. intros k l H. unfold zlen in *. rewrite firstn_length. lia. Qed.
Lemma zlen_skipn : forall k (l : list N), 0 <= k <= zlen l -> zlen (skipn (Z.to_nat k) l) = zlen l - k.
Proof. intros k l H. unfold zlen in *. rewrite skipn_length. lia. Qed.

(* ---- number of decimal digits ---- *)
Definition ndigits (k : Z) : Z :=
  if k <? 10 then 1 else if k <? 100 then 2 else if k <? 1000 then 3 else if k <? 10000 then 4 else 5.

Lemma dec_rev_len_step : forall f z, zlen (dec_rev (S f) z) = if z <? 10 then 1 else 1 + zlen (dec_rev f (z / 10)).
Proof. intros. simpl. destruct (z <? 10); [reflexivity|]. now rewrite zlen_cons. Qed.

Lemma zlen_rev : forall l, zlen (rev l) = zlen l.
Proof. intros. unfold zlen. now rewrite rev_length. Qed.

Lemma dec5_len : forall k, 0 <= k < 100000 -> zlen (dec kMaxExponentLength k) = ndigits k.
Proof.
  intros k H. unfold dec, kMaxExponentLength, ndigits. rewrite zlen_rev.
  repeat (rewrite dec_rev_len_step;
          match goal with |- context [?a <? 10] => destruct (Z.ltb_spec a 10) end;
          [repeat match goal with |- context [?a <? ?b] => destruct (Z.ltb_spec a b) end;
           try reflexivity; exfalso; Z.div_mod_to_equations; lia|]).
  exfalso. Z.div_mod_to_equations. lia.
Qed.

Lemma ndigits_mono : forall a b, a <= b -> ndigits a <= ndigits b.
Proof.
  intros a b H. unfold ndigits.
  repeat match goal with |- context [?x <? ?y] => destruct (Z.ltb_spec x y) end; lia.
Qed.

Lemma ndigits_range : forall k, 1 <= ndigits k <= 5.
Proof. intros. unfold ndigits. repeat match goal with |- context [?x <? ?y] => destruct (Z.ltb_spec x y) end; lia. Qed.

(* ---- layouts ---- *)
Definition sign_emitted (p : dparams) (neg is_zero : bool) : Z :=
  if neg && (negb is_zero || negb (has_flag (dp_flags p) (dp_flag_unique_zero p))) then 1 else 0.

Definition exp_repr_len (p : dparams) (n exponent : Z) : Z :=
  (if n =? 1 then 1 else n + 1) + 1 +
  (if exponent <? 0 then 1 else flag_len p (dp_flag_pos_exp_sign p)) +
  Z.max (Z.min (dp_min_exp_width p) 5) (ndigits (Z.abs exponent)).

Lemma exp_repr_length : forall p digits exponent, 1 <= zlen digits -> Z.abs exponent < 100000 ->
  zlen (exp_repr p digits exponent) = exp_repr_len p (zlen digits) exponent.
Proof.
  intros p digits exponent Hn He. unfold exp_repr, exp_repr_len.
  rewrite !zlen_app, zlen_pad, dec5_len by lia.
  assert (H1 : zlen (firstn 1 digits) = 1) by (apply (zlen_firstn 1); lia).
  assert (H2 : zlen (skipn 1 digits) = zlen digits - 1) by (apply (zlen_skipn 1); lia).
  rewrite H1.
  assert (H3 : zlen (match skipn 1 digits with [] => [] | t => 46%N :: t end) = if zlen digits =? 1 then 0 else zlen digits).
  { destruct (skipn 1 digits) as [|x xs] eqn:E; rewrite ?E in H2.
    - rewrite zlen_nil in *. destruct (Z.eqb_spec (zlen digits) 1); [reflexivity|lia].
    - rewrite !zlen_cons in *. pose proof (zlen_nonneg xs). destruct (Z.eqb_spec (zlen digits) 1); lia. }
  rewrite H3. change (zlen [Z.to_N (dp_exp_char p)]) with 1.
  assert (H4 : zlen (if exponent <? 0 then [45%N] else if has_flag (dp_flags p) (dp_flag_pos_exp_sign p) then [43%N] else [])
               = if exponent <? 0 then 1 else flag_len p (dp_flag_pos_exp_sign p)).
  { unfold flag_len. destruct (exponent <? 0); [reflexivity|]. destruct (has_flag _ _); reflexivity. }
  rewrite H4. change (Z.of_nat kMaxExponentLength) with 5.
  pose proof (ndigits_range (Z.abs exponent)).
  destruct (Z.eqb_spec (zlen digits) 1); lia.
Qed.

Definition dec_repr_len (p : dparams) (n point : Z) : Z :=
  let after := Z.max 0 (n - point) in
  (if point <=? 0 then 2 - point + n else if n <=? point then point else n + 1) +
  (if after =? 0 then flag_len p (dp_flag_trailing_point p) + flag_len p (dp_flag_trailing_zero p) else 0).

Lemma dec_repr_length : forall p digits point, 1 <= zlen digits ->
  zlen (dec_repr p digits point (Z.max 0 (zlen digits - point))) = dec_repr_len p (zlen digits) point.
Proof.
  intros p digits point Hn. unfold dec_repr, dec_repr_len. cbv zeta.
  set (n := zlen digits) in *. set (after := Z.max 0 (n - point)).
  rewrite zlen_app.
  assert (Hf : zlen (if after =? 0
                     then (if has_flag (dp_flags p) (dp_flag_trailing_point p) then [46%N] else []) ++
                          (if has_flag (dp_flags p) (dp_flag_trailing_zero p) then [48%N] else [])
                     else []) =
               if after =? 0 then flag_len p (dp_flag_trailing_point p) + flag_len p (dp_flag_trailing_zero p) else 0).
  { unfold flag_len. destruct (after =? 0); [|reflexivity]. rewrite zlen_app.
    destruct (has_flag _ (dp_flag_trailing_point p)); destruct (has_flag _ (dp_flag_trailing_zero p)); reflexivity. }
  rewrite Hf. f_equal.
  destruct (Z.leb_spec point 0).
  - rewrite zlen_cons. assert (0 < after) by (unfold after; lia).
    destruct (Z.ltb_spec 0 after); [|lia].
    rewrite zlen_cons, !zlen_app, !zlen_pad. fold n. unfold after. lia.
  - destruct (Z.leb_spec n point).
    + rewrite !zlen_app, zlen_pad. fold n. assert (after = 0) by (unfold after; lia).
      destruct (Z.ltb_spec 0 after); [lia|]. rewrite zlen_nil. lia.
    + rewrite zlen_app, zlen_cons, zlen_app, zlen_pad.
      rewrite zlen_firstn by (fold n; lia). rewrite zlen_skipn by (fold n; lia). fold n. unfold after. lia.
Qed.

Definition shortest_len (p : dparams) (neg is_zero : bool) (n point : Z) : Z :=
  sign_emitted p neg is_zero +
  (if (dp_low p <=? point - 1) && (point - 1 <? dp_high p) then dec_repr_len p n point else exp_repr_len p n (point - 1)).

Lemma shortest_length : forall p neg is_zero digits point, 1 <= zlen digits -> Z.abs (point - 1) < 100000 ->
  zlen (shortest p neg is_zero digits point) = shortest_len p neg is_zero (zlen digits) point.
Proof.
  intros p neg is_zero digits point Hn He. unfold shortest, shortest_len. rewrite zlen_app. f_equal.
  - unfold sign_emitted. destruct (neg && _); reflexivity.
  - cbv zeta. destruct ((dp_low p <=? point - 1) && (point - 1 <? dp_high p)).
    + now apply dec_repr_length.
    + now apply exp_repr_length.
Qed.

(* the maximum over every sign, every digit count 1..D and every decimal exponent emin..emax *)
Definition max_len (p : dparams) (D emin emax : Z) : Z :=
  let tail_flags := flag_len p (dp_flag_trailing_point p) + flag_len p (dp_flag_trailing_zero p) in
  1 + Z.max (Z.max (D + 1 - dp_low p) (Z.max (dp_high p + tail_flags) (D + 1)))
            (D + 2 + Z.max 1 (flag_len p (dp_flag_pos_exp_sign p))
               + Z.max (Z.min (dp_min_exp_width p) 5) (ndigits (Z.max (- emin) emax))).

Theorem shortest_len_bound : forall p D emin emax neg is_zero n point,
  1 <= n <= D -> emin <= point - 1 <= emax ->
  shortest_len p neg is_zero n point <= max_len p D emin emax.
Proof.
  intros p D emin emax neg is_zero n point Hn He. unfold shortest_len, max_len. cbv zeta.
  assert (Hs : sign_emitted p neg is_zero <= 1) by (unfold sign_emitted; destruct (neg && _); lia).
  assert (Hf1 : 0 <= flag_len p (dp_flag_trailing_point p) <= 1) by (unfold flag_len; destruct (has_flag _ _); lia).
  assert (Hf2 : 0 <= flag_len p (dp_flag_trailing_zero p) <= 1) by (unfold flag_len; destruct (has_flag _ _); lia).
  assert (Hf3 : 0 <= flag_len p (dp_flag_pos_exp_sign p) <= 1) by (unfold flag_len; destruct (has_flag _ _); lia).
  destruct ((dp_low p <=? point - 1) && (point - 1 <? dp_high p)) eqn:Er.
  - apply andb_true_iff in Er as [E1 E2]. apply Z.leb_le in E1. apply Z.ltb_lt in E2.
    unfold dec_repr_len. cbv zeta.
    destruct (Z.leb_spec point 0).
    + assert (Z.max 0 (n - point) =? 0 = false) by (apply Z.eqb_neq; lia). rewrite H0. lia.
    + destruct (Z.leb_spec n point).
      * destruct (Z.max 0 (n - point) =? 0); lia.
      * assert (Z.max 0 (n - point) =? 0 = false) by (apply Z.eqb_neq; lia). rewrite H1. lia.
  - unfold exp_repr_len.
    assert (Hm : ndigits (Z.abs (point - 1)) <= ndigits (Z.max (- emin) emax)) by (apply ndigits_mono; lia).
    destruct (n =? 1); destruct (point - 1 <? 0); lia.
Qed.

(* the bound is attained (it is a maximum, not just an upper bound) by the three shapes that can be the longest *)
Lemma max_len_attained_small : forall p D, 1 <= D -> dp_low p <= -1 -> dp_low p < dp_high p ->
  shortest_len p true false D (dp_low p + 1) = 1 + (D + 1 - dp_low p).
Proof.
  intros p D HD Hl Hh. unfold shortest_len, sign_emitted. cbn [andb negb orb].
  replace (dp_low p + 1 - 1) with (dp_low p) by lia.
  rewrite (proj2 (Z.leb_le _ _) (Z.le_refl (dp_low p))). rewrite (proj2 (Z.ltb_lt _ _) Hh). cbn [andb].
  unfold dec_repr_len. cbv zeta.
  rewrite (proj2 (Z.leb_le (dp_low p + 1) 0)) by lia.
  assert (E : Z.max 0 (D - (dp_low p + 1)) =? 0 = false) by (apply Z.eqb_neq; lia). rewrite E. lia.
Qed.

(* ---- integers ---- *)
Lemma digit_val_digit : forall m, 0 <= m < 10 -> digit_val (digit m) = m.
Proof. intros m H. unfold digit_val, digit. rewrite Z2N.id by lia. lia. Qed.

Lemma is_digit_digit : forall m, 0 <= m < 10 -> is_digit (digit m) = true.
Proof.
  intros m H. unfold is_digit, digit. apply andb_true_iff. split; apply N.leb_le; lia.
Qed.

Lemma dec_step : forall f z, dec (S f) z = if z <? 10 then [digit z] else dec f (z / 10) ++ [digit (z mod 10)].
Proof. intros. unfold dec. simpl. destruct (z <? 10); reflexivity. Qed.

Lemma dec_all_digits : forall f z, 0 <= z -> forallb is_digit (dec f z) = true.
Proof.
  induction f as [|f IH]; intros z Hz; [reflexivity|]. rewrite dec_step.
  destruct (Z.ltb_spec z 10).
  - simpl. rewrite is_digit_digit by lia. reflexivity.
  - rewrite forallb_app. rewrite IH by (apply Z.div_pos; lia). simpl.
    rewrite is_digit_digit by (apply Z.mod_pos_bound; lia). reflexivity.
Qed.

Lemma dec_length : forall f z, 0 <= z < 10 ^ Z.of_nat f -> (1 <= f)%nat -> 1 <= zlen (dec f z) <= Z.of_nat f.
Proof.
  induction f as [|f IH]; intros z Hz Hf; [lia|]. rewrite dec_step.
  destruct (Z.ltb_spec z 10).
  - change (zlen [digit z]) with 1. lia.
  - rewrite zlen_app. change (zlen [digit (z mod 10)]) with 1.
    destruct f as [|f'].
    + simpl in Hz. lia.
    + assert (0 <= z / 10 < 10 ^ Z.of_nat (S f')).
      { split; [apply Z.div_pos; lia|]. apply Z.div_lt_upper_bound; [lia|].
        replace (Z.of_nat (S (S f'))) with (Z.of_nat (S f') + 1) in Hz by lia.
        rewrite Z.pow_add_r in Hz by lia. lia. }
      specialize (IH (z / 10) H0 ltac:(lia)). lia.
Qed.

(* a shorter power of ten gives a shorter string, whatever the fuel *)
Lemma dec_length_le : forall k f z, (k <= f)%nat -> (1 <= k)%nat -> 0 <= z < 10 ^ Z.of_nat k -> zlen (dec f z) <= Z.of_nat k.
Proof.
  induction k as [|k IH]; intros f z Hk H1 Hz; [lia|].
  destruct f as [|f]; [lia|]. rewrite dec_step.
  destruct (Z.ltb_spec z 10).
  - change (zlen [digit z]) with 1. lia.
  - rewrite zlen_app. change (zlen [digit (z mod 10)]) with 1.
    destruct k as [|k'].
    + simpl in Hz. lia.
    + assert (0 <= z / 10 < 10 ^ Z.of_nat (S k')).
      { split; [apply Z.div_pos; lia|]. apply Z.div_lt_upper_bound; [lia|].
        replace (Z.of_nat (S (S k'))) with (Z.of_nat (S k') + 1) in Hz by lia.
        rewrite Z.pow_add_r in Hz by lia. lia. }
      specialize (IH f (z / 10) ltac:(lia) ltac:(lia) H0). lia.
Qed.

Lemma digits_val_app1 : forall l d, digits_val (l ++ [d]) =
  if 2 ^ 64 <=? digits_val l then digits_val l else digits_val l * 10 + digit_val d.
Proof. intros. unfold digits_val. rewrite fold_left_app. reflexivity. Qed.

Lemma digits_val_dec : forall f z, 0 <= z < 10 ^ Z.of_nat f -> z < 2 ^ 64 -> digits_val (dec f z) = z.
Proof.
  induction f as [|f IH]; intros z Hz H64.
  - simpl in Hz. assert (z = 0) by lia. subst. reflexivity.
  - rewrite dec_step. destruct (Z.ltb_spec z 10).
    + unfold digits_val. simpl. rewrite digit_val_digit by lia.
      destruct (Z.leb_spec (2 ^ 64) 0); [exfalso; revert H0; apply Z.lt_nge; reflexivity|lia].
    + rewrite digits_val_app1.
      assert (0 <= z / 10 < 10 ^ Z.of_nat f).
      { split; [apply Z.div_pos; lia|]. apply Z.div_lt_upper_bound; [lia|].
        replace (Z.of_nat (S f)) with (Z.of_nat f + 1) in Hz by lia. rewrite Z.pow_add_r in Hz by lia. lia. }
      assert (z / 10 < 2 ^ 64) by (apply Z.le_lt_trans with z; [apply Z.div_le_upper_bound; lia|exact H64]).
      rewrite IH by assumption.
      destruct (Z.leb_spec (2 ^ 64) (z / 10)); [lia|].
      rewrite digit_val_digit by (apply Z.mod_pos_bound; lia).
      pose proof (Z.div_mod z 10 ltac:(lia)). lia.
Qed.

Lemma dec_nonempty : forall f z, dec (S f) z <> [].
Proof. intros f z. rewrite dec_step. destruct (z <? 10); [discriminate|]. intro H. apply app_eq_nil in H as [_ H]. discriminate. Qed.

Lemma take_while_digits_app : forall l r, forallb is_digit l = true -> (match r with [] => true | b :: _ => negb (is_digit b) end) = true ->
  take_while is_digit (l ++ r) = l.
Proof.
  induction l as [|x l IH]; intros r Hl Hr; simpl in *.
  - destruct r; [reflexivity|]. simpl. apply negb_true_iff in Hr. now rewrite Hr.
  - apply andb_true_iff in Hl as [H1 H2]. rewrite H1. f_equal. now apply IH.
Qed.

Definition ends_number (r : list N) : Prop := match r with [] => True | b :: _ => is_digit b = false end.

Lemma ends_number_bool : forall r, ends_number r -> (match r with [] => true | b :: _ => negb (is_digit b) end) = true.
Proof. intros r H. destruct r; [reflexivity|]. simpl in *. now rewrite H. Qed.

Lemma pow10_20 : 2 ^ 64 < 10 ^ Z.of_nat kMaxDecimalDigits.
Proof. reflexivity. Qed.

Lemma split_sign_digit : forall l r, forallb is_digit l = true -> l <> [] -> split_sign (l ++ r) = (false, 0%nat, l ++ r).
Proof.
  intros l r Hd Hn. destruct l as [|x l]; [contradiction|]. simpl in *. apply andb_true_iff in Hd as [Hx _].
  unfold is_digit in Hx. apply andb_true_iff in Hx as [A B]. apply N.leb_le in A. apply N.leb_le in B.
  destruct (N.eqb_spec x 45); [lia|]. destruct (N.eqb_spec x 43); [lia|]. reflexivity.
Qed.

Theorem print_parse_unsigned : forall z r, 0 <= z < 2 ^ 64 -> ends_number r ->
  parse_ulong (print_unsigned z ++ r) = Some (RInt z, length (print_unsigned z)).
Proof.
  intros z r Hz Hr. unfold parse_ulong, print_unsigned.
  assert (Hd : forallb is_digit (dec kMaxDecimalDigits z) = true) by (apply dec_all_digits; lia).
  rewrite split_sign_digit by (exact Hd || apply dec_nonempty). cbv beta iota zeta.
  rewrite (take_while_digits_app _ r Hd (ends_number_bool r Hr)).
  pose proof pow10_20 as P.
  rewrite digits_val_dec by lia.
  destruct (dec kMaxDecimalDigits z) eqn:E; [exfalso; revert E; apply dec_nonempty|]. rewrite <- E.
  destruct (Z.ltb_spec z (2 ^ 64)); [|lia]. reflexivity.
Qed.

Theorem print_parse_signed : forall z r, - 2 ^ 63 <= z < 2 ^ 63 -> ends_number r ->
  parse_long (print_signed z ++ r) = Some (RInt z, length (print_signed z)).
Proof.
  intros z r Hz Hr. unfold parse_long, print_signed. pose proof pow10_20 as P.
  destruct (Z.ltb_spec z 0).
  - (* "-" digits *)
    change ((45%N :: dec kMaxDecimalDigits (- z)) ++ r) with (45%N :: (dec kMaxDecimalDigits (- z) ++ r)).
    unfold split_sign. simpl N.eqb. cbv beta iota zeta.
    assert (Hd : forallb is_digit (dec kMaxDecimalDigits (- z)) = true) by (apply dec_all_digits; lia).
    rewrite (take_while_digits_app _ r Hd (ends_number_bool r Hr)).
    rewrite digits_val_dec by lia.
    destruct (dec kMaxDecimalDigits (- z)) eqn:E; [exfalso; revert E; apply dec_nonempty|]. rewrite <- E.
    replace (- - z) with z by lia.
    destruct (Z.leb_spec (- 2 ^ 63) z); [|lia]. destruct (Z.ltb_spec z (2 ^ 63)); [|lia]. reflexivity.
  - assert (Hd : forallb is_digit (dec kMaxDecimalDigits z) = true) by (apply dec_all_digits; lia).
    rewrite split_sign_digit by (exact Hd || apply dec_nonempty). cbv beta iota zeta.
    rewrite (take_while_digits_app _ r Hd (ends_number_bool r Hr)).
    rewrite digits_val_dec by lia.
    destruct (dec kMaxDecimalDigits z) eqn:E; [exfalso; revert E; apply dec_nonempty|]. rewrite <- E.
    destruct (Z.leb_spec (- 2 ^ 63) z); [|lia]. destruct (Z.ltb_spec z (2 ^ 63)); [|lia]. reflexivity.
Qed.

(* length bounds: k decimal digits for values below 10^k *)
Lemma print_unsigned_len : forall k z, (1 <= k <= 20)%nat -> 0 <= z < 10 ^ Z.of_nat k -> zlen (print_unsigned z) <= Z.of_nat k.
Proof. intros k z Hk Hz. unfold print_unsigned, kMaxDecimalDigits. apply dec_length_le; lia. Qed.

Lemma print_signed_len : forall k z, (1 <= k <= 20)%nat -> - 10 ^ Z.of_nat k < z < 10 ^ Z.of_nat k -> zlen (print_signed z) <= Z.of_nat k + 1.
Proof.
  intros k z Hk Hz. unfold print_signed, kMaxDecimalDigits. destruct (Z.ltb_spec z 0).
  - rewrite zlen_cons. pose proof (dec_length_le k 20 (- z) ltac:(lia) ltac:(lia) ltac:(lia)). lia.
  - pose proof (dec_length_le k 20 z ltac:(lia) ltac:(lia) ltac:(lia)). lia.
Qed.

(* pointers: "0x" and at most 2 * sizeof(void* ) hex digits *)
Lemma hex_rev_len : forall f z, zlen (hex_rev f z) <= Z.of_nat f.
Proof.
  induction f as [|f IH]; intros z; [simpl; unfold zlen; simpl; lia|]. simpl. destruct (z <? 16).
  - change (zlen [hex_digit z]) with 1. lia.
  - rewrite zlen_cons. specialize (IH (z / 16)). lia.
Qed.

Lemma print_pointer_len : forall z, zlen (print_pointer z) <= 18.
Proof. intros z. unfold print_pointer. rewrite !zlen_cons, zlen_rev. pose proof (hex_rev_len 16 z). lia. Qed.

(* the same with the range given by any bound below the power of ten (used with 2^16, 2^32, 2^64, ...) *)
Lemma print_unsigned_len' : forall k z bound kb, (1 <= k <= 20)%nat -> bound <= 10 ^ Z.of_nat k -> Z.of_nat k <= kb ->
  0 <= z < bound -> zlen (print_unsigned z) <= kb.
Proof. intros k z bound kb Hk Hb Hkb Hz. pose proof (print_unsigned_len k z Hk). lia. Qed.

Lemma print_signed_len' : forall k z lo hi kb, (1 <= k <= 20)%nat -> - 10 ^ Z.of_nat k < lo -> hi <= 10 ^ Z.of_nat k ->
  Z.of_nat k + 1 <= kb -> lo <= z < hi -> zlen (print_signed z) <= kb.
Proof. intros k z lo hi kb Hk Hl Hh Hkb Hz. pose proof (print_signed_len k z Hk). lia. Qed.
