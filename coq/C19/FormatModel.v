(* C19 -- executable model of number formatting in the fast output streams (no proofs in this file).
   Floats: the *layout* step of double_conversion::DoubleToStringConverter::ToShortest / ToShortestSingle
   (util/double-conversion/double-to-string.cc: ToShortestIeeeNumber, CreateDecimalRepresentation,
   CreateExponentialRepresentation, HandleSpecialValues) as a function of what the digit generator DoubleToAscii
   returns (sign, decimal digits, decimal point position).  The digit generator itself (Grisu3 / bignum) is NOT
   modelled.  The converter's parameters are a record; the instance used by kenlm is regenerated from
   util/float_to_string.cc into Gen/FloatToStringC19.v on every run.
   Integers: decimal printing (util/integer_to_string.cc ToString for 16/32/64 bit, signed and unsigned) and the
   pointer format "0x" + hex without leading zeros. *)
From Coq Require Import List ZArith NArith Bool.
Import ListNotations.
Local Open Scope Z_scope.

Record dparams := mk_dparams {
  dp_flags : Z;
  dp_flag_pos_exp_sign : Z;       (* EMIT_POSITIVE_EXPONENT_SIGN *)
  dp_flag_trailing_point : Z;     (* EMIT_TRAILING_DECIMAL_POINT *)
  dp_flag_trailing_zero : Z;      (* EMIT_TRAILING_ZERO_AFTER_POINT *)
  dp_flag_unique_zero : Z;        (* UNIQUE_ZERO *)
  dp_low : Z;                     (* decimal_in_shortest_low_ *)
  dp_high : Z;                    (* decimal_in_shortest_high_ *)
  dp_min_exp_width : Z;           (* min_exponent_width_ *)
  dp_inf_len : Z;                 (* strlen(infinity_symbol_) *)
  dp_nan_len : Z;                 (* strlen(nan_symbol_) *)
  dp_exp_char : Z                 (* exponent_character_ *)
}.

Definition has_flag (flags f : Z) : bool := negb (Z.land flags f =? 0).
Definition flag_len (p : dparams) (f : Z) : Z := if has_flag (dp_flags p) f then 1 else 0.

Definition digit (z : Z) : N := Z.to_N (48 + z).
(* decimal digits, least significant first; `fuel` bounds the number of digits produced *)
Fixpoint dec_rev (fuel : nat) (z : Z) : list N :=
  match fuel with
  | O => []
  | S f => if z <? 10 then [digit z] else digit (z mod 10) :: dec_rev f (z / 10)
  end.
Definition dec (fuel : nat) (z : Z) : list N := rev (dec_rev fuel z).
Definition pad (c : N) (n : Z) : list N := repeat c (Z.to_nat n).
Definition zlen (l : list N) : Z := Z.of_nat (length l).

Definition kMaxExponentLength : nat := 5.

(* CreateExponentialRepresentation(decimal_digits, length, exponent, builder) *)
Definition exp_repr (p : dparams) (digits : list N) (exponent : Z) : list N :=
  firstn 1 digits ++
  (match skipn 1 digits with [] => [] | t => 46%N :: t end) ++
  [Z.to_N (dp_exp_char p)] ++
  (if exponent <? 0 then [45%N] else if has_flag (dp_flags p) (dp_flag_pos_exp_sign p) then [43%N] else []) ++
  (let ds := dec kMaxExponentLength (Z.abs exponent) in
   pad 48%N (Z.min (dp_min_exp_width p) (Z.of_nat kMaxExponentLength) - zlen ds) ++ ds).

(* CreateDecimalRepresentation(decimal_digits, length, decimal_point, digits_after_point, builder) *)
Definition dec_repr (p : dparams) (digits : list N) (point after : Z) : list N :=
  let n := zlen digits in
  (if point <=? 0 then
     48%N :: (if 0 <? after then 46%N :: pad 48%N (- point) ++ digits ++ pad 48%N (after - (- point) - n) else [])
   else if n <=? point then
     digits ++ pad 48%N (point - n) ++ (if 0 <? after then 46%N :: pad 48%N after else [])
   else
     firstn (Z.to_nat point) digits ++ 46%N :: skipn (Z.to_nat point) digits ++ pad 48%N (after - (n - point)))
  ++ (if after =? 0 then
        (if has_flag (dp_flags p) (dp_flag_trailing_point p) then [46%N] else []) ++
        (if has_flag (dp_flags p) (dp_flag_trailing_zero p) then [48%N] else [])
      else []).

(* ToShortestIeeeNumber for a finite value: `neg` is the sign DoubleToAscii reports, `is_zero` whether value == 0.0 *)
Definition shortest (p : dparams) (neg is_zero : bool) (digits : list N) (point : Z) : list N :=
  (if neg && (negb is_zero || negb (has_flag (dp_flags p) (dp_flag_unique_zero p))) then [45%N] else []) ++
  (let exponent := point - 1 in
   if (dp_low p <=? exponent) && (exponent <? dp_high p)
   then dec_repr p digits point (Z.max 0 (zlen digits - point))
   else exp_repr p digits exponent).

(* HandleSpecialValues: lengths only matter ("inf" / "-inf" / "NaN") *)
Definition special_len (p : dparams) (is_nan neg : bool) : Z :=
  if is_nan then dp_nan_len p else (if neg then 1 else 0) + dp_inf_len p.

(* ---- integers ---- *)
Definition kMaxDecimalDigits : nat := 20.
Definition print_unsigned (z : Z) : list N := dec kMaxDecimalDigits z.
Definition print_signed (z : Z) : list N := if z <? 0 then 45%N :: dec kMaxDecimalDigits (- z) else dec kMaxDecimalDigits z.

Definition hex_digit (z : Z) : N := if z <? 10 then Z.to_N (48 + z) else Z.to_N (87 + z).
Fixpoint hex_rev (fuel : nat) (z : Z) : list N :=
  match fuel with
  | O => []
  | S f => if z <? 16 then [hex_digit z] else hex_digit (z mod 16) :: hex_rev f (z / 16)
  end.
Definition print_pointer (z : Z) : list N := 48%N :: 120%N :: rev (hex_rev 16 z).

(* ---- util::FileStream's reservation (util/file_stream.hh) ----
   Ensure(amount): if (current_ + amount > end_) flush();  return current_;   -- flush() puts current_ back to the start.
   Positions are offsets from the start of the buffer; `capacity` = end_ - start. *)
Definition fs_ensure (capacity amount current : Z) : Z := if capacity <? current + amount then 0 else current.
