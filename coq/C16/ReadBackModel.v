(* C16/ReadBackModel.v -- how the sort reads its spilled data back: util::ErsatzPRead (util/file.cc), the only read
   primitive of MergeQueue::Entry::Read and MergingReader::ReadSingle.  pread may transfer fewer bytes than requested
   (always for requests >= 2 GiB - 4 KiB on Linux, on network file systems, after a signal); the loop continues with
   size -= ret; off += ret; to += ret.  The lengths pread returns are dictated by a list of outcomes.  No proofs. *)
From Coq Require Import List Arith.
Import ListNotations.

Inductive pread_outcome := Short (k : nat) | Eintr.      (* pread transfers at most k bytes | returns -1/EINTR *)

Inductive pread_result (A : Type) :=
| PROk (bytes : list A) (consumed : nat)       (* buffer contents, number of pread calls made *)
| PREof (consumed : nat)                         (* pread returned 0: EndOfFileException *)
| PRNoOutcome.                                   (* the dictated sequence ran out (excluded by the theorems) *)
Arguments PROk {A}. Arguments PREof {A}. Arguments PRNoOutcome {A}.

Section PRead.
  Context {A : Type}.
  (* while (size) { ret = pread(fd, to, size, off); if (ret <= 0) { EINTR: continue; 0: throw EOF }; size -= ret; off += ret; to += ret; } *)
  Fixpoint ersatz_pread (o : list pread_outcome) (file : list A) (size off : nat) (calls : nat) {struct o} : pread_result A :=
    match size with
    | O => PROk [] calls
    | S _ =>
        match o with
        | [] => PRNoOutcome
        | Eintr :: o' => ersatz_pread o' file size off (S calls)
        | Short k :: o' =>
            match Nat.min k (Nat.min size (length file - off)) with
            | O => PREof (S calls)
            | S _ as ret =>
                match ersatz_pread o' file (size - ret) (off + ret) (S calls) with
                | PROk g c => PROk (firstn ret (skipn off file) ++ g) c
                | r => r
                end
            end
        end
    end.
End PRead.
