(* C16/SortModel.v -- executable model of util/stream/sort.hh (external merge sort), no proofs.

   What is modelled, construct by construct:
     chain_block_size            Chain::Chain                (util/stream/chain.cc:36-42)
     blocks_of                   a producer writing through util::stream::Stream (stream.hh): full blocks, last partial
     sort_block                  BlockSorter::Run / SizedSort (sort.hh:361-380, sized_iterator.hh) -- *one* sorting
                                 function; the theorems are stated for every sorted permutation of a block (std::sort
                                 is not stable), sort_block is shown to be one of them
     pick / kmerge               MergeQueue: priority queue over the heads of the runs (sort.hh:124-222)
     comb / merge_group          the merge loop with combiner in MergingReader::Run (sort.hh:291-302)
     admission                       the admission loop  `buf + min(per_buffer, PeekSize) <= buffer_end` (sort.hh:274-280)
     pass_loop / merging_reader  MergingReader::Run incl. the ReadSingle shortcut, the two aborts (sort.hh:241-305)
     merge_loop / sort_merge     Sort::Merge (sort.hh:412-469) incl. lazy_arity, the early exit, reading_memory, return value
     sort_output / sort_steal    Sort::Output (+ OwningMergingReader, assert_one = true) and StealCompleted
     sort_ctor                   the constructor's checks (sort.hh:392-404)
   "Disk" is a list of runs (each a list of records); byte sizes are  #records * entry_size.  HolePunch is ignored.
   Sizes are N (the code computes in uint64_t/size_t; no overflow is modelled: all quantities are bounded by the
   data size and the configured memory). *)
From Coq Require Import List NArith Bool Arith.
Import ListNotations.
Local Open Scope N_scope.

Section Sort.
  Context {A : Type}.
  Variable lt : A -> A -> bool.                 (* the C++ Compare: "less" *)
  Variable combine : A -> A -> option A.        (* Combine: Some c = "combined into c", None = "did not combine" *)

  (* ---- k-way merge: the priority queue yields a record that no other head is less than --------------------- *)
  Fixpoint pick (runs : list (list A)) : option (A * list (list A)) :=
    match runs with
    | [] => None
    | [] :: rs => pick rs                        (* exhausted entries have left the queue *)
    | (x :: xs) :: rs =>
        match pick rs with
        | None => Some (x, [xs])
        | Some (y, rs') => if lt y x then Some (y, (x :: xs) :: rs') else Some (x, xs :: rs)
        end
    end.

  Definition total_len (runs : list (list A)) : nat := length (concat runs).

  (* fuel = number of records still queued; shown sufficient (kmerge is a permutation of the concatenation) *)
  Fixpoint kmerge_fuel (fuel : nat) (runs : list (list A)) : list A :=
    match fuel with
    | O => []
    | S f => match pick runs with None => [] | Some (x, rs) => x :: kmerge_fuel f rs end
    end.
  Definition kmerge (runs : list (list A)) : list A := kmerge_fuel (total_len runs) runs.

  (* memcpy(str.Get(), Top); for (Pop; !Empty; Pop) if (!combine(str.Get(), Top)) { ++str; memcpy } ; ++str *)
  Fixpoint comb (cur : A) (l : list A) : list A :=
    match l with
    | [] => [cur]
    | x :: r => match combine cur x with Some c => comb c r | None => cur :: comb x r end
    end.
  Definition merge_group (g : list (list A)) : list A :=
    match kmerge g with [] => [] | x :: r => comb x r end.

  (* ---- BlockSorter: any sorting function; this one is a bottom-up merge sort built from kmerge ------------- *)
  Fixpoint merge_pairs (ls : list (list A)) : list (list A) :=
    match ls with a :: b :: r => kmerge [a; b] :: merge_pairs r | _ => ls end.
  Fixpoint msort_fuel (fuel : nat) (ls : list (list A)) : list A :=
    match fuel with
    | O => kmerge ls
    | S f => match ls with [] => [] | [a] => a | _ => msort_fuel f (merge_pairs ls) end
    end.
  Definition sort_block (b : list A) : list A := msort_fuel (length b) (map (fun x => [x]) b).

  (* ---- sizes ------------------------------------------------------------------------------------------------ *)
  Variable es : N.                               (* Chain::EntrySize() *)
  Definition run_bytes (r : list A) : N := N.of_nat (length r) * es.
  Fixpoint size_bytes (runs : list (list A)) : N :=
    match runs with [] => 0 | r :: rs => run_bytes r + size_bytes rs end.
  Definition nruns (runs : list (list A)) : N := N.of_nat (length runs).

  (* the admission loop; avail = buffer_end - buf *)
  Fixpoint admission (per_buffer avail : N) (runs : list (list A)) : list (list A) * list (list A) :=
    match runs with
    | [] => ([], [])
    | r :: rs =>
        let need := N.min per_buffer (run_bytes r) in
        if need <=? avail
        then let (g, rest) := admission per_buffer (avail - N.min (run_bytes r) per_buffer) rs in (r :: g, rest)
        else ([], runs)
    end.

  Inductive pass_result :=
  | PassOk (out : list (nat * list A))           (* per merge group: number of runs merged, the run written *)
  | PassAbortTwo                                  (* "not merging at least two stripes" *)
  | PassAbortLazy                                 (* "should only be one merge group for lazy sort" *)
  | PassFuel.

  Definition per_buffer_of (bufsz totmem : N) (runs : list (list A)) : N :=
    let p := N.max bufsz (totmem / nruns runs) in p - p mod es.

  Definition is_nil {B} (l : list B) : bool := match l with [] => true | _ => false end.

  (* while (in_offsets_->RemainingBlocks()) { ... }   fuel = number of runs (each group takes at least one) *)
  Fixpoint pass_loop (fuel : nat) (bufsz totmem : N) (assert_one : bool) (runs : list (list A))
           (acc : list (nat * list A)) : pass_result :=
    match runs with
    | [] => PassOk (rev acc)
    | _ :: _ =>
        match fuel with
        | O => PassFuel
        | S f =>
            let (g, rest) := admission (per_buffer_of bufsz totmem runs) totmem runs in
            if (Nat.ltb (length g) 2) && negb (is_nil rest) then PassAbortTwo
            else if assert_one && negb (is_nil rest) then PassAbortLazy
            else pass_loop f bufsz totmem assert_one rest ((length g, merge_group g) :: acc)
        end
    end.

  Definition merging_reader (bufsz totmem : N) (assert_one : bool) (runs : list (list A)) : pass_result :=
    match runs with
    | [] => PassOk []                             (* nothing to read: poison *)
    | [r] => PassOk [(1%nat, r)]                  (* ReadSingle: the run is copied, no combining *)
    | _ => pass_loop (length runs) bufsz totmem assert_one runs []
    end.

  (* ---- Sort ------------------------------------------------------------------------------------------------- *)
  Record sort_config := { cfg_buffer : N; cfg_total : N }.

  Inductive ctor_result := CtorOk (adjusted_buffer : N) | BadSortConfig.
  Definition sort_ctor (c : sort_config) : ctor_result :=
    if es =? 0 then BadSortConfig
    else let b := cfg_buffer c - cfg_buffer c mod es in
         if b =? 0 then BadSortConfig
         else if cfg_total c <? b * 4 then BadSortConfig
         else CtorOk b.

  Inductive merge_result :=
  | MergeOk (runs : list (list A)) (trace : list (list (nat * nat)))   (* trace: per pass, per group (runs merged, records written) *)
  | MergeAbortTwo
  | MergeFuel.

  Definition trace_of (out : list (nat * list A)) : list (nat * nat) := map (fun p => (fst p, length (snd p))) out.

  (* while (offsets_in->RemainingBlocks() > lazy_arity) { if (size <= lazy_memory) break; <one pass> } *)
  Fixpoint merge_loop (fuel : nat) (bufsz total lazy_memory lazy_arity : N) (runs : list (list A))
           (trace : list (list (nat * nat))) : merge_result :=
    if nruns runs <=? lazy_arity then MergeOk runs (rev trace)
    else if size_bytes runs <=? lazy_memory then MergeOk runs (rev trace)
    else match fuel with
         | O => MergeFuel
         | S f =>
             let size := size_bytes runs in
             let rm := total - 2 * bufsz in
             let reading_memory := if size <? rm then size else rm in
             match merging_reader bufsz reading_memory false runs with
             | PassOk out => merge_loop f bufsz total lazy_memory lazy_arity (map snd out) (trace_of out :: trace)
             | PassAbortTwo => MergeAbortTwo
             | PassAbortLazy => MergeAbortTwo     (* unreachable: assert_one = false *)
             | PassFuel => MergeFuel
             end
         end.

  Definition merge_return (bufsz : N) (runs : list (list A)) : N :=
    if nruns runs <=? 1 then 0 else N.min (size_bytes runs) (nruns runs * bufsz).

  (* Sort::Merge(lazy_memory): returns the runs left on disk and the function's return value *)
  Definition sort_merge (bufsz total lazy_memory : N) (runs : list (list A)) : merge_result * N :=
    if nruns runs <=? 1 then (MergeOk runs [], 0)
    else let lazy_arity := N.max 1 (lazy_memory / bufsz) in
         match merge_loop (length runs) bufsz total lazy_memory lazy_arity runs [] with
         | MergeOk runs' tr => (MergeOk runs' tr, merge_return bufsz runs')
         | e => (e, 0)
         end.

  Inductive sort_result :=
  | SortOk (out : list A) (trace : list (list (nat * nat)))
  | SortBadConfig
  | SortAbortTwo
  | SortAbortLazy
  | SortFuel.

  (* Sort::Output(out, lazy_memory): Merge(lazy_memory); OwningMergingReader(buffer, lazy_memory).Run(assert_one) *)
  Definition sort_output_runs (bufsz total lazy_memory : N) (runs : list (list A)) : sort_result :=
    match fst (sort_merge bufsz total lazy_memory runs) with
    | MergeOk runs' tr =>
        match merging_reader bufsz lazy_memory true runs' with
        | PassOk out => SortOk (concat (map snd out)) (tr ++ [trace_of out])
        | PassAbortTwo => SortAbortTwo
        | PassAbortLazy => SortAbortLazy
        | PassFuel => SortFuel
        end
    | MergeAbortTwo => SortAbortTwo
    | MergeFuel => SortFuel
    end.

  (* lmplz's pattern (pipeline.cc InitForAdjust / MaximumLazyInput): r = Merge(lazy0); ...; Output(chain, r) *)
  Definition sort_merge_then_output_runs (bufsz total lazy0 : N) (runs : list (list A)) : sort_result * N :=
    match sort_merge bufsz total lazy0 runs with
    | (MergeOk runs' tr, r) =>
        (match sort_output_runs bufsz total r runs' with
         | SortOk out tr2 => SortOk out (tr ++ tr2)
         | e => e
         end, r)
    | (MergeAbortTwo, _) => (SortAbortTwo, 0)
    | (MergeFuel, _) => (SortFuel, 0)
    end.

  (* StealCompleted: Merge(0); the data file is what the caller gets *)
  Definition sort_steal_runs (bufsz total : N) (runs : list (list A)) : sort_result :=
    match fst (sort_merge bufsz total 0 runs) with
    | MergeOk runs' tr => SortOk (concat runs') tr
    | MergeAbortTwo => SortAbortTwo
    | MergeFuel => SortFuel
    end.

  (* BlockSorter: offsets_->Append(ValidSize) ignores empty blocks; every other block becomes one sorted run *)
  Definition nonempty (b : list A) : bool := negb (is_nil b).
  Definition initial_runs (blocks : list (list A)) : list (list A) := map sort_block (filter nonempty blocks).

  Inductive mode := ModeOutput | ModeMergeOutput | ModeSteal.

  Definition sort_dispatch (m : mode) (b total lazy_memory : N) (runs : list (list A)) : sort_result * N :=
    match m with
    | ModeOutput => (sort_output_runs b total lazy_memory runs, 0)
    | ModeMergeOutput => sort_merge_then_output_runs b total lazy_memory runs
    | ModeSteal => (sort_steal_runs b total runs, 0)
    end.

  Definition sort_run (m : mode) (c : sort_config) (lazy_memory : N) (blocks : list (list A)) : sort_result * N :=
    match sort_ctor c with
    | BadSortConfig => (SortBadConfig, 0)
    | CtorOk b => sort_dispatch m b (cfg_total c) lazy_memory (initial_runs blocks)
    end.

  (* ---- the input chain ----------------------------------------------------------------------------------------- *)
  (* Chain::Chain: None = ChainConfigException *)
  Definition chain_block_size (block_count total_memory : N) : option N :=
    if es =? 0 then None
    else if block_count =? 0 then None
    else if total_memory <? es * block_count then None
    else Some (total_memory / (block_count * es) * es).

  (* a producer writing records one by one through util::stream::Stream: blocks of cap records, the last partial;
     Stream::operator++ moves to a fresh block as soon as the current one is full and Stream::Poison passes on the
     block it is in, so an input that ends on a block boundary (incl. the empty input) is followed by an empty
     block (ignored by Offsets::Append) *)
  Fixpoint take_block (cap : nat) (l : list A) : list A * list A :=
    match cap, l with
    | O, _ => ([], l)
    | _, [] => ([], [])
    | S c, x :: r => let (b, rest) := take_block c r in (x :: b, rest)
    end.
  Fixpoint blocks_of_fuel (fuel cap : nat) (l : list A) : list (list A) :=
    match fuel with
    | O => [l]
    | S f => match l with
             | [] => [[]]
             | _ => let (b, rest) := take_block cap l in
                    if Nat.ltb (length b) cap then [b] else b :: blocks_of_fuel f cap rest
             end
    end.
  Definition blocks_of (cap : nat) (l : list A) : list (list A) := blocks_of_fuel (length l) cap l.
End Sort.

(* ---- the comparison orders of lm/common/compare.hh, on word arrays ------------------------------------------- *)
Section Orders.
  (* first index (in the order given) at which the two arrays differ decides; equal everywhere = not less *)
  Fixpoint lex_lt (idx : list nat) (a b : list N) : bool :=
    match idx with
    | [] => false
    | i :: r => let x := nth i a 0 in let y := nth i b 0 in
                if x =? y then lex_lt r a b else x <? y
    end.
  (* SuffixOrder: for (i = order-1; i != 0; --i) ...; return lhs[0] < rhs[0] *)
  Definition suffix_idx (n : nat) : list nat := rev (seq 0 n).
  (* ContextOrder: for (i = order-2; i >= 0; --i) ...; return lhs[order-1] < rhs[order-1] *)
  Definition context_idx (n : nat) : list nat := rev (seq 0 (n - 1)) ++ [(n - 1)%nat].
  (* PrefixOrder: for (i = 0; i < order; ++i) ...; return false *)
  Definition prefix_idx (n : nat) : list nat := seq 0 n.
  Definition suffix_lt n := lex_lt (suffix_idx n).
  Definition context_lt n := lex_lt (context_idx n).
  Definition prefix_lt n := lex_lt (prefix_idx n).
End Orders.

(* ---- records used by the correspondence: key words + payload (a count when a combiner is used) --------------- *)
Definition rec := (list N * N)%type.
Definition rec_lt (klt : list N -> list N -> bool) (a b : rec) : bool := klt (fst a) (fst b).
(* memcmp(first.begin(), second.begin(), sizeof(WordIndex) * order) == 0 *)
Definition words_eqb (n : nat) (a b : list N) : bool := forallb (fun i => nth i a 0 =? nth i b 0) (seq 0 n).
(* lm/builder/combine_counts.hh: same words => first.count += second.count (uint64 wrap-around) *)
Definition combine_counts (n : nat) (a b : rec) : option rec :=
  if words_eqb n (fst a) (fst b) then Some (fst a, (snd a + snd b) mod 2 ^ 64) else None.
Definition never_combine (a b : rec) : option rec := None.

(* ---- Offsets: the run-length encoded log of run lengths (sort.hh:46-121) ------------------------------------- *)
Record offsets := {
  off_file : list (N * N);      (* entries written to the log file, in order *)
  off_unread : list (N * N);    (* what the file position will read next (after FinishedAppending) *)
  off_cur : N * N;              (* cur_ = (length, run) *)
  off_blocks : N;               (* block_count_ *)
  off_sum : N                   (* output_sum_ *)
}.
Definition off_reset : offsets := {| off_file := []; off_unread := []; off_cur := (0, 0); off_blocks := 0; off_sum := 0 |}.
Definition off_append (o : offsets) (len : N) : offsets :=
  if len =? 0 then o
  else if len =? fst (off_cur o)
       then {| off_file := off_file o; off_unread := off_unread o; off_cur := (fst (off_cur o), snd (off_cur o) + 1);
               off_blocks := off_blocks o + 1; off_sum := off_sum o |}
       else {| off_file := off_file o ++ [off_cur o]; off_unread := off_unread o; off_cur := (len, 1);
               off_blocks := off_blocks o + 1; off_sum := off_sum o |}.
Definition off_finished (o : offsets) : offsets :=
  let file := off_file o ++ [off_cur o] in
  let unread := tl file in                         (* SeekOrThrow(log_, sizeof(Entry)): skip 0,0 at beginning *)
  if off_blocks o =? 0
  then {| off_file := file; off_unread := unread; off_cur := (fst (off_cur o), 0); off_blocks := 0; off_sum := off_sum o |}
  else match unread with
       | e :: u => {| off_file := file; off_unread := u; off_cur := e; off_blocks := off_blocks o; off_sum := off_sum o |}
       | [] => {| off_file := file; off_unread := []; off_cur := (fst (off_cur o), 0); off_blocks := off_blocks o; off_sum := off_sum o |}
       end.
Definition off_peek (o : offsets) : N := fst (off_cur o).
(* NextSize: (returned length, new state); None = would read past the end of the log / called with no block left *)
Definition off_next (o : offsets) : option (N * offsets) :=
  if off_blocks o =? 0 then None
  else
    let ret := fst (off_cur o) in
    let run := snd (off_cur o) - 1 in
    let blocks := off_blocks o - 1 in
    if (run =? 0) && negb (blocks =? 0)
    then match off_unread o with
         | e :: u => Some (ret, {| off_file := off_file o; off_unread := u; off_cur := e; off_blocks := blocks; off_sum := off_sum o + ret |})
         | [] => None
         end
    else Some (ret, {| off_file := off_file o; off_unread := off_unread o; off_cur := (ret, run); off_blocks := blocks; off_sum := off_sum o + ret |}).
(* read every remaining length: (offset, length) pairs as MergingReader sees them *)
Fixpoint off_drain (fuel : nat) (o : offsets) : option (list (N * N)) :=
  if off_blocks o =? 0 then Some []
  else match fuel with
       | O => None
       | S f => match off_next o with
                | None => None
                | Some (len, o') => match off_drain f o' with None => None | Some l => Some ((off_sum o, len) :: l) end
                end
       end.
Definition off_log (lens : list N) : offsets := off_finished (fold_left off_append lens off_reset).
