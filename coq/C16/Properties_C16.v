(* C16 -- External sort returns the sorted (and combined) multiset of its input.
   The property theorems and nothing else; each is closed by `exact <lemma>` (proofs in MergeProofs, SortProofs,
   ProgressProofs, CombineProofs, OrderProofs, OffsetsProofs, MainProofs, SmallProofs).

   Reading guide (model: C16/SortModel.v, a construct-by-construct model of util/stream/sort.hh):
     lt            the C++ Compare ("less"); the two premises are the strict-weak-order laws
     le lt a b     :=  lt b a = false                 sorted lt := StronglySorted (le lt)
     sort_ctor     the checks of Sort::Sort; CtorOk b = accepted, b = buffer_size rounded to the entry size
     block_sorted  the runs on disk are *any* sorted permutations of the non-empty chain blocks (std::sort is unstable)
     sort_dispatch m = ModeOutput: Output(chain, lazy) | ModeMergeOutput: r = Merge(lazy); Output(chain, r) (lmplz)
                     | ModeSteal: StealCompleted();  results other than SortOk are the two abort()s of MergingReader::Run,
                     BadSortConfig and out-of-fuel
   Every theorem quantifies over all record types, inputs, block splits, entry sizes, buffer sizes, memory sizes and
   lazy-memory sizes; "legal configuration" is exactly `sort_ctor es c = CtorOk b`. *)
From Coq Require Import List NArith Bool Sorting.Sorted Sorting.Permutation.
From Kenlm Require Import C16.SortModel C16.MergeProofs C16.SortProofs C16.ProgressProofs C16.CombineProofs
  C16.OrderProofs C16.OffsetsProofs C16.MainProofs C16.SmallProofs C16.ReadBackModel C16.ReadBackProofs.
Import ListNotations.
Local Open Scope N_scope.

(* No combiner: for every legal configuration the sort terminates without abort and emits a sorted permutation of
   its input -- spill or not, any number of merge passes, any grouping the memory arithmetic produces. *)
Theorem C16_sorted_permutation :
  forall (A : Type) (lt : A -> A -> bool) (combine : A -> A -> option A) (es : N),
  (forall a b, lt a b = true -> lt b a = false) ->
  (forall a b c, le lt a b -> le lt b c -> le lt a c) ->
  (forall a b, combine a b = None) ->
  forall m c b lazy blocks runs, sort_ctor es c = CtorOk b -> block_sorted lt blocks runs ->
  exists out tr r, sort_dispatch lt combine es m b (cfg_total c) lazy runs = (SortOk out tr, r) /\
                   sorted lt out /\ Permutation out (concat blocks).
Proof.
  intros A lt combine es Ha Ht Hn. apply sorted_permutation; try assumption.
  intros a b c E. rewrite Hn in E. discriminate.
Qed.

(* The same for the executable model (its own block sorter), the function the correspondence check runs. *)
Theorem C16_sort_run_sorted_permutation :
  forall (A : Type) (lt : A -> A -> bool) (combine : A -> A -> option A) (es : N),
  (forall a b, lt a b = true -> lt b a = false) ->
  (forall a b c, le lt a b -> le lt b c -> le lt a c) ->
  (forall a b, combine a b = None) ->
  forall m c b lazy blocks, sort_ctor es c = CtorOk b ->
  exists out tr r, sort_run lt combine es m c lazy blocks = (SortOk out tr, r) /\
                   sorted lt out /\ Permutation out (concat blocks).
Proof.
  intros A lt combine es Ha Ht Hn. apply sort_run_sorted_permutation; try assumption.
  intros a b c E. rewrite Hn in E. discriminate.
Qed.

(* With a combiner (fires only on equal keys, keeps the key, adds the counts in Z/W; the order looks at the key
   only): output sorted and, for every key, the total count of the output equals that of the input (mod W). *)
Theorem C16_combiner_totals :
  forall (A K : Type) (lt : A -> A -> bool) (combine : A -> A -> option A) (es : N)
         (key : A -> K) (key_eq_dec : forall a b : K, {a = b} + {a <> b}) (cnt : A -> N) (W : N),
  W <> 0 ->
  (forall a b, lt a b = true -> lt b a = false) ->
  (forall a b c, le lt a b -> le lt b c -> le lt a c) ->
  (forall a b c, combine a b = Some c -> key b = key a /\ key c = key a /\ cnt c mod W = (cnt a + cnt b) mod W) ->
  (forall a a' b b', key a = key a' -> key b = key b' -> lt a b = lt a' b') ->
  forall m c b lazy blocks runs, sort_ctor es c = CtorOk b -> block_sorted lt blocks runs ->
  exists out tr r, sort_dispatch lt combine es m b (cfg_total c) lazy runs = (SortOk out tr, r) /\
                   sorted lt out /\
                   forall k, total key key_eq_dec cnt k (concat blocks) mod W = total key key_eq_dec cnt k out mod W.
Proof. exact @combiner_totals. Qed.

(* ... and if, in addition, the combiner fires on every pair the order cannot tell apart and no input block holds
   two records of the same key, the output is strictly increasing (duplicate-free). *)
Theorem C16_combiner_dupfree :
  forall (A K : Type) (lt : A -> A -> bool) (combine : A -> A -> option A) (es : N)
         (key : A -> K) (key_eq_dec : forall a b : K, {a = b} + {a <> b}) (cnt : A -> N) (W : N),
  W <> 0 ->
  (forall a b, lt a b = true -> lt b a = false) ->
  (forall a b c, le lt a b -> le lt b c -> le lt a c) ->
  (forall a b c, combine a b = Some c -> key b = key a /\ key c = key a /\ cnt c mod W = (cnt a + cnt b) mod W) ->
  (forall a a' b b', key a = key a' -> key b = key b' -> lt a b = lt a' b') ->
  (forall a b, key a = key b -> combine a b <> None) ->
  (forall a b, lt a b = false -> lt b a = false -> key a = key b) ->
  forall m c b lazy blocks runs, sort_ctor es c = CtorOk b -> block_sorted lt blocks runs ->
  Forall (fun blk => NoDup (map key blk)) blocks ->
  exists out tr r, sort_dispatch lt combine es m b (cfg_total c) lazy runs = (SortOk out tr, r) /\
                   StronglySorted (fun x y => lt x y = true) out /\
                   forall k, total key key_eq_dec cnt k (concat blocks) mod W = total key key_eq_dec cnt k out mod W.
Proof. exact @combiner_dupfree. Qed.

(* Progress, with no assumption on the comparison, the combiner or the data: under the constructor's checks neither
   abort() of MergingReader::Run is reachable and Merge terminates within (number of runs) passes (no out-of-fuel). *)
Theorem C16_merge_progress :
  forall (A : Type) (lt : A -> A -> bool) (combine : A -> A -> option A) (es : N) m c b lazy (runs : list (list A)),
  sort_ctor es c = CtorOk b ->
  exists out tr r, sort_dispatch lt combine es m b (cfg_total c) lazy runs = (SortOk out tr, r).
Proof. exact @dispatch_progress. Qed.

(* The reason: whenever MergingReader is given memory t with  2*buffer_size <= t  or  (bytes on disk) <= t  -- which
   is what Sort::Merge and the lazy reader guarantee -- one admission loop takes every remaining run or at least two. *)
Theorem C16_two_stripes :
  forall (A : Type) (es b t : N) (r : list A) rs g rest,
  2 * b <= t \/ size_bytes es (r :: rs) <= t ->
  admission es (per_buffer_of es b t (r :: rs)) t (r :: rs) = (g, rest) ->
  (g = r :: rs /\ rest = []) \/ (2 <= length g)%nat.
Proof. exact @admission_progress. Qed.

(* The run-length compressed Offsets log: after Append(l1) .. Append(ln); FinishedAppending(), RemainingBlocks() is
   the number of non-zero lengths and successive (TotalOffset(), NextSize()) are those lengths with their running sum. *)
Theorem C16_offsets_log_faithful : forall lens,
  off_blocks (off_log lens) = N.of_nat (length (nz lens)) /\
  off_drain (length lens) (off_log lens) = Some (with_offsets 0 (nz lens)).
Proof. exact offsets_log_faithful. Qed.

(* Shortcuts: nothing on disk -> empty output; exactly one run on disk -> that run, unchanged (ReadSingle), in every mode. *)
Theorem C16_empty :
  forall (A : Type) (lt : A -> A -> bool) (combine : A -> A -> option A) (es : N) m b total lazy,
  exists tr r, sort_dispatch lt combine es m b total lazy [] = (SortOk [] tr, r).
Proof. exact @dispatch_empty. Qed.

Theorem C16_single_block :
  forall (A : Type) (lt : A -> A -> bool) (combine : A -> A -> option A) (es : N) m b total lazy (run : list A),
  exists tr r, sort_dispatch lt combine es m b total lazy [run] = (SortOk run tr, r).
Proof. exact @dispatch_single. Qed.

(* The producer side of the tie: writing through util::stream::Stream splits the input into consecutive blocks. *)
Theorem C16_blocks_of_concat : forall (A : Type) cap (l : list A), concat (blocks_of cap l) = l.
Proof. exact @blocks_of_concat. Qed.

(* SuffixOrder, ContextOrder, PrefixOrder (lm/common/compare.hh) satisfy the order premises, for every n-gram length;
   every comparison is a lexicographic comparison over a list of word positions. *)
Theorem C16_ngram_orders_strict_weak : forall idx : list nat,
  (forall a b, lex_lt idx a b = true -> lex_lt idx b a = false) /\
  (forall a b c, le (lex_lt idx) a b -> le (lex_lt idx) b c -> le (lex_lt idx) a c).
Proof. intro idx. split; [apply lex_lt_asym|apply lex_le_trans]. Qed.

(* CombineCounts with SuffixOrder(n) (the sort of lm/builder/pipeline.cc CountText) satisfies every premise of
   C16_combiner_dupfree with key = the n words, cnt = the count, W = 2^64: the concrete instance. *)
Theorem C16_combine_counts_suffix :
  forall (n : nat) (es : N) m c b lazy (blocks runs : list (list rec)),
  sort_ctor es c = CtorOk b -> block_sorted (rec_lt (suffix_lt n)) blocks runs ->
  Forall (fun blk => NoDup (map (key_n n) blk)) blocks ->
  exists out tr r, sort_dispatch (rec_lt (suffix_lt n)) (combine_counts n) es m b (cfg_total c) lazy runs = (SortOk out tr, r) /\
                   StronglySorted (fun x y => rec_lt (suffix_lt n) x y = true) out /\
                   forall k, total (key_n n) (list_eq_dec N.eq_dec) snd k (concat blocks) mod 2 ^ 64 =
                             total (key_n n) (list_eq_dec N.eq_dec) snd k out mod 2 ^ 64.
Proof. exact combine_counts_suffix. Qed.

(* The combined result is canonical: two sorts -- any two accepted configurations, modes, block splits and block
   sorters -- whose inputs have the same key set and the same per-key totals (duplicate-free blocks, well-formed records:
   Q is preserved by the combiner, bounds the count by W and makes (key, count) determine the record) emit the SAME list. *)
Theorem C16_combiner_canonical :
  forall (A K : Type) (lt : A -> A -> bool) (combine : A -> A -> option A) (es : N)
         (key : A -> K) (key_eq_dec : forall a b : K, {a = b} + {a <> b}) (cnt : A -> N) (W : N),
  W <> 0 ->
  (forall a b, lt a b = true -> lt b a = false) ->
  (forall a b c, le lt a b -> le lt b c -> le lt a c) ->
  (forall a b c, combine a b = Some c -> key b = key a /\ key c = key a /\ cnt c mod W = (cnt a + cnt b) mod W) ->
  (forall a a' b b', key a = key a' -> key b = key b' -> lt a b = lt a' b') ->
  (forall a b, key a = key b -> combine a b <> None) ->
  (forall a b, lt a b = false -> lt b a = false -> key a = key b) ->
  forall Q : A -> Prop,
  (forall a b c, Q a -> Q b -> combine a b = Some c -> Q c) ->
  (forall a, Q a -> cnt a < W) ->
  (forall a b, Q a -> Q b -> key a = key b -> cnt a = cnt b -> a = b) ->
  forall m1 c1 b1 lazy1 blocks1 runs1 out1 tr1 r1 m2 c2 b2 lazy2 blocks2 runs2 out2 tr2 r2,
  sort_ctor es c1 = CtorOk b1 -> sort_ctor es c2 = CtorOk b2 ->
  block_sorted lt blocks1 runs1 -> block_sorted lt blocks2 runs2 ->
  Forall (fun blk => NoDup (map key blk)) blocks1 -> Forall (fun blk => NoDup (map key blk)) blocks2 ->
  Forall (Forall Q) blocks1 -> Forall (Forall Q) blocks2 ->
  (forall k, total key key_eq_dec cnt k (concat blocks1) mod W = total key key_eq_dec cnt k (concat blocks2) mod W) ->
  (forall k, In k (map key (concat blocks1)) <-> In k (map key (concat blocks2))) ->
  sort_dispatch lt combine es m1 b1 (cfg_total c1) lazy1 runs1 = (SortOk out1 tr1, r1) ->
  sort_dispatch lt combine es m2 b2 (cfg_total c2) lazy2 runs2 = (SortOk out2 tr2, r2) ->
  out1 = out2.
Proof. exact @combiner_canonical. Qed.

(* The read-back path.  The sort model treats the disk as lists of records; what stands behind that abstraction is
   util::ErsatzPRead (the only read primitive of MergeQueue::Entry::Read and MergingReader::ReadSingle), whose pread may
   return fewer bytes than requested -- always for requests >= 2 GiB - 4 KiB, on network file systems, after a signal.
   For EVERY dictated sequence of short returns and EINTRs: if ErsatzPRead returns, the buffer holds exactly bytes
   [off, off+size) of the file; and it does return when the range lies inside the file and each pread transfers >= 1 byte. *)
Theorem C16_ersatz_pread_any_split : forall (A : Type) o (file : list A) size off calls g c,
  ersatz_pread o file size off calls = PROk g c -> g = firstn size (skipn off file) /\ length g = size.
Proof. exact @ersatz_pread_any_split. Qed.

Theorem C16_ersatz_pread_returns : forall (A : Type) o (file : list A) size off calls, (off + size <= length file)%nat ->
  (forall k, In (Short k) o -> (1 <= k)%nat) -> (size <= count_short o)%nat ->
  exists g c, ersatz_pread o file size off calls = PROk g c.
Proof. exact @ersatz_pread_returns. Qed.
