(* C16/SmallProofs.v -- the shortcuts (empty input, one block = ReadSingle), the Stream producer's block split, and
   Examples showing that the hypotheses of the main theorems are satisfiable. *)
From Coq Require Import List NArith Bool Arith Lia Sorting.Sorted Sorting.Permutation.
From Kenlm Require Import C16.SortModel C16.MergeProofs C16.ProgressProofs C16.CombineProofs C16.OrderProofs C16.MainProofs.
Import ListNotations.
Local Open Scope N_scope.

Section Small.
  Context {A : Type}.
  Variable lt : A -> A -> bool.
  Variable combine : A -> A -> option A.
  Variable es : N.

  Lemma dispatch_empty : forall m b total lazy, exists tr r,
    sort_dispatch lt combine es m b total lazy [] = (SortOk [] tr, r).
  Proof. intros. destruct m; simpl; do 2 eexists; reflexivity. Qed.

  (* one run on disk: every mode hands it out unchanged (ReadSingle: no merge, hence no combining) *)
  Lemma dispatch_single : forall m b total lazy run, exists tr r,
    sort_dispatch lt combine es m b total lazy [run] = (SortOk run tr, r).
  Proof.
    intros. destruct m; simpl.
    - unfold sort_output_runs. simpl. rewrite app_nil_r. do 2 eexists; reflexivity.
    - unfold sort_merge_then_output_runs, sort_output_runs. simpl. rewrite app_nil_r. do 2 eexists; reflexivity.
    - unfold sort_steal_runs. simpl. rewrite app_nil_r. do 2 eexists; reflexivity.
  Qed.

  Lemma take_block_app : forall cap (l b rest : list A), take_block cap l = (b, rest) -> l = b ++ rest.
  Proof.
    induction cap as [|c IH]; intros l b rest H; simpl in H.
    - inversion H; reflexivity.
    - destruct l as [|x r]; [inversion H; reflexivity|].
      destruct (take_block c r) as [b' rest'] eqn:E. inversion H; subst. simpl. f_equal. apply IH. exact E.
  Qed.

  Lemma take_block_short : forall cap (l b rest : list A), take_block cap l = (b, rest) ->
    (length b < cap)%nat -> rest = [].
  Proof.
    induction cap as [|c IH]; intros l b rest H Hlt; [lia|]. simpl in H.
    destruct l as [|x r]; [inversion H; reflexivity|].
    destruct (take_block c r) as [b' rest'] eqn:E. inversion H; subst. simpl in Hlt. eapply IH; [exact E|lia].
  Qed.

  (* the Stream producer splits the input into consecutive blocks and loses nothing *)
  Lemma blocks_of_concat : forall cap (l : list A), concat (blocks_of cap l) = l.
  Proof.
    intros cap l. unfold blocks_of. generalize (length l) as fuel. intro fuel. revert l.
    induction fuel as [|f IH]; intro l; simpl; [apply app_nil_r|].
    destruct l as [|x r]; [reflexivity|].
    destruct (take_block cap (x :: r)) as [b rest] eqn:E. pose proof (take_block_app _ _ _ _ E) as Happ.
    destruct (length b <? cap)%nat eqn:El.
    - apply Nat.ltb_lt in El. rewrite (take_block_short _ _ _ _ E El) in Happ. simpl. rewrite Happ. reflexivity.
    - simpl. rewrite IH. symmetry. exact Happ.
  Qed.
End Small.

(* ---- the concrete instance used by lmplz's first sort: SuffixOrder(n) + CombineCounts ------------------------------ *)
Lemma combine_counts_suffix :
  forall (n : nat) (es : N) m c b lazy (blocks runs : list (list rec)),
  sort_ctor es c = CtorOk b -> block_sorted (rec_lt (suffix_lt n)) blocks runs ->
  Forall (fun blk => NoDup (map (key_n n) blk)) blocks ->
  exists out tr r, sort_dispatch (rec_lt (suffix_lt n)) (combine_counts n) es m b (cfg_total c) lazy runs = (SortOk out tr, r) /\
                   StronglySorted (fun x y => rec_lt (suffix_lt n) x y = true) out /\
                   forall k, total (key_n n) (list_eq_dec N.eq_dec) snd k (concat blocks) mod 2 ^ 64 =
                             total (key_n n) (list_eq_dec N.eq_dec) snd k out mod 2 ^ 64.
Proof.
  intros n es m c b lazy blocks runs Hc Hbs Hnd.
  exact (combiner_dupfree (rec_lt (suffix_lt n)) (combine_counts n) es (key_n n) (list_eq_dec N.eq_dec) snd (2 ^ 64)
           ltac:(discriminate) (ng_lt_asym (suffix_idx n)) (ng_le_trans (suffix_idx n))
           (ng_combine_spec n) (ng_lt_key n (suffix_idx n) (suffix_covers n))
           (ng_combine_fires n) (ng_equiv_key n (suffix_idx n) (suffix_covers n))
           m c b lazy blocks runs Hc Hbs Hnd).
Qed.

(* ---- Examples: the hypotheses are satisfiable and the interesting paths are exercised ----------------------------- *)
(* a legal configuration (buffer_size 20 is rounded down to 16 for 8-byte entries) *)
Example legal_config : sort_ctor 8 {| cfg_buffer := 20; cfg_total := 64 |} = CtorOk 16.
Proof. reflexivity. Qed.
Example illegal_config : sort_ctor 8 {| cfg_buffer := 20; cfg_total := 63 |} = BadSortConfig.
Proof. reflexivity. Qed.

Definition ex_blocks : list (list rec) :=
  map (fun i => [([N.of_nat (17 * i mod 23)], 1); ([N.of_nat (5 * i mod 7)], 1)]) (seq 0 24).

(* 24 runs of 2 records, buffer 16 bytes, total memory 64, lazy memory 0: two merge passes (24 -> 12 -> 6 ... ) *)
Example multi_pass :
  match sort_run (rec_lt (suffix_lt 1)) never_combine 8 ModeOutput {| cfg_buffer := 16; cfg_total := 64 |} 0 ex_blocks with
  | (SortOk out tr, _) => (length out, length tr, map (@length _) tr)
  | _ => (0%nat, 0%nat, [])
  end = (48%nat, 6%nat, [12; 6; 3; 2; 1; 1]%nat).
Proof. vm_compute. reflexivity. Qed.

Example multi_pass_combined :
  match sort_run (rec_lt (suffix_lt 1)) (combine_counts 1) 8 ModeOutput {| cfg_buffer := 16; cfg_total := 64 |} 0 ex_blocks with
  | (SortOk out tr, _) => (length out, fold_right N.add 0 (map snd out))
  | _ => (0%nat, 0)
  end = (23%nat, 48).
Proof. vm_compute. reflexivity. Qed.
