(* Extraction of the C16 executable model (ExtrOcamlBasic only; N/positive/nat stay inductive types).
   coqc runs with cwd = /verif/coq, so the output lands in coq/extracted/. *)
From Coq Require Import NArith ZArith List Extraction ExtrOcamlBasic.
From Kenlm Require Import C16.SortModel C16.ReadBackModel.
Extraction Language OCaml.
Extraction "extracted/c16_model.ml"
  sort_run sort_dispatch initial_runs sort_ctor blocks_of chain_block_size
  suffix_lt context_lt prefix_lt rec_lt combine_counts never_combine
  off_reset off_append off_finished off_peek off_next off_drain off_log Z.of_N Z.to_N N.of_nat N.to_nat ersatz_pread.
