(* C16/MainProofs.v -- the end-to-end statements about Sort (constructor checks, block sorter, Merge, Output /
   Merge-then-Output / StealCompleted), assembled from MergeProofs, SortProofs, ProgressProofs, CombineProofs. *)
From Coq Require Import List NArith Bool Arith Lia Sorting.Sorted Sorting.Permutation.
From Kenlm Require Import C16.SortModel C16.MergeProofs C16.SortProofs C16.ProgressProofs C16.CombineProofs.
Import ListNotations.
Local Open Scope N_scope.

Section Main.
  Context {A : Type}.
  Variable lt : A -> A -> bool.
  Variable combine : A -> A -> option A.
  Variable es : N.
  Hypothesis lt_asym : forall a b, lt a b = true -> lt b a = false.
  Hypothesis le_trans : forall a b c, le lt a b -> le lt b c -> le lt a c.

  (* BlockSorter, relationally: SizedSort (std::sort) may leave equal records in any order, so a run is *any* sorted
     permutation of its block; empty blocks leave no run (Offsets::Append ignores length 0) *)
  Definition block_sorted (blocks runs : list (list A)) : Prop :=
    Forall2 (fun b r => sorted lt r /\ Permutation r b) (filter nonempty blocks) runs.

  Lemma initial_runs_block_sorted : forall blocks, block_sorted blocks (initial_runs lt blocks).
  Proof.
    intro blocks. unfold block_sorted, initial_runs. induction (filter nonempty blocks) as [|b bs IH]; simpl; constructor.
    - split; [apply sort_block_sorted; assumption|apply sort_block_perm; assumption].
    - exact IH.
  Qed.

  Lemma concat_filter_nonempty : forall blocks : list (list A), concat (filter nonempty blocks) = concat blocks.
  Proof. induction blocks as [|[|x b] bs IH]; simpl; [reflexivity|exact IH|rewrite IH; reflexivity]. Qed.

  Lemma block_sorted_runs : forall blocks runs, block_sorted blocks runs ->
    Forall (sorted lt) runs /\ Permutation (concat runs) (concat blocks).
  Proof.
    intros blocks runs H. unfold block_sorted in H. rewrite <- (concat_filter_nonempty blocks).
    set (fb := filter nonempty blocks) in *. clearbody fb.
    induction H as [|b r bs rs [H1 H2] _ [IH1 IH2]]; simpl; split; try constructor; try assumption.
    apply Permutation_app; assumption.
  Qed.

  (* ---- progress: a legal configuration never aborts and never runs out of fuel, whatever the data ----------- *)
  Theorem dispatch_progress : forall m c b lazy runs, sort_ctor es c = CtorOk b ->
    exists out tr r, sort_dispatch lt combine es m b (cfg_total c) lazy runs = (SortOk out tr, r).
  Proof.
    intros m c b lazy runs Hc. destruct (sort_ctor_ok es c b Hc) as [_ [Hb [Ht _]]]. destruct m; simpl.
    - destruct (sort_output_runs_progress lt combine es b (cfg_total c) lazy runs Hb Ht) as [out [tr H]].
      rewrite H. do 3 eexists; reflexivity.
    - destruct (sort_merge_then_output_runs_progress lt combine es b (cfg_total c) lazy runs Hb Ht) as [out [tr [r H]]].
      rewrite H. do 3 eexists; reflexivity.
    - destruct (sort_steal_runs_progress lt combine es b (cfg_total c) runs Hb Ht) as [out [tr H]].
      rewrite H. do 3 eexists; reflexivity.
  Qed.

  (* ---- partial correctness of the dispatch, for a content relation R and a run property P -------------------- *)
  Section Dispatch.
    Variable R : list A -> list A -> Prop.
    Hypothesis R_refl : forall l, R l l.
    Hypothesis R_trans : forall a b c, R a b -> R b c -> R a c.
    Hypothesis R_app : forall a a' b b', R a a' -> R b b' -> R (a ++ b) (a' ++ b').
    Hypothesis R_group : forall g, R (concat g) (merge_group lt combine g).
    Variable P : list A -> Prop.
    Hypothesis P_nil : P [].
    Hypothesis P_group : forall g, Forall P g -> P (merge_group lt combine g).

    Lemma dispatch_sound : forall m c b lazy runs out tr r, sort_ctor es c = CtorOk b ->
      sort_dispatch lt combine es m b (cfg_total c) lazy runs = (SortOk out tr, r) -> Forall P runs ->
      P out /\ R (concat runs) out.
    Proof.
      intros m c b lazy runs out tr r Hc H HP. destruct (sort_ctor_ok es c b Hc) as [Hes [Hb _]]. destruct m; simpl in H.
      - inversion H; subst; clear H. split.
        + eapply sort_output_runs_inv; eassumption.
        + eapply sort_output_runs_R; eassumption.
      - split.
        + eapply sort_merge_then_output_runs_inv; eassumption.
        + eapply sort_merge_then_output_runs_R; eassumption.
      - inversion H; subst; clear H. split.
        + match goal with H' : _ = SortOk out tr |- _ => exact (sort_steal_runs_inv lt combine es P P_nil P_group b (cfg_total c) runs out tr Hes Hb H' HP) end.
        + eapply sort_steal_runs_R; eassumption.
    Qed.
  End Dispatch.

  (* ---- no combiner: sorted permutation ---------------------------------------------------------------------------- *)
  Hypothesis Hk : combine_keeps_order lt combine.

  Lemma perm_R_app : forall a a' b b' : list A, Permutation a a' -> Permutation b b' -> Permutation (a ++ b) (a' ++ b').
  Proof. intros. apply Permutation_app; assumption. Qed.

  Theorem sorted_permutation : (forall a b, combine a b = None) ->
    forall m c b lazy blocks runs, sort_ctor es c = CtorOk b -> block_sorted blocks runs ->
    exists out tr r, sort_dispatch lt combine es m b (cfg_total c) lazy runs = (SortOk out tr, r) /\
                     sorted lt out /\ Permutation out (concat blocks).
  Proof.
    intros Hn m c b lazy blocks runs Hc Hbs.
    destruct (dispatch_progress m c b lazy runs Hc) as [out [tr [r H]]]. exists out, tr, r. split; [exact H|].
    destruct (block_sorted_runs _ _ Hbs) as [Hs Hp].
    destruct (dispatch_sound (@Permutation A) (@Permutation_refl A) (@Permutation_trans A) perm_R_app
                (fun g => eq_ind_r (fun x => Permutation (concat g) x) (Permutation_sym (kmerge_perm lt g)) (merge_group_never lt combine Hn g))
                (sorted lt) (SSorted_nil _) (merge_group_sorted lt combine lt_asym le_trans Hk)
                m c b lazy runs out tr r Hc H Hs) as [H1 H2].
    split; [exact H1|]. eapply Permutation_trans; [apply Permutation_sym; exact H2|exact Hp].
  Qed.

  Theorem sort_run_sorted_permutation : (forall a b, combine a b = None) ->
    forall m c b lazy blocks, sort_ctor es c = CtorOk b ->
    exists out tr r, sort_run lt combine es m c lazy blocks = (SortOk out tr, r) /\
                     sorted lt out /\ Permutation out (concat blocks).
  Proof.
    intros Hn m c b lazy blocks Hc. unfold sort_run. rewrite Hc.
    apply sorted_permutation; [exact Hn|exact Hc|apply initial_runs_block_sorted].
  Qed.
End Main.

(* ---- with a combiner ------------------------------------------------------------------------------------------------- *)
Section MainCombine.
  Context {A K : Type}.
  Variable lt : A -> A -> bool.
  Variable combine : A -> A -> option A.
  Variable es : N.
  Variable key : A -> K.
  Variable key_eq_dec : forall a b : K, {a = b} + {a <> b}.
  Variable cnt : A -> N.
  Variable W : N.
  Hypothesis W_pos : W <> 0.
  Hypothesis lt_asym : forall a b, lt a b = true -> lt b a = false.
  Hypothesis le_trans : forall a b c, le lt a b -> le lt b c -> le lt a c.
  Hypothesis combine_spec : forall a b c, combine a b = Some c ->
    key b = key a /\ key c = key a /\ cnt c mod W = (cnt a + cnt b) mod W.
  Hypothesis lt_key : forall a a' b b', key a = key a' -> key b = key b' -> lt a b = lt a' b'.

  Notation same_totals := (same_totals key key_eq_dec cnt W).

  Lemma same_totals_perm : forall l l', Permutation l l' -> same_totals l l'.
  Proof. intros l l' H k. rewrite (total_perm key key_eq_dec cnt W W_pos k _ _ H). reflexivity. Qed.

  Theorem combiner_totals : forall m c b lazy blocks runs, sort_ctor es c = CtorOk b -> block_sorted lt blocks runs ->
    exists out tr r, sort_dispatch lt combine es m b (cfg_total c) lazy runs = (SortOk out tr, r) /\
                     sorted lt out /\ same_totals (concat blocks) out.
  Proof.
    intros m c b lazy blocks runs Hc Hbs.
    destruct (dispatch_progress lt combine es m c b lazy runs Hc) as [out [tr [r H]]]. exists out, tr, r. split; [exact H|].
    destruct (block_sorted_runs lt _ _ Hbs) as [Hs Hp].
    destruct (dispatch_sound lt combine es same_totals
                (same_totals_refl key key_eq_dec cnt W) (same_totals_trans key key_eq_dec cnt W)
                (same_totals_app key key_eq_dec cnt W W_pos)
                (merge_group_totals lt combine key key_eq_dec cnt W W_pos combine_spec)
                (sorted lt) (SSorted_nil _)
                (merge_group_sorted lt combine lt_asym le_trans (combine_keeps_order_of_key lt combine key cnt W combine_spec lt_key))
                m c b lazy runs out tr r Hc H Hs) as [H1 H2].
    split; [exact H1|].
    eapply same_totals_trans; [apply same_totals_perm; apply Permutation_sym; exact Hp|exact H2].
  Qed.

  Hypothesis combine_fires : forall a b, key a = key b -> combine a b <> None.
  Hypothesis equiv_key : forall a b, lt a b = false -> lt b a = false -> key a = key b.

  Theorem combiner_dupfree : forall m c b lazy blocks runs, sort_ctor es c = CtorOk b -> block_sorted lt blocks runs ->
    Forall (fun blk => NoDup (map key blk)) blocks ->
    exists out tr r, sort_dispatch lt combine es m b (cfg_total c) lazy runs = (SortOk out tr, r) /\
                     strict lt out /\ same_totals (concat blocks) out.
  Proof.
    intros m c b lazy blocks runs Hc Hbs Hnd.
    destruct (combiner_totals m c b lazy blocks runs Hc Hbs) as [out [tr [r [H [_ Ht]]]]]. exists out, tr, r.
    split; [exact H|]. split; [|exact Ht].
    assert (Hstrict : Forall (strict lt) runs).
    { unfold block_sorted in Hbs.
      assert (Hnd' : Forall (fun blk => NoDup (map key blk)) (filter nonempty blocks)).
      { rewrite Forall_forall in *. intros x Hx. apply Hnd. apply filter_In in Hx. apply Hx. }
      set (fb := filter nonempty blocks) in *. clearbody fb. clear Hnd H Ht.
      induction Hbs as [|blk rn bs rs [H1 H2] _ IH]; [constructor|].
      inversion Hnd' as [|? ? Hn1 Hn2]; subst. constructor.
      - apply (sorted_nodup_strict lt key equiv_key); [exact H1|].
        eapply Permutation_NoDup; [apply Permutation_map; apply Permutation_sym; exact H2|exact Hn1].
      - apply IH. exact Hn2. }
    destruct (dispatch_sound lt combine es (fun _ _ => True) (fun _ => I) (fun _ _ _ _ _ => I) (fun _ _ _ _ _ _ => I) (fun _ => I)
                (strict lt) (SSorted_nil _)
                (fun g Hg => merge_group_strict lt combine key cnt W lt_asym le_trans combine_spec lt_key combine_fires equiv_key g
                               (Forall_impl _ (strict_sorted lt lt_asym) Hg))
                m c b lazy runs out tr r Hc H Hstrict) as [H1 _].
    exact H1.
  Qed.

  (* ---- the result is canonical: it is determined by the key set and the per-key totals of the input --------------- *)
  Section Canonical.
    Variable Q : A -> Prop.            (* well-formedness of a record, preserved by the combiner *)
    Hypothesis combine_Q : forall a b c, Q a -> Q b -> combine a b = Some c -> Q c.
    Hypothesis Q_lt : forall a, Q a -> cnt a < W.
    Hypothesis Q_det : forall a b, Q a -> Q b -> key a = key b -> cnt a = cnt b -> a = b.

    Notation same_keys := (same_keys key).

    Lemma block_sorted_Q : forall blocks runs, block_sorted lt blocks runs -> Forall (Forall Q) blocks -> Forall (Forall Q) runs.
    Proof.
      intros blocks runs Hbs HQ. unfold block_sorted in Hbs.
      assert (HQ' : Forall (Forall Q) (filter nonempty blocks)).
      { rewrite Forall_forall in *. intros x Hx. apply HQ. apply filter_In in Hx. apply Hx. }
      set (fb := filter nonempty blocks) in *. clearbody fb. clear HQ.
      induction Hbs as [|blk rn bs rs [H1 H2] _ IH]; [constructor|].
      inversion HQ' as [|? ? Hq1 Hq2]; subst. constructor; [|apply IH; exact Hq2].
      rewrite Forall_forall in *. intros a Ha. apply Hq1. eapply Permutation_in; eassumption.
    Qed.

    Theorem combiner_full : forall m c b lazy blocks runs, sort_ctor es c = CtorOk b -> block_sorted lt blocks runs ->
      Forall (fun blk => NoDup (map key blk)) blocks -> Forall (Forall Q) blocks ->
      exists out tr r, sort_dispatch lt combine es m b (cfg_total c) lazy runs = (SortOk out tr, r) /\
                       strict lt out /\ same_totals (concat blocks) out /\ same_keys (concat blocks) out /\ Forall Q out.
    Proof.
      intros m c b lazy blocks runs Hc Hbs Hnd HQ.
      destruct (combiner_dupfree m c b lazy blocks runs Hc Hbs Hnd) as [out [tr [r [H [Hs Ht]]]]]. exists out, tr, r.
      split; [exact H|]. split; [exact Hs|]. split; [exact Ht|].
      destruct (block_sorted_runs lt _ _ Hbs) as [_ Hp].
      destruct (dispatch_sound lt combine es same_keys
                  (same_keys_refl key) (same_keys_trans key) (same_keys_app key)
                  (merge_group_keys lt combine key cnt W combine_spec)
                  (Forall Q) (Forall_nil Q)
                  (merge_group_Forall lt combine Q combine_Q)
                  m c b lazy runs out tr r Hc H (block_sorted_Q _ _ Hbs HQ)) as [H1 H2].
      split; [|exact H1].
      eapply same_keys_trans; [apply same_keys_perm; apply Permutation_sym; exact Hp|exact H2].
    Qed.

    Theorem combiner_canonical :
      forall m1 c1 b1 lazy1 blocks1 runs1 out1 tr1 r1 m2 c2 b2 lazy2 blocks2 runs2 out2 tr2 r2,
      sort_ctor es c1 = CtorOk b1 -> sort_ctor es c2 = CtorOk b2 ->
      block_sorted lt blocks1 runs1 -> block_sorted lt blocks2 runs2 ->
      Forall (fun blk => NoDup (map key blk)) blocks1 -> Forall (fun blk => NoDup (map key blk)) blocks2 ->
      Forall (Forall Q) blocks1 -> Forall (Forall Q) blocks2 ->
      same_totals (concat blocks1) (concat blocks2) -> same_keys (concat blocks1) (concat blocks2) ->
      sort_dispatch lt combine es m1 b1 (cfg_total c1) lazy1 runs1 = (SortOk out1 tr1, r1) ->
      sort_dispatch lt combine es m2 b2 (cfg_total c2) lazy2 runs2 = (SortOk out2 tr2, r2) ->
      out1 = out2.
    Proof.
      intros m1 c1 b1 lazy1 blocks1 runs1 out1 tr1 r1 m2 c2 b2 lazy2 blocks2 runs2 out2 tr2 r2
             Hc1 Hc2 Hb1 Hb2 Hn1 Hn2 HQ1 HQ2 Ht Hk E1 E2.
      destruct (combiner_full m1 c1 b1 lazy1 blocks1 runs1 Hc1 Hb1 Hn1 HQ1) as [o1 [t1 [s1 [F1 [S1 [T1 [K1 Q1]]]]]]].
      destruct (combiner_full m2 c2 b2 lazy2 blocks2 runs2 Hc2 Hb2 Hn2 HQ2) as [o2 [t2 [s2 [F2 [S2 [T2 [K2 Q2]]]]]]].
      rewrite E1 in F1. rewrite E2 in F2. inversion F1; subst o1 t1 s1. inversion F2; subst o2 t2 s2.
      apply (strict_unique lt key key_eq_dec cnt W W_pos lt_asym lt_key Q Q_lt Q_det); try assumption.
      - eapply same_keys_trans; [|exact K2]. eapply same_keys_trans; [|exact Hk].
        intro k. symmetry. apply K1.
      - eapply same_totals_trans; [|exact T2]. eapply same_totals_trans; [|exact Ht].
        intro k. symmetry. apply T1.
    Qed.
  End Canonical.
End MainCombine.
