(* C16/OffsetsProofs.v -- the run-length compressed Offsets log (sort.hh:46-121) decodes to exactly the non-zero
   lengths that were appended, in order, with TotalOffset() the running sum. *)
From Coq Require Import List NArith Bool Arith Lia.
From Kenlm Require Import C16.SortModel.
Import ListNotations.
Local Open Scope N_scope.

Definition decode (es : list (N * N)) : list N := flat_map (fun e => repeat (fst e) (N.to_nat (snd e))) es.
Definition nz (l : list N) : list N := filter (fun x => negb (x =? 0)) l.
Fixpoint with_offsets (s : N) (l : list N) : list (N * N) :=
  match l with [] => [] | x :: r => (s, x) :: with_offsets (s + x) r end.
Definition nzent (e : N * N) : Prop := fst e <> 0 /\ snd e <> 0.

Lemma decode_app : forall a b, decode (a ++ b) = decode a ++ decode b.
Proof. intros. unfold decode. apply flat_map_app. Qed.

Lemma repeat_snoc : forall (x : N) n, repeat x (S n) = repeat x n ++ [x].
Proof. intros x n. induction n as [|n IH]; simpl in *; [reflexivity|]. rewrite <- IH. reflexivity. Qed.

(* ---- appending ------------------------------------------------------------------------------------------------------- *)
Record app_inv (o : offsets) (ls : list N) : Prop := {
  ai_decode : decode (off_file o ++ [off_cur o]) = ls;
  ai_blocks : off_blocks o = N.of_nat (length ls);
  ai_shape : (off_file o = [] /\ off_cur o = (0, 0)) \/
             (exists f, off_file o = (0, 0) :: f /\ Forall nzent f /\ nzent (off_cur o));
  ai_unread : off_unread o = [];
  ai_sum : off_sum o = 0
}.

Lemma app_inv_reset : app_inv off_reset [].
Proof. constructor; simpl; auto. Qed.

Lemma app_inv_step : forall o ls len, app_inv o ls -> app_inv (off_append o len) (ls ++ nz [len]).
Proof.
  intros o ls len [Hd Hb Hs Hu Hsum]. unfold off_append, nz. simpl filter.
  destruct (N.eqb_spec len 0) as [E0|E0]; simpl negb; cbv iota.
  - rewrite app_nil_r. constructor; assumption.
  - destruct (N.eqb_spec len (fst (off_cur o))) as [E1|E1].
    + (* same length as the current entry: ++cur_.run *)
      destruct Hs as [[_ Hc]|[f [Hf [Hff Hcur]]]]; [rewrite Hc in E1; simpl in E1; contradiction|].
      constructor; simpl.
      * rewrite decode_app in *. simpl in *. rewrite app_nil_r in *.
        replace (N.to_nat (snd (off_cur o) + 1)) with (S (N.to_nat (snd (off_cur o)))) by lia.
        rewrite repeat_snoc, app_assoc, Hd, E1. reflexivity.
      * rewrite app_length. simpl. lia.
      * right. exists f. split; [exact Hf|]. split; [exact Hff|]. destruct Hcur as [H1 H2]. split; simpl; lia.
      * exact Hu.
      * exact Hsum.
    + (* new entry: the current one is written to the file *)
      constructor; simpl.
      * rewrite decode_app. rewrite Hd. simpl. reflexivity.
      * rewrite app_length. simpl. lia.
      * right. destruct Hs as [[Hf Hc]|[f [Hf [Hff Hcur]]]].
        -- exists []. rewrite Hf, Hc. split; [reflexivity|]. split; [constructor|]. split; simpl; lia.
        -- exists (f ++ [off_cur o]). rewrite Hf. split; [reflexivity|]. split.
           ++ apply Forall_app. split; [exact Hff|constructor; [exact Hcur|constructor]].
           ++ split; simpl; lia.
      * exact Hu.
      * exact Hsum.
Qed.

Lemma nz_length : forall l, (length (nz l) <= length l)%nat.
Proof. induction l as [|x r IH]; simpl; [lia|]. destruct (negb (x =? 0)); simpl; lia. Qed.

Lemma nz_app : forall a b, nz (a ++ b) = nz a ++ nz b.
Proof. intros. unfold nz. apply filter_app. Qed.

Lemma app_inv_fold : forall lens o ls, app_inv o ls -> app_inv (fold_left off_append lens o) (ls ++ nz lens).
Proof.
  induction lens as [|len r IH]; intros o ls H.
  - simpl. rewrite app_nil_r. exact H.
  - change (fold_left off_append (len :: r) o) with (fold_left off_append r (off_append o len)).
    change (nz (len :: r)) with (nz ([len] ++ r)). rewrite nz_app, app_assoc. apply IH. apply app_inv_step. exact H.
Qed.

(* ---- reading ----------------------------------------------------------------------------------------------------------- *)
Record read_inv (o : offsets) (rest : list N) (s : N) : Prop := {
  ri_blocks : off_blocks o = N.of_nat (length rest);
  ri_sum : off_sum o = s;
  ri_rest : rest = repeat (fst (off_cur o)) (N.to_nat (snd (off_cur o))) ++ decode (off_unread o);
  ri_unread : Forall nzent (off_unread o);
  ri_run : rest <> [] -> snd (off_cur o) <> 0
}.

Lemma read_inv_finished : forall o ls, app_inv o ls -> ls <> [] -> read_inv (off_finished o) ls 0.
Proof.
  intros o ls [Hd Hb Hs Hu Hsum] Hne. unfold off_finished.
  assert (Hb0 : off_blocks o <> 0) by (rewrite Hb; destruct ls; [contradiction|simpl; lia]).
  destruct (N.eqb_spec (off_blocks o) 0) as [E|_]; [contradiction|].
  destruct Hs as [[Hf Hc]|[f [Hf [Hff Hcur]]]].
  { exfalso. rewrite Hf, Hc in Hd. simpl in Hd. congruence. }
  rewrite Hf. simpl tl.
  assert (Hd' : decode (f ++ [off_cur o]) = ls).
  { rewrite Hf in Hd. simpl in Hd. exact Hd. }
  destruct (f ++ [off_cur o]) as [|e u] eqn:Efu; [destruct f; discriminate|].
  assert (Hall : Forall nzent (e :: u)).
  { rewrite <- Efu. apply Forall_app. split; [exact Hff|constructor; [exact Hcur|constructor]]. }
  inversion Hall as [|? ? He Hu']; subst.
  constructor; simpl.
  - exact Hb.
  - exact Hsum.
  - symmetry. exact Hd'.
  - exact Hu'.
  - intros _. apply He.
Qed.

Lemma read_inv_next : forall o l rest s, read_inv o (l :: rest) s ->
  exists o', off_next o = Some (l, o') /\ read_inv o' rest (s + l).
Proof.
  intros o l rest s [Hb Hsum Hr Hu Hrun]. unfold off_next.
  assert (Hb0 : off_blocks o <> 0) by (rewrite Hb; simpl; lia).
  destruct (N.eqb_spec (off_blocks o) 0) as [E|_]; [contradiction|].
  assert (Hrun' : snd (off_cur o) <> 0) by (apply Hrun; discriminate).
  set (run := snd (off_cur o) - 1). set (blocks := off_blocks o - 1).
  assert (Hk : N.to_nat (snd (off_cur o)) = S (N.to_nat run)) by (unfold run; lia).
  rewrite Hk in Hr. simpl in Hr. injection Hr as Hl Hrest. subst l.
  assert (Hbl : blocks = N.of_nat (length rest)) by (unfold blocks; rewrite Hb; simpl length; lia).
  assert (Hs' : off_sum o + fst (off_cur o) = s + fst (off_cur o)) by (rewrite Hsum; reflexivity).
  destruct (N.eqb_spec run 0) as [Er|Er]; destruct (N.eqb_spec blocks 0) as [Ebl|Ebl]; simpl andb; cbv iota.
  - (* last block *)
    eexists. split; [reflexivity|]. constructor; simpl.
    + exact Hbl.
    + exact Hs'.
    + exact Hrest.
    + exact Hu.
    + intro Hne. destruct rest; [contradiction|]. simpl in Hbl. lia.
  - (* the current entry is used up: read the next one from the log *)
    rewrite Er in Hrest. simpl in Hrest.
    destruct (off_unread o) as [|e u] eqn:Eu.
    { simpl in Hrest. rewrite Hrest in Hbl. simpl in Hbl. lia. }
    apply Forall_cons_iff in Hu. destruct Hu as [He Hu'].
    eexists. split; [reflexivity|]. constructor; simpl.
    + exact Hbl.
    + exact Hs'.
    + exact Hrest.
    + exact Hu'.
    + intros _. apply He.
  - eexists. split; [reflexivity|]. constructor; simpl.
    + exact Hbl.
    + exact Hs'.
    + exact Hrest.
    + exact Hu.
    + intros _. exact Er.
  - eexists. split; [reflexivity|]. constructor; simpl.
    + exact Hbl.
    + exact Hs'.
    + exact Hrest.
    + exact Hu.
    + intros _. exact Er.
Qed.

Lemma drain_spec : forall fuel o rest s, read_inv o rest s -> (length rest <= fuel)%nat ->
  off_drain fuel o = Some (with_offsets s rest).
Proof.
  induction fuel as [|f IH]; intros o rest s H Hf.
  - destruct rest; [|simpl in Hf; lia]. simpl. rewrite (ri_blocks _ _ _ H). reflexivity.
  - destruct rest as [|l rest].
    + simpl. rewrite (ri_blocks _ _ _ H). reflexivity.
    + destruct (read_inv_next _ _ _ _ H) as [o' [Hn H']].
      simpl. rewrite (ri_blocks _ _ _ H). simpl length.
      destruct (N.eqb_spec (N.of_nat (S (length rest))) 0) as [E|_]; [lia|].
      rewrite Hn. rewrite (IH o' rest (s + l) H'); [|simpl in Hf; lia].
      rewrite (ri_sum _ _ _ H). reflexivity.
Qed.

(* ---- the statement ------------------------------------------------------------------------------------------------------ *)
Theorem offsets_log_faithful : forall lens,
  off_blocks (off_log lens) = N.of_nat (length (nz lens)) /\
  off_drain (length lens) (off_log lens) = Some (with_offsets 0 (nz lens)).
Proof.
  intro lens. unfold off_log.
  assert (Ha := app_inv_fold lens off_reset [] app_inv_reset). simpl in Ha.
  destruct (nz lens) as [|x r] eqn:E.
  - (* nothing but empty blocks *)
    assert (Hb : off_blocks (off_finished (fold_left off_append lens off_reset)) = 0).
    { unfold off_finished. rewrite (ai_blocks _ _ Ha). simpl. reflexivity. }
    split; [rewrite Hb; reflexivity|]. destruct (length lens); simpl; rewrite Hb; reflexivity.
  - assert (Hr := read_inv_finished _ _ Ha ltac:(discriminate)).
    split; [apply (ri_blocks _ _ _ Hr)|]. apply drain_spec; [exact Hr|].
    rewrite <- E. apply nz_length.
Qed.
