(* C16/CombineProofs.v -- the combiner: per-key totals are preserved by a merged group; if the combiner fires on
   every pair of records the order cannot tell apart, a merged group is strictly increasing. *)
From Coq Require Import List NArith Bool Arith Lia Sorting.Sorted Sorting.Permutation.
From Kenlm Require Import C16.SortModel C16.MergeProofs.
Import ListNotations.
Local Open Scope N_scope.

Section CombineProofs.
  Context {A K : Type}.
  Variable lt : A -> A -> bool.
  Variable combine : A -> A -> option A.
  Variable key : A -> K.
  Variable key_eq_dec : forall a b : K, {a = b} + {a <> b}.
  Variable cnt : A -> N.
  Variable W : N.                     (* counts live in Z/W  (W = 2^64 for uint64_t) *)
  Hypothesis W_pos : W <> 0.

  Hypothesis lt_asym : forall a b, lt a b = true -> lt b a = false.
  Hypothesis le_trans : forall a b c, le lt a b -> le lt b c -> le lt a c.
  (* what a combiner is: it fires only on equal keys, keeps the key, adds the counts *)
  Hypothesis combine_spec : forall a b c, combine a b = Some c ->
    key b = key a /\ key c = key a /\ cnt c mod W = (cnt a + cnt b) mod W.
  (* the order looks at the key only *)
  Hypothesis lt_key : forall a a' b b', key a = key a' -> key b = key b' -> lt a b = lt a' b'.

  Fixpoint total (k : K) (l : list A) : N :=
    match l with
    | [] => 0
    | a :: r => (if key_eq_dec (key a) k then cnt a else 0) + total k r
    end.

  Definition same_totals (l l' : list A) : Prop := forall k, total k l mod W = total k l' mod W.

  Lemma total_app : forall k l l', total k (l ++ l') = total k l + total k l'.
  Proof. induction l as [|a r IH]; intro l'; simpl; [reflexivity|]. rewrite IH. lia. Qed.

  Lemma total_perm : forall k l l', Permutation l l' -> total k l = total k l'.
  Proof. intros k l l' H. induction H; simpl; lia. Qed.

  Lemma same_totals_refl : forall l, same_totals l l.
  Proof. intros l k. reflexivity. Qed.

  Lemma same_totals_trans : forall a b c, same_totals a b -> same_totals b c -> same_totals a c.
  Proof. intros a b c H1 H2 k. rewrite H1. apply H2. Qed.

  Lemma same_totals_app : forall a a' b b', same_totals a a' -> same_totals b b' -> same_totals (a ++ b) (a' ++ b').
  Proof.
    intros a a' b b' H1 H2 k. rewrite !total_app.
    rewrite (N.add_mod (total k a)), (N.add_mod (total k a')) by exact W_pos. rewrite (H1 k), (H2 k). reflexivity.
  Qed.

  Lemma comb_totals : forall l x, same_totals (x :: l) (comb combine x l).
  Proof.
    induction l as [|y r IH]; intros x k; simpl comb; [reflexivity|].
    destruct (combine x y) as [c|] eqn:E.
    - rewrite <- (IH c k). destruct (combine_spec _ _ _ E) as [Hy [Hc Hs]].
      simpl. rewrite Hy, Hc. destruct (key_eq_dec (key x) k).
      + rewrite N.add_assoc. rewrite (N.add_mod (cnt x + cnt y)), (N.add_mod (cnt c)) by exact W_pos. rewrite Hs. reflexivity.
      + reflexivity.
    - change (x :: y :: r) with ([x] ++ y :: r). change (x :: comb combine y r) with ([x] ++ comb combine y r).
      apply same_totals_app; [apply same_totals_refl|apply IH].
  Qed.

  Lemma merge_group_totals : forall g, same_totals (concat g) (merge_group lt combine g).
  Proof.
    intros g k. unfold merge_group. rewrite <- (total_perm k _ _ (kmerge_perm lt g)).
    destruct (kmerge lt g) as [|x r]; [reflexivity|]. apply comb_totals.
  Qed.

  Lemma combine_keeps_order_of_key : combine_keeps_order lt combine.
  Proof.
    intros a b c E. destruct (combine_spec _ _ _ E) as [_ [Hc _]]. unfold le. split; intros z Hz.
    - rewrite (lt_key z z c a eq_refl Hc). exact Hz.
    - rewrite (lt_key c a z z Hc eq_refl). exact Hz.
  Qed.

  (* ---- duplicate-freedom ---------------------------------------------------------------------------------------- *)
  Hypothesis combine_fires : forall a b, key a = key b -> combine a b <> None.
  Hypothesis equiv_key : forall a b, lt a b = false -> lt b a = false -> key a = key b.

  Definition strict (l : list A) : Prop := StronglySorted (fun a b => lt a b = true) l.

  Lemma lt_trans : forall a b c, lt a b = true -> lt b c = true -> lt a c = true.
  Proof.
    intros a b c H1 H2. destruct (lt a c) eqn:E; [reflexivity|].
    (* c <= a (E) and a <= b (asym H1) give c <= b, contradicting b < c *)
    assert (Hcb : le lt c b).
    { apply (le_trans c a b); [exact E|]. unfold le. apply lt_asym. exact H1. }
    unfold le in Hcb. congruence.
  Qed.

  Lemma strict_sorted : forall l, strict l -> sorted lt l.
  Proof.
    induction l as [|x r IH]; intro H; [constructor|]. inversion H; subst.
    constructor; [apply IH; assumption|]. eapply Forall_impl; [|eassumption]. intros z Hz. apply lt_asym. exact Hz.
  Qed.

  Lemma comb_strict : forall l x, sorted lt (x :: l) ->
    strict (comb combine x l) /\ (forall z, lt z x = true -> Forall (fun y => lt z y = true) (comb combine x l)).
  Proof.
    induction l as [|y r IH]; intros x Hs; simpl.
    - split; [repeat constructor|]. intros z Hz. repeat constructor. exact Hz.
    - inversion Hs as [|? ? Hyr Hx]; subst. inversion Hx as [|? ? Hxy Hxr]; subst.
      destruct (combine x y) as [c|] eqn:E.
      + destruct (combine_spec _ _ _ E) as [_ [Hc _]].
        assert (Hs' : sorted lt (c :: r)).
        { inversion Hyr; subst. constructor; [assumption|]. eapply Forall_impl; [|exact Hxr].
          intros z Hz. unfold le in *. rewrite (lt_key z z c x eq_refl Hc). exact Hz. }
        destruct (IH c Hs') as [H1 H2]. split; [exact H1|]. intros z Hz. apply H2.
        rewrite (lt_key z z c x eq_refl Hc). exact Hz.
      + assert (Hlt : lt x y = true).
        { destruct (lt x y) eqn:E2; [reflexivity|]. exfalso. apply (combine_fires x y); [|exact E].
          apply equiv_key; assumption. }
        destruct (IH y Hyr) as [H1 H2]. split.
        * constructor; [exact H1|]. apply H2. exact Hlt.
        * intros z Hz. constructor; [exact Hz|]. apply H2. eapply lt_trans; eassumption.
  Qed.

  Lemma merge_group_strict : forall g, Forall (sorted lt) g -> strict (merge_group lt combine g).
  Proof.
    intros g Hg. unfold merge_group. assert (H := kmerge_sorted lt lt_asym le_trans _ Hg).
    destruct (kmerge lt g) as [|x r]; [constructor|]. apply comb_strict. exact H.
  Qed.

  (* a sorted block without two records of the same key is strictly increasing *)
  Lemma sorted_nodup_strict : forall l, sorted lt l -> NoDup (map key l) -> strict l.
  Proof.
    induction l as [|x r IH]; intros Hs Hn; [constructor|].
    inversion Hs as [|? ? Hr Hx]; subst. inversion Hn as [|? ? Hnot Hn']; subst.
    constructor; [apply IH; assumption|].
    rewrite Forall_forall in *. intros z Hz. specialize (Hx z Hz). unfold le in Hx.
    destruct (lt x z) eqn:E; [reflexivity|]. exfalso. apply Hnot. rewrite (equiv_key x z E Hx). apply in_map. exact Hz.
  Qed.
  (* ---- key sets, record invariants, uniqueness of the result ------------------------------------------------------- *)
  Definition same_keys (l l' : list A) : Prop := forall k, In k (map key l) <-> In k (map key l').

  Lemma same_keys_refl : forall l, same_keys l l.
  Proof. intros l k. tauto. Qed.
  Lemma same_keys_trans : forall a b c, same_keys a b -> same_keys b c -> same_keys a c.
  Proof. intros a b c H1 H2 k. rewrite (H1 k). apply H2. Qed.
  Lemma same_keys_app : forall a a' b b', same_keys a a' -> same_keys b b' -> same_keys (a ++ b) (a' ++ b').
  Proof. intros a a' b b' H1 H2 k. rewrite !map_app, !in_app_iff, (H1 k), (H2 k). tauto. Qed.
  Lemma same_keys_perm : forall l l', Permutation l l' -> same_keys l l'.
  Proof.
    intros l l' H k. split; apply Permutation_in; apply Permutation_map; [exact H|apply Permutation_sym; exact H].
  Qed.

  Lemma comb_keys : forall l x, same_keys (x :: l) (comb combine x l).
  Proof.
    induction l as [|y r IH]; intros x; simpl comb; [apply same_keys_refl|].
    destruct (combine x y) as [c|] eqn:E.
    - destruct (combine_spec _ _ _ E) as [Hy [Hc _]].
      eapply same_keys_trans; [|apply IH]. intro k. simpl. rewrite Hy, Hc. tauto.
    - change (x :: y :: r) with ([x] ++ y :: r). change (x :: comb combine y r) with ([x] ++ comb combine y r).
      apply same_keys_app; [apply same_keys_refl|apply IH].
  Qed.

  Lemma merge_group_keys : forall g, same_keys (concat g) (merge_group lt combine g).
  Proof.
    intros g. unfold merge_group.
    eapply same_keys_trans; [apply same_keys_perm; apply Permutation_sym; apply (kmerge_perm lt g)|].
    destruct (kmerge lt g) as [|x r]; [apply same_keys_refl|apply comb_keys].
  Qed.

  (* a property of single records that the combiner preserves holds for everything a merge group writes *)
  Section RecordInv.
    Variable Q : A -> Prop.
    Hypothesis combine_Q : forall a b c, Q a -> Q b -> combine a b = Some c -> Q c.

    Lemma comb_Forall : forall l x, Forall Q (x :: l) -> Forall Q (comb combine x l).
    Proof.
      induction l as [|y r IH]; intros x H; simpl; [exact H|].
      inversion H as [|? ? Hx Hyr]; subst. inversion Hyr as [|? ? Hy Hr]; subst.
      destruct (combine x y) as [c|] eqn:E.
      - apply IH. constructor; [exact (combine_Q x y c Hx Hy E)|exact Hr].
      - constructor; [exact Hx|apply IH; exact Hyr].
    Qed.

    Lemma merge_group_Forall : forall g, Forall (Forall Q) g -> Forall Q (merge_group lt combine g).
    Proof.
      intros g Hg. unfold merge_group.
      assert (H : Forall Q (kmerge lt g)).
      { rewrite Forall_forall. intros a Ha. apply (Permutation_in _ (kmerge_perm lt g)) in Ha.
        apply in_concat in Ha. destruct Ha as [r [Hr Har]]. rewrite Forall_forall in Hg. specialize (Hg r Hr).
        rewrite Forall_forall in Hg. apply Hg. exact Har. }
      destruct (kmerge lt g) as [|x r]; [constructor|apply comb_Forall; exact H].
    Qed.
  End RecordInv.

  Lemma lt_irrefl : forall a, lt a a = false.
  Proof. intro a. destruct (lt a a) eqn:E; [|reflexivity]. rewrite (lt_asym _ _ E) in E. discriminate. Qed.

  Lemma strict_head_key : forall x r, strict (x :: r) -> forall z, In z r -> key z <> key x.
  Proof.
    intros x r H z Hz Hk. inversion H as [|? ? _ Hx]; subst. rewrite Forall_forall in Hx. specialize (Hx z Hz).
    rewrite (lt_key x x z x eq_refl Hk), lt_irrefl in Hx. discriminate.
  Qed.

  Lemma total_notin : forall k r, (forall z, In z r -> key z <> k) -> total k r = 0.
  Proof.
    induction r as [|z r IH]; intro H; simpl; [reflexivity|].
    destruct (key_eq_dec (key z) k) as [E|E]; [exfalso; apply (H z (or_introl eq_refl) E)|].
    rewrite IH; [reflexivity|]. intros z' Hz'. apply H. right. exact Hz'.
  Qed.

  (* in a strictly increasing list a key occurs once, so the per-key total IS that record's count *)
  Lemma strict_total : forall l a, strict l -> In a l -> total (key a) l = cnt a.
  Proof.
    induction l as [|x r IH]; intros a Hs Ha; [contradiction|].
    assert (Hr : strict r) by (inversion Hs; assumption).
    destruct Ha as [Ha|Ha].
    - subst a. simpl. destruct (key_eq_dec (key x) (key x)) as [_|E]; [|contradiction].
      rewrite total_notin; [lia|]. apply (strict_head_key _ _ Hs).
    - simpl. destruct (key_eq_dec (key x) (key a)) as [E|E].
      + exfalso. apply (strict_head_key _ _ Hs a Ha). symmetry. exact E.
      + rewrite (IH a Hr Ha). lia.
  Qed.

  (* two strictly increasing lists over the same key set list the keys in the same order *)
  Lemma strict_unique_keys : forall l1 l2, strict l1 -> strict l2 -> same_keys l1 l2 -> map key l1 = map key l2.
  Proof.
    induction l1 as [|x r1 IH]; intros l2 H1 H2 Hk.
    - destruct l2 as [|y r2]; [reflexivity|]. exfalso. apply (proj2 (Hk (key y))). simpl. left. reflexivity.
    - destruct l2 as [|y r2]; [exfalso; apply (proj1 (Hk (key x))); simpl; left; reflexivity|].
      assert (Hr1 : strict r1) by (inversion H1; assumption). assert (Hr2 : strict r2) by (inversion H2; assumption).
      assert (Hx1 : Forall (fun z => lt x z = true) r1) by (inversion H1; assumption).
      assert (Hy2 : Forall (fun z => lt y z = true) r2) by (inversion H2; assumption).
      rewrite Forall_forall in Hx1, Hy2.
      assert (Hxy : key x = key y).
      { destruct (key_eq_dec (key x) (key y)) as [E|E]; [exact E|]. exfalso.
        assert (Hyx : lt y x = true).
        { destruct (proj1 (Hk (key x)) (or_introl eq_refl)) as [Hc|Hc]; [congruence|].
          apply in_map_iff in Hc. destruct Hc as [z [Hz1 Hz2]]. rewrite <- (lt_key y y z x eq_refl Hz1). apply Hy2. exact Hz2. }
        assert (Hxy' : lt x y = true).
        { destruct (proj2 (Hk (key y)) (or_introl eq_refl)) as [Hc|Hc]; [congruence|].
          apply in_map_iff in Hc. destruct Hc as [z [Hz1 Hz2]]. rewrite <- (lt_key x x z y eq_refl Hz1). apply Hx1. exact Hz2. }
        rewrite (lt_asym _ _ Hxy') in Hyx. discriminate. }
      simpl. f_equal; [exact Hxy|]. apply IH; try assumption.
      intro k. split; intro Hin.
      + destruct (proj1 (Hk k) (or_intror Hin)) as [Hc|Hc]; [|exact Hc]. exfalso.
        apply in_map_iff in Hin. destruct Hin as [z [Hz1 Hz2]].
        apply (strict_head_key _ _ H1 z Hz2). congruence.
      + destruct (proj2 (Hk k) (or_intror Hin)) as [Hc|Hc]; [|exact Hc]. exfalso.
        apply in_map_iff in Hin. destruct Hin as [z [Hz1 Hz2]].
        apply (strict_head_key _ _ H2 z Hz2). congruence.
  Qed.

  (* ... and if, moreover, the per-key totals agree in Z/W, counts are below W and a record is determined by its key and
     count, the two lists are equal *)
  Lemma strict_unique : forall (Q : A -> Prop),
    (forall a, Q a -> cnt a < W) -> (forall a b, Q a -> Q b -> key a = key b -> cnt a = cnt b -> a = b) ->
    forall l1 l2, strict l1 -> strict l2 -> same_keys l1 l2 -> same_totals l1 l2 -> Forall Q l1 -> Forall Q l2 -> l1 = l2.
  Proof.
    intros Q Qlt Qdet l1 l2 H1 H2 Hk Ht HQ1 HQ2.
    assert (Hkeys := strict_unique_keys l1 l2 H1 H2 Hk).
    assert (Hgen : forall s1 s2, (forall a, In a s1 -> In a l1) -> (forall b, In b s2 -> In b l2) ->
                                 map key s1 = map key s2 -> s1 = s2).
    { induction s1 as [|a s1 IHs]; intros s2 Hs1 Hs2 Hm; destruct s2 as [|b s2]; try discriminate; [reflexivity|].
      simpl in Hm. injection Hm as Hab Hm'.
      assert (Ha : In a l1) by (apply Hs1; left; reflexivity). assert (Hb : In b l2) by (apply Hs2; left; reflexivity).
      rewrite Forall_forall in HQ1, HQ2.
      assert (Hc : cnt a = cnt b).
      { rewrite <- (N.mod_small (cnt a) W) by (apply Qlt; apply HQ1; exact Ha).
        rewrite <- (N.mod_small (cnt b) W) by (apply Qlt; apply HQ2; exact Hb).
        rewrite <- (strict_total l1 a H1 Ha), <- (strict_total l2 b H2 Hb), Hab. apply Ht. }
      f_equal; [apply Qdet; auto|]. apply IHs; [intros; apply Hs1; right; assumption|intros; apply Hs2; right; assumption|exact Hm']. }
    apply Hgen; auto.
  Qed.
End CombineProofs.
