(* C16/CombineProofs.v -- the combiner: per-key totals are preserved by a merged group; if the combiner fires on
   every pair of records the order cannot tell apart, a merged group is strictly increasing. *)
From Coq Require Import List NArith Bool Arith Lia Sorting.Sorted Sorting.Permutation.
From Kenlm Require Import C16.SortModel C16.MergeProofs.
Import ListNotations.
Local Open Scope N_scope.

Section CombineProofs.
  Context {A K : Type}.
  Variable lt : A -> A -> bool.
  Variable combine : A -> A -> option A.
  Variable key : A -> K.
  Variable key_eq_dec : forall a b : K, {a = b} + {a <> b}.
  Variable cnt : A -> N.
  Variable W : N.                     (* counts live in Z/W  (W = 2^64 for uint64_t) *)
  Hypothesis W_pos : W <> 0.

  Hypothesis lt_asym : forall a b, lt a b = true -> lt b a = false.
  Hypothesis le_trans : forall a b c, le lt a b -> le lt b c -> le lt a c.
  (* what a combiner is: it fires only on equal keys, keeps the key, adds the counts *)
  Hypothesis combine_spec : forall a b c, combine a b = Some c ->
    key b = key a /\ key c = key a /\ cnt c mod W = (cnt a + cnt b) mod W.
  (* the order looks at the key only *)
  Hypothesis lt_key : forall a a' b b', key a = key a' -> key b = key b' -> lt a b = lt a' b'.

  Fixpoint total (k : K) (l : list A) : N :=
    match l with
    | [] => 0
    | a :: r => (if key_eq_dec (key a) k then cnt a else 0) + total k r
    end.

  Definition same_totals (l l' : list A) : Prop := forall k, total k l mod W = total k l' mod W.

  Lemma total_app : forall k l l', total k (l ++ l') = total k l + total k l'.
  Proof. induction l as [|a r IH]; intro l'; simpl; [reflexivity|]. rewrite IH. lia. Qed.

  Lemma total_perm : forall k l l', Permutation l l' -> total k l = total k l'.
  Proof. intros k l l' H. induction H; simpl; lia. Qed.

  Lemma same_totals_refl : forall l, same_totals l l.
  Proof. intros l k. reflexivity. Qed.

  Lemma same_totals_trans : forall a b c, same_totals a b -> same_totals b c -> same_totals a c.
  Proof. intros a b c H1 H2 k. rewrite H1. apply H2. Qed.

  Lemma same_totals_app : forall a a' b b', same_totals a a' -> same_totals b b' -> same_totals (a ++ b) (a' ++ b').
  Proof.
    intros a a' b b' H1 H2 k. rewrite !total_app.
    rewrite (N.add_mod (total k a)), (N.add_mod (total k a')) by exact W_pos. rewrite (H1 k), (H2 k). reflexivity.
  Qed.

  Lemma comb_totals : forall l x, same_totals (x :: l) (comb combine x l).
  Proof.
    induction l as [|y r IH]; intros x k; simpl comb; [reflexivity|].
    destruct (combine x y) as [c|] eqn:E.
    - rewrite <- (IH c k). destruct (combine_spec _ _ _ E) as [Hy [Hc Hs]].
      simpl. rewrite Hy, Hc. destruct (key_eq_dec (key x) k).
      + rewrite N.add_assoc. rewrite (N.add_mod (cnt x + cnt y)), (N.add_mod (cnt c)) by exact W_pos. rewrite Hs. reflexivity.
      + reflexivity.
    - change (x :: y :: r) with ([x] ++ y :: r). change (x :: comb combine y r) with ([x] ++ comb combine y r).
      apply same_totals_app; [apply same_totals_refl|apply IH].
  Qed.

  Lemma merge_group_totals : forall g, same_totals (concat g) (merge_group lt combine g).
  Proof.
    intros g k. unfold merge_group. rewrite <- (total_perm k _ _ (kmerge_perm lt g)).
    destruct (kmerge lt g) as [|x r]; [reflexivity|]. apply comb_totals.
  Qed.

  Lemma combine_keeps_order_of_key : combine_keeps_order lt combine.
  Proof.
    intros a b c E. destruct (combine_spec _ _ _ E) as [_ [Hc _]]. unfold le. split; intros z Hz.
    - rewrite (lt_key z z c a eq_refl Hc). exact Hz.
    - rewrite (lt_key c a z z Hc eq_refl). exact Hz.
  Qed.

  (* ---- duplicate-freedom ---------------------------------------------------------------------------------------- *)
  Hypothesis combine_fires : forall a b, key a = key b -> combine a b <> None.
  Hypothesis equiv_key : forall a b, lt a b = false -> lt b a = false -> key a = key b.

  Definition strict (l : list A) : Prop := StronglySorted (fun a b => lt a b = true) l.

  Lemma lt_trans : forall a b c, lt a b = true -> lt b c = true -> lt a c = true.
  Proof.
    intros a b c H1 H2. destruct (lt a c) eqn:E; [reflexivity|].
    (* c <= a (E) and a <= b (asym H1) give c <= b, contradicting b < c *)
    assert (Hcb : le lt c b).
    { apply (le_trans c a b); [exact E|]. unfold le. apply lt_asym. exact H1. }
    unfold le in Hcb. congruence.
  Qed.

  Lemma strict_sorted : forall l, strict l -> sorted lt l.
  Proof.
    induction l as [|x r IH]; intro H; [constructor|]. inversion H; subst.
    constructor; [apply IH; assumption|]. eapply Forall_impl; [|eassumption]. intros z Hz. apply lt_asym. exact Hz.
  Qed.

  Lemma comb_strict : forall l x, sorted lt (x :: l) ->
    strict (comb combine x l) /\ (forall z, lt z x = true -> Forall (fun y => lt z y = true) (comb combine x l)).
  Proof.
    induction l as [|y r IH]; intros x Hs; simpl.
    - split; [repeat constructor|]. intros z Hz. repeat constructor. exact Hz.
    - inversion Hs as [|? ? Hyr Hx]; subst. inversion Hx as [|? ? Hxy Hxr]; subst.
      destruct (combine x y) as [c|] eqn:E.
      + destruct (combine_spec _ _ _ E) as [_ [Hc _]].
        assert (Hs' : sorted lt (c :: r)).
        { inversion Hyr; subst. constructor; [assumption|]. eapply Forall_impl; [|exact Hxr].
          intros z Hz. unfold le in *. rewrite (lt_key z z c x eq_refl Hc). exact Hz. }
        destruct (IH c Hs') as [H1 H2]. split; [exact H1|]. intros z Hz. apply H2.
        rewrite (lt_key z z c x eq_refl Hc). exact Hz.
      + assert (Hlt : lt x y = true).
        { destruct (lt x y) eqn:E2; [reflexivity|]. exfalso. apply (combine_fires x y); [|exact E].
          apply equiv_key; assumption. }
        destruct (IH y Hyr) as [H1 H2]. split.
        * constructor; [exact H1|]. apply H2. exact Hlt.
        * intros z Hz. constructor; [exact Hz|]. apply H2. eapply lt_trans; eassumption.
  Qed.

  Lemma merge_group_strict : forall g, Forall (sorted lt) g -> strict (merge_group lt combine g).
  Proof.
    intros g Hg. unfold merge_group. assert (H := kmerge_sorted lt lt_asym le_trans _ Hg).
    destruct (kmerge lt g) as [|x r]; [constructor|]. apply comb_strict. exact H.
  Qed.

  (* a sorted block without two records of the same key is strictly increasing *)
  Lemma sorted_nodup_strict : forall l, sorted lt l -> NoDup (map key l) -> strict l.
  Proof.
    induction l as [|x r IH]; intros Hs Hn; [constructor|].
    inversion Hs as [|? ? Hr Hx]; subst. inversion Hn as [|? ? Hnot Hn']; subst.
    constructor; [apply IH; assumption|].
    rewrite Forall_forall in *. intros z Hz. specialize (Hx z Hz). unfold le in Hx.
    destruct (lt x z) eqn:E; [reflexivity|]. exfalso. apply Hnot. rewrite (equiv_key x z E Hx). apply in_map. exact Hz.
  Qed.
End CombineProofs.
