(* C16/ReadBackProofs.v -- ErsatzPRead delivers bytes [off, off+size) of the file for EVERY sequence of short returns. *)
From Coq Require Import List Arith Lia.
From Kenlm Require Import C16.ReadBackModel.
Import ListNotations.

Section PReadProofs.
  Context {A : Type}.

  Lemma firstn_split0 : forall (f : list A) a b, firstn a f ++ firstn b (skipn a f) = firstn (a + b) f.
  Proof.
    induction f as [|x l IH]; intros a b.
    - rewrite skipn_nil, !firstn_nil. reflexivity.
    - destruct a as [|a]; simpl; [reflexivity|]. f_equal. apply IH.
  Qed.

  Lemma firstn_skipn_split : forall (f : list A) off a b,
    firstn a (skipn off f) ++ firstn b (skipn (off + a) f) = firstn (a + b) (skipn off f).
  Proof.
    induction f as [|x l IH]; intros off a b.
    - rewrite !skipn_nil, !firstn_nil. reflexivity.
    - destruct off as [|off]; [apply firstn_split0|]. simpl. apply IH.
  Qed.

  Lemma pread_short_eq : forall k o (file : list A) s off calls,
    ersatz_pread (Short k :: o) file (S s) off calls =
    match Nat.min k (Nat.min (S s) (length file - off)) with
    | O => PREof (S calls)
    | S r => match ersatz_pread o file (S s - S r) (off + S r) (S calls) with
             | PROk g c => PROk (firstn (S r) (skipn off file) ++ g) c
             | x => x
             end
    end.
  Proof. reflexivity. Qed.

  (* whatever lengths pread chooses to return: if ErsatzPRead returns, the buffer holds exactly the requested range *)
  Theorem ersatz_pread_any_split : forall o (file : list A) size off calls g c,
    ersatz_pread o file size off calls = PROk g c -> g = firstn size (skipn off file) /\ length g = size.
  Proof.
    induction o as [|x o IH]; intros file size off calls g c H; destruct size as [|s].
    - inversion H; subst; split; reflexivity.
    - discriminate.
    - inversion H; subst; split; reflexivity.
    - destruct x as [k|]; [|eapply IH; exact H]. rewrite pread_short_eq in H.
      assert (Hr1 : (Nat.min k (Nat.min (S s) (length file - off)) <= S s)%nat) by lia.
      assert (Hr2 : (Nat.min k (Nat.min (S s) (length file - off)) <= length file - off)%nat) by lia.
      destruct (Nat.min k (Nat.min (S s) (length file - off))) as [|r]; [discriminate|].
      destruct (ersatz_pread o file (S s - S r) (off + S r) (S calls)) as [g' c'| |] eqn:E; try discriminate.
      inversion H; subst g c; clear H. destruct (IH _ _ _ _ _ _ E) as [Hg Hl]. split.
      + rewrite Hg. change (match skipn off file with [] => [] | a :: l => a :: firstn r l end) with (firstn (S r) (skipn off file)).
        rewrite firstn_skipn_split. f_equal. lia.
      + change (match skipn off file with [] => [] | a :: l => a :: firstn r l end) with (firstn (S r) (skipn off file)).
        rewrite app_length, Hl, firstn_length, skipn_length. lia.
  Qed.

  Fixpoint count_short (o : list pread_outcome) : nat :=
    match o with [] => O | Short _ :: r => S (count_short r) | Eintr :: r => count_short r end.

  (* ... and it does return when the range lies inside the file and pread keeps making progress *)
  Theorem ersatz_pread_returns : forall o (file : list A) size off calls, (off + size <= length file)%nat ->
    (forall k, In (Short k) o -> (1 <= k)%nat) -> (size <= count_short o)%nat ->
    exists g c, ersatz_pread o file size off calls = PROk g c.
  Proof.
    induction o as [|x o IH]; intros file size off calls Hin Hpos Hcnt; destruct size as [|s];
      try (do 2 eexists; reflexivity); [simpl in Hcnt; lia|].
    destruct x as [k|].
    - assert (Hk := Hpos k (or_introl eq_refl)). rewrite pread_short_eq.
      assert (Hr : (1 <= Nat.min k (Nat.min (S s) (length file - off)) <= S s)%nat) by lia.
      assert (Hr2 : (Nat.min k (Nat.min (S s) (length file - off)) <= length file - off)%nat) by lia.
      destruct (Nat.min k (Nat.min (S s) (length file - off))) as [|r]; [lia|].
      destruct (IH file (S s - S r) (off + S r) (S calls)) as [g [c E]];
        [lia|intros k' Hk'; apply Hpos; right; exact Hk'|simpl in Hcnt; lia|].
      rewrite E. do 2 eexists; reflexivity.
    - apply IH; [exact Hin|intros k' Hk'; apply Hpos; right; exact Hk'|simpl in Hcnt; exact Hcnt].
  Qed.
End PReadProofs.

Example pread_example : ersatz_pread [Short 1; Eintr; Short 2; Short 100] [10; 11; 12; 13; 14; 15; 16] 5 1 0 = PROk [11; 12; 13; 14; 15] 4.
Proof. reflexivity. Qed.
