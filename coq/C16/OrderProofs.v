(* C16/OrderProofs.v -- SuffixOrder / ContextOrder / PrefixOrder (lm/common/compare.hh) are strict weak orders whose
   equivalence is equality of the n words; CombineCounts (lm/builder/combine_counts.hh) is a combiner for them. *)
From Coq Require Import List NArith Bool Arith Lia.
From Kenlm Require Import C16.SortModel C16.MergeProofs.
Import ListNotations.
Local Open Scope N_scope.

Lemma lex_lt_asym : forall idx a b, lex_lt idx a b = true -> lex_lt idx b a = false.
Proof.
  induction idx as [|i r IH]; intros a b H; simpl in *; [reflexivity|].
  destruct (nth i a 0 =? nth i b 0) eqn:E.
  - apply N.eqb_eq in E. rewrite E, N.eqb_refl. apply IH. exact H.
  - apply N.eqb_neq in E. apply N.ltb_lt in H.
    destruct (nth i b 0 =? nth i a 0) eqn:E2; [apply N.eqb_eq in E2; lia|]. apply N.ltb_ge. lia.
Qed.

Lemma lex_le_trans : forall idx a b c, le (lex_lt idx) a b -> le (lex_lt idx) b c -> le (lex_lt idx) a c.
Proof.
  unfold le. induction idx as [|i r IH]; intros a b c H1 H2; simpl in *; [reflexivity|].
  destruct (N.eqb_spec (nth i b 0) (nth i a 0)) as [Eba|Eba]; destruct (N.eqb_spec (nth i c 0) (nth i b 0)) as [Ecb|Ecb].
  - rewrite Ecb, Eba, N.eqb_refl. eapply IH; eassumption.
  - rewrite <- Eba. destruct (N.eqb_spec (nth i c 0) (nth i b 0)) as [E|E]; [contradiction|exact H2].
  - rewrite Ecb. destruct (N.eqb_spec (nth i b 0) (nth i a 0)) as [E|E]; [contradiction|exact H1].
  - apply N.ltb_ge in H1. apply N.ltb_ge in H2.
    destruct (N.eqb_spec (nth i c 0) (nth i a 0)) as [E|E]; [lia|]. apply N.ltb_ge. lia.
Qed.

(* the order looks only at the words whose index occurs in idx *)
Lemma lex_lt_ext : forall idx a a' b b', (forall i, In i idx -> nth i a 0 = nth i a' 0) ->
  (forall i, In i idx -> nth i b 0 = nth i b' 0) -> lex_lt idx a b = lex_lt idx a' b'.
Proof.
  induction idx as [|i r IH]; intros a a' b b' Ha Hb; simpl; [reflexivity|].
  rewrite (Ha i (or_introl eq_refl)), (Hb i (or_introl eq_refl)).
  rewrite (IH a a' b b'); [reflexivity| |]; intros j Hj; [apply Ha|apply Hb]; right; exact Hj.
Qed.

Lemma lex_equiv : forall idx a b, lex_lt idx a b = false -> lex_lt idx b a = false ->
  forall i, In i idx -> nth i a 0 = nth i b 0.
Proof.
  induction idx as [|j r IH]; intros a b H1 H2 i Hi; simpl in *; [contradiction|].
  destruct (nth j a 0 =? nth j b 0) eqn:E.
  - apply N.eqb_eq in E. rewrite E, N.eqb_refl in H2. destruct Hi as [Hi|Hi]; [subst; exact E|]. eapply IH; eassumption.
  - apply N.eqb_neq in E. destruct (nth j b 0 =? nth j a 0) eqn:E2; [apply N.eqb_eq in E2; congruence|].
    apply N.ltb_ge in H1. apply N.ltb_ge in H2. lia.
Qed.

(* ---- n-gram records: key = the n words -------------------------------------------------------------------------------- *)
Definition key_n (n : nat) (a : rec) : list N := map (fun i => nth i (fst a) 0) (seq 0 n).

Lemma key_n_nth : forall n a b, key_n n a = key_n n b <-> (forall i, (i < n)%nat -> nth i (fst a) 0 = nth i (fst b) 0).
Proof.
  intros n a b. unfold key_n. split.
  - intros H i Hi. assert (Hin : In i (seq 0 n)) by (apply in_seq; lia).
    revert H Hin. generalize (seq 0 n). induction l as [|j l IH]; simpl; intros H Hin; [contradiction|].
    inversion H. destruct Hin as [Hin|Hin]; [subst; assumption|apply IH; assumption].
  - intro H. apply map_ext_in. intros i Hi. apply in_seq in Hi. apply H. lia.
Qed.

Lemma words_eqb_key : forall n a b, words_eqb n (fst a) (fst b) = true <-> key_n n a = key_n n b.
Proof.
  intros n a b. unfold words_eqb. rewrite forallb_forall, key_n_nth. split; intros H i Hi.
  - apply N.eqb_eq. apply H. apply in_seq. lia.
  - apply N.eqb_eq. apply H. apply in_seq in Hi. lia.
Qed.

Definition covers (n : nat) (idx : list nat) : Prop := forall i, In i idx <-> (i < n)%nat.

Lemma suffix_covers : forall n, covers n (suffix_idx n).
Proof. intros n i. unfold suffix_idx. rewrite <- in_rev, in_seq. lia. Qed.
Lemma prefix_covers : forall n, covers n (prefix_idx n).
Proof. intros n i. unfold prefix_idx. rewrite in_seq. lia. Qed.
Lemma context_covers : forall n, (1 <= n)%nat -> covers n (context_idx n).
Proof. intros n Hn i. unfold context_idx. rewrite in_app_iff, <- in_rev, in_seq. simpl. lia. Qed.

Section NGramCombiner.
  Variable n : nat.
  Variable idx : list nat.
  Hypothesis Hcov : covers n idx.
  Definition W64 : N := 2 ^ 64.

  Lemma ng_lt_asym : forall a b : rec, rec_lt (lex_lt idx) a b = true -> rec_lt (lex_lt idx) b a = false.
  Proof. intros a b. apply lex_lt_asym. Qed.

  Lemma ng_le_trans : forall a b c : rec, le (rec_lt (lex_lt idx)) a b -> le (rec_lt (lex_lt idx)) b c -> le (rec_lt (lex_lt idx)) a c.
  Proof. intros a b c. unfold le, rec_lt. apply (lex_le_trans idx (fst a) (fst b) (fst c)). Qed.

  Lemma ng_combine_spec : forall a b c, combine_counts n a b = Some c ->
    key_n n b = key_n n a /\ key_n n c = key_n n a /\ snd c mod W64 = (snd a + snd b) mod W64.
  Proof.
    intros a b c H. unfold combine_counts in H. destruct (words_eqb n (fst a) (fst b)) eqn:E; [|discriminate].
    inversion H; subst; clear H. apply words_eqb_key in E. split; [symmetry; exact E|]. split; [reflexivity|].
    simpl. unfold W64. apply N.mod_mod. discriminate.
  Qed.

  Lemma ng_lt_key : forall a a' b b' : rec, key_n n a = key_n n a' -> key_n n b = key_n n b' ->
    rec_lt (lex_lt idx) a b = rec_lt (lex_lt idx) a' b'.
  Proof.
    intros a a' b b' Ha Hb. unfold rec_lt. apply lex_lt_ext; intros i Hi; apply Hcov in Hi.
    - rewrite key_n_nth in Ha. apply Ha. exact Hi.
    - rewrite key_n_nth in Hb. apply Hb. exact Hi.
  Qed.

  Lemma ng_combine_fires : forall a b, key_n n a = key_n n b -> combine_counts n a b <> None.
  Proof. intros a b H. unfold combine_counts. apply words_eqb_key in H. rewrite H. discriminate. Qed.

  Lemma ng_equiv_key : forall a b : rec, rec_lt (lex_lt idx) a b = false -> rec_lt (lex_lt idx) b a = false -> key_n n a = key_n n b.
  Proof.
    intros a b H1 H2. apply key_n_nth. intros i Hi. apply (lex_equiv idx (fst a) (fst b) H1 H2). apply Hcov. exact Hi.
  Qed.
End NGramCombiner.
