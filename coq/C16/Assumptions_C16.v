Require Import Kenlm.C16.Properties_C16.
Redirect "C16/assum_C16_sorted_permutation" Print Assumptions C16_sorted_permutation.
Redirect "C16/assum_C16_sort_run_sorted_permutation" Print Assumptions C16_sort_run_sorted_permutation.
Redirect "C16/assum_C16_combiner_totals" Print Assumptions C16_combiner_totals.
Redirect "C16/assum_C16_combiner_dupfree" Print Assumptions C16_combiner_dupfree.
Redirect "C16/assum_C16_merge_progress" Print Assumptions C16_merge_progress.
Redirect "C16/assum_C16_two_stripes" Print Assumptions C16_two_stripes.
Redirect "C16/assum_C16_offsets_log_faithful" Print Assumptions C16_offsets_log_faithful.
Redirect "C16/assum_C16_empty" Print Assumptions C16_empty.
Redirect "C16/assum_C16_single_block" Print Assumptions C16_single_block.
Redirect "C16/assum_C16_blocks_of_concat" Print Assumptions C16_blocks_of_concat.
Redirect "C16/assum_C16_ngram_orders_strict_weak" Print Assumptions C16_ngram_orders_strict_weak.
Redirect "C16/assum_C16_combine_counts_suffix" Print Assumptions C16_combine_counts_suffix.
Redirect "C16/assum_C16_combiner_canonical" Print Assumptions C16_combiner_canonical.
