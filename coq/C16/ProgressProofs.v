(* C16/ProgressProofs.v -- under the constructor's checks the grouping arithmetic of util/stream/sort.hh always makes
   progress: every merge group that leaves runs behind holds at least two runs (the "not merging at least two stripes"
   abort is unreachable), the lazy reader sees exactly one group (its abort is unreachable), and Merge terminates
   within (number of runs) passes. *)
From Coq Require Import List NArith Bool Arith Lia.
From Kenlm Require Import C16.SortModel C16.SortProofs.
Import ListNotations.
Local Open Scope N_scope.

Section Progress.
  Context {A : Type}.
  Variable lt : A -> A -> bool.
  Variable combine : A -> A -> option A.
  Variable es : N.

  Notation pass_loop := (pass_loop lt combine es).
  Notation merging_reader := (merging_reader lt combine es).
  Notation merge_loop := (merge_loop lt combine es).
  Notation sort_merge := (sort_merge lt combine es).
  Notation sort_output_runs := (sort_output_runs lt combine es).
  Notation admission := (admission es).
  Notation run_bytes := (run_bytes es).
  Notation size_bytes := (size_bytes es).

  (* bytes of buffer space the admission loop hands out if it admits every run *)
  Fixpoint sum_min (per : N) (runs : list (list A)) : N :=
    match runs with [] => 0 | r :: rs => N.min per (run_bytes r) + sum_min per rs end.

  Lemma sum_min_le_size : forall per (runs : list (list A)), sum_min per runs <= size_bytes runs.
  Proof. induction runs as [|r rs IH]; simpl; lia. Qed.

  Lemma sum_min_le_count : forall per (runs : list (list A)), sum_min per runs <= nruns runs * per.
  Proof. unfold nruns. induction runs as [|r rs IH]; simpl length; simpl sum_min; [lia|]. rewrite Nat2N.inj_succ. lia. Qed.

  Lemma admission_all : forall per (runs : list (list A)) avail, sum_min per runs <= avail -> admission per avail runs = (runs, []).
  Proof.
    induction runs as [|r rs IH]; simpl; intros avail H; [reflexivity|].
    destruct (N.min per (run_bytes r) <=? avail) eqn:E; [|apply N.leb_gt in E; lia].
    rewrite IH; [reflexivity|]. rewrite (N.min_comm (run_bytes r) per). lia.
  Qed.

  Lemma admission_two : forall per (r1 r2 : list A) rs avail, 2 * per <= avail ->
    exists g rest, admission per avail (r1 :: r2 :: rs) = (r1 :: r2 :: g, rest).
  Proof.
    intros per r1 r2 rs avail H. simpl.
    destruct (N.min per (run_bytes r1) <=? avail) eqn:E1; [|apply N.leb_gt in E1; lia].
    destruct (N.min per (run_bytes r2) <=? avail - N.min (run_bytes r1) per) eqn:E2; [|apply N.leb_gt in E2; lia].
    destruct (admission per (avail - N.min (run_bytes r1) per - N.min (run_bytes r2) per) rs) as [g rest].
    exists g, rest. reflexivity.
  Qed.

  Lemma size_app : forall g rest : list (list A), size_bytes (g ++ rest) = size_bytes g + size_bytes rest.
  Proof. induction g as [|r g IH]; intro rest; simpl; [reflexivity|]. rewrite IH. apply N.add_assoc. Qed.

  (* what Sort::Merge and the lazy reader guarantee about the memory they hand to MergingReader *)
  Definition enough (b t : N) (runs : list (list A)) : Prop := 2 * b <= t \/ size_bytes runs <= t.

  Lemma per_buffer_le : forall b t (runs : list (list A)), per_buffer_of es b t runs <= N.max b (t / nruns runs).
  Proof. intros. unfold per_buffer_of. apply N.le_sub_l. Qed.

  Lemma div_mul_le : forall t r, r <> 0 -> r * (t / r) <= t.
  Proof. intros t r H. apply N.mul_div_le. exact H. Qed.

  (* the heart of the matter: one admission loop either takes everything or at least two runs *)
  Lemma admission_progress : forall b t r rs g rest, enough b t (r :: rs) ->
    admission (per_buffer_of es b t (r :: rs)) t (r :: rs) = (g, rest) ->
    (g = r :: rs /\ rest = []) \/ (2 <= length g)%nat.
  Proof.
    intros b t r rs g rest Hen Hadm.
    set (runs := r :: rs) in *. set (per := per_buffer_of es b t runs) in *.
    assert (Hper : per <= N.max b (t / nruns runs)) by apply per_buffer_le.
    assert (HR : nruns runs <> 0) by (unfold nruns, runs; simpl length; lia).
    destruct (N.le_gt_cases (t / nruns runs) b) as [Hc|Hc].
    - (* per_buffer = buffer_size *)
      assert (Hpb : per <= b) by lia.
      destruct Hen as [H2|Hs].
      + destruct rs as [|r2 rs'].
        * left. rewrite admission_all in Hadm; [inversion Hadm; split; reflexivity|]. unfold runs. simpl. lia.
        * right. destruct (admission_two per r r2 rs' t) as [g' [rest' E]]; [lia|].
          unfold runs in Hadm. rewrite E in Hadm. inversion Hadm; subst. simpl. lia.
      + left. rewrite admission_all in Hadm; [inversion Hadm; split; reflexivity|].
        pose proof (sum_min_le_size per runs). lia.
    - (* per_buffer = total_memory / remaining: every remaining run fits *)
      left. rewrite admission_all in Hadm; [inversion Hadm; split; reflexivity|].
      pose proof (sum_min_le_count per runs). pose proof (div_mul_le t _ HR).
      assert (nruns runs * per <= nruns runs * (t / nruns runs)) by (apply N.mul_le_mono_l; lia). lia.
  Qed.

  Lemma enough_rest : forall b t (g rest : list (list A)), enough b t (g ++ rest) -> enough b t rest.
  Proof. intros b t g rest [H|H]; [left; exact H|right]. rewrite size_app in H. lia. Qed.

  Lemma pass_loop_progress : forall fuel b t runs acc, (length runs <= fuel)%nat -> enough b t runs ->
    exists out, pass_loop fuel b t false runs acc = PassOk out.
  Proof.
    induction fuel as [|f IH]; intros b t runs acc Hf Hen; destruct runs as [|r rs].
    - eexists. apply pass_loop_nil.
    - simpl in Hf. lia.
    - eexists. apply pass_loop_nil.
    - rewrite pass_loop_eq.
      destruct (SortModel.admission es (per_buffer_of es b t (r :: rs)) t (r :: rs)) as [g rest] eqn:E.
      assert (Hsplit := admission_split _ _ _ _ _ _ E).
      destruct (admission_progress _ _ _ _ _ _ Hen E) as [[Hg Hr]|Hg].
      + subst rest. simpl. rewrite andb_false_r. simpl. rewrite pass_loop_nil. eexists; reflexivity.
      + assert (E2 : (length g <? 2)%nat = false) by (apply Nat.ltb_ge; exact Hg).
        rewrite E2. simpl. apply IH.
        * rewrite Hsplit in Hf. rewrite app_length in Hf. simpl in Hf. lia.
        * rewrite Hsplit in Hen. eapply enough_rest; exact Hen.
  Qed.

  (* groups other than the last hold >= 2 runs, so a pass over n >= 2 runs leaves fewer than n *)
  Lemma pass_loop_count : forall fuel b t ao runs acc out, pass_loop fuel b t ao runs acc = PassOk out ->
    (2 * length out <= 2 * length acc + length runs + 1)%nat.
  Proof.
    induction fuel as [|f IH]; intros b t ao runs acc out H; destruct runs as [|r rs].
    - rewrite pass_loop_nil in H. inversion H; subst. rewrite rev_length. lia.
    - discriminate.
    - rewrite pass_loop_nil in H. inversion H; subst. rewrite rev_length. lia.
    - rewrite pass_loop_eq in H.
      destruct (SortModel.admission es (per_buffer_of es b t (r :: rs)) t (r :: rs)) as [g rest] eqn:E.
      assert (Hsplit := admission_split _ _ _ _ _ _ E).
      destruct ((length g <? 2)%nat && negb (is_nil rest)) eqn:E1; [discriminate|].
      destruct (ao && negb (is_nil rest)); [discriminate|].
      apply IH in H. simpl length in H. rewrite Hsplit, app_length.
      destruct rest as [|x rest'].
      + simpl in *. assert (length g = S (length rs)) by (rewrite <- (app_nil_r g), <- Hsplit; reflexivity). lia.
      + simpl in E1. rewrite andb_true_r in E1. apply Nat.ltb_ge in E1. simpl length in *. lia.
  Qed.

  Lemma merging_reader_progress : forall b t runs, enough b t runs ->
    exists out, merging_reader b t false runs = PassOk out /\ ((2 <= length runs)%nat -> (length out < length runs)%nat).
  Proof.
    intros b t runs Hen. unfold SortModel.merging_reader. destruct runs as [|r [|r2 rs]].
    - eexists; split; [reflexivity|simpl; lia].
    - eexists; split; [reflexivity|simpl; lia].
    - destruct (pass_loop_progress (length (r :: r2 :: rs)) b t (r :: r2 :: rs) [] (Nat.le_refl _) Hen) as [out H].
      exists out. split; [exact H|]. intros _. apply pass_loop_count in H. simpl in *. lia.
  Qed.

  Definition exit_cond (lm la : N) (runs : list (list A)) : Prop := nruns runs <= la \/ size_bytes runs <= lm.

  Lemma merge_loop_eq : forall f b total lm la runs tr,
    merge_loop (S f) b total lm la runs tr =
    if nruns runs <=? la then MergeOk runs (rev tr)
    else if size_bytes runs <=? lm then MergeOk runs (rev tr)
    else let size := size_bytes runs in
         let rm := total - 2 * b in
         let reading_memory := if size <? rm then size else rm in
         match merging_reader b reading_memory false runs with
         | PassOk out => merge_loop f b total lm la (map snd out) (trace_of out :: tr)
         | PassAbortTwo => MergeAbortTwo
         | PassAbortLazy => MergeAbortTwo
         | PassFuel => MergeFuel
         end.
  Proof. reflexivity. Qed.

  Lemma merge_loop_progress : forall fuel b total lm la runs tr, b <> 0 -> 4 * b <= total -> 1 <= la ->
    (length runs <= fuel)%nat ->
    exists runs' tr', merge_loop fuel b total lm la runs tr = MergeOk runs' tr' /\ exit_cond lm la runs'.
  Proof.
    induction fuel as [|f IH]; intros b total lm la runs tr Hb Ht Hla Hf.
    - simpl. destruct (nruns runs <=? la) eqn:E1; [apply N.leb_le in E1; do 2 eexists; split; [reflexivity|left; exact E1]|].
      apply N.leb_gt in E1. unfold nruns in E1. lia.
    - rewrite merge_loop_eq.
      destruct (nruns runs <=? la) eqn:E1; [apply N.leb_le in E1; do 2 eexists; split; [reflexivity|left; exact E1]|].
      destruct (size_bytes runs <=? lm) eqn:E2; [apply N.leb_le in E2; do 2 eexists; split; [reflexivity|right; exact E2]|].
      apply N.leb_gt in E1. unfold nruns in E1. cbv zeta.
      set (rm := if size_bytes runs <? total - 2 * b then size_bytes runs else total - 2 * b).
      assert (Hen : enough b rm runs).
      { unfold rm. destruct (size_bytes runs <? total - 2 * b) eqn:E3; [right; lia|left; lia]. }
      destruct (merging_reader_progress b rm runs Hen) as [out [Ho Hlen]].
      rewrite Ho. apply IH; try assumption. rewrite map_length. lia.
  Qed.

  Lemma sort_merge_progress : forall b total lm runs, b <> 0 -> 4 * b <= total ->
    exists runs' tr r, sort_merge b total lm runs = (MergeOk runs' tr, r) /\
      ((length runs' <= 1)%nat \/ exit_cond lm (N.max 1 (lm / b)) runs') /\ r = merge_return es b runs'.
  Proof.
    intros b total lm runs Hb Ht. unfold SortModel.sort_merge.
    destruct (nruns runs <=? 1) eqn:E1.
    - apply N.leb_le in E1. unfold nruns in E1. exists runs, [], 0. split; [reflexivity|]. split; [left; lia|].
      unfold merge_return. assert (nruns runs <=? 1 = true) as -> by (apply N.leb_le; unfold nruns; lia). reflexivity.
    - destruct (merge_loop_progress (length runs) b total lm (N.max 1 (lm / b)) runs [] Hb Ht) as [runs' [tr' [H1 H2]]];
        [lia|apply Nat.le_refl|].
      rewrite H1. do 3 eexists. split; [reflexivity|]. split; [right; exact H2|reflexivity].
  Qed.

  (* the lazy reader: Merge left so few / so little that one admission loop takes every run *)
  Lemma lazy_reader_progress : forall b lm runs, b <> 0 ->
    (length runs <= 1)%nat \/ exit_cond lm (N.max 1 (lm / b)) runs ->
    exists out, merging_reader b lm true runs = PassOk out.
  Proof.
    intros b lm runs Hb Hex. unfold SortModel.merging_reader. destruct runs as [|r [|r2 rs]]; try (eexists; reflexivity).
    destruct Hex as [Hex|Hex]; [simpl in Hex; lia|].
    set (runs := r :: r2 :: rs) in *. simpl length. unfold runs at 1. rewrite pass_loop_eq. fold runs.
    set (per := per_buffer_of es b lm runs).
    assert (HR : nruns runs <> 0) by (unfold nruns, runs; simpl length; lia).
    assert (HR2 : 2 <= nruns runs) by (unfold nruns, runs; simpl length; lia).
    assert (Hall : sum_min per runs <= lm).
    { destruct Hex as [Hc|Hs].
      - assert (Hq : nruns runs <= lm / b) by lia.
        assert (Hrb : nruns runs * b <= lm).
        { pose proof (div_mul_le lm b Hb). assert (nruns runs * b <= (lm / b) * b) by (apply N.mul_le_mono_r; exact Hq). lia. }
        pose proof (sum_min_le_count per runs). pose proof (per_buffer_le b lm runs). fold per in H0.
        pose proof (div_mul_le lm _ HR).
        assert (nruns runs * per <= nruns runs * N.max b (lm / nruns runs)) by (apply N.mul_le_mono_l; exact H0).
        destruct (N.max_spec b (lm / nruns runs)) as [[_ Hm]|[_ Hm]]; rewrite Hm in H2; lia.
      - pose proof (sum_min_le_size per runs). lia. }
    rewrite (admission_all per runs lm Hall). cbn [is_nil negb]. rewrite !andb_false_r. rewrite pass_loop_nil. eexists; reflexivity.
  Qed.

  Theorem sort_output_runs_progress : forall b total lm runs, b <> 0 -> 4 * b <= total ->
    exists out tr, sort_output_runs b total lm runs = SortOk out tr.
  Proof.
    intros b total lm runs Hb Ht. unfold SortModel.sort_output_runs.
    destruct (sort_merge_progress b total lm runs Hb Ht) as [runs' [tr [r [H1 [H2 _]]]]]. rewrite H1. simpl.
    destruct (lazy_reader_progress b lm runs' Hb H2) as [out Ho]. rewrite Ho. do 2 eexists; reflexivity.
  Qed.

  (* r = Merge(lazy0) is enough memory for Output(chain, r)  (lm/builder/pipeline.cc InitForAdjust, MaximumLazyInput) *)
  Theorem sort_merge_then_output_runs_progress : forall b total lm runs, b <> 0 -> 4 * b <= total ->
    exists out tr r, sort_merge_then_output_runs lt combine es b total lm runs = (SortOk out tr, r).
  Proof.
    intros b total lm runs Hb Ht. unfold SortModel.sort_merge_then_output_runs.
    destruct (sort_merge_progress b total lm runs Hb Ht) as [runs' [tr [r [H1 _]]]]. rewrite H1.
    destruct (sort_output_runs_progress b total r runs' Hb Ht) as [out [tr2 H2]]. rewrite H2. do 3 eexists; reflexivity.
  Qed.

  Theorem sort_steal_runs_progress : forall b total runs, b <> 0 -> 4 * b <= total ->
    exists out tr, sort_steal_runs lt combine es b total runs = SortOk out tr.
  Proof.
    intros b total runs Hb Ht. unfold SortModel.sort_steal_runs.
    destruct (sort_merge_progress b total 0 runs Hb Ht) as [runs' [tr [r [H1 _]]]]. rewrite H1. simpl. do 2 eexists; reflexivity.
  Qed.

  Lemma sort_ctor_ok : forall c b, sort_ctor es c = CtorOk b -> es <> 0 /\ b <> 0 /\ 4 * b <= cfg_total c /\ b mod es = 0.
  Proof.
    intros c b H. unfold sort_ctor in H.
    destruct (es =? 0) eqn:E0; [discriminate|]. apply N.eqb_neq in E0.
    destruct (cfg_buffer c - cfg_buffer c mod es =? 0) eqn:E1; [discriminate|]. apply N.eqb_neq in E1.
    destruct (cfg_total c <? (cfg_buffer c - cfg_buffer c mod es) * 4) eqn:E2; [discriminate|]. apply N.ltb_ge in E2.
    inversion H; subst. repeat split; try assumption; try lia.
    pose proof (N.div_mod (cfg_buffer c) es E0).
    replace (cfg_buffer c - cfg_buffer c mod es) with (es * (cfg_buffer c / es)) by lia.
    rewrite N.mul_comm. apply N.mod_mul. exact E0.
  Qed.

  (* with a legal configuration per_buffer is never 0 (the code's assert(per_buffer)) *)
  Lemma per_buffer_pos : forall b t (runs : list (list A)), es <> 0 -> b <> 0 -> b mod es = 0 -> es <= per_buffer_of es b t runs.
  Proof.
    intros b t runs Hes Hb Hm. unfold per_buffer_of.
    set (p := N.max b (t / nruns runs)).
    assert (Hbe : es <= b).
    { pose proof (N.div_mod b es Hes). rewrite Hm in H. destruct (b / es) eqn:E; [lia|]. nia. }
    assert (Hp : es <= p) by (unfold p; lia).
    pose proof (N.div_mod p es Hes). pose proof (N.mod_lt p es Hes).
    replace (p - p mod es) with (es * (p / es)) by lia.
    destruct (p / es) eqn:E; [|nia]. lia.
  Qed.
End Progress.
