(* C16/MergeProofs.v -- the k-way merge of sorted runs is sorted and a permutation of their concatenation;
   the block sorter is a sorting function; the combiner loop. *)
From Coq Require Import List NArith Bool Arith Lia Sorting.Sorted Sorting.Permutation.
From Kenlm Require Import C16.SortModel.
Import ListNotations.

Section MergeProofs.
  Context {A : Type}.
  Variable lt : A -> A -> bool.
  Variable combine : A -> A -> option A.

  Definition le (a b : A) : Prop := lt b a = false.
  Definition sorted (l : list A) : Prop := StronglySorted le l.

  (* the strict weak order laws of a C++ Compare, in the form the proofs use *)
  Hypothesis lt_asym : forall a b, lt a b = true -> lt b a = false.
  Hypothesis le_trans : forall a b c, le a b -> le b c -> le a c.

  Lemma le_refl : forall a, le a a.
  Proof. intro a. unfold le. destruct (lt a a) eqn:E; [|reflexivity]. rewrite (lt_asym _ _ E) in E. discriminate. Qed.

  Lemma le_total : forall a b, le a b \/ le b a.
  Proof. intros a b. unfold le. destruct (lt b a) eqn:E; [right; apply lt_asym; exact E | left; reflexivity]. Qed.

  Lemma sorted_inv : forall x l, sorted (x :: l) -> sorted l /\ Forall (le x) l.
  Proof. intros x l H. inversion H; subst. split; assumption. Qed.

  (* ---- pick ---------------------------------------------------------------------------------------------------- *)
  Lemma pick_None : forall runs, pick lt runs = None -> concat runs = [].
  Proof.
    induction runs as [|r rs IH]; simpl; [reflexivity|].
    destruct r as [|x xs]; [exact IH|].
    destruct (pick lt rs) as [[y rs']|]; [destruct (lt y x)|]; discriminate.
  Qed.

  Lemma pick_perm : forall runs x rs, pick lt runs = Some (x, rs) -> Permutation (x :: concat rs) (concat runs).
  Proof.
    induction runs as [|r rs0 IH]; simpl; intros x rs H; [discriminate|].
    destruct r as [|a xs]; [apply IH; exact H|].
    destruct (pick lt rs0) as [[y rs']|] eqn:E.
    - destruct (lt y a); inversion H; subst; clear H.
      + simpl. specialize (IH _ _ eq_refl).
        change (Permutation (x :: (a :: xs) ++ concat rs') ((a :: xs) ++ concat rs0)).
        eapply Permutation_trans; [apply Permutation_middle|].
        apply Permutation_app_head. exact IH.
      + simpl. apply Permutation_refl.
    - inversion H; subst; clear H. simpl. rewrite (pick_None _ E). apply Permutation_refl.
  Qed.

  Lemma pick_sorted : forall runs x rs, Forall sorted runs -> pick lt runs = Some (x, rs) ->
    Forall sorted rs /\ Forall (le x) (concat rs).
  Proof.
    induction runs as [|r rs0 IH]; simpl; intros x rs Hs H; [discriminate|].
    inversion Hs as [|? ? Hr Hrs]; subst.
    destruct r as [|a xs]; [apply IH; assumption|].
    destruct (sorted_inv _ _ Hr) as [Hxs Hax].
    destruct (pick lt rs0) as [[y rs']|] eqn:E.
    - destruct (IH _ _ Hrs eq_refl) as [Hrs' Hy].
      destruct (lt y a) eqn:Hya; inversion H; subst; clear H.
      + split; [constructor; assumption|].
        simpl. assert (Hxa : le x a) by (apply lt_asym; exact Hya).
        constructor; [exact Hxa|]. apply Forall_app; split; [|exact Hy].
        eapply Forall_impl; [|exact Hax]. intros z Hz. eapply le_trans; eassumption.
      + split; [constructor; assumption|].
        simpl. apply Forall_app; split; [exact Hax|].
        (* every record still queued in rs0 is y or behind y *)
        assert (Hp := pick_perm _ _ _ E).
        rewrite Forall_forall. intros z Hz.
        apply (Permutation_in _ (Permutation_sym Hp)) in Hz. destruct Hz as [Hz|Hz].
        * subst z. exact Hya.
        * rewrite Forall_forall in Hy. eapply le_trans; [exact Hya|apply Hy; exact Hz].
    - inversion H; subst; clear H. split; [constructor; [exact Hxs|constructor]|].
      simpl. rewrite app_nil_r. exact Hax.
  Qed.

  (* ---- kmerge ------------------------------------------------------------------------------------------------- *)
  Lemma kmerge_fuel_perm : forall fuel runs, (total_len runs <= fuel)%nat ->
    Permutation (kmerge_fuel lt fuel runs) (concat runs).
  Proof.
    induction fuel as [|f IH]; intros runs Hf; simpl.
    - unfold total_len in Hf. destruct (concat runs); [constructor|simpl in Hf; lia].
    - destruct (pick lt runs) as [[x rs]|] eqn:E.
      + assert (Hp := pick_perm _ _ _ E).
        eapply Permutation_trans; [|exact Hp]. constructor. apply IH.
        unfold total_len in *. apply Permutation_length in Hp. simpl in Hp. lia.
      + rewrite (pick_None _ E). constructor.
  Qed.

  Lemma kmerge_perm : forall runs, Permutation (kmerge lt runs) (concat runs).
  Proof. intro runs. apply kmerge_fuel_perm. apply Nat.le_refl. Qed.

  Lemma kmerge_fuel_sorted : forall fuel runs, (total_len runs <= fuel)%nat -> Forall sorted runs ->
    sorted (kmerge_fuel lt fuel runs).
  Proof.
    induction fuel as [|f IH]; intros runs Hf Hs; simpl; [constructor|].
    destruct (pick lt runs) as [[x rs]|] eqn:E; [|constructor].
    destruct (pick_sorted _ _ _ Hs E) as [Hrs Hx].
    assert (Hp := pick_perm _ _ _ E).
    assert (Hlen : (total_len rs <= f)%nat).
    { unfold total_len in *. apply Permutation_length in Hp. simpl in Hp. lia. }
    constructor; [apply IH; assumption|].
    rewrite Forall_forall in *. intros z Hz. apply Hx.
    eapply Permutation_in; [apply kmerge_fuel_perm; exact Hlen|exact Hz].
  Qed.

  Lemma kmerge_sorted : forall runs, Forall sorted runs -> sorted (kmerge lt runs).
  Proof. intros runs H. apply kmerge_fuel_sorted; [apply Nat.le_refl|exact H]. Qed.

  (* ---- the block sorter ----------------------------------------------------------------------------------------- *)
  Lemma pair_ind : forall (P : list (list A) -> Prop),
    P [] -> (forall a, P [a]) -> (forall a b r, P r -> P (a :: b :: r)) -> forall l, P l.
  Proof.
    intros P H0 H1 H2. fix IH 1. intros [|a [|b r]]; [exact H0|apply H1|apply H2; apply IH].
  Qed.

  Lemma merge_pairs_perm : forall ls, Permutation (concat (merge_pairs lt ls)) (concat ls).
  Proof.
    apply pair_ind; simpl; intros; try apply Permutation_refl.
    rewrite app_assoc. apply Permutation_app; [|assumption].
    eapply Permutation_trans; [apply kmerge_perm|]. simpl. rewrite app_nil_r. apply Permutation_refl.
  Qed.

  Lemma merge_pairs_sorted : forall ls, Forall sorted ls -> Forall sorted (merge_pairs lt ls).
  Proof.
    apply (pair_ind (fun ls => Forall sorted ls -> Forall sorted (merge_pairs lt ls))); simpl; intros; try assumption.
    inversion H0 as [|? ? Ha H1]; subst. inversion H1 as [|? ? Hb Hr]; subst.
    constructor; [apply kmerge_sorted; repeat constructor; assumption|apply H; exact Hr].
  Qed.

  Lemma msort_fuel_spec : forall fuel ls, Forall sorted ls ->
    sorted (msort_fuel lt fuel ls) /\ Permutation (msort_fuel lt fuel ls) (concat ls).
  Proof.
    induction fuel as [|f IH]; intros ls Hs; simpl.
    - split; [apply kmerge_sorted; exact Hs|apply kmerge_perm].
    - destruct ls as [|a [|b r]].
      + split; constructor.
      + inversion Hs; subst. simpl. rewrite app_nil_r. split; [assumption|apply Permutation_refl].
      + destruct (IH (merge_pairs lt (a :: b :: r)) (merge_pairs_sorted _ Hs)) as [H1 H2].
        split; [exact H1|]. eapply Permutation_trans; [exact H2|apply merge_pairs_perm].
  Qed.

  Lemma concat_singletons : forall (b : list A), concat (map (fun x => [x]) b) = b.
  Proof. induction b; simpl; congruence. Qed.

  Lemma sort_block_sorted : forall b, sorted (sort_block lt b).
  Proof.
    intro b. unfold sort_block. apply msort_fuel_spec.
    rewrite Forall_map. rewrite Forall_forall. intros x _. repeat constructor.
  Qed.

  Lemma sort_block_perm : forall b, Permutation (sort_block lt b) b.
  Proof.
    intro b. unfold sort_block.
    eapply Permutation_trans; [apply msort_fuel_spec|rewrite concat_singletons; apply Permutation_refl].
    rewrite Forall_map. rewrite Forall_forall. intros x _. repeat constructor.
  Qed.

  (* ---- the combiner loop ---------------------------------------------------------------------------------------- *)
  Lemma comb_never : (forall a b, combine a b = None) -> forall l x, comb combine x l = x :: l.
  Proof. intros Hn. induction l as [|y r IH]; intro x; simpl; [reflexivity|]. rewrite Hn. f_equal. apply IH. Qed.

  Lemma merge_group_never : (forall a b, combine a b = None) -> forall g, merge_group lt combine g = kmerge lt g.
  Proof. intros Hn g. unfold merge_group. destruct (kmerge lt g); [reflexivity|apply comb_never; exact Hn]. Qed.

  (* a combiner may only replace `into` by a record that the order cannot tell from it *)
  Definition combine_keeps_order : Prop :=
    forall a b c, combine a b = Some c -> (forall z, le a z -> le c z) /\ (forall z, le z a -> le z c).

  Lemma comb_sorted : combine_keeps_order -> forall l x, sorted (x :: l) ->
    sorted (comb combine x l) /\ (forall z, le z x -> Forall (le z) (comb combine x l)).
  Proof.
    intros Hk. induction l as [|y r IH]; intros x Hs; simpl.
    - split; [repeat constructor|]. intros z Hz. repeat constructor. exact Hz.
    - destruct (sorted_inv _ _ Hs) as [Hyr Hx]. inversion Hx as [|? ? Hxy Hxr]; subst.
      destruct (sorted_inv _ _ Hyr) as [Hr Hy].
      destruct (combine x y) as [c|] eqn:E.
      + destruct (Hk _ _ _ E) as [Hc1 Hc2].
        assert (Hs' : sorted (c :: r)).
        { constructor; [exact Hr|]. eapply Forall_impl; [|exact Hxr]. intros z Hz. apply Hc1. exact Hz. }
        destruct (IH c Hs') as [H1 H2]. split; [exact H1|]. intros z Hz. apply H2. apply Hc2. exact Hz.
      + destruct (IH y Hyr) as [H1 H2]. split.
        * constructor; [exact H1|]. apply H2. exact Hxy.
        * intros z Hz. constructor; [exact Hz|]. apply H2. eapply le_trans; eassumption.
  Qed.

  Lemma merge_group_sorted : combine_keeps_order -> forall g, Forall sorted g -> sorted (merge_group lt combine g).
  Proof.
    intros Hk g Hg. unfold merge_group. assert (H := kmerge_sorted _ Hg).
    destruct (kmerge lt g) as [|x r]; [constructor|]. apply comb_sorted; assumption.
  Qed.
End MergeProofs.
