(* C16/SortProofs.v -- partial correctness of the merge passes: whatever the grouping arithmetic decides, every
   pass maps "sorted runs" to "sorted runs" and keeps the content (up to a relation R: permutation, or per-key
   totals when a combiner is used). *)
From Coq Require Import List NArith Bool Arith Lia Sorting.Sorted Sorting.Permutation.
From Kenlm Require Import C16.SortModel C16.MergeProofs.
Import ListNotations.
Local Open Scope N_scope.

Section SortProofs.
  Context {A : Type}.
  Variable lt : A -> A -> bool.
  Variable combine : A -> A -> option A.
  Variable es : N.

  Notation merge_group := (merge_group lt combine).
  Notation pass_loop := (pass_loop lt combine es).
  Notation merging_reader := (merging_reader lt combine es).
  Notation merge_loop := (merge_loop lt combine es).
  Notation sort_merge := (sort_merge lt combine es).
  Notation sort_output_runs := (sort_output_runs lt combine es).
  Notation sort_merge_then_output_runs := (sort_merge_then_output_runs lt combine es).
  Notation sort_steal_runs := (sort_steal_runs lt combine es).
  Notation admission := (admission es).

  (* ---- structure: a pass partitions the runs into consecutive groups and merges each --------------------------- *)
  Lemma admission_split : forall per (runs : list (list A)) avail g rest, admission per avail runs = (g, rest) -> runs = g ++ rest.
  Proof.
    induction runs as [|r rs IH]; simpl; intros avail g rest H.
    - inversion H; reflexivity.
    - destruct (N.min per (run_bytes es r) <=? avail).
      + destruct (admission per (avail - N.min (run_bytes es r) per) rs) as [g' rest'] eqn:E.
        inversion H; subst. simpl. f_equal. eapply IH; eassumption.
      + inversion H; reflexivity.
  Qed.

  Definition group_out (g : list (list A)) : nat * list A := (length g, merge_group g).

  Lemma pass_loop_eq : forall f b t ao r rs acc,
    pass_loop (S f) b t ao (r :: rs) acc =
    let (g, rest) := admission (per_buffer_of es b t (r :: rs)) t (r :: rs) in
    if (Nat.ltb (length g) 2) && negb (is_nil rest) then PassAbortTwo
    else if ao && negb (is_nil rest) then PassAbortLazy
    else pass_loop f b t ao rest ((length g, merge_group g) :: acc).
  Proof. reflexivity. Qed.

  Lemma pass_loop_nil : forall f b t ao acc, pass_loop f b t ao [] acc = PassOk (rev acc).
  Proof. destruct f; reflexivity. Qed.

  Lemma pass_loop_groups : forall fuel b t ao runs acc out, pass_loop fuel b t ao runs acc = PassOk out ->
    exists groups, runs = concat groups /\ out = rev acc ++ map group_out groups.
  Proof.
    induction fuel as [|f IH]; intros b t ao runs acc out H; destruct runs as [|r rs].
    - rewrite pass_loop_nil in H. inversion H; subst. exists []. simpl. rewrite app_nil_r. split; reflexivity.
    - discriminate.
    - rewrite pass_loop_nil in H. inversion H; subst. exists []. simpl. rewrite app_nil_r. split; reflexivity.
    - rewrite pass_loop_eq in H.
      destruct (admission (per_buffer_of es b t (r :: rs)) t (r :: rs)) as [g rest] eqn:E.
      destruct ((length g <? 2)%nat && negb (is_nil rest)); [discriminate|].
      destruct (ao && negb (is_nil rest)); [discriminate|].
      destruct (IH _ _ _ _ _ _ H) as [groups [H1 H2]].
      exists (g :: groups). split.
      + simpl. rewrite <- H1. eapply admission_split; exact E.
      + rewrite H2. simpl. rewrite <- app_assoc. reflexivity.
  Qed.

  Lemma merging_reader_groups : forall b t ao runs out, merging_reader b t ao runs = PassOk out ->
    (exists r, runs = [r] /\ out = [(1%nat, r)]) \/ (exists groups, runs = concat groups /\ out = map group_out groups).
  Proof.
    intros b t ao runs out H. unfold SortModel.merging_reader in H.
    destruct runs as [|r [|r2 rs]].
    - inversion H; subst. right. exists []. split; reflexivity.
    - inversion H; subst. left. exists r. split; reflexivity.
    - right. apply pass_loop_groups in H. exact H.
  Qed.

  Lemma pass_loop_one : forall fuel b t runs acc out, pass_loop fuel b t true runs acc = PassOk out ->
    (length out <= length acc + 1)%nat.
  Proof.
    intros fuel b t runs acc out H. destruct runs as [|r rs].
    { rewrite pass_loop_nil in H. inversion H; subst. rewrite rev_length. lia. }
    destruct fuel as [|f]; [discriminate|]. rewrite pass_loop_eq in H.
    destruct (admission (per_buffer_of es b t (r :: rs)) t (r :: rs)) as [g rest] eqn:E.
    destruct ((length g <? 2)%nat && negb (is_nil rest)); [discriminate|].
    destruct rest as [|x rest]; simpl in H; [|discriminate].
    rewrite pass_loop_nil in H. inversion H; subst. simpl. rewrite app_length, rev_length. simpl. lia.
  Qed.

  Lemma merging_reader_one : forall b t runs out, merging_reader b t true runs = PassOk out -> (length out <= 1)%nat.
  Proof.
    intros b t runs out H. unfold SortModel.merging_reader in H. destruct runs as [|r [|r2 rs]].
    - inversion H; simpl; lia.
    - inversion H; simpl; lia.
    - apply pass_loop_one in H. simpl in H. lia.
  Qed.

  (* ---- content: any relation R that is a congruence for ++ and holds for one merged group ---------------------- *)
  Section Content.
    Variable R : list A -> list A -> Prop.
    Hypothesis R_refl : forall l, R l l.
    Hypothesis R_trans : forall a b c, R a b -> R b c -> R a c.
    Hypothesis R_app : forall a a' b b', R a a' -> R b b' -> R (a ++ b) (a' ++ b').
    Hypothesis R_group : forall g, R (concat g) (merge_group g).

    Lemma groups_R : forall groups, R (concat (concat groups)) (concat (map snd (map group_out groups))).
    Proof.
      induction groups as [|g gs IH]; simpl; [apply R_refl|].
      rewrite concat_app. apply R_app; [apply R_group|exact IH].
    Qed.

    Lemma reader_R : forall b t ao runs out, merging_reader b t ao runs = PassOk out ->
      R (concat runs) (concat (map snd out)).
    Proof.
      intros b t ao runs out H. destruct (merging_reader_groups _ _ _ _ _ H) as [[r [H1 H2]]|[groups [H1 H2]]]; subst.
      - apply R_refl.
      - apply groups_R.
    Qed.

    Lemma merge_loop_R : forall fuel b total lm la runs tr runs' tr',
      merge_loop fuel b total lm la runs tr = MergeOk runs' tr' -> R (concat runs) (concat runs').
    Proof.
      induction fuel as [|f IH]; intros b total lm la runs tr runs' tr' H; simpl in H.
      - destruct (nruns runs <=? la); [inversion H; subst; apply R_refl|].
        destruct (size_bytes es runs <=? lm); [inversion H; subst; apply R_refl|discriminate].
      - destruct (nruns runs <=? la); [inversion H; subst; apply R_refl|].
        destruct (size_bytes es runs <=? lm); [inversion H; subst; apply R_refl|].
        match type of H with match ?X with _ => _ end = _ => destruct X as [out| | |] eqn:E end; try discriminate.
        eapply R_trans; [eapply reader_R; exact E|eapply IH; exact H].
    Qed.

    Lemma sort_merge_R : forall b total lm runs runs' tr r,
      sort_merge b total lm runs = (MergeOk runs' tr, r) -> R (concat runs) (concat runs').
    Proof.
      intros b total lm runs runs' tr r H. unfold SortModel.sort_merge in H.
      destruct (nruns runs <=? 1); [inversion H; subst; apply R_refl|].
      match type of H with (match ?X with _ => _ end) = _ => destruct X eqn:E end; inversion H; subst.
      eapply merge_loop_R; exact E.
    Qed.

    Lemma sort_output_runs_R : forall b total lm runs out tr,
      sort_output_runs b total lm runs = SortOk out tr -> R (concat runs) out.
    Proof.
      intros b total lm runs out tr H. unfold SortModel.sort_output_runs in H.
      destruct (sort_merge b total lm runs) as [mr r] eqn:E. simpl in H.
      destruct mr as [runs' tr'| |]; try discriminate.
      match type of H with match ?X with _ => _ end = _ => destruct X as [o| | |] eqn:E2 end; try discriminate.
      inversion H; subst. eapply R_trans; [eapply sort_merge_R; exact E|eapply reader_R; exact E2].
    Qed.

    Lemma sort_merge_then_output_runs_R : forall b total lm runs out tr r,
      sort_merge_then_output_runs b total lm runs = (SortOk out tr, r) -> R (concat runs) out.
    Proof.
      intros b total lm runs out tr r H. unfold SortModel.sort_merge_then_output_runs in H.
      destruct (sort_merge b total lm runs) as [mr r0] eqn:E.
      destruct mr as [runs' tr'| |]; try (inversion H; fail).
      destruct (sort_output_runs b total r0 runs') as [o t2| | | |] eqn:E2; inversion H; subst.
      eapply R_trans; [eapply sort_merge_R; exact E|eapply sort_output_runs_R; exact E2].
    Qed.

    Lemma sort_steal_runs_R : forall b total runs out tr,
      sort_steal_runs b total runs = SortOk out tr -> R (concat runs) out.
    Proof.
      intros b total runs out tr H. unfold SortModel.sort_steal_runs in H.
      destruct (sort_merge b total 0 runs) as [mr r] eqn:E. simpl in H.
      destruct mr as [runs' tr'| |]; inversion H; subst. eapply sort_merge_R; exact E.
    Qed.
  End Content.

  (* ---- order: runs with P stay runs with P, and what leaves the sort is one sequence with P ---------------------- *)
  Section RunInv.
    (* P: a property of one run that a merged group has whenever the merged runs have it (sorted; strictly sorted) *)
    Variable P : list A -> Prop.
    Hypothesis P_nil : P [].
    Hypothesis P_group : forall g, Forall P g -> P (merge_group g).

    Lemma groups_inv : forall groups, Forall P (concat groups) -> Forall P (map snd (map group_out groups)).
    Proof.
      induction groups as [|g gs IH]; simpl; intro H; [constructor|].
      apply Forall_app in H. destruct H as [Hg Hgs].
      constructor; [apply P_group; assumption|apply IH; exact Hgs].
    Qed.

    Lemma reader_inv : forall b t ao runs out, merging_reader b t ao runs = PassOk out ->
      Forall P runs -> Forall P (map snd out).
    Proof.
      intros b t ao runs out H Hs. destruct (merging_reader_groups _ _ _ _ _ H) as [[r [H1 H2]]|[groups [H1 H2]]]; subst.
      - exact Hs.
      - apply groups_inv. exact Hs.
    Qed.

    Lemma merge_loop_inv : forall fuel b total lm la runs tr runs' tr',
      merge_loop fuel b total lm la runs tr = MergeOk runs' tr' -> Forall P runs -> Forall P runs'.
    Proof.
      induction fuel as [|f IH]; intros b total lm la runs tr runs' tr' H Hs; simpl in H.
      - destruct (nruns runs <=? la); [inversion H; subst; exact Hs|].
        destruct (size_bytes es runs <=? lm); [inversion H; subst; exact Hs|discriminate].
      - destruct (nruns runs <=? la); [inversion H; subst; exact Hs|].
        destruct (size_bytes es runs <=? lm); [inversion H; subst; exact Hs|].
        match type of H with match ?X with _ => _ end = _ => destruct X as [out| | |] eqn:E end; try discriminate.
        eapply IH; [exact H|]. eapply reader_inv; eassumption.
    Qed.

    Lemma sort_merge_inv : forall b total lm runs runs' tr r,
      sort_merge b total lm runs = (MergeOk runs' tr, r) -> Forall P runs -> Forall P runs'.
    Proof.
      intros b total lm runs runs' tr r H Hs. unfold SortModel.sort_merge in H.
      destruct (nruns runs <=? 1); [inversion H; subst; exact Hs|].
      match type of H with (match ?X with _ => _ end) = _ => destruct X eqn:E end; inversion H; subst.
      eapply merge_loop_inv; eassumption.
    Qed.

    Lemma sort_output_runs_inv : forall b total lm runs out tr,
      sort_output_runs b total lm runs = SortOk out tr -> Forall P runs -> P out.
    Proof.
      intros b total lm runs out tr H Hs. unfold SortModel.sort_output_runs in H.
      destruct (sort_merge b total lm runs) as [mr r] eqn:E. simpl in H.
      destruct mr as [runs' tr'| |]; try discriminate.
      match type of H with match ?X with _ => _ end = _ => destruct X as [o| | |] eqn:E2 end; try discriminate.
      inversion H; subst.
      assert (Hs' := sort_merge_inv _ _ _ _ _ _ _ E Hs).
      assert (H1 := reader_inv _ _ _ _ _ E2 Hs').
      assert (H2 := merging_reader_one _ _ _ _ E2).
      destruct o as [|[n x] [|? ?]]; simpl in *; [exact P_nil| |lia].
      rewrite app_nil_r. inversion H1; assumption.
    Qed.

    Lemma sort_merge_then_output_runs_inv : forall b total lm runs out tr r,
      sort_merge_then_output_runs b total lm runs = (SortOk out tr, r) -> Forall P runs -> P out.
    Proof.
      intros b total lm runs out tr r H Hs. unfold SortModel.sort_merge_then_output_runs in H.
      destruct (sort_merge b total lm runs) as [mr r0] eqn:E.
      destruct mr as [runs' tr'| |]; try (inversion H; fail).
      destruct (sort_output_runs b total r0 runs') as [o t2| | | |] eqn:E2; inversion H; subst.
      eapply sort_output_runs_inv; [exact E2|]. eapply sort_merge_inv; eassumption.
    Qed.

    (* Merge(0) stops only with at most one run on disk (or nothing at all) *)
    Lemma size_zero_concat : es <> 0 -> forall runs : list (list A), size_bytes es runs = 0 -> concat runs = [].
    Proof.
      intros Hes. induction runs as [|r rs IH]; simpl; intro H; [reflexivity|].
      unfold run_bytes in H. assert (N.of_nat (length r) * es = 0 /\ size_bytes es rs = 0) as [H1 H2] by lia.
      rewrite (IH H2). apply N.eq_mul_0 in H1. destruct H1 as [H1|H1]; [|contradiction].
      destruct r; [reflexivity|simpl in H1; lia].
    Qed.

    Lemma merge_loop_full : forall fuel b total runs tr runs' tr', es <> 0 ->
      merge_loop fuel b total 0 1 runs tr = MergeOk runs' tr' -> (length runs' <= 1)%nat \/ concat runs' = [].
    Proof.
      induction fuel as [|f IH]; intros b total runs tr runs' tr' Hes H; simpl in H.
      - destruct (nruns runs <=? 1) eqn:E1; [inversion H; subst; left; apply N.leb_le in E1; unfold nruns in E1; lia|].
        destruct (size_bytes es runs <=? 0) eqn:E2; [|discriminate].
        inversion H; subst. right. apply size_zero_concat; [exact Hes|]. apply N.leb_le in E2. lia.
      - destruct (nruns runs <=? 1) eqn:E1; [inversion H; subst; left; apply N.leb_le in E1; unfold nruns in E1; lia|].
        destruct (size_bytes es runs <=? 0) eqn:E2.
        { inversion H; subst. right. apply size_zero_concat; [exact Hes|]. apply N.leb_le in E2. lia. }
        match type of H with match ?X with _ => _ end = _ => destruct X as [out| | |] eqn:E end; try discriminate.
        eapply IH; eassumption.
    Qed.

    Lemma sort_steal_runs_inv : forall b total runs out tr, es <> 0 -> b <> 0 ->
      sort_steal_runs b total runs = SortOk out tr -> Forall P runs -> P out.
    Proof.
      intros b total runs out tr Hes Hb H Hs. unfold SortModel.sort_steal_runs in H.
      destruct (sort_merge b total 0 runs) as [mr r] eqn:E. simpl in H.
      destruct mr as [runs' tr'| |]; inversion H; subst.
      assert (Hs' := sort_merge_inv _ _ _ _ _ _ _ E Hs).
      unfold SortModel.sort_merge in E.
      destruct (nruns runs <=? 1) eqn:E1.
      - inversion E; subst. apply N.leb_le in E1. unfold nruns in E1.
        destruct runs' as [|x [|y l]]; simpl in *; [exact P_nil| |lia]. rewrite app_nil_r. inversion Hs'; assumption.
      - match type of E with (match ?X with _ => _ end) = _ => destruct X eqn:E2 end; inversion E; subst.
        rewrite N.div_0_l in E2 by exact Hb. change (N.max 1 0) with 1 in E2.
        destruct (merge_loop_full _ _ _ _ _ _ _ Hes E2) as [Hl|Hn].
        + destruct runs' as [|x [|y l]]; simpl in *; [exact P_nil| |lia]. rewrite app_nil_r. inversion Hs'; assumption.
        + rewrite Hn. exact P_nil.
    Qed.
  End RunInv.
End SortProofs.
