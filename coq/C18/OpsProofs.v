(* C18 -- every FilePiece operation of the window model computes the whole-input specification, leaves the
   invariant intact and never runs out of fuel.  Stated for any variant with the three repairs switched on. *)
From Coq Require Import List NArith ZArith Arith Bool Lia.
From Kenlm Require Import Gen.SpacesC18 C18.FilePieceModel C18.FilePieceSpec C18.ListLemmas C18.WindowProofs.
Import ListNotations.

(* ---------------------------------------------------------------------------------------------- *)
(* the number parsers look at the token only, and consume no more than it *)
Lemma digit_non_space : forall b, is_digit b = true -> non_space b = true.
Proof.
  intros b H. unfold is_digit in H. apply andb_true_iff in H as [A B].
  apply N.leb_le in A. apply N.leb_le in B.
  assert (E : (b = 48 \/ b = 49 \/ b = 50 \/ b = 51 \/ b = 52 \/ b = 53 \/ b = 54 \/ b = 55 \/ b = 56 \/ b = 57)%N) by lia.
  repeat (destruct E as [E|E]; [subst b; reflexivity|]). subst b. reflexivity.
Qed.

Lemma take_while_digit_cut : forall l, take_while is_digit (take_while non_space l) = take_while is_digit l.
Proof.
  induction l as [|b r IH]; simpl; [reflexivity|].
  destruct (is_digit b) eqn:D.
  - rewrite (digit_non_space b D). simpl. rewrite D. now rewrite IH.
  - destruct (non_space b); simpl; [now rewrite D|reflexivity].
Qed.

Lemma take_while_idem : forall p l, take_while p (take_while p l) = take_while p l.
Proof. intros. apply take_while_all. apply take_while_forallb. Qed.

Lemma split_sign_cut : forall l,
  split_sign (take_while non_space l) =
  let '(neg, sl, t) := split_sign l in (neg, sl, take_while non_space t).
Proof.
  intros l. destruct l as [|c r]; [reflexivity|]. unfold split_sign at 2.
  destruct (c =? 45)%N eqn:E1; [apply N.eqb_eq in E1; subst c; reflexivity|].
  destruct (c =? 43)%N eqn:E2; [apply N.eqb_eq in E2; subst c; reflexivity|].
  simpl. destruct (non_space c); [|reflexivity]. simpl. now rewrite E1, E2.
Qed.

Lemma split_sign_length : forall l neg sl t, split_sign l = (neg, sl, t) -> length l = sl + length t.
Proof.
  intros l neg sl t H. destruct l as [|c r]; [inversion H; reflexivity|]. simpl in H.
  destruct (c =? 45)%N; [inversion H; reflexivity|]. destruct (c =? 43)%N; inversion H; reflexivity.
Qed.

Lemma frac_part_length : forall t2 fl nf t3, frac_part t2 = (fl, nf, t3) -> length t2 = fl + length t3 /\ nf <= fl.
Proof.
  intros t2 fl nf t3 H. destruct t2 as [|c r]; [inversion H; simpl; lia|]. simpl in H.
  destruct (c =? 46)%N; inversion H; subst; simpl; [|lia].
  rewrite skipn_length. pose proof (run_len_le is_digit r). rewrite <- run_len_take_while in H0. lia.
Qed.

Lemma starts_with_length : forall pre l, starts_with pre l = true -> length pre <= length l.
Proof.
  induction pre as [|a p IH]; intros l H; simpl; [lia|].
  destruct l as [|b r]; simpl in H; [discriminate|]. apply andb_true_iff in H as [_ H]. apply IH in H. simpl. lia.
Qed.

Lemma take_while_length_le : forall p l, length (take_while p l) <= length l.
Proof. intros. rewrite run_len_take_while. apply run_len_le. Qed.

Lemma exp_len_le : forall t, exp_len t <= length t.
Proof.
  intros t. unfold exp_len. destruct t as [|e r]; [lia|].
  destruct ((e =? 101) || (e =? 69))%N; [|lia].
  destruct (split_sign r) as [[ng sgl] r'] eqn:Es. apply split_sign_length in Es.
  pose proof (take_while_length_le is_digit r') as L.
  destruct (take_while is_digit r'); simpl in *; lia.
Qed.

Lemma scan_float_count : forall l k c, scan_float l = Some (k, c) -> c <= length l.
Proof.
  intros l k c H. unfold scan_float in H.
  destruct (split_sign l) as [[ng sl] t1] eqn:Es. apply split_sign_length in Es.
  destruct t1 as [|c0 t1']; [discriminate|].
  destruct (c0 =? 105)%N.
  { destruct (starts_with [105; 110; 102]%N (c0 :: t1')) eqn:Sw; [|discriminate].
    apply starts_with_length in Sw. inversion H; subst. simpl in *. lia. }
  destruct (c0 =? 78)%N.
  { destruct (starts_with [78; 97; 78]%N (c0 :: t1')) eqn:Sw; [|discriminate].
    apply starts_with_length in Sw. inversion H; subst. simpl in *. lia. }
  set (t1 := c0 :: t1') in *.
  set (ip := take_while is_digit t1) in *.
  assert (L1 : length t1 = length ip + length (skipn (length ip) t1)).
  { rewrite skipn_length. pose proof (take_while_length_le is_digit t1). unfold ip. lia. }
  destruct (frac_part (skipn (length ip) t1)) as [[fl nf] t3] eqn:Ef. apply frac_part_length in Ef as (Lf & Nf).
  destruct (length ip + nf =? 0); [discriminate|]. inversion H; subst.
  pose proof (exp_len_le t3). lia.
Qed.

Lemma if_some_inv : forall (b : bool) (A : Type) (x y : A), (if b then Some x else None) = Some y -> x = y.
Proof. intros b A x y H. destruct b; [now inversion H|discriminate]. Qed.

Ltac split3 := split; [|split].

Section Ops.
  Variable v : variant.
  Hypothesis Hfo : fix_offset v = true.
  Hypothesis Hfp : fix_peek v = true.
  Hypothesis Hfn : fix_nan v = true.
  Variable total : nat.

  Lemma parse_number_cut : forall k w, parse_number v k w = parse_number v k (take_while non_space w).
  Proof.
    intros k w. destruct k; simpl.
    - unfold parse_long. rewrite split_sign_cut. destruct (split_sign w) as [[ng sl] t]. now rewrite take_while_digit_cut.
    - unfold parse_ulong. rewrite split_sign_cut. destruct (split_sign w) as [[ng sl] t]. now rewrite take_while_digit_cut.
    - unfold parse_float. rewrite Hfn. now rewrite take_while_idem.
  Qed.

  Lemma parse_number_repaired : forall k w, parse_number v k w = parse_number repaired k w.
  Proof. intros k w. destruct k; simpl; try reflexivity. unfold parse_float. rewrite Hfn. reflexivity. Qed.

  Lemma parse_number_nil : forall k, parse_number v k [] = None.
  Proof. intros k. destruct k; simpl; try reflexivity. unfold parse_float. simpl. now rewrite Hfn. Qed.

  Lemma parse_number_count : forall k w r c, parse_number v k w = Some (r, c) -> c <= length w.
  Proof.
    intros k w r c H. destruct k; simpl in H.
    - unfold parse_long in H. destruct (split_sign w) as [[ng sl] t] eqn:Es. apply split_sign_length in Es.
      pose proof (take_while_length_le is_digit t) as L.
      destruct (take_while is_digit t) as [|x xs] eqn:Et; [discriminate|]. rewrite ?Et in L.
      apply if_some_inv in H. apply (f_equal snd) in H. unfold snd in H. subst c. simpl length in *. lia.
    - unfold parse_ulong in H. destruct (split_sign w) as [[ng sl] t] eqn:Es. apply split_sign_length in Es.
      pose proof (take_while_length_le is_digit t) as L.
      destruct (take_while is_digit t) as [|x xs] eqn:Et; [discriminate|]. rewrite ?Et in L.
      apply if_some_inv in H. apply (f_equal snd) in H. unfold snd in H. subst c. simpl length in *. lia.
    - unfold parse_float in H. rewrite Hfn in H.
      pose proof (take_while_length_le non_space w) as L.
      destruct (scan_float (take_while non_space w)) as [[kd c0]|] eqn:Es; [|discriminate].
      apply scan_float_count in Es.
      destruct kd.
      + inversion H; subst. lia.
      + inversion H; subst. lia.
      + destruct (list_eqb _ _); [|discriminate]. inversion H; subst. lia.
  Qed.

  (* ------------------------------------------------------------------------------------------ *)
  (* progress measure of the loops: every Shift delivers a byte or discovers the end *)
  Definition mu (s : fp) : nat := length (future s) + (if at_end s then 0 else 1).

  Lemma mu_fuel : forall s, Inv total s -> mu s < fuel s.
  Proof.
    intros s I. pose proof (inv_fuel _ _ I) as F. unfold mu, rest in *. rewrite app_length in F.
    destruct (at_end s); lia.
  Qed.

  Lemma mu_advance : forall k s, mu (advance k s) = mu s.
  Proof. intros. unfold mu. destruct (advance_facts k s) as (A & B & _). now rewrite A, B. Qed.

  Lemma shift_none : forall s, at_end s = true -> shift v s = None.
  Proof. intros s H. unfold shift. now rewrite H. Qed.

  Lemma shift_some : forall s, Inv total s -> at_end s = false ->
    exists s' more, shift v s = Some s' /\ Inv total s' /\ avail s' = avail s ++ more /\
                    rest s' = rest s /\ (more = [] -> at_end s' = true) /\ mu s' < mu s.
  Proof.
    intros s I Ha. pose proof (shift_spec v Hfo total s I) as H. rewrite Ha in H.
    destruct H as (s' & Hs & Post). pose proof (shift_post_rest _ _ _ Post) as R.
    destruct Post as (I' & more & A & B & C). exists s', more. split; [exact Hs|]. split; [exact I'|]. split; [exact A|]. split; [exact R|]. split.
    - intros E. destruct C; [contradiction|assumption].
    - unfold mu. rewrite Ha, B, app_length. destruct C as [C|C].
      + destruct more; [contradiction|]. simpl. destruct (at_end s'); lia.
      + rewrite C. lia.
  Qed.

  (* ------------------------------------------------------------------------------------------ *)
  (* ReadLine *)
  Lemma read_line_loop_spec : forall fuel delim strip skip s,
    Inv total s -> skip <= length (avail s) -> find_idx (N.eqb delim) (firstn skip (avail s)) = None -> mu s < fuel ->
    Inv total (snd (read_line_loop v fuel delim strip skip s)) /\
    (fst (read_line_loop v fuel delim strip skip s), rest (snd (read_line_loop v fuel delim strip skip s)))
      = spec_line delim strip (rest s).
  Proof.
    induction fuel as [|f IH]; intros delim strip skip s I Hs Hn Hm; [lia|].
    simpl. set (a := avail s) in *.
    destruct (find_idx (N.eqb delim) (skipn skip a)) as [k|] eqn:E.
    - (* the delimiter is in the window *)
      pose proof (find_idx_skip _ _ _ _ Hs Hn E) as Fa.
      destruct (find_idx_some _ _ _ Fa) as (Lt & _ & _).
      assert (Fr : find_idx (N.eqb delim) (rest s) = Some (skip + k)) by (unfold rest; now apply find_idx_app_some).
      simpl. split; [apply advance_inv; [exact I|fold a; lia]|].
      unfold spec_line. rewrite Fr. rewrite rest_advance by (fold a; lia).
      f_equal. unfold rest. fold a.
      rewrite (nth_app_lt a (future s)) by lia.
      destruct (strip && (0 <? skip + k) && (nth (skip + k - 1) a 0 =? 13)%N).
      + f_equal. now rewrite firstn_app_le by lia.
      + f_equal. rewrite Nat.sub_0_r. now rewrite firstn_app_le by lia.
    - pose proof (find_idx_skip_none _ _ _ Hn E) as Fa.
      destruct (at_end s) eqn:Ha.
      + (* the window reaches the end of the input *)
        assert (R : rest s = a) by (unfold rest; rewrite (inv_end _ _ I Ha); apply app_nil_r).
        unfold spec_line. rewrite R, Fa.
        destruct a as [|x xs] eqn:Ea.
        * simpl. split; [exact I|]. f_equal. exact R.
        * simpl. split; [apply advance_inv; [exact I|fold a; rewrite Ea; simpl; lia]|].
          f_equal. rewrite rest_advance by (fold a; rewrite Ea; simpl; lia).
          rewrite R. change (S (length xs)) with (length (x :: xs)). apply skipn_all.
      + destruct (shift_some s I Ha) as (s' & more & Hsh & I' & Av & R & _ & Mu). rewrite Hsh.
        rewrite <- R. apply IH; try assumption.
        * rewrite Av. fold a. rewrite app_length. lia.
        * rewrite Av. fold a. rewrite firstn_app_le by lia. now rewrite firstn_all.
        * lia.
  Qed.

  (* FindDelimiterOrEOF *)
  Lemma find_delim_loop_spec : forall fuel d skip s,
    Inv total s -> skip <= length (avail s) -> find_idx d (firstn skip (avail s)) = None -> mu s < fuel ->
    match find_delim_loop v fuel d skip s with
    | LOk k s' => Inv total s' /\ rest s' = rest s /\ k <= length (avail s') /\
                  firstn k (avail s') = take_while (fun b => negb (d b)) (rest s) /\ rest s <> []
    | LEof s' => Inv total s' /\ rest s' = [] /\ rest s = []
    | LFuel => False
    end.
  Proof.
    induction fuel as [|f IH]; intros d skip s I Hs Hn Hm; [lia|].
    simpl. set (a := avail s) in *.
    destruct (find_idx d (skipn skip a)) as [k|] eqn:E.
    - pose proof (find_idx_skip _ _ _ _ Hs Hn E) as Fa.
      destruct (find_idx_some _ _ _ Fa) as (Lt & _ & _).
      assert (Fr : find_idx d (rest s) = Some (skip + k)) by (unfold rest; now apply find_idx_app_some).
      split; [exact I|]. split; [reflexivity|]. fold a. split; [lia|]. split.
      + rewrite (take_while_neg_find _ _ _ Fr). unfold rest. fold a. now rewrite firstn_app_le by lia.
      + unfold rest. fold a. destruct a; [simpl in Lt; lia|discriminate].
    - pose proof (find_idx_skip_none _ _ _ Hn E) as Fa.
      destruct (at_end s) eqn:Ha.
      + assert (R : rest s = a) by (unfold rest; rewrite (inv_end _ _ I Ha); apply app_nil_r).
        destruct a as [|x xs] eqn:Ea.
        * split; [exact I|]. split; exact R.
        * split; [exact I|]. split; [reflexivity|]. fold a. rewrite Ea. split; [lia|]. split.
          -- rewrite R. rewrite take_while_neg_none by exact Fa. apply firstn_all.
          -- rewrite R. discriminate.
      + destruct (shift_some s I Ha) as (s' & more & Hsh & I' & Av & R & _ & Mu). rewrite Hsh.
        rewrite <- R. apply IH; try assumption.
        * rewrite Av. fold a. rewrite app_length. lia.
        * rewrite Av. fold a. rewrite firstn_app_le by lia. now rewrite firstn_all.
        * lia.
  Qed.

  Lemma consume_to_delim_spec : forall d s, Inv total s ->
    Inv total (snd (consume_to_delim v d s)) /\
    match rest s with
    | [] => fst (consume_to_delim v d s) = REof /\ rest (snd (consume_to_delim v d s)) = []
    | _ :: _ => fst (consume_to_delim v d s) = RBytes (take_while (fun b => negb (d b)) (rest s)) /\
                rest (snd (consume_to_delim v d s)) = drop_while (fun b => negb (d b)) (rest s)
    end.
  Proof.
    intros d s I. unfold consume_to_delim.
    pose proof (find_delim_loop_spec (fuel_of s) d 0 s I (Nat.le_0_l _) eq_refl (mu_fuel s I)) as H.
    destruct (find_delim_loop v (fuel_of s) d 0 s) as [k s'| s'|]; [| |contradiction].
    - destruct H as (I' & R & Hk & Tw & Ne). simpl. split; [now apply advance_inv|].
      destruct (rest s) eqn:Er; [contradiction|]. rewrite <- Er in *. split; [now rewrite Tw|].
      rewrite rest_advance by exact Hk. rewrite R.
      rewrite drop_while_skipn. f_equal. rewrite <- run_len_take_while, <- Tw. rewrite firstn_length. lia.
    - destruct H as (I' & R1 & R2). simpl. split; [exact I'|]. rewrite R2. split; [reflexivity|exact R1].
  Qed.

  (* SkipSpaces *)
  Lemma skip_spaces_loop_spec : forall fuel d s, Inv total s -> mu s < fuel ->
    match skip_spaces_loop v fuel d s with
    | LOk _ s' => Inv total s' /\ rest s' = drop_while d (rest s)
    | LEof s' => Inv total s' /\ rest s' = [] /\ drop_while d (rest s) = []
    | LFuel => False
    end.
  Proof.
    induction fuel as [|f IH]; intros d s I Hm; [lia|].
    simpl. set (a := avail s) in *. set (k := run_len d a).
    assert (Hk : k <= length a) by apply run_len_le.
    pose proof (advance_inv total k s I Hk) as I1.
    pose proof (rest_advance k s Hk) as R1.
    destruct (skipn k a) as [|b t] eqn:E.
    - (* the whole window was delimiters *)
      assert (Hl : k = length a) by (apply skipn_nil_length in E; lia).
      assert (Hall : forallb d a = true).
      { pose proof (forallb_firstn_run_len d a) as F. fold k in F. rewrite Hl, firstn_all in F. exact F. }
      assert (Rd : drop_while d (rest s) = drop_while d (future s)) by (unfold rest; fold a; now apply drop_while_app_all).
      assert (R1' : rest (advance k s) = future s).
      { rewrite R1. unfold rest. fold a. rewrite skipn_app_le by lia. rewrite Hl, skipn_all. reflexivity. }
      destruct (advance_facts k s) as (_ & Ae & _).
      destruct (at_end s) eqn:Ha.
      + rewrite shift_none by exact Ae. split; [exact I1|].
        rewrite R1', Rd, (inv_end _ _ I Ha). split; reflexivity.
      + destruct (shift_some (advance k s) I1 Ae) as (s' & more & Hsh & I' & Av & R & Me & Mu). rewrite Hsh.
        destruct (avail s') as [|x xs] eqn:Eav.
        * (* nothing arrived: end of input *)
          split; [exact I'|]. rewrite R, R1', Rd.
          assert (more = []) by (destruct (avail (advance k s)); destruct more; simpl in Av; congruence).
          assert (Fe : future s' = []) by (apply (inv_end _ _ I'); now apply Me).
          assert (rest s' = []) by (unfold rest; now rewrite Eav, Fe).
          rewrite R, R1' in H0. rewrite H0. reflexivity.
        * pose proof (IH d s' I') as H. rewrite mu_advance in Mu.
          specialize (H ltac:(lia)). rewrite R, R1', <- Rd in H. exact H.
    - (* a byte that is not a delimiter *)
      pose proof (skipn_run_len_head d a b t E) as Hb.
      split; [exact I1|]. rewrite R1. unfold rest. fold a. rewrite skipn_app_le by lia. fold k. rewrite E.
      rewrite <- (firstn_skipn k a) at 1. rewrite E. rewrite <- app_assoc.
      rewrite drop_while_app_all by apply forallb_firstn_run_len. simpl. now rewrite Hb.
  Qed.

  (* ReadWordSameLine: skipping delimiters other than newline *)
  Definition word_gap (d : N -> bool) (b : N) : bool := d b && negb (b =? 10)%N.

  Lemma word_skip_loop_spec : forall fuel d s, Inv total s -> mu s < fuel ->
    match word_skip_loop v fuel d s with
    | LOk true s' => Inv total s' /\ rest s' = drop_while (word_gap d) (rest s) /\
                     exists b t, rest s' = b :: t /\ d b = false
    | LOk false s' => Inv total s' /\ rest s' = drop_while (word_gap d) (rest s) /\
                      (rest s' = [] \/ exists b t, rest s' = b :: t /\ d b = true)
    | LEof _ => False
    | LFuel => False
    end.
  Proof.
    induction fuel as [|f IH]; intros d s I Hm; [lia|].
    simpl. change (fun b => d b && negb (b =? 10)%N) with (word_gap d).
    set (a := avail s) in *. set (k := run_len (word_gap d) a).
    assert (Hk : k <= length a) by apply run_len_le.
    pose proof (advance_inv total k s I Hk) as I1.
    pose proof (rest_advance k s Hk) as R1.
    destruct (skipn k a) as [|b t] eqn:E.
    - assert (Hl : k = length a) by (apply skipn_nil_length in E; lia).
      assert (Hall : forallb (word_gap d) a = true).
      { pose proof (forallb_firstn_run_len (word_gap d) a) as F. fold k in F. rewrite Hl, firstn_all in F. exact F. }
      assert (Rd : drop_while (word_gap d) (rest s) = drop_while (word_gap d) (future s))
        by (unfold rest; fold a; now apply drop_while_app_all).
      assert (R1' : rest (advance k s) = future s).
      { rewrite R1. unfold rest. fold a. rewrite skipn_app_le by lia. rewrite Hl, skipn_all. reflexivity. }
      destruct (advance_facts k s) as (_ & Ae & _).
      destruct (at_end s) eqn:Ha.
      + rewrite shift_none by exact Ae. split; [exact I1|].
        rewrite R1', Rd, (inv_end _ _ I Ha). split; [reflexivity|now left].
      + destruct (shift_some (advance k s) I1 Ae) as (s' & more & Hsh & I' & Av & R & Me & Mu). rewrite Hsh.
        destruct (avail s') as [|x xs] eqn:Eav.
        * split; [exact I'|].
          assert (more = []) by (destruct (avail (advance k s)); destruct more; simpl in Av; congruence).
          assert (Fe : future s' = []) by (apply (inv_end _ _ I'); now apply Me).
          assert (Hr : rest s' = []) by (unfold rest; now rewrite Eav, Fe).
          rewrite Rd. rewrite <- R1', <- R, Hr. split; [reflexivity|now left].
        * pose proof (IH d s' I') as H. rewrite mu_advance in Mu.
          specialize (H ltac:(lia)). rewrite R, R1', <- Rd in H. exact H.
    - pose proof (skipn_run_len_head (word_gap d) a b t E) as Hb.
      assert (Rs : rest (advance k s) = b :: t ++ future s).
      { rewrite R1. unfold rest. fold a. rewrite skipn_app_le by lia. fold k. now rewrite E. }
      assert (Rd : drop_while (word_gap d) (rest s) = b :: t ++ future s).
      { unfold rest. fold a. rewrite <- (firstn_skipn k a) at 1. rewrite E, <- app_assoc.
        rewrite drop_while_app_all by apply forallb_firstn_run_len. simpl. now rewrite Hb. }
      destruct (d b) eqn:Db; simpl.
      + split; [exact I1|]. split; [now rewrite Rs, Rd|]. right. exists b, (t ++ future s). split; [exact Rs|exact Db].
      + split; [exact I1|]. split; [now rewrite Rs, Rd|]. exists b, (t ++ future s). split; [exact Rs|exact Db].
  Qed.

  (* ReadNumber: the window handed to the parser holds the complete token *)
  Lemma number_loop_spec : forall fuel s, Inv total s -> mu s < fuel ->
    match number_loop v fuel s with
    | LOk w s' => Inv total s' /\ rest s' = rest s /\ length w <= length (avail s') /\
                  take_while non_space w = take_while non_space (rest s)
    | LEof _ => False
    | LFuel => False
    end.
  Proof.
    induction fuel as [|f IH]; intros s I Hm; [lia|].
    simpl. pose proof (num_view_spec total s I) as Nv.
    destruct (num_view s) as [w|].
    - destruct Nv as (sp & more & Av & Sp & _). split; [exact I|]. split; [reflexivity|].
      split; [rewrite Av, app_length; lia|].
      unfold rest. rewrite Av. rewrite <- app_assoc. simpl.
      symmetry. apply take_while_app_stop. unfold non_space. now rewrite Sp.
    - destruct (at_end s) eqn:Ha.
      + split; [exact I|]. split; [reflexivity|]. split; [lia|].
        unfold rest. now rewrite (inv_end _ _ I Ha), app_nil_r.
      + destruct (shift_some s I Ha) as (s' & more & Hsh & I' & Av & R & _ & Mu). rewrite Hsh.
        rewrite <- R. apply IH; [exact I'|lia].
  Qed.

  (* ------------------------------------------------------------------------------------------ *)
  (* one operation *)
  (* ReadLine, ReadDelimited, ReadWordSameLine, get and peek answer exactly as the specification; the number readers
     and SkipSpaces may answer an exhausted input with a failure / a normal return instead of end of input *)
  Definition exact_op (o : op) : bool :=
    match o with OLine _ _ | ODelim | OWord | OGet | OPeek => true | _ => false end.
  Definition agree_op (o : op) (r0 r : res) : Prop := if exact_op o then r = r0 else res_agree r0 r.

  Lemma agree_op_res_agree : forall o r0 r, agree_op o r0 r -> res_agree r0 r.
  Proof. intros o r0 r H. unfold agree_op in H. destruct (exact_op o); [now left|exact H]. Qed.

  Definition step_ok (o : op) (s : fp) : Prop :=
    let '(r, s') := run_op v o s in
    let '(r0, rest') := spec_op o (rest s) in
    Inv total s' /\ rest s' = rest' /\ agree_op o r0 r.

  Lemma res_agree_refl : forall r, res_agree r r.
  Proof. intros. now left. Qed.

  Lemma line_ok : forall d st s, Inv total s -> step_ok (OLine d st) s.
  Proof.
    intros d st s I. unfold step_ok. simpl. unfold read_line.
    pose proof (read_line_loop_spec (fuel_of s) d st 0 s I (Nat.le_0_l _) eq_refl (mu_fuel s I)) as (I' & E).
    destruct (read_line_loop v (fuel_of s) d st 0 s) as [r s']. simpl in *.
    destruct (spec_line d st (rest s)) as [r0 rest']. inversion E; subst. split3; [exact I'|reflexivity|reflexivity].
  Qed.

  Lemma skip_ok : forall s, Inv total s -> step_ok OSkip s.
  Proof.
    intros s I. unfold step_ok. simpl. unfold skip_spaces, spec_skip.
    pose proof (skip_spaces_loop_spec (fuel_of s) is_space s I (mu_fuel s I)) as H.
    destruct (skip_spaces_loop v (fuel_of s) is_space s) as [u s'|s'|]; [| |contradiction].
    - destruct H as (I' & R). rewrite <- R. destruct (rest s') eqn:Er.
      + split3; [exact I'|reflexivity|]. right. split; [reflexivity|now right].
      + split3; [exact I'|reflexivity|apply res_agree_refl].
    - destruct H as (I' & R1 & R2). rewrite R2. split3; [exact I'|exact R1|apply res_agree_refl].
  Qed.

  Lemma delim_ok : forall s, Inv total s -> step_ok ODelim s.
  Proof.
    intros s I. unfold step_ok. simpl. unfold read_delimited, spec_delimited.
    pose proof (skip_spaces_loop_spec (fuel_of s) is_space s I (mu_fuel s I)) as H.
    destruct (skip_spaces_loop v (fuel_of s) is_space s) as [u s1|s1|]; [| |contradiction].
    - destruct H as (I1 & R1). rewrite <- R1.
      pose proof (consume_to_delim_spec is_space s1 I1) as (I2 & C).
      destruct (consume_to_delim v is_space s1) as [r s2]. simpl in *.
      destruct (rest s1) eqn:Er.
      + destruct C as (C1 & C2). subst r. split3; [exact I2|exact C2|reflexivity].
      + destruct C as (C1 & C2). subst r. split3; [exact I2|exact C2|reflexivity].
    - destruct H as (I1 & R1 & R2). rewrite R2. split3; [exact I1|exact R1|reflexivity].
  Qed.

  Lemma word_ok : forall s, Inv total s -> step_ok OWord s.
  Proof.
    intros s I. unfold step_ok. simpl. unfold read_word_same_line, spec_word_same_line.
    change (fun b => is_space b && negb (b =? 10)%N) with (word_gap is_space).
    pose proof (word_skip_loop_spec (fuel_of s) is_space s I (mu_fuel s I)) as H.
    destruct (word_skip_loop v (fuel_of s) is_space s) as [[|] s1|s1|]; [| |contradiction|contradiction].
    - destruct H as (I1 & R1 & b & t & Rb & Db). rewrite <- R1, Rb, Db. rewrite <- Rb.
      pose proof (consume_to_delim_spec is_space s1 I1) as (I2 & C).
      destruct (consume_to_delim v is_space s1) as [r s2]. simpl in *. rewrite Rb in C. rewrite <- Rb in C.
      destruct C as (C1 & C2). subst r. split3; [exact I2|exact C2|reflexivity].
    - destruct H as (I1 & R1 & [Hn|(b & t & Rb & Db)]); rewrite <- R1.
      + rewrite Hn. split3; [exact I1|reflexivity|reflexivity].
      + rewrite Rb, Db. split3; [exact I1|reflexivity|reflexivity].
  Qed.

  Lemma number_ok : forall k s, Inv total s ->
    let '(r, s') := read_number v k s in
    let '(r0, rest') := spec_number k (rest s) in
    Inv total s' /\ rest s' = rest' /\ res_agree r0 r.
  Proof.
    intros k s I. unfold read_number, spec_number.
    pose proof (skip_spaces_loop_spec (fuel_of s) is_space s I (mu_fuel s I)) as H.
    destruct (skip_spaces_loop v (fuel_of s) is_space s) as [u s1|s1|]; [| |contradiction].
    - destruct H as (I1 & R1). rewrite <- R1.
      pose proof (number_loop_spec (fuel_of s1) s1 I1 (mu_fuel s1 I1)) as H2.
      destruct (number_loop v (fuel_of s1) s1) as [w s2|s2|]; [|contradiction|contradiction].
      destruct H2 as (I2 & R2 & Lw & Tw).
      rewrite (parse_number_cut k w), Tw.
      destruct (rest s1) as [|b t] eqn:Er.
      + (* exhausted: the parser sees the empty string *)
        simpl. rewrite parse_number_nil. split3; [exact I2|now rewrite R2|]. right. split; [reflexivity|now left].
      + rewrite <- Er in *. unfold spec_parse. rewrite <- (parse_number_repaired k).
        rewrite <- (parse_number_cut k (rest s1)). rewrite (parse_number_cut k (rest s1)).
        destruct (parse_number v k (take_while non_space (rest s1))) as [[r c]|] eqn:Ep.
        * assert (Hc : c <= length (avail s2)).
          { apply parse_number_count in Ep. rewrite <- Tw in Ep. pose proof (take_while_length_le non_space w). lia. }
          split3; [now apply advance_inv|rewrite rest_advance by exact Hc; now rewrite R2|apply res_agree_refl].
        * split3; [exact I2|exact R2|apply res_agree_refl].
    - destruct H as (I1 & R1 & R2). rewrite R2. split3; [exact I1|exact R1|apply res_agree_refl].
  Qed.

  Lemma peek_spec : forall s, Inv total s ->
    Inv total (snd (peek v s)) /\ rest (snd (peek v s)) = rest s /\
    match rest s with
    | [] => fst (peek v s) = REof
    | b :: _ => fst (peek v s) = RChar b /\ 1 <= length (avail (snd (peek v s)))
    end.
  Proof.
    intros s I. unfold peek. destruct (avail s) as [|b t] eqn:Ea.
    - destruct (at_end s) eqn:Ha.
      + rewrite shift_none by exact Ha. simpl. split; [exact I|]. split; [reflexivity|].
        unfold rest. rewrite Ea, (inv_end _ _ I Ha). reflexivity.
      + destruct (shift_some s I Ha) as (s' & more & Hsh & I' & Av & R & Me & _). rewrite Hsh, Hfp.
        rewrite Ea in Av. simpl in Av.
        destruct (avail s') as [|x xs] eqn:Eav.
        * simpl. split; [exact I'|]. split; [exact R|]. rewrite <- R. unfold rest. rewrite Eav.
          rewrite (inv_end _ _ I') by (apply Me; congruence). reflexivity.
        * simpl. split; [exact I'|]. split; [exact R|]. rewrite <- R. unfold rest. rewrite Eav. simpl. split; [reflexivity|lia].
    - simpl. split; [exact I|]. split; [reflexivity|]. unfold rest. rewrite Ea. simpl. split; [reflexivity|lia].
  Qed.

  Lemma peek_ok : forall s, Inv total s -> step_ok OPeek s.
  Proof.
    intros s I. unfold step_ok. simpl. pose proof (peek_spec s I) as (I' & R & H).
    destruct (peek v s) as [r s']. simpl in *. unfold spec_peek. destruct (rest s) eqn:Er.
    - subst r. split3; [exact I'|exact R|reflexivity].
    - destruct H as (H & _). subst r. split3; [exact I'|exact R|reflexivity].
  Qed.

  Lemma get_ok : forall s, Inv total s -> step_ok OGet s.
  Proof.
    intros s I. unfold step_ok. simpl. unfold get. pose proof (peek_spec s I) as (I' & R & H).
    destruct (peek v s) as [r s']. simpl in *. unfold spec_get. destruct (rest s) eqn:Er.
    - subst r. split3; [exact I'|exact R|reflexivity].
    - destruct H as (H & L). subst r. split3; [now apply advance_inv|rewrite rest_advance by exact L; now rewrite R|reflexivity].
  Qed.

  Theorem op_refines : forall o s, Inv total s -> step_ok o s.
  Proof.
    intros o s I. destruct o.
    - now apply line_ok.
    - now apply delim_ok.
    - now apply word_ok.
    - exact (number_ok NFloat s I).
    - exact (number_ok NULong s I).
    - exact (number_ok NLong s I).
    - now apply get_ok.
    - now apply peek_ok.
    - now apply skip_ok.
  Qed.

  (* a whole operation sequence *)
  Theorem run_refines : forall ops s, Inv total s ->
    Forall2 obs_agree (spec_run total ops (rest s)) (run v ops s).
  Proof.
    induction ops as [|o ops IH]; intros s I; simpl; [constructor|].
    pose proof (op_refines o s I) as H. unfold step_ok in H.
    destruct (run_op v o s) as [r s']. destruct (spec_op o (rest s)) as [r0 rest'].
    destruct H as (I' & R & A). constructor.
    - split; [exact (agree_op_res_agree _ _ _ A)|]. simpl. pose proof (inv_off _ _ I') as O. rewrite R in O. lia.
    - rewrite <- R. now apply IH.
  Qed.
  (* sequences of exact operations: the results are equal, not merely in agreement *)
  Theorem run_refines_exact : forall ops s, Inv total s -> forallb exact_op ops = true ->
    map fst (run v ops s) = map fst (spec_run total ops (rest s)).
  Proof.
    induction ops as [|o ops IH]; intros s I E; simpl; [reflexivity|]. simpl in E. apply andb_true_iff in E as [E1 E2].
    pose proof (op_refines o s I) as H. unfold step_ok in H.
    destruct (run_op v o s) as [r s']. destruct (spec_op o (rest s)) as [r0 rest'].
    destruct H as (I' & R & A). unfold agree_op in A. rewrite E1 in A. simpl. f_equal; [exact A|].
    rewrite <- R. now apply IH.
  Qed.
End Ops.
