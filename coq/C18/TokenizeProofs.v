(* C18 -- tokenising a string in memory with TokenIter<BoolCharacter(kSpaces), true> yields exactly the words that
   successive FilePiece::ReadDelimited calls return on the same bytes (MainProofs.words), and splitting loses nothing. *)
From Coq Require Import List NArith Arith Bool Lia.
From Kenlm Require Import C18.FilePieceModel C18.ListLemmas C18.MainProofs C18.TokenizeModel.
Import ListNotations.

Lemma split_on_nonnil : forall d l, split_on d l <> [].
Proof. intros d l. destruct l as [|b r]; simpl; [discriminate|]. destruct (d b); [discriminate|]. destruct (split_on d r); discriminate. Qed.

(* joining the pieces with the delimiters that separated them gives the string back *)
Fixpoint join_with (seps : list N) (pieces : list (list N)) : list N :=
  match pieces with
  | [] => []
  | p :: ps => p ++ match ps, seps with
                    | [], _ => []
                    | _ :: _, s :: ss => s :: join_with ss ps
                    | _ :: _, [] => join_with [] ps
                    end
  end.

Theorem split_join : forall d l, join_with (filter d l) (split_on d l) = l.
Proof.
  induction l as [|b r IH]; simpl; [reflexivity|].
  destruct (split_on d r) as [|p ps] eqn:S; [exfalso; eapply split_on_nonnil; eauto|].
  destruct (d b) eqn:E.
  - simpl. f_equal. exact IH.
  - simpl in *. f_equal. exact IH.
Qed.

Lemma tokens_drop_delims : forall d l, tokens_skip_empty d l = tokens_skip_empty d (drop_while d l).
Proof.
  induction l as [|b r IH]; simpl; [reflexivity|]. destruct (d b) eqn:E; [|reflexivity].
  unfold tokens_skip_empty in *. simpl. rewrite E. simpl. exact IH.
Qed.

Lemma split_on_token : forall d tok rest, forallb (fun b => negb (d b)) tok = true ->
  split_on d (tok ++ rest) = match split_on d rest with [] => [tok] | p :: ps => (tok ++ p) :: ps end.
Proof.
  induction tok as [|b t IH]; intros rest H; simpl.
  - destruct (split_on d rest) eqn:S; [exfalso; eapply split_on_nonnil; eauto|reflexivity].
  - simpl in H. apply andb_true_iff in H as [H1 H2]. apply negb_true_iff in H1. rewrite H1.
    rewrite IH by exact H2. destruct (split_on d rest); reflexivity.
Qed.

(* a token followed by nothing or by a delimiter is the first token *)
Lemma tokens_token_cons : forall d tok r2, tok <> [] -> forallb (fun b => negb (d b)) tok = true ->
  (match r2 with [] => True | sp :: _ => d sp = true end) ->
  tokens_skip_empty d (tok ++ r2) = tok :: tokens_skip_empty d r2.
Proof.
  intros d tok r2 Hne Ht Hr. unfold tokens_skip_empty. rewrite split_on_token by exact Ht.
  destruct r2 as [|sp r3].
  - simpl. rewrite app_nil_r. destruct tok; [contradiction|reflexivity].
  - simpl. rewrite Hr. rewrite app_nil_r. simpl. destruct tok; [contradiction|reflexivity].
Qed.

Lemma words_fuel_tokens : forall n l f, length l <= n -> length l < f -> words_fuel f l = tokens_skip_empty is_space l.
Proof.
  induction n as [|n IH]; intros l f Hn Hf.
  - destruct l; [|simpl in Hn; lia]. destruct f; [lia|reflexivity].
  - destruct f as [|f]; [lia|].
    change (words_fuel (S f) l) with (match drop_while is_space l with
                                      | [] => []
                                      | r1 => take_while non_space r1 :: words_fuel f (drop_while non_space r1)
                                      end).
    rewrite tokens_drop_delims.
    pose proof (drop_while_length is_space l) as L1.
    destruct (drop_while is_space l) as [|b t] eqn:E; [reflexivity|].
    pose proof (drop_while_head _ _ _ _ E) as Hb. cbv beta iota.
    remember (b :: t) as r1 eqn:Er1.
    assert (Ht : forallb (fun x => negb (is_space x)) (take_while non_space r1) = true) by (apply (take_while_forallb non_space)).
    assert (Hne : take_while non_space r1 <> []) by (subst r1; simpl; unfold non_space at 1; rewrite Hb; discriminate).
    assert (L3 : length (drop_while non_space r1) < length r1).
    { subst r1. simpl. unfold non_space at 1. rewrite Hb. simpl. pose proof (drop_while_length non_space t). lia. }
    assert (Hr : match drop_while non_space r1 with [] => True | sp :: _ => is_space sp = true end).
    { destruct (drop_while non_space r1) as [|sp r3] eqn:E2; [exact I|].
      pose proof (drop_while_head _ _ _ _ E2) as H. unfold non_space in H. now apply negb_false_iff in H. }
    transitivity (tokens_skip_empty is_space (take_while non_space r1 ++ drop_while non_space r1));
      [|now rewrite take_drop_while].
    rewrite (tokens_token_cons is_space _ _ Hne Ht Hr). cbv zeta. f_equal.
    apply IH; lia.
Qed.

Theorem tokeniter_words : forall l, tokens_skip_empty is_space l = words l.
Proof. intros l. unfold words. symmetry. apply (words_fuel_tokens (length l)); lia. Qed.
