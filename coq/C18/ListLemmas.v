(* C18 -- list facts used by the refinement proof: scanning functions over concatenations. *)
From Coq Require Import List NArith Arith Bool Lia.
From Kenlm Require Import C18.FilePieceModel.
Import ListNotations.

Lemma take_drop_while : forall p l, take_while p l ++ drop_while p l = l.
Proof. induction l as [|b r IH]; simpl; [reflexivity|]. destruct (p b); simpl; [now rewrite IH|reflexivity]. Qed.

Lemma run_len_take_while : forall p l, length (take_while p l) = run_len p l.
Proof. induction l as [|b r IH]; simpl; [reflexivity|]. destruct (p b); simpl; [now rewrite IH|reflexivity]. Qed.

Lemma take_while_firstn : forall p l, take_while p l = firstn (run_len p l) l.
Proof. induction l as [|b r IH]; simpl; [reflexivity|]. destruct (p b); simpl; [now rewrite IH|reflexivity]. Qed.

Lemma drop_while_skipn : forall p l, drop_while p l = skipn (run_len p l) l.
Proof. induction l as [|b r IH]; simpl; [reflexivity|]. destruct (p b); simpl; [now rewrite IH|reflexivity]. Qed.

Lemma run_len_le : forall p l, run_len p l <= length l.
Proof. induction l as [|b r IH]; simpl; [lia|]. destruct (p b); simpl; lia. Qed.

Lemma take_while_all : forall p l, forallb p l = true -> take_while p l = l.
Proof. induction l as [|b r IH]; simpl; [reflexivity|]. intros H. apply andb_true_iff in H as [H1 H2]. rewrite H1. now rewrite IH. Qed.

Lemma take_while_forallb : forall p l, forallb p (take_while p l) = true.
Proof. induction l as [|b r IH]; simpl; [reflexivity|]. destruct (p b) eqn:E; simpl; [now rewrite E, IH|reflexivity]. Qed.

Lemma drop_while_head : forall p l b t, drop_while p l = b :: t -> p b = false.
Proof.
  induction l as [|c r IH]; simpl; intros b t H; [discriminate|].
  destruct (p c) eqn:E; [eauto|]. inversion H; subst. exact E.
Qed.

Lemma take_while_app_all : forall p l1 l2, forallb p l1 = true -> take_while p (l1 ++ l2) = l1 ++ take_while p l2.
Proof.
  induction l1 as [|b r IH]; simpl; intros l2 H; [reflexivity|].
  apply andb_true_iff in H as [H1 H2]. rewrite H1. now rewrite IH.
Qed.

Lemma drop_while_app_all : forall p l1 l2, forallb p l1 = true -> drop_while p (l1 ++ l2) = drop_while p l2.
Proof.
  induction l1 as [|b r IH]; simpl; intros l2 H; [reflexivity|].
  apply andb_true_iff in H as [H1 H2]. rewrite H1. now apply IH.
Qed.

Lemma run_len_app_all : forall p l1 l2, forallb p l1 = true -> run_len p (l1 ++ l2) = length l1 + run_len p l2.
Proof.
  induction l1 as [|b r IH]; simpl; intros l2 H; [reflexivity|].
  apply andb_true_iff in H as [H1 H2]. rewrite H1. now rewrite IH.
Qed.

(* a scan that stops inside (or at the end of) l1 because the byte after l1 stops it *)
Lemma take_while_app_stop : forall p l1 b l2, p b = false -> take_while p (l1 ++ b :: l2) = take_while p l1.
Proof.
  induction l1 as [|c r IH]; simpl; intros b l2 H; [now rewrite H|].
  destruct (p c); [now rewrite IH|reflexivity].
Qed.

Lemma run_len_lt_stop : forall p l, run_len p l < length l -> p (nth (run_len p l) l 0%N) = false.
Proof.
  induction l as [|b r IH]; simpl; intros H; [lia|].
  destruct (p b) eqn:E; simpl; [apply IH; lia|exact E].
Qed.

Lemma skipn_run_len_head : forall p l b t, skipn (run_len p l) l = b :: t -> p b = false.
Proof. intros p l b t H. rewrite <- drop_while_skipn in H. eapply drop_while_head; eauto. Qed.

Lemma forallb_firstn_run_len : forall p l, forallb p (firstn (run_len p l) l) = true.
Proof. intros. rewrite <- take_while_firstn. apply take_while_forallb. Qed.

(* find_idx *)
Lemma find_idx_none_forallb : forall p l, find_idx p l = None <-> forallb (fun b => negb (p b)) l = true.
Proof.
  induction l as [|b r IH]; simpl; [tauto|].
  destruct (p b); simpl; [split; discriminate|].
  destruct (find_idx p r); simpl in *.
  - split; [discriminate|]. intros H. apply IH in H. discriminate.
  - split; [|reflexivity]. intros _. apply IH. reflexivity.
Qed.

Lemma find_idx_some : forall p l k, find_idx p l = Some k ->
  k < length l /\ p (nth k l 0%N) = true /\ forallb (fun b => negb (p b)) (firstn k l) = true.
Proof.
  induction l as [|b r IH]; simpl; intros k H; [discriminate|].
  destruct (p b) eqn:E.
  - inversion H; subst. simpl. repeat split; [lia|exact E].
  - destruct (find_idx p r) as [j|] eqn:F; simpl in H; [|discriminate]. inversion H; subst.
    destruct (IH j eq_refl) as (A & B & C). simpl. rewrite E. simpl. repeat split; [lia|exact B|exact C].
Qed.

Lemma find_idx_app_none : forall p l1 l2, find_idx p l1 = None ->
  find_idx p (l1 ++ l2) = option_map (fun k => length l1 + k) (find_idx p l2).
Proof.
  induction l1 as [|b r IH]; simpl; intros l2 H.
  - destruct (find_idx p l2); reflexivity.
  - destruct (p b); [discriminate|]. destruct (find_idx p r) eqn:F; [discriminate|].
    rewrite IH by reflexivity. destruct (find_idx p l2); reflexivity.
Qed.

Lemma find_idx_app_some : forall p l1 l2 k, find_idx p l1 = Some k -> find_idx p (l1 ++ l2) = Some k.
Proof.
  induction l1 as [|b r IH]; simpl; intros l2 k H; [discriminate|].
  destruct (p b); [exact H|]. destruct (find_idx p r) eqn:F; simpl in H; [|discriminate].
  rewrite (IH l2 n eq_refl). exact H.
Qed.

(* no hit in the first `skip` bytes, a hit at k after them *)
Lemma find_idx_skip : forall p l skip k, skip <= length l -> find_idx p (firstn skip l) = None ->
  find_idx p (skipn skip l) = Some k -> find_idx p l = Some (skip + k).
Proof.
  intros p l skip k Hs Hn Hk. rewrite <- (firstn_skipn skip l) at 1.
  rewrite find_idx_app_none by exact Hn. rewrite Hk. simpl. rewrite firstn_length. f_equal. lia.
Qed.

Lemma find_idx_skip_none : forall p l skip, find_idx p (firstn skip l) = None ->
  find_idx p (skipn skip l) = None -> find_idx p l = None.
Proof.
  intros p l skip Hn Hk. rewrite <- (firstn_skipn skip l). rewrite find_idx_app_none by exact Hn. now rewrite Hk.
Qed.

Lemma take_while_neg_find : forall p l k, find_idx p l = Some k -> take_while (fun b => negb (p b)) l = firstn k l.
Proof.
  induction l as [|b r IH]; simpl; intros k H; [discriminate|].
  destruct (p b) eqn:E; simpl.
  - inversion H. reflexivity.
  - destruct (find_idx p r) eqn:F; simpl in H; [|discriminate]. inversion H; subst. simpl. now rewrite (IH n eq_refl).
Qed.

Lemma take_while_neg_none : forall p l, find_idx p l = None -> take_while (fun b => negb (p b)) l = l.
Proof. intros p l H. apply take_while_all. now apply find_idx_none_forallb. Qed.

(* firstn / skipn bookkeeping *)
Lemma skipn_app_le : forall (A : Type) (l1 l2 : list A) n, n <= length l1 -> skipn n (l1 ++ l2) = skipn n l1 ++ l2.
Proof. intros. rewrite skipn_app. replace (n - length l1) with 0 by lia. reflexivity. Qed.

Lemma firstn_app_le : forall (A : Type) (l1 l2 : list A) n, n <= length l1 -> firstn n (l1 ++ l2) = firstn n l1.
Proof. intros. rewrite firstn_app. replace (n - length l1) with 0 by lia. simpl. now rewrite app_nil_r. Qed.

Lemma nth_app_lt : forall (l1 l2 : list N) n, n < length l1 -> nth n (l1 ++ l2) 0%N = nth n l1 0%N.
Proof. intros. now apply app_nth1. Qed.

Lemma skipn_skipn_add : forall (A : Type) (l : list A) a b, skipn a (skipn b l) = skipn (b + a) l.
Proof. intros A l a b. revert l. induction b as [|b IH]; intros l; simpl; [reflexivity|]. destruct l; [now rewrite !skipn_nil|apply IH]. Qed.

Lemma skipn_firstn_comm' : forall (A : Type) (l : list A) a b, skipn a (firstn b l) = firstn (b - a) (skipn a l).
Proof. intros. apply skipn_firstn_comm. Qed.

Lemma nth_skipn_add : forall (l : list N) a i, nth i (skipn a l) 0%N = nth (a + i) l 0%N.
Proof.
  intros l a. revert l. induction a as [|a IH]; intros l i; simpl; [reflexivity|].
  destruct l; [destruct i; reflexivity|apply IH].
Qed.

Lemma skipn_cons_nth : forall (l : list N) k b t, skipn k l = b :: t -> nth k l 0%N = b /\ k < length l /\ skipn (S k) l = t.
Proof.
  intros l k. revert l. induction k as [|k IH]; intros l b t H.
  - destruct l; simpl in H; [discriminate|]. inversion H; subst. simpl. repeat split; lia.
  - destruct l as [|c r]; simpl in H; [discriminate|]. destruct (IH r b t H) as (A & B & C). simpl. repeat split; [exact A|lia|exact C].
Qed.

Lemma skipn_nil_length : forall (A : Type) (l : list A) k, skipn k l = [] -> length l <= k.
Proof.
  intros A l k. revert l. induction k as [|k IH]; intros l H; [destruct l; [simpl; lia|discriminate]|].
  destruct l; simpl in *; [lia|]. apply IH in H. lia.
Qed.

Lemma forallb_skipn : forall (p : N -> bool) l k, forallb p l = true -> forallb p (skipn k l) = true.
Proof.
  intros p l k. revert l. induction k as [|k IH]; intros l H; [exact H|].
  destruct l; simpl in *; [reflexivity|]. apply andb_true_iff in H as [_ H]. now apply IH.
Qed.

Lemma forallb_nth : forall (p : N -> bool) l, (forall i, i < length l -> p (nth i l 0%N) = true) -> forallb p l = true.
Proof.
  induction l as [|b r IH]; intros H; [reflexivity|]. simpl. apply andb_true_iff. split.
  - apply (H 0). simpl. lia.
  - apply IH. intros i Hi. apply (H (S i)). simpl. lia.
Qed.

Lemma firstn_plus : forall (A : Type) (l : list A) a b, firstn (a + b) l = firstn a l ++ firstn b (skipn a l).
Proof.
  intros A l a. revert l. induction a as [|a IH]; intros l b; simpl; [reflexivity|].
  destruct l; simpl; [now rewrite firstn_nil|]. now rewrite IH.
Qed.
