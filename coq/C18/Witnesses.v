(* C18 -- the behaviour of the code before the three fix: commits, on the faithful model (variant `original`):
   concrete inputs, evaluated by vm_compute, on which the transcript is not a function of the input bytes.
   The same inputs are replayed against the real code by harness/py/props/c18.py (corpus/C18/cases.txt). *)
From Coq Require Import List NArith ZArith Arith Bool Lia.
From Kenlm Require Import Gen.SpacesC18 C18.FilePieceModel C18.FilePieceSpec.
Import ListNotations.

Definition bytes_a (n : nat) : list N := repeat 97%N n.

(* F11: "ab\n" then a 9000 byte line, read through a pipe with min_buffer 1 (window 8192): the second ReadLine needs a
   compaction, after which Offset() = 9001 although 9004 bytes were consumed. *)
Definition f11_data : list N := [97; 98; 10]%N ++ bytes_a 9000 ++ [10]%N.
Definition f11_ops : list op := [OLine 10%N true; OLine 10%N true].

Lemma f11_offsets_original :
  option_map (map snd) (transcript original BPipe 4096 1 f11_data [] f11_ops) = Some [3; 9001].
Proof. vm_compute. reflexivity. Qed.
Lemma f11_offsets_spec : map snd (spec_run (length f11_data) f11_ops f11_data) = [3; 9004].
Proof. vm_compute. reflexivity. Qed.
Lemma f11_offsets_repaired :
  option_map (map snd) (transcript repaired BPipe 4096 1 f11_data [] f11_ops) = Some [3; 9004].
Proof. vm_compute. reflexivity. Qed.
(* the same input through the mmap backend reports the right offsets even before the repair *)
Lemma f11_offsets_original_mmap :
  option_map (map snd) (transcript original BFile 4096 1 f11_data [] f11_ops) = Some [3; 9004].
Proof. vm_compute. reflexivity. Qed.

(* F12: a line that ends exactly at the end of the first 8192 byte map of a 12388 byte file: get() raises end of file
   although 4196 bytes remain (mmap backend); the pipe backend returns the byte. *)
Definition f12_data : list N := bytes_a 8191 ++ [10]%N ++ repeat 98%N 4196.
Definition f12_ops : list op := [OLine 10%N true; OGet; OGet].

Lemma f12_original_mmap :
  option_map (fun tr => map fst (skipn 1 tr)) (transcript original BFile 4096 1 f12_data [] f12_ops)
  = Some [REof; RChar 98%N].
Proof. vm_compute. reflexivity. Qed.
Lemma f12_original_pipe :
  option_map (fun tr => map fst (skipn 1 tr)) (transcript original BPipe 4096 1 f12_data [] f12_ops)
  = Some [RChar 98%N; RChar 98%N].
Proof. vm_compute. reflexivity. Qed.
Lemma f12_spec : map fst (skipn 1 (spec_run (length f12_data) f12_ops f12_data)) = [RChar 98%N; RChar 98%N].
Proof. vm_compute. reflexivity. Qed.

(* F13: "NaN abc def\n": ReadFloat fails when the window holds more than the token (mmap, istream) and succeeds when the
   first read() happens to end right after it (pipe: the 6 byte header "NaN ab") *)
Definition f13_data : list N := [78; 97; 78; 32; 97; 98; 99; 32; 100; 101; 102; 10]%N.
Lemma f13_original_mmap : option_map (map fst) (transcript original BFile 4096 1 f13_data [] [OFloat]) = Some [RParseErr].
Proof. vm_compute. reflexivity. Qed.
Lemma f13_original_pipe :
  option_map (map fst) (transcript original BPipe 4096 1 f13_data [] [OFloat]) = Some [RFloat KNaN [78; 97; 78]%N].
Proof. vm_compute. reflexivity. Qed.

Theorem offset_read_mode_refuted : exists data chunks ops tr,
  transcript original BPipe 4096 1 data chunks ops = Some tr /\
  map snd tr <> map snd (spec_run (length data) ops data) /\
  map fst tr = map fst (spec_run (length data) ops data).
Proof.
  exists f11_data, [], f11_ops. eexists. split; [vm_compute; reflexivity|]. split; [vm_compute; discriminate|vm_compute; reflexivity].
Qed.

Theorem peek_eof_refuted : exists data ops tr,
  transcript original BFile 4096 1 data [] ops = Some tr /\ In (REof, 8192) tr /\ length data = 12388.
Proof.
  exists f12_data, f12_ops. eexists. split; [vm_compute; reflexivity|]. split; [right; left; reflexivity|reflexivity].
Qed.

Theorem nan_window_dependent_refuted : exists data,
  option_map (map fst) (transcript original BFile 4096 1 data [] [OFloat]) <>
  option_map (map fst) (transcript original BPipe 4096 1 data [] [OFloat]).
Proof. exists f13_data. rewrite f13_original_mmap, f13_original_pipe. discriminate. Qed.
