(* C18 -- LineInput: the blocks handed downstream, put back together, are exactly the input's bytes, and every block but
   the last ends with a newline -- for every block size and every sequence of read() lengths. *)
From Coq Require Import List NArith Arith Bool Lia.
From Kenlm Require Import C18.FilePieceModel C18.ListLemmas C18.WindowProofs C18.LineInputModel.
Import ListNotations.

Definition no_nl (l : list N) : Prop := forallb (fun b => negb (b =? 10)%N) l = true.
Definition ends_nl (l : list N) : Prop := exists p, l = p ++ [10%N].

Lemma li_fill_spec : forall fuel need s g s' e, li_fill fuel need s = (g, s', e) -> need < fuel ->
  src_rest s = g ++ src_rest s' /\ length g <= need /\ (e = true -> src_rest s' = []) /\ (e = false -> length g = need).
Proof.
  induction fuel as [|f IH]; intros need s g s' e H Hf; [lia|]. simpl in H.
  destruct need as [|n].
  - inversion H; subst. simpl. split; [reflexivity|]. split; [lia|]. split; [intro; discriminate|intros; reflexivity].
  - destruct (src_read (S n) s) as [l s1] eqn:Er. apply src_read_spec in Er as (A & B & C).
    destruct l as [|x l].
    + inversion H; subst. simpl in *. split; [exact A|]. split; [lia|]. split; [|discriminate].
      intros _. destruct (C eq_refl) as [Z|Z]; [lia|]. rewrite A in Z. exact Z.
    + destruct (li_fill f (S n - length (x :: l)) s1) as [[r s2] e2] eqn:Ef. inversion H; subst; clear H.
      apply IH in Ef as (A2 & B2 & C2 & D2); [|simpl in *; lia].
      assert (Hl : length ((x :: l) ++ r) = length (x :: l) + length r) by apply app_length.
      split; [rewrite A, A2; simpl; now rewrite app_assoc|]. simpl in *.
      split; [lia|]. split; [exact C2|]. intros E. specialize (D2 E). lia.
Qed.

Lemma last_newline_spec : forall l,
  match last_newline l with
  | Some k => k < length l /\ firstn (S k) l = firstn k l ++ [10%N] /\ no_nl (skipn (S k) l)
  | None => no_nl l
  end.
Proof.
  induction l as [|b r IH]; simpl; [reflexivity|].
  destruct (last_newline r) as [k|].
  - destruct IH as (A & B & C). split; [lia|]. split; [|exact C]. simpl in *. now rewrite B.
  - destruct (N.eqb_spec b 10).
    + subst. split; [lia|]. split; [reflexivity|]. exact IH.
    + unfold no_nl in *. simpl. destruct (N.eqb_spec b 10); [contradiction|]. simpl. exact IH.
Qed.

Lemma li_cut_spec : forall block out carry, li_cut block = Some (out, carry) ->
  block = out ++ carry /\ ends_nl out /\ no_nl carry.
Proof.
  intros block out carry H. unfold li_cut in H. pose proof (last_newline_spec block) as L.
  destruct (last_newline block) as [k|]; [|discriminate]. inversion H; subst; clear H. destruct L as (A & B & C).
  split; [symmetry; exact (firstn_skipn (S k) block)|]. split; [|exact C]. exists (firstn k block). exact B.
Qed.

Lemma li_cut_none : forall block, no_nl block -> li_cut block = None.
Proof.
  intros block H. unfold li_cut. pose proof (last_newline_spec block) as L. destruct (last_newline block) as [k|]; [|reflexivity].
  exfalso. destruct L as (A & B & _). unfold no_nl in H. rewrite forallb_forall in H.
  assert (In 10%N block).
  { rewrite <- (firstn_skipn (S k) block). rewrite B. apply in_or_app. left. apply in_or_app. right. now left. }
  apply H in H0. discriminate.
Qed.

Arguments li_fill : simpl never.
Arguments li_cut : simpl never.

Lemma li_run_spec : forall fuel bs carry s acc, no_nl carry -> length (src_rest s) < fuel ->
  match li_run fuel bs carry s acc with
  | LIOk blocks => exists new, blocks = rev acc ++ new /\ concat new = carry ++ src_rest s /\ Forall ends_nl (removelast new)
  | LINoNewline _ => True
  | LIFuel => False
  end.
Proof.
  induction fuel as [|f IH]; intros bs carry s acc Hc Hf; [lia|]. simpl.
  destruct (li_fill (S (bs - length carry)) (bs - length carry) s) as [[got s'] eof] eqn:Ef.
  apply li_fill_spec in Ef as (A & B & C & D); [|lia].
  destruct eof; cbv beta iota.
  - exists [carry ++ got]. simpl. rewrite app_nil_r. split; [reflexivity|]. split; [|constructor].
    rewrite A, (C eq_refl), app_nil_r. reflexivity.
  - destruct (li_cut (carry ++ got)) as [[out carry']|] eqn:Ec; [|exact I].
    destruct (li_cut_spec _ _ _ Ec) as (E1 & E2 & E3).
    assert (Hgot : got <> []).
    { intro Z. subst got. rewrite app_nil_r in Ec. rewrite li_cut_none in Ec by exact Hc. discriminate. }
    assert (Hlen : length (src_rest s') < f).
    { rewrite A, app_length in Hf. destruct got; [contradiction|]. simpl in Hf. lia. }
    pose proof (IH bs carry' s' (out :: acc) E3 Hlen) as H.
    destruct (li_run f bs carry' s' (out :: acc)) as [blocks| |]; [|exact I|exact H].
    destruct H as (new & Hb & Hn & Hf2). exists (out :: new). split; [rewrite Hb; simpl; now rewrite <- app_assoc|].
    split.
    + simpl. rewrite Hn, A. rewrite (app_assoc out), (app_assoc carry). now rewrite E1.
    + destruct new as [|n1 nr]; [constructor|]. change (removelast (out :: n1 :: nr)) with (out :: removelast (n1 :: nr)).
      constructor; assumption.
Qed.

Theorem line_input_spec : forall bs s,
  match line_input bs s with
  | LIOk blocks => concat blocks = src_rest s /\ Forall ends_nl (removelast blocks)
  | LINoNewline _ => True
  | LIFuel => False
  end.
Proof.
  intros bs s. unfold line_input.
  pose proof (li_run_spec (S (S (length (src_rest s)))) bs [] s [] eq_refl ltac:(lia)) as H.
  destruct (li_run _ bs [] s []) as [blocks| |]; [|exact I|exact H].
  destruct H as (new & Hb & Hn & Hf). simpl in Hb. subst blocks. split; assumption.
Qed.

(* the step function alone: a full block is split into what is emitted and what is carried, nothing else *)
Theorem li_cut_partition : forall block out carry, li_cut block = Some (out, carry) ->
  block = out ++ carry /\ ends_nl out /\ no_nl carry.
Proof. exact li_cut_spec. Qed.
