(* C18 -- ReadCompressed delivers the concatenated plaintext of all members exactly, in order, whatever the split of
   the compressed bytes into read() calls, whatever the decompressor's input/output granularity and whatever the
   request sizes; it returns 0 only at the end, and for ever after. *)
From Coq Require Import List NArith Arith Bool Lia.
From Kenlm Require Import C18.FilePieceModel C18.ListLemmas C18.WindowProofs C18.ReadCompressedModel.
Import ListNotations.

Definition comps (ms : list member) : list N := concat (map m_comp ms).
Definition RInv (s : rc) : Prop := r_in s ++ r_fd s = comps (r_members s).

Lemma is_nil_true : forall (A : Type) (l : list A), is_nil l = true <-> l = [].
Proof. intros A l. destruct l; simpl; split; intros; congruence. Qed.
Lemma is_nil_false : forall (A : Type) (l : list A), is_nil l = false <-> l <> [].
Proof. intros A l. destruct l; simpl; split; intros; congruence. Qed.

Lemma open_member_spec : forall s, RInv s -> RInv (open_member s) /\ r_members (open_member s) = r_members s.
Proof.
  intros s I. unfold open_member. destruct (length (r_in s) <? kMagicSize); [|split; [exact I|reflexivity]].
  destruct (read_or_eof _ (r_fd s) (r_fdo s)) as [[g d] o] eqn:E. apply read_or_eof_complete in E as (A & _).
  split; [|reflexivity]. unfold RInv in *. simpl. rewrite <- app_assoc, <- A. exact I.
Qed.

(* the header ReadFactory examines is the first kMagicSize bytes of the remaining compressed stream, for every split of
   that stream between left-over bytes (r_in) and bytes still to be read (r_fd), and for every read() chunking *)
Lemma open_member_header : forall s,
  firstn kMagicSize (r_in (open_member s)) = firstn kMagicSize (r_in s ++ r_fd s) /\
  (r_in (open_member s) = [] <-> r_in s ++ r_fd s = []).
Proof.
  intros s. unfold open_member. destruct (length (r_in s) <? kMagicSize) eqn:El.
  - apply Nat.ltb_lt in El.
    destruct (read_or_eof _ (r_fd s) (r_fdo s)) as [[g d] o] eqn:E. apply read_or_eof_complete in E as (A & B). cbn [r_in r_fd].
    rewrite A. destruct B as [B|B].
    + split.
      * rewrite app_assoc. rewrite (firstn_app_le _ (r_in s ++ g) d) by (rewrite app_length; lia). reflexivity.
      * split; intros H.
        -- apply app_eq_nil in H as [H1 H2]. subst g. rewrite H1 in *. simpl in B. unfold kMagicSize in *. simpl in B. lia.
        -- apply app_eq_nil in H as [H1 H2]. apply app_eq_nil in H2 as [H2 _]. now rewrite H1, H2.
    + subst d. rewrite app_nil_r. split; [reflexivity|tauto].
  - apply Nat.ltb_ge in El. split.
    + now rewrite firstn_app_le by exact El.
    + split; intros H; [rewrite H in El; unfold kMagicSize in El; simpl in El; lia|apply app_eq_nil in H; tauto].
Qed.

(* every member after the first begins with the magic of its format (and is at least kMagicSize bytes long) *)
Definition wf (m : member) : Prop := kMagicSize <= length (m_comp m) /\ magic_ok (firstn kMagicSize (m_comp m)) = true.
Definition Wf (s : rc) : Prop := Forall wf (tl (r_members s)).
Definition RInv2 (s : rc) : Prop := RInv s /\ Wf s.

Lemma open_member_spec2 : forall s, RInv2 s -> RInv2 (open_member s) /\ r_members (open_member s) = r_members s.
Proof.
  intros s [I W]. destruct (open_member_spec s I) as (I' & M). split; [|exact M]. split; [exact I'|]. unfold Wf. now rewrite M.
Qed.

Lemma process_spec : forall avail room m deco cin cout deco', process avail room m deco = (cin, cout, deco') ->
  cin <= avail /\ cin <= length (m_comp m) /\ cout <= room /\ cout <= length (m_plain m) /\
  (cin = 0 -> cout = 0 -> (avail = 0 \/ m_comp m = []) /\ (room = 0 \/ m_plain m = [])).
Proof.
  intros avail room m deco cin cout deco' H. unfold process in H.
  destruct (match deco with [] => (avail, room, []) | (a, b) :: r => (a, b, r) end) as [[a b] d0].
  destruct ((Nat.min a (Nat.min avail (length (m_comp m))) =? 0) && (Nat.min b (Nat.min room (length (m_plain m))) =? 0)) eqn:Z.
  - destruct (negb (avail =? 0) && negb (is_nil (m_comp m))) eqn:P1.
    + inversion H; subst. apply andb_true_iff in P1 as [A B]. apply negb_true_iff in A, B.
      apply Nat.eqb_neq in A. apply is_nil_false in B. destruct (m_comp m); [contradiction|]. simpl.
      split; [lia|]. split; [lia|]. split; [lia|]. split; [lia|]. intros E. discriminate.
    + destruct (negb (room =? 0) && negb (is_nil (m_plain m))) eqn:P2.
      * inversion H; subst. apply andb_true_iff in P2 as [A B]. apply negb_true_iff in A, B.
        apply Nat.eqb_neq in A. apply is_nil_false in B. destruct (m_plain m); [contradiction|]. simpl.
        split; [lia|]. split; [lia|]. split; [lia|]. split; [lia|]. intros _ E. discriminate.
      * inversion H; subst. split; [lia|]. split; [lia|]. split; [lia|]. split; [lia|]. intros _ _. split.
        -- apply andb_false_iff in P1 as [A|A]; apply negb_false_iff in A;
             [left; now apply Nat.eqb_eq in A|right; now apply is_nil_true in A].
        -- apply andb_false_iff in P2 as [A|A]; apply negb_false_iff in A;
             [left; now apply Nat.eqb_eq in A|right; now apply is_nil_true in A].
  - inversion H; subst. apply andb_false_iff in Z.
    split; [lia|]. split; [lia|]. split; [lia|]. split; [lia|]. intros E1 E2. exfalso.
    destruct Z as [Z|Z]; apply Nat.eqb_neq in Z; lia.
Qed.

Definition rmeasure (s : rc) : nat := length (r_members s) + length (comps (r_members s)).

Lemma skipn_both : forall (a b c d : list N) n, a ++ b = c ++ d -> n <= length a -> n <= length c ->
  skipn n a ++ b = skipn n c ++ d.
Proof. intros a b c d n H Ha Hc. rewrite <- (skipn_app_le _ a b n Ha), <- (skipn_app_le _ c d n Hc). now rewrite H. Qed.

Lemma rc_step_spec : forall amount s, 0 < amount -> RInv2 s ->
  match rc_step amount s with
  | SDone out s' => RInv2 s' /\ rc_plain s = out ++ rc_plain s' /\ length out <= amount /\ (out = [] -> rc_plain s = [])
  | SCont s' => RInv2 s' /\ rc_plain s' = rc_plain s /\ rmeasure s' < rmeasure s
  | SErr => False
  end.
Proof.
  intros amount s Ha [I W]. unfold rc_step. unfold Wf in W.
  destruct (r_members s) as [|m ms] eqn:Em.
  - unfold rc_plain. rewrite Em. simpl. split; [split; [exact I|unfold Wf; rewrite Em; exact W]|]. repeat split; lia.
  - (* ReadInput *)
    set (s1 := if is_nil (r_in s)
               then let '(g, d, o) := read_or_eof kInputBuffer (r_fd s) (r_fdo s) in mk_rc (m :: ms) g d o (r_deco s)
               else s).
    assert (S1 : r_in s1 ++ r_fd s1 = comps (m :: ms) /\ (r_in s1 = [] -> m_comp m = [])).
    { subst s1. destruct (is_nil (r_in s)) eqn:En.
      - apply is_nil_true in En. destruct (read_or_eof kInputBuffer (r_fd s) (r_fdo s)) as [[g d] o] eqn:E.
        apply read_or_eof_complete in E as (A & B). simpl. unfold RInv in I. rewrite En, Em in I. simpl in I.
        split; [now rewrite <- A|]. intros Eg. subst g. destruct B as [B|B]; [discriminate|]. subst d. simpl in A.
        rewrite A in I. unfold comps in I. simpl in I. symmetry in I. apply app_eq_nil in I. tauto.
      - apply is_nil_false in En. unfold RInv in I. rewrite Em in I. split; [exact I|]. intros E. contradiction. }
    destruct S1 as (S1a & S1b).
    destruct (process (length (r_in s1)) amount m (r_deco s1)) as [[cin cout] deco'] eqn:Ep.
    apply process_spec in Ep as (P1 & P2 & P3 & P4 & P5).
    destruct ((cin =? 0) && (cout =? 0) && negb (is_nil (m_comp m) && is_nil (m_plain m))) eqn:Eerr.
    { (* cannot happen: input is available whenever the member still expects some, and there is room for output *)
      apply andb_true_iff in Eerr as [Z N]. apply andb_true_iff in Z as [Z1 Z2].
      apply Nat.eqb_eq in Z1, Z2. destruct (P5 Z1 Z2) as (Q1 & Q2).
      assert (Hp : m_plain m = []) by (destruct Q2; [lia|assumption]).
      assert (Hc : m_comp m = []).
      { destruct Q1 as [Q1|Q1]; [|assumption]. apply S1b. now apply length_zero_iff_nil. }
      rewrite Hp, Hc in N. discriminate. }
    cbv zeta.
    set (out := firstn cout (m_plain m)).
    set (m' := mk_member (skipn cin (m_comp m)) (skipn cout (m_plain m))).
    assert (Hplain : m_plain m = out ++ m_plain m') by (unfold out, m'; simpl; now rewrite firstn_skipn).
    assert (Hout : length out <= amount) by (unfold out; rewrite firstn_length; lia).
    assert (Hin : skipn cin (r_in s1) ++ r_fd s1 = m_comp m' ++ comps ms).
    { unfold m'. simpl. apply skipn_both; [|exact P1|exact P2]. unfold comps in S1a. simpl in S1a. exact S1a. }
    assert (Hmeas : rmeasure s = S (length ms) + (length (m_comp m) + length (comps ms))).
    { unfold rmeasure. rewrite Em. unfold comps. simpl. now rewrite app_length. }
    destruct (is_nil (m_comp m') && is_nil (m_plain m')) eqn:Efin.
    + (* the member is finished *)
      apply andb_true_iff in Efin as [F1 F2]. apply is_nil_true in F1, F2.
      set (s2 := mk_rc ms (skipn cin (r_in s1)) (r_fd s1) (r_fdo s1) deco').
      assert (I2 : RInv s2) by (unfold RInv, s2; simpl; now rewrite Hin, F1).
      destruct (open_member_spec s2 I2) as (I3 & M3).
      assert (W3 : Wf (open_member s2)).
      { unfold Wf. rewrite M3. unfold s2. simpl. simpl in W. destruct ms; [constructor|]. now inversion W. }
      assert (Hmag : negb (is_nil (r_in (open_member s2))) && negb (magic_ok (firstn kMagicSize (r_in (open_member s2)))) = false).
      { destruct (open_member_header s2) as (H1 & H2). unfold RInv in I2. simpl in W.
        destruct ms as [|m2 ms'].
        - assert (E0 : r_in (open_member s2) = []) by (apply H2; rewrite I2; reflexivity). rewrite E0. reflexivity.
        - inversion W as [|? ? [Wl Wm] _]; subst. rewrite H1, I2. unfold s2. cbn [r_members]. unfold comps. cbn [map concat].
          rewrite firstn_app_le by exact Wl. rewrite Wm. cbn [negb]. apply andb_false_r. }
      rewrite Hmag.
      assert (Pl : rc_plain s = out ++ rc_plain (open_member s2)).
      { unfold rc_plain. rewrite Em, M3. simpl. rewrite Hplain, F2, app_nil_r. reflexivity. }
      destruct out as [|x xs] eqn:Eo.
      * split; [split; [exact I3|exact W3]|]. split; [now rewrite Pl|]. unfold rmeasure at 1. rewrite M3. simpl. rewrite Hmeas. lia.
      * split; [split; [exact I3|exact W3]|]. split; [exact Pl|]. split; [exact Hout|]. intros E. discriminate.
    + (* more to come from this member *)
      set (s2 := mk_rc (m' :: ms) (skipn cin (r_in s1)) (r_fd s1) (r_fdo s1) deco').
      assert (I2 : RInv s2) by (unfold RInv, s2; simpl; unfold comps; simpl; exact Hin).
      assert (W2 : Wf s2) by (unfold Wf, s2; simpl; exact W).
      assert (Pl : rc_plain s = out ++ rc_plain s2).
      { unfold rc_plain. rewrite Em. unfold s2. cbn [r_members map concat]. rewrite Hplain. symmetry. apply app_assoc. }
      destruct out as [|x xs] eqn:Eo.
      * (* nothing produced: some input was consumed *)
        assert (Hc0 : cout = 0 \/ m_plain m = []).
        { unfold out in Eo. destruct cout; [now left|]. right. destruct (m_plain m); [reflexivity|discriminate]. }
        assert (Hcin : 0 < cin).
        { destruct (Nat.eq_dec cin 0) as [Z|Z]; [|lia]. exfalso.
          apply andb_false_iff in Eerr. destruct Eerr as [E1|E1].
          - apply andb_false_iff in E1 as [E1|E1]; apply Nat.eqb_neq in E1; [contradiction|].
            destruct Hc0 as [Hc0|Hc0]; [contradiction|]. rewrite Hc0 in P4. simpl in P4. lia.
          - apply negb_false_iff in E1. apply andb_true_iff in E1 as [E1 E2]. apply is_nil_true in E1, E2.
            unfold m' in Efin. simpl in Efin. rewrite E1, E2 in Efin. rewrite !skipn_nil in Efin. discriminate. }
        split; [split; [exact I2|exact W2]|]. split; [now rewrite Pl|].
        unfold rmeasure at 1. unfold s2. simpl. rewrite Hmeas. unfold comps. simpl. rewrite app_length, skipn_length.
        fold (comps ms). lia.
      * split; [split; [exact I2|exact W2]|]. split; [exact Pl|]. split; [exact Hout|]. intros E. discriminate.
Qed.

Lemma rc_read_loop_spec : forall fuel amount s, 0 < amount -> RInv2 s -> rmeasure s < fuel ->
  exists out s', rc_read_loop fuel amount s = ROk out s' /\ RInv2 s' /\ rc_plain s = out ++ rc_plain s' /\
                 length out <= amount /\ (out = [] -> rc_plain s = []).
Proof.
  induction fuel as [|f IH]; intros amount s Ha I Hm; [lia|]. simpl.
  pose proof (rc_step_spec amount s Ha I) as H.
  destruct (rc_step amount s) as [out s'|s'|]; [| |contradiction].
  - destruct H as (I' & P & L & Z). exists out, s'. split; [reflexivity|]. split; [exact I'|]. split; [exact P|]. split; assumption.
  - destruct H as (I' & P & M). destruct (IH amount s' Ha I' ltac:(lia)) as (o2 & s4 & R & I4 & P4 & L4 & Z4).
    exists o2, s4. rewrite <- P. split; [exact R|]. split; [exact I4|]. split; [exact P4|]. split; assumption.
Qed.

(* what a sequence of Read calls must look like for a given plaintext: in order, nothing lost or repeated, never more
   than asked for, empty only when nothing was asked for or nothing is left -- hence empty for ever after the end *)
Fixpoint good_reads (plain : list N) (reqs : list nat) (chunks : list (list N)) : Prop :=
  match reqs, chunks with
  | [], [] => True
  | a :: rt, c :: ct => length c <= a /\ (c = [] -> a = 0 \/ plain = []) /\
                        exists plain', plain = c ++ plain' /\ good_reads plain' rt ct
  | _, _ => False
  end.

Lemma rc_read_spec : forall amount s, RInv2 s ->
  exists out s', rc_read amount s = ROk out s' /\ RInv2 s' /\ rc_plain s = out ++ rc_plain s' /\
                 length out <= amount /\ (out = [] -> amount = 0 \/ rc_plain s = []).
Proof.
  intros amount s I. unfold rc_read. destruct (amount =? 0) eqn:E.
  - apply Nat.eqb_eq in E. exists [], s. split; [reflexivity|]. split; [exact I|]. split; [reflexivity|]. split; [simpl; lia|]. intros _. now left.
  - apply Nat.eqb_neq in E.
    destruct (rc_read_loop_spec (rc_fuel s) amount s ltac:(lia) I ltac:(unfold rc_fuel, rmeasure, comps; lia))
      as (out & s' & R & I' & P & L & Z).
    exists out, s'. split; [exact R|]. split; [exact I'|]. split; [exact P|]. split; [exact L|]. intros Eo. right. now apply Z.
Qed.

Lemma rc_read_all_spec : forall reqs s, RInv2 s ->
  exists chunks, rc_read_all reqs s = Some chunks /\ good_reads (rc_plain s) reqs chunks.
Proof.
  induction reqs as [|a rt IH]; intros s I; simpl.
  - exists []. split; [reflexivity|exact Logic.I].
  - destruct (rc_read_spec a s I) as (out & s' & R & I' & P & L & Z). rewrite R.
    destruct (IH s' I') as (ct & Rt & G). rewrite Rt. simpl. exists (out :: ct). split; [reflexivity|].
    simpl. split; [exact L|]. split; [exact Z|]. exists (rc_plain s'). split; [exact P|exact G].
Qed.

Theorem members_concat : forall members fdo deco reqs, Forall wf (tl members) ->
  exists chunks, rc_read_all reqs (rc_open members fdo deco) = Some chunks /\
                 good_reads (concat (map m_plain members)) reqs chunks.
Proof.
  intros members fdo deco reqs Hw. unfold rc_open.
  set (s0 := mk_rc members [] (concat (map m_comp members)) fdo deco).
  assert (I0 : RInv2 s0) by (split; [unfold RInv, s0, comps; reflexivity|exact Hw]).
  destruct (open_member_spec2 s0 I0) as (I1 & M1).
  destruct (rc_read_all_spec reqs (open_member s0) I1) as (chunks & R & G).
  exists chunks. split; [exact R|]. unfold rc_plain in G. rewrite M1 in G. exact G.
Qed.

(* the hypothesis is satisfiable: two minimal gzip-like members *)
Example wf_satisfiable : Forall wf (tl [mk_member [31; 139; 8; 0; 0; 0; 0]%N []; mk_member [66; 90; 104; 57; 23; 114; 69]%N [1]%N]).
Proof. repeat constructor. Qed.

(* consequences of good_reads, for readers of the statement *)
Lemma good_reads_prefix : forall reqs plain chunks, good_reads plain reqs chunks ->
  exists rest, plain = concat chunks ++ rest.
Proof.
  induction reqs as [|a rt IH]; intros plain chunks G; destruct chunks as [|c ct]; simpl in G; try contradiction.
  - exists plain. reflexivity.
  - destruct G as (_ & _ & p' & E & G). destruct (IH p' ct G) as (rest & Er). exists rest. simpl. rewrite E, Er. now rewrite app_assoc.
Qed.

Lemma good_reads_after_end : forall reqs chunks, good_reads [] reqs chunks -> Forall (fun c => c = []) chunks.
Proof.
  induction reqs as [|a rt IH]; intros chunks G; destruct chunks as [|c ct]; simpl in G; try contradiction; [constructor|].
  destruct G as (_ & _ & p' & E & G). symmetry in E. apply app_eq_nil in E as [E1 E2]. subst. constructor; [reflexivity|now apply IH].
Qed.
