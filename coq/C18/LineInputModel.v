(* C18 -- executable model of util::stream::LineInput::Run (util/stream/line_input.cc): fixed-size blocks are filled from
   ReadCompressed::Read, each full block is cut after its last newline and the partial line is carried to the front of the
   next block; at end of input the last block is whatever was gathered.  No proofs in this file.
   The reader is the C18 read source (FilePieceModel.src: any sequence of read() lengths). *)
From Coq Require Import List NArith Arith Bool.
From Kenlm Require Import C18.FilePieceModel.
Import ListNotations.

(* while (to != end) { got = reader.Read(to, end - to); if (!got) EOF; to += got; }   -> (bytes gathered, source, eof seen) *)
Fixpoint li_fill (fuel need : nat) (s : src) : list N * src * bool :=
  match fuel with
  | 0 => ([], s, false)
  | S f =>
    match need with
    | 0 => ([], s, false)
    | S _ => let '(l, s') := src_read need s in
             match l with
             | [] => ([], s', true)
             | _ :: _ => let '(r, s'', e) := li_fill f (need - length l) s' in (l ++ r, s'', e)
             end
    end
  end.

(* index of the last newline of a block, searched backwards from its end *)
Fixpoint last_newline (l : list N) : option nat :=
  match l with
  | [] => None
  | b :: r => match last_newline r with
              | Some k => Some (S k)
              | None => if (b =? 10)%N then Some 0 else None
              end
  end.

(* one full block: (what is handed downstream, carry for the next block); None = "Did not find a newline in ... bytes" *)
Definition li_cut (block : list N) : option (list N * list N) :=
  match last_newline block with
  | Some k => Some (firstn (S k) block, skipn (S k) block)
  | None => None
  end.

Inductive li_res := LIOk (blocks : list (list N)) | LINoNewline (blocks : list (list N)) | LIFuel.

Fixpoint li_run (fuel block_size : nat) (carry : list N) (s : src) (acc : list (list N)) : li_res :=
  match fuel with
  | 0 => LIFuel
  | S f =>
    let '(got, s', eof) := li_fill (S (block_size - length carry)) (block_size - length carry) s in
    let block := carry ++ got in
    if eof then LIOk (rev (block :: acc))                       (* block->SetValidSize(to - begin); poison *)
    else match li_cut block with
         | None => LINoNewline (rev acc)
         | Some (out, carry') => li_run f block_size carry' s' (out :: acc)
         end
  end.

Definition line_input (block_size : nat) (s : src) : li_res :=
  li_run (S (S (length (src_rest s)))) block_size [] s [].
