(* C18 -- executable model of util::FilePiece (util/file_piece.{hh,cc}) over the read source of
   util/read_compressed.cc.  No proofs in this file.

   What is modelled, line by line from the source:
     * the window  [data_.begin(), position_end_)  as a real byte list `buf`, position_ and last_space_ as
       indices into it, mapped_offset_, default_map_size_, at_end_, fallback_to_read_;
     * Shift / MMapShift (page rounding, doubling on a repeated request, at_end_ computation, the mmap
       failure for an empty file) / TransitionToRead / ReadShift (reset, doubling, compaction, append);
     * ReadLine, FindDelimiterOrEOF (resume after a shift at position_ + skip), SkipSpaces, ReadDelimited,
       ReadWordSameLine, ReadNumber (wait for a delimiter inside the window, terminator hallucinated at
       EOF), peek, get, Offset;
     * the read source: ReadFactory's 6 byte header (ReadOrEOF), UncompressedWithHeader, Uncompressed
       (PartialRead = one read() whose length the environment chooses), IStreamReader and the
       decompressors (a source that delivers between 1 and `amount` bytes while data remain).
   The three repairs made in /repo are switchable (record `variant`) so that the behaviour of the
   unrepaired code stays available for the `_refuted` theorems:
     fix_offset  ReadShift's compaction branch adds the discarded prefix to mapped_offset_      (F11)
     fix_peek    peek() reports end of file when no byte is left, not when at_end_ is set       (F12)
     fix_nan     ParseNumber compares the characters the converter consumed with "NaN", not the
                 whole window up to the last space                                              (F13)
   The environment enters as data, never as an axiom: the chunk oracle (lengths offered by successive
   read() calls), the page size and min_buffer are arguments. *)
From Coq Require Import List NArith ZArith Arith Bool.
From Kenlm Require Import Gen.SpacesC18.
Import ListNotations.

Record variant := mk_variant { fix_offset : bool; fix_peek : bool; fix_nan : bool }.
Definition original : variant := mk_variant false false false.
Definition repaired : variant := mk_variant true true true.

(* ---------------------------------------------------------------------------------------------- *)
(* bytes and character classes *)
Definition is_space (b : N) : bool := nth (N.to_nat b) c18_kSpaces false.     (* util::kSpaces, regenerated *)
Definition non_space (b : N) : bool := negb (is_space b).
Definition is_digit (b : N) : bool := (48 <=? b)%N && (b <=? 57)%N.

Fixpoint take_while (p : N -> bool) (l : list N) : list N :=
  match l with [] => [] | b :: r => if p b then b :: take_while p r else [] end.
Fixpoint drop_while (p : N -> bool) (l : list N) : list N :=
  match l with [] => [] | b :: r => if p b then drop_while p r else l end.
Fixpoint run_len (p : N -> bool) (l : list N) : nat :=          (* length of the leading run *)
  match l with [] => 0 | b :: r => if p b then S (run_len p r) else 0 end.
Fixpoint find_idx (p : N -> bool) (l : list N) : option nat :=   (* first index satisfying p *)
  match l with [] => None | b :: r => if p b then Some 0 else option_map S (find_idx p r) end.
Fixpoint starts_with (pre l : list N) : bool :=
  match pre, l with [], _ => true | a :: p, b :: r => (a =? b)%N && starts_with p r | _ :: _, [] => false end.
Fixpoint list_eqb (a b : list N) : bool :=
  match a, b with [], [] => true | x :: p, y :: q => (x =? y)%N && list_eqb p q | _, _ => false end.

(* ---------------------------------------------------------------------------------------------- *)
(* results *)
Inductive fkind := KNum | KInf | KNaN.
Inductive res :=
| RBytes (l : list N)                 (* StringPiece *)
| RChar (c : N)
| RInt (z : Z)
| RFloat (k : fkind) (span : list N)  (* the characters the converter consumed; its value is the environment's *)
| RUnit | RFalse | REof | RParseErr | ROutOfFuel.

(* ---------------------------------------------------------------------------------------------- *)
(* the read source (util/read_compressed.cc) *)
(* what one read() system call can do: deliver bytes (the environment picks how many: between 1 and the amount asked for
   while data remain), or be interrupted by a signal before anything arrived (-1 / EINTR) *)
Inductive outcome := Bytes (n : nat) | Interrupted.
Definition oracle := list outcome.          (* outcomes of the next read() calls; [] = full reads from then on *)

Record src := mk_src { s_hdr : list N;        (* UncompressedWithHeader: header bytes not yet handed out *)
                       s_data : list N;       (* bytes the descriptor / decompressor will still deliver *)
                       s_oracle : oracle }.   (* outcomes of the next read() calls *)
Definition src_rest (s : src) : list N := s_hdr s ++ s_data s.

(* util::PartialRead:  do { ret = read(fd, to, amount); } while (ret == -1 && errno == EINTR);   an interrupted call is
   retried, it is never reported as "0 bytes" (which every caller takes for end of input) *)
Fixpoint partial_read (amt : nat) (data : list N) (o : oracle) : list N * list N * oracle :=
  match o with
  | [] => (firstn amt data, skipn amt data, [])
  | Interrupted :: r => partial_read amt data r
  | Bytes c :: r => let n := Nat.min amt (Nat.max 1 c) in (firstn n data, skipn n data, r)
  end.

(* the same oracle without the interruptions *)
Fixpoint strip_interrupts (o : oracle) : oracle :=
  match o with
  | [] => []
  | Interrupted :: r => strip_interrupts r
  | Bytes c :: r => Bytes c :: strip_interrupts r
  end.

Definition src_read (amt : nat) (s : src) : list N * src :=
  match s_hdr s with
  | _ :: _ => let n := Nat.min amt (length (s_hdr s)) in
              (firstn n (s_hdr s), mk_src (skipn n (s_hdr s)) (s_data s) (s_oracle s))
  | [] => let '(l, d, o) := partial_read amt (s_data s) (s_oracle s) in (l, mk_src [] d o)
  end.

(* util::ReadOrEOF(fd, to, amount): repeat PartialRead until amount bytes or a 0 return.  Every round
   delivers at least one byte, so `amount` rounds always suffice (Proofs: read_or_eof_complete). *)
Fixpoint read_or_eof_loop (fuel amt : nat) (data : list N) (o : oracle) : list N * list N * oracle :=
  match fuel with
  | 0 => ([], data, o)
  | S f =>
    match amt with
    | 0 => ([], data, o)
    | S _ => let '(l, d, o') := partial_read amt data o in
             match l with
             | [] => ([], d, o')
             | _ :: _ => let '(g, d2, o2) := read_or_eof_loop f (amt - length l) d o' in (l ++ g, d2, o2)
             end
    end
  end.
Definition read_or_eof (amt : nat) := read_or_eof_loop amt amt.

Definition kMagicSize : nat := 6.
(* ReadFactory on an uncompressed descriptor: read the 6 byte header, then serve it first *)
Definition open_fd (data : list N) (o : oracle) : src :=
  let '(h, d, o') := read_or_eof kMagicSize data o in mk_src h d o'.
(* IStreamReader / a decompressor chain: no header, the oracle stands for the sizes it happens to return *)
Definition open_stream (data : list N) (o : oracle) : src := mk_src [] data o.

(* ---------------------------------------------------------------------------------------------- *)
(* FilePiece *)
Record fp := mk_fp {
  buf : list N;        (* bytes [data_.begin(), position_end_) *)
  pos : nat;           (* position_ - data_.begin() *)
  ls : nat;            (* last_space_ + 1 - data_.begin();  ls <= pos  <->  last_space_ < position_ *)
  mo : nat;            (* mapped_offset_ *)
  dms : nat;           (* default_map_size_ *)
  at_end : bool;       (* at_end_ *)
  fallback : bool;     (* fallback_to_read_ *)
  mapped : bool;       (* position_ != NULL *)
  page : nat;          (* kPageSize *)
  file : list N;       (* what the descriptor holds (mmap backend: the mapped file; total_size_ = its length) *)
  source : src;        (* fell_back_ *)
  fuel : nat           (* not part of the code: bound on the Shift calls one operation can make (length of the input + 2),
                          fixed by the constructor; the theorems show it is never exhausted *)
}.

Definition set_pos (s : fp) (p : nat) : fp :=
  mk_fp (buf s) p (ls s) (mo s) (dms s) (at_end s) (fallback s) (mapped s) (page s) (file s) (source s) (fuel s).
Definition set_ls (s : fp) (l : nat) : fp :=
  mk_fp (buf s) (pos s) l (mo s) (dms s) (at_end s) (fallback s) (mapped s) (page s) (file s) (source s) (fuel s).

Definition avail (s : fp) : list N := skipn (pos s) (buf s).          (* [position_, position_end_) *)
Definition advance (k : nat) (s : fp) : fp := set_pos s (pos s + k).  (* position_ += k *)
Definition offset (s : fp) : nat := pos s + mo s.                     (* FilePiece::Offset() *)
Definition future (s : fp) : list N :=                                (* bytes not yet in the window *)
  if fallback s then src_rest (source s) else skipn (mo s + length (buf s)) (file s).
Definition rest (s : fp) : list N := avail s ++ future s.             (* the input that remains *)

(* for (last_space_ = position_end_ - 1; last_space_ >= position_; --last_space_) if (kSpaces[*last_space_]) break;
   as 1 + index of the last space of the list, 0 when there is none *)
Fixpoint last_space_rel (l : list N) : nat :=
  match l with
  | [] => 0
  | b :: r => match last_space_rel r with 0 => if is_space b then 1 else 0 | S k => S (S k) end
  end.

Definition transition_to_read (fdpos : nat) (s : fp) : fp :=
  mk_fp [] 0 (ls s) (mo s) (dms s) (at_end s) true true (page s) (file s)
        (open_fd (skipn fdpos (file s)) (s_oracle (source s))) (fuel s).

Definition mmap_shift (desired : nat) (s : fp) : fp :=
  let ignore := desired mod page s in
  let dms' := if (pos s =? ignore) && mapped s then 2 * dms s else dms s in
  let moff := desired - ignore in
  let remaining := length (file s) - moff in
  let '(ae, size) := if remaining <=? dms' then (true, remaining) else (false, dms') in
  if size =? 0 then
    (* mmap(length 0) fails with EINVAL: at_end_ = false; TransitionToRead() *)
    transition_to_read desired
      (mk_fp (buf s) (pos s) (ls s) (mo s) dms' false (fallback s) (mapped s) (page s) (file s) (source s) (fuel s))
  else
    mk_fp (firstn size (skipn moff (file s))) ignore (ls s) moff dms' ae (fallback s) true (page s) (file s) (source s) (fuel s).

Section Variant.
  Variable v : variant.

  Definition read_shift (s : fp) : fp :=
    (* if (position_ == position_end_) { mapped_offset_ += position_end_ - data_.begin(); position_ = position_end_ = begin } *)
    let '(b1, p1, m1) := if pos s =? length (buf s) then ([], 0, mo s + length (buf s)) else (buf s, pos s, mo s) in
    let already := length b1 in
    let '(b2, p2, m2, d2) :=
      if already =? dms s then
        if p1 =? 0 then (b1, p1, m1, 2 * dms s)                                    (* HugeRealloc *)
        else (skipn p1 b1, 0, (if fix_offset v then m1 + p1 else m1), dms s)      (* memmove *)
      else (b1, p1, m1, dms s) in
    let '(l, src') := src_read (d2 - length b2) (source s) in
    mk_fp (b2 ++ l) p2 (ls s) m2 d2 (match l with [] => true | _ => at_end s end) (fallback s) (mapped s)
          (page s) (file s) src' (fuel s).

  (* None = EndOfFileException *)
  Definition shift (s : fp) : option fp :=
    if at_end s then None else
    let desired := pos s + mo s in
    let s1 := if fallback s then s else mmap_shift desired s in
    let s2 := if fallback s1 then read_shift s1 else s1 in
    Some (set_ls s2 (pos s2 + last_space_rel (avail s2))).

  (* ------------------------------------------------------------------------------------------ *)
  Inductive lres (A : Type) := LOk (a : A) (s : fp) | LEof (s : fp) | LFuel.
  Arguments LOk {A}. Arguments LEof {A}. Arguments LFuel {A}.

  Definition fuel_of (s : fp) : nat := fuel s.

  (* ReadLine(delim, strip_cr) *)
  Fixpoint read_line_loop (fuel : nat) (delim : N) (strip : bool) (skip : nat) (s : fp) : res * fp :=
    match fuel with
    | 0 => (ROutOfFuel, s)
    | S f =>
      let a := avail s in
      match find_idx (N.eqb delim) (skipn skip a) with
      | Some k =>
        let i := skip + k in
        let sub := if strip && (0 <? i) && (nth (i - 1) a 0 =? 13)%N then 1 else 0 in
        (RBytes (firstn (i - sub) a), advance (S i) s)
      | None =>
        if at_end s then
          match a with
          | [] => (REof, s)                                   (* Shift() throws *)
          | _ :: _ => (RBytes a, advance (length a) s)        (* Consume(position_end_) *)
          end
        else match shift s with
             | None => (REof, s)
             | Some s' => read_line_loop f delim strip (length a) s'
             end
      end
    end.
  Definition read_line (delim : N) (strip : bool) (s : fp) : res * fp :=
    read_line_loop (fuel_of s) delim strip 0 s.

  (* FindDelimiterOrEOF(delim): the result is an index relative to position_ of the final state *)
  Fixpoint find_delim_loop (fuel : nat) (d : N -> bool) (skip : nat) (s : fp) : lres nat :=
    match fuel with
    | 0 => LFuel
    | S f =>
      let a := avail s in
      match find_idx d (skipn skip a) with
      | Some k => LOk (skip + k) s
      | None =>
        if at_end s then match a with [] => LEof s | _ :: _ => LOk (length a) s end
        else match shift s with
             | None => LEof s
             | Some s' => find_delim_loop f d (length a) s'
             end
      end
    end.

  (* SkipSpaces(delim): the per-byte loop, taken one run of delimiters at a time *)
  Fixpoint skip_spaces_loop (fuel : nat) (d : N -> bool) (s : fp) : lres unit :=
    match fuel with
    | 0 => LFuel
    | S f =>
      let a := avail s in
      let k := run_len d a in
      let s1 := advance k s in
      match skipn k a with
      | _ :: _ => LOk tt s1                                          (* a byte that is not a delimiter *)
      | [] => match shift s1 with                                    (* position_ == position_end_ *)
              | None => LEof s1
              | Some s' => match avail s' with [] => LOk tt s' | _ :: _ => skip_spaces_loop f d s' end
              end
      end
    end.
  Definition skip_spaces (d : N -> bool) (s : fp) : res * fp :=
    match skip_spaces_loop (fuel_of s) d s with
    | LOk _ s' => (RUnit, s') | LEof s' => (REof, s') | LFuel => (ROutOfFuel, s)
    end.

  Definition consume_to_delim (d : N -> bool) (s : fp) : res * fp :=
    match find_delim_loop (fuel_of s) d 0 s with
    | LOk k s' => (RBytes (firstn k (avail s')), advance k s')
    | LEof s' => (REof, s')
    | LFuel => (ROutOfFuel, s)
    end.

  Definition read_delimited (d : N -> bool) (s : fp) : res * fp :=
    match skip_spaces_loop (fuel_of s) d s with
    | LOk _ s1 => consume_to_delim d s1
    | LEof s1 => (REof, s1)
    | LFuel => (ROutOfFuel, s)
    end.

  (* ReadWordSameLine(to, delim) *)
  Fixpoint word_skip_loop (fuel : nat) (d : N -> bool) (s : fp) : lres bool :=   (* true: a word starts at position_ *)
    match fuel with
    | 0 => LFuel
    | S f =>
      let a := avail s in
      let k := run_len (fun b => d b && negb (b =? 10)%N) a in
      let s1 := advance k s in
      match skipn k a with
      | b :: _ => LOk (negb (d b)) s1                  (* not a delimiter: break; otherwise it is '\n': return false *)
      | [] => match shift s1 with
              | None => LOk false s1                   (* catch (EndOfFileException) return false *)
              | Some s' => match avail s' with [] => LOk false s' | _ :: _ => word_skip_loop f d s' end
              end
      end
    end.
  Definition read_word_same_line (d : N -> bool) (s : fp) : res * fp :=
    match word_skip_loop (fuel_of s) d s with
    | LOk true s1 => consume_to_delim d s1
    | LOk false s1 => (RFalse, s1)
    | LEof s1 => (REof, s1)
    | LFuel => (ROutOfFuel, s)
    end.

  (* ---- numbers ---- *)
  (* the window handed to ParseNumber when a space follows position_ inside it: [position_, last_space_) *)
  Definition num_view (s : fp) : option (list N) :=
    if ls s <=? pos s then None else Some (firstn (ls s - 1 - pos s) (avail s)).

  Fixpoint number_loop (fuel : nat) (s : fp) : lres (list N) :=
    match fuel with
    | 0 => LFuel
    | S f =>
      match num_view s with
      | Some w => LOk w s
      | None => if at_end s then LOk (avail s) s            (* std::string buffer(position_, position_end_) *)
                else match shift s with None => LEof s | Some s' => number_loop f s' end
      end
    end.

  (* strtol / strtoul, base 10, on a window that starts with a non-space byte *)
  Definition digit_val (b : N) : Z := Z.of_N b - 48.
  (* the value of a digit string, saturating above 2^64 (anything there is ERANGE for both strtol and strtoul) *)
  Definition digits_val (l : list N) : Z :=
    fold_left (fun acc b => if (2 ^ 64 <=? acc)%Z then acc else acc * 10 + digit_val b)%Z l 0%Z.
  Definition split_sign (l : list N) : bool * nat * list N :=   (* negative?, sign length, tail *)
    match l with
    | c :: r => if (c =? 45)%N then (true, 1, r) else if (c =? 43)%N then (false, 1, r) else (false, 0, l)
    | [] => (false, 0, [])
    end.
  Definition parse_long (w : list N) : option (res * nat) :=
    let '(neg, sl, t) := split_sign w in
    let ds := take_while is_digit t in
    match ds with
    | [] => None                                                       (* end == str.data() *)
    | _ :: _ => let z := if neg then (- digits_val ds)%Z else digits_val ds in
                if ((- 2 ^ 63 <=? z) && (z <? 2 ^ 63))%Z then Some (RInt z, sl + length ds) else None   (* ERANGE *)
    end.
  Definition parse_ulong (w : list N) : option (res * nat) :=
    let '(neg, sl, t) := split_sign w in
    let ds := take_while is_digit t in
    match ds with
    | [] => None
    | _ :: _ => let z := digits_val ds in
                if (z <? 2 ^ 64)%Z then Some (RInt (if neg then (2 ^ 64 - z) mod 2 ^ 64 else z)%Z, sl + length ds)
                else None                                               (* ERANGE *)
    end.

  (* the grammar StringToDoubleConverter accepts with ALLOW_TRAILING_JUNK | ALLOW_LEADING_SPACES, "inf", "NaN":
     Some (kind, processed_characters_count), None = junk *)
  Definition exp_len (t : list N) : nat :=
    match t with
    | e :: r => if ((e =? 101) || (e =? 69))%N then
                  let '(_, sgl, r') := split_sign r in
                  let ed := take_while is_digit r' in
                  match ed with [] => 0 | _ :: _ => 1 + sgl + length ed end
                else 0
    | [] => 0
    end.
  (* "." digits*: (characters, digits, what follows) *)
  Definition frac_part (t2 : list N) : nat * nat * list N :=
    match t2 with
    | c :: r => if (c =? 46)%N then let fr := take_while is_digit r in (1 + length fr, length fr, skipn (length fr) r)
                else (0, 0, t2)
    | [] => (0, 0, [])
    end.
  Definition scan_float (l : list N) : option (fkind * nat) :=
    let '(_, sl, t1) := split_sign l in
    match t1 with
    | [] => None
    | c :: _ =>
      if (c =? 105)%N then (if starts_with [105; 110; 102]%N t1 then Some (KInf, sl + 3) else None)
      else if (c =? 78)%N then (if starts_with [78; 97; 78]%N t1 then Some (KNaN, sl + 3) else None)
      else
        let ip := take_while is_digit t1 in
        let t2 := skipn (length ip) t1 in
        let '(fl, nfrac, t3) := frac_part t2 in
        if (length ip + nfrac =? 0) then None
        else Some (KNum, sl + length ip + fl + exp_len t3)
    end.

  Definition nan_text : list N := [78; 97; 78]%N.
  Definition nan_lower : list N := [110; 97; 110]%N.
  (* ParseNumber(StringPiece str, float/double &): the converters are taken to read no further than the first
     kSpaces byte (they stop at the first byte outside the grammar above; no kSpaces byte is in it) *)
  Definition parse_float (w : list N) : option (res * nat) :=
    let tok := take_while non_space w in
    match scan_float tok with
    | Some (KNaN, c) =>
      if fix_nan v then (if list_eqb (firstn c tok) nan_text then Some (RFloat KNaN (firstn c tok), c) else None)
      else (if list_eqb w nan_text then Some (RFloat KNaN (firstn c tok), c) else None)
    | Some (k, c) => Some (RFloat k (firstn c tok), c)
    | None =>
      if fix_nan v then None
      else if list_eqb w nan_text || list_eqb w nan_lower then Some (RFloat KNaN [], 0) else None
    end.

  Inductive numkind := NLong | NULong | NFloat.
  Definition parse_number (k : numkind) (w : list N) : option (res * nat) :=
    match k with NLong => parse_long w | NULong => parse_ulong w | NFloat => parse_float w end.

  Definition read_number (k : numkind) (s : fp) : res * fp :=
    match skip_spaces_loop (fuel_of s) is_space s with
    | LEof s1 => (REof, s1)
    | LFuel => (ROutOfFuel, s)
    | LOk _ s1 =>
      match number_loop (fuel_of s1) s1 with
      | LEof s2 => (REof, s2)
      | LFuel => (ROutOfFuel, s1)
      | LOk w s2 => match parse_number k w with
                    | None => (RParseErr, s2)
                    | Some (r, count) => (r, advance count s2)
                    end
      end
    end.

  (* peek / get *)
  Definition peek (s : fp) : res * fp :=
    match avail s with
    | b :: _ => (RChar b, s)
    | [] => match shift s with
            | None => (REof, s)
            | Some s' =>
              if (if fix_peek v then match avail s' with [] => true | _ => false end else at_end s') then (REof, s')
              else (RChar (hd 0%N (avail s')), s')
            end
    end.
  Definition get (s : fp) : res * fp :=
    match peek s with
    | (RChar b, s') => (RChar b, advance 1 s')
    | other => other
    end.

  (* ------------------------------------------------------------------------------------------ *)
  Inductive op :=
  | OLine (delim : N) (strip : bool)      (* ReadLine / ReadLineOrEOF *)
  | ODelim | OWord | OFloat | OULong | OLong | OGet | OPeek | OSkip.

  Definition run_op (o : op) (s : fp) : res * fp :=
    match o with
    | OLine d st => read_line d st s
    | ODelim => read_delimited is_space s
    | OWord => read_word_same_line is_space s
    | OFloat => read_number NFloat s
    | OULong => read_number NULong s
    | OLong => read_number NLong s
    | OGet => get s
    | OPeek => peek s
    | OSkip => skip_spaces is_space s
    end.

  (* transcript: the result of every call and Offset() after it *)
  Fixpoint run (ops : list op) (s : fp) : list (res * nat) :=
    match ops with
    | [] => []
    | o :: r => let '(x, s') := run_op o s in (x, offset s') :: run r s'
    end.

  (* ------------------------------------------------------------------------------------------ *)
  (* constructors *)
  Definition init_common (P min_buffer : nat) (data : list N) (chunks : oracle) : fp :=
    mk_fp [] 0 0 0 (P * Nat.max (min_buffer / P + 1) 2) false false false P data (mk_src [] [] chunks) (S (S (length data))).

  (* FilePiece(name) / FilePiece(fd) on a regular uncompressed file: Initialize, mmap backend, first Shift *)
  Definition init_file (P min_buffer : nat) (data : list N) (chunks : oracle) : option fp :=
    shift (init_common P min_buffer data chunks).
  (* FilePiece(fd) on a regular file whose descriptor is positioned at offset k (a header the caller consumed):
     Initialize sets mapped_offset_ = current_offset = k, the first MMapShift maps from the page below k and puts position_
     `k mod page` bytes into the map.  `data` is the whole file. *)
  Definition init_file_at (k P min_buffer : nat) (data : list N) (chunks : oracle) : option fp :=
    let s := init_common P min_buffer data chunks in
    shift (mk_fp (buf s) (pos s) (ls s) k (dms s) (at_end s) (fallback s) (mapped s) (page s) (file s) (source s) (fuel s)).
  (* FilePiece(fd) on a pipe: TransitionToRead, first Shift *)
  Definition init_pipe (P min_buffer : nat) (data : list N) (chunks : oracle) : option fp :=
    shift (transition_to_read 0 (init_common P min_buffer data chunks)).
  (* FilePiece(istream), and FilePiece on a compressed file right after the magic was detected: read backend,
     empty buffer, no Shift yet; `data` is what the stream / decompressor chain delivers *)
  Definition init_stream (P min_buffer : nat) (data : list N) (chunks : oracle) : option fp :=
    let s := init_common P min_buffer data chunks in
    Some (mk_fp [] 0 0 0 (dms s) false true true P data (open_stream data chunks) (fuel s)).
  (* FilePiece(fd) on a pipe that carries compressed data: TransitionToRead (ReadFactory finds the magic and installs the
     decompressor chain, whose output is `data`), then the first Shift *)
  Definition init_pipe_stream (P min_buffer : nat) (data : list N) (chunks : oracle) : option fp :=
    let s := init_common P min_buffer data chunks in
    shift (mk_fp [] 0 0 0 (dms s) false true true P data (open_stream data chunks) (fuel s)).
  (* MMapShift when MapRead throws (mmap fails: ENODEV on file systems that cannot be mapped, EINVAL for the zero-length map
     of a procfs file, ENOMEM ...): at_end_ was already set if the window was going to reach the end of the file; the catch
     block seeks (when desired_begin != 0), clears at_end_ and calls TransitionToRead.  Only used for the first window
     (desired_begin = 0) -- see init_file_nommap. *)
  Definition mmap_shift_failed (desired : nat) (s : fp) : fp :=
    let ignore := desired mod page s in
    let dms' := if (pos s =? ignore) && mapped s then 2 * dms s else dms s in
    let moff := desired - ignore in
    let remaining := length (file s) - moff in
    let ae := remaining <=? dms' in                                  (* at_end_ = true before the failed MapRead *)
    let s_try := mk_fp (buf s) (pos s) (ls s) (mo s) dms' ae (fallback s) (mapped s) (page s) (file s) (source s) (fuel s) in
    (* catch (const util::ErrnoException &) { if (desired_begin) SeekOrThrow(...); at_end_ = false; TransitionToRead(); } *)
    transition_to_read desired
      (mk_fp (buf s_try) (pos s_try) (ls s_try) (mo s_try) (dms s_try) false (fallback s_try) (mapped s_try) (page s_try)
             (file s_try) (source s_try) (fuel s_try)).

  (* FilePiece(name) / FilePiece(fd) on a regular file whose first mmap fails: Initialize -> Shift -> MMapShift fails ->
     read backend from offset 0 (`data` is what read() delivers; for procfs total_size_ is 0 although data is not empty --
     the model does not need total_size_ on this path) *)
  Definition init_file_nommap (P min_buffer : nat) (data : list N) (chunks : oracle) : option fp :=
    let s0 := init_common P min_buffer data chunks in
    let s1 := mmap_shift_failed (pos s0 + mo s0) s0 in
    let s2 := read_shift s1 in
    Some (set_ls s2 (pos s2 + last_space_rel (avail s2))).
End Variant.

Arguments LOk {A}. Arguments LEof {A}. Arguments LFuel {A}.

Inductive backend := BFile | BPipe | BStream | BPipeStream | BFileNoMmap | BFileAt (k : nat).
Definition init (v : variant) (b : backend) (P min_buffer : nat) (data : list N) (chunks : oracle) : option fp :=
  match b with
  | BFile => init_file v P min_buffer data chunks
  | BPipe => init_pipe v P min_buffer data chunks
  | BStream => init_stream P min_buffer data chunks
  | BPipeStream => init_pipe_stream v P min_buffer data chunks
  | BFileNoMmap => init_file_nommap v P min_buffer data chunks
  | BFileAt k => init_file_at v k P min_buffer data chunks
  end.

(* where the input starts in `data` (0 except for a descriptor handed over at an offset) *)
Definition start_of (b : backend) : nat := match b with BFileAt k => k | _ => 0 end.

(* what the drivers print for one case: None when the constructor threw end of file (it cannot) *)
Definition transcript (v : variant) (b : backend) (P min_buffer : nat) (data : list N) (chunks : oracle)
           (ops : list op) : option (list (res * nat)) :=
  match init v b P min_buffer data chunks with
  | None => None
  | Some s => Some (run v ops s)
  end.
