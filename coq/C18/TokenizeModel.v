(* C18 -- util/tokenize_piece.hh: TokenIter<Find, SkipEmpty> over an in-memory string, for the single-byte finders
   (SingleCharacter, AnyCharacter, BoolCharacter).  No proofs in this file. *)
From Coq Require Import List NArith Bool.
From Kenlm Require Import C18.FilePieceModel.
Import ListNotations.

(* SkipEmpty = false: n delimiters give n + 1 pieces (possibly empty) *)
Fixpoint split_on (d : N -> bool) (l : list N) : list (list N) :=
  match l with
  | [] => [[]]
  | b :: r => if d b then [] :: split_on d r
              else match split_on d r with
                   | [] => [[b]]
                   | p :: ps => (b :: p) :: ps
                   end
  end.
Definition nonempty (p : list N) : bool := match p with [] => false | _ => true end.
(* SkipEmpty = true *)
Definition tokens_skip_empty (d : N -> bool) (l : list N) : list (list N) := filter nonempty (split_on d l).
