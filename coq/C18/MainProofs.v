(* C18 -- constructors establish the invariant; the main refinement theorem; consequences; the behaviour of the
   unrepaired code (witnesses). *)
From Coq Require Import List NArith ZArith Arith Bool Lia.
From Kenlm Require Import Gen.SpacesC18 C18.FilePieceModel C18.FilePieceSpec C18.ListLemmas C18.WindowProofs C18.OpsProofs.
Import ListNotations.

Lemma dms_init_ge : forall P mb, 0 < P -> P <= P * Nat.max (mb / P + 1) 2.
Proof. intros P mb H. assert (2 <= Nat.max (mb / P + 1) 2) by lia. nia. Qed.

(* the read-mode state right after TransitionToRead / the istream constructor *)
Lemma read_start_inv : forall ls0 d P data src fu ae_irrelevant,
  0 < P -> P <= d -> src_rest src = data -> length data + 2 <= fu -> ae_irrelevant = false ->
  let s := mk_fp [] 0 ls0 0 d ae_irrelevant true true P data src fu in
  ls0 = 0 -> Inv (length data) s /\ rest s = data.
Proof.
  intros ls0 d P data src fu ae HP Hd Hs Hf Hae s Hl. subst ae ls0.
  assert (R : rest s = data) by (unfold rest, avail, future; simpl; exact Hs).
  split; [|exact R]. constructor; simpl; try lia; try discriminate.
  - now rewrite R.
  - rewrite R. exact Hf.
Qed.

Section Init.
  Variable v : variant.
  Hypothesis Hfo : fix_offset v = true.

  Lemma init_stream_inv : forall P mb data chunks, 0 < P ->
    exists s, init_stream P mb data chunks = Some s /\ Inv (length data) s /\ rest s = data.
  Proof.
    intros P mb data chunks HP. unfold init_stream, init_common. simpl. eexists. split; [reflexivity|].
    apply read_start_inv; try reflexivity; try assumption; [now apply dms_init_ge|lia].
  Qed.

  Lemma shift_keeps : forall total s, Inv total s -> at_end s = false ->
    exists s', shift v s = Some s' /\ Inv total s' /\ rest s' = rest s.
  Proof.
    intros total s I Ha. pose proof (shift_spec v Hfo total s I) as H. rewrite Ha in H.
    destruct H as (s' & Hs & Post). exists s'. split; [exact Hs|]. split; [apply Post|]. eapply shift_post_rest; eauto.
  Qed.

  Lemma init_pipe_inv : forall P mb data chunks, 0 < P ->
    exists s, init_pipe v P mb data chunks = Some s /\ Inv (length data) s /\ rest s = data.
  Proof.
    intros P mb data chunks HP. unfold init_pipe, init_common, transition_to_read. simpl.
    set (s0 := mk_fp [] 0 0 0 (P * Nat.max (mb / P + 1) 2) false true true P data (open_fd data chunks) (S (S (length data)))).
    destruct (read_start_inv 0 (P * Nat.max (mb / P + 1) 2) P data (open_fd data chunks) (S (S (length data))) false HP
                (dms_init_ge P mb HP) (open_fd_rest data chunks) ltac:(lia) eq_refl eq_refl) as (I0 & R0).
    fold s0 in I0, R0. destruct (shift_keeps _ s0 I0 eq_refl) as (s' & Hs & I' & R').
    exists s'. split; [exact Hs|]. split; [exact I'|]. now rewrite R'.
  Qed.

  Lemma init_file_inv : forall P mb data chunks, 0 < P ->
    exists s, init_file v P mb data chunks = Some s /\ Inv (length data) s /\ rest s = data.
  Proof.
    intros P mb data chunks HP. unfold init_file, init_common, shift, mmap_shift.
    cbn -[Nat.modulo Nat.div Nat.mul Nat.max Nat.leb Nat.eqb firstn skipn length last_space_rel transition_to_read read_shift set_ls avail].
    rewrite Nat.mod_0_l by lia. cbn -[Nat.modulo Nat.div Nat.mul Nat.max Nat.leb Nat.eqb firstn skipn length last_space_rel transition_to_read read_shift set_ls avail].
    change ((0 =? 0) && false) with false. cbv iota.
    rewrite !Nat.sub_0_r. set (d := P * Nat.max (mb / P + 1) 2).
    assert (Hd : P <= d) by (apply dms_init_ge; exact HP).
    destruct (length data <=? d) eqn:El.
    - destruct (length data =? 0) eqn:Ez.
      + (* the empty file: mmap fails, the read backend finds the end at once *)
        apply Nat.eqb_eq in Ez. destruct data; [|discriminate].
        unfold transition_to_read. cbn [fallback buf pos ls mo dms at_end mapped page file source fuel s_oracle skipn length].
        set (s0 := mk_fp [] 0 0 0 d false true true P [] (open_fd [] chunks) 2).
        destruct (read_start_inv 0 d P [] (open_fd [] chunks) 2 false HP Hd (open_fd_rest [] chunks) ltac:(simpl; lia) eq_refl eq_refl)
          as (I0 & R0). fold s0 in I0, R0.
        pose proof (read_shift_post v Hfo 0 s0 I0 eq_refl eq_refl) as Post.
        eexists. split; [reflexivity|]. split; [apply Post|].
        rewrite (shift_post_rest _ _ _ Post). exact R0.
      + apply Nat.eqb_neq in Ez. apply Nat.leb_le in El. cbn [fallback].
        set (s1 := mk_fp (firstn (length data) (skipn 0 data)) 0 0 0 d true false true P data (mk_src [] [] chunks) (S (S (length data)))).
        eexists. split; [reflexivity|].
        assert (Hb : buf s1 = data) by (subst s1; simpl; apply firstn_all).
        assert (Hp1 : pos s1 <= length (buf s1)) by (subst s1; simpl; lia).
        destruct (set_ls_inv_parts s1 Hp1) as (L1 & L2).
        assert (Fu : future s1 = []).
        { unfold future. subst s1. simpl. rewrite firstn_all. apply skipn_all. }
        assert (R : rest (set_ls s1 (pos s1 + last_space_rel (avail s1))) = data).
        { unfold rest. change (avail (set_ls s1 _)) with (avail s1). change (future (set_ls s1 _)) with (future s1).
          rewrite Fu, app_nil_r. unfold avail. subst s1. simpl. apply firstn_all. }
        split; [|exact R]. constructor; try assumption.
        * intros _. exact Fu.
        * rewrite R. reflexivity.
        * rewrite R. simpl. lia.
        * discriminate.
        * intros _. change (buf (set_ls s1 _)) with (buf s1). rewrite Hb. simpl.
          split; [reflexivity|]. split; [apply Nat.mod_0_l; lia|]. split; [now rewrite firstn_all|].
          split; [reflexivity|discriminate].
    - apply Nat.leb_gt in El. destruct (d =? 0) eqn:Ez; [apply Nat.eqb_eq in Ez; lia|]. cbn [fallback].
      set (s1 := mk_fp (firstn d (skipn 0 data)) 0 0 0 d false false true P data (mk_src [] [] chunks) (S (S (length data)))).
      eexists. split; [reflexivity|].
      assert (Lb : length (buf s1) = d) by (subst s1; simpl; rewrite firstn_length; lia).
      assert (Hp1 : pos s1 <= length (buf s1)) by (subst s1; simpl; lia).
      destruct (set_ls_inv_parts s1 Hp1) as (L1 & L2).
      assert (R : rest (set_ls s1 (pos s1 + last_space_rel (avail s1))) = data).
      { unfold rest. change (avail (set_ls s1 _)) with (avail s1). change (future (set_ls s1 _)) with (future s1).
        unfold avail, future. subst s1. simpl. rewrite firstn_length. replace (Nat.min d (length data)) with d by lia.
        apply firstn_skipn. }
      split; [|exact R]. constructor; try assumption.
      * discriminate.
      * rewrite R. reflexivity.
      * rewrite R. simpl. lia.
      * discriminate.
      * intros _. change (buf (set_ls s1 _)) with (buf s1). rewrite Lb. simpl.
        split; [reflexivity|]. split; [apply Nat.mod_0_l; lia|]. split; [reflexivity|].
        split; [discriminate|]. intros _. split; [lia|reflexivity].
  Qed.

  Lemma init_pipe_stream_inv : forall P mb data chunks, 0 < P ->
    exists s, init_pipe_stream v P mb data chunks = Some s /\ Inv (length data) s /\ rest s = data.
  Proof.
    intros P mb data chunks HP. unfold init_pipe_stream, init_common. simpl.
    set (s0 := mk_fp [] 0 0 0 (P * Nat.max (mb / P + 1) 2) false true true P data (open_stream data chunks) (S (S (length data)))).
    destruct (read_start_inv 0 (P * Nat.max (mb / P + 1) 2) P data (open_stream data chunks) (S (S (length data))) false HP
                (dms_init_ge P mb HP) eq_refl ltac:(lia) eq_refl eq_refl) as (I0 & R0).
    fold s0 in I0, R0. destruct (shift_keeps _ s0 I0 eq_refl) as (s' & Hs & I' & R').
    exists s'. split; [exact Hs|]. split; [exact I'|]. now rewrite R'.
  Qed.

  (* a failed first mmap lands in exactly the state a pipe starts from *)
  Lemma init_file_nommap_eq : forall P mb data chunks, 0 < P ->
    init_file_nommap v P mb data chunks = init_pipe v P mb data chunks.
  Proof.
    intros P mb data chunks HP. unfold init_file_nommap, init_pipe, mmap_shift_failed, init_common, shift, transition_to_read.
    cbn -[Nat.modulo Nat.div Nat.mul Nat.max Nat.leb Nat.eqb firstn skipn length last_space_rel read_shift set_ls avail open_fd].
    rewrite Nat.mod_0_l by lia.
    cbn -[Nat.modulo Nat.div Nat.mul Nat.max Nat.leb Nat.eqb firstn skipn length last_space_rel read_shift set_ls avail open_fd].
    reflexivity.
  Qed.

  (* any freshly made map that starts on a page boundary at or below the read position satisfies the invariant *)
  Lemma mmap_state_inv : forall P d data src fu moff ignore size ae ls0,
    0 < P -> P <= d -> moff mod P = 0 -> ignore < size -> moff + size <= length data ->
    (ae = true -> moff + size = length data) -> (ae = false -> moff + size < length data /\ size = d) ->
    length data + 2 <= fu ->
    let s1 := mk_fp (firstn size (skipn moff data)) ignore ls0 moff d ae false true P data src fu in
    let s := set_ls s1 (pos s1 + last_space_rel (avail s1)) in
    Inv (length data) s /\ rest s = skipn (moff + ignore) data.
  Proof.
    intros P d data src fu moff ignore size ae ls0 HP Hd Hal Hig Hsz Hae1 Hae0 Hfu s1 s.
    assert (Lb : length (buf s1) = size) by (subst s1; simpl; rewrite firstn_length, skipn_length; lia).
    assert (Hp1 : pos s1 <= length (buf s1)) by (rewrite Lb; subst s1; simpl; lia).
    destruct (set_ls_inv_parts s1 Hp1) as (L1 & L2).
    assert (Av : avail s1 = firstn (size - ignore) (skipn (moff + ignore) data)).
    { unfold avail. subst s1. simpl. rewrite skipn_firstn_comm, skipn_skipn_add. reflexivity. }
    assert (Fu : future s1 = skipn (moff + size) data).
    { unfold future. subst s1. simpl. rewrite firstn_length, skipn_length. f_equal. lia. }
    assert (R : rest s = skipn (moff + ignore) data).
    { unfold rest. subst s. change (avail (set_ls s1 _)) with (avail s1). change (future (set_ls s1 _)) with (future s1).
      rewrite Av, Fu. set (X := skipn (moff + ignore) data).
      replace (skipn (moff + size) data) with (skipn (size - ignore) X); [apply firstn_skipn|].
      unfold X. rewrite skipn_skipn_add. f_equal. lia. }
    split; [|exact R]. subst s. constructor; try assumption.
    - change (at_end (set_ls s1 _)) with ae. change (future (set_ls s1 _)) with (future s1). intros E.
      rewrite Fu. apply skipn_all2. specialize (Hae1 E). lia.
    - rewrite R, skipn_length. change (offset (set_ls s1 _)) with (offset s1). unfold offset. subst s1. simpl. lia.
    - rewrite R, skipn_length. change (fuel (set_ls s1 _)) with fu. lia.
    - change (fallback (set_ls s1 _)) with false. discriminate.
    - intros _. change (buf (set_ls s1 _)) with (buf s1). change (mo (set_ls s1 _)) with moff. change (page (set_ls s1 _)) with P.
      change (at_end (set_ls s1 _)) with ae. change (file (set_ls s1 _)) with data. change (dms (set_ls s1 _)) with d.
      change (mapped (set_ls s1 _)) with true. rewrite Lb.
      split; [reflexivity|]. split; [exact Hal|]. split; [reflexivity|]. split; [exact Hae1|]. intros E. destruct (Hae0 E). split; assumption.
  Qed.

  (* a descriptor handed over at offset k inside a regular file *)
  Lemma init_file_at_inv : forall k P mb data chunks, 0 < P -> k < length data ->
    exists s, init_file_at v k P mb data chunks = Some s /\ Inv (length data) s /\ rest s = skipn k data.
  Proof.
    intros k P mb data chunks HP Hk. unfold init_file_at, init_common, shift, mmap_shift.
    cbn -[Nat.modulo Nat.div Nat.mul Nat.max Nat.leb Nat.eqb Nat.sub firstn skipn length last_space_rel transition_to_read read_shift set_ls avail].
    rewrite andb_false_r. set (d := P * Nat.max (mb / P + 1) 2).
    assert (Hd : P <= d) by (apply dms_init_ge; exact HP).
    set (ignore := k mod P). set (moff := k - ignore).
    assert (Hil : ignore < P) by (apply Nat.mod_upper_bound; lia).
    assert (Hile : ignore <= k) by (apply Nat.mod_le; lia).
    assert (Hmk : moff + ignore = k) by (unfold moff; lia).
    assert (Hal : moff mod P = 0).
    { unfold moff, ignore. pose proof (Nat.div_mod_eq k P) as E.
      replace (k - k mod P) with (P * (k / P)) by lia. rewrite Nat.mul_comm. apply Nat.mod_mul. lia. }
    destruct (length data - moff <=? d) eqn:El.
    - apply Nat.leb_le in El. destruct (length data - moff =? 0) eqn:Ez; [apply Nat.eqb_eq in Ez; lia|].
      cbn [fallback].
      destruct (mmap_state_inv P d data (mk_src [] [] chunks) (S (S (length data))) moff ignore (length data - moff) true 0
                  HP Hd Hal ltac:(lia) ltac:(lia) ltac:(intros; lia) ltac:(intros E; discriminate) ltac:(lia)) as (I1 & R1).
      eexists. split; [reflexivity|]. split; [exact I1|]. rewrite R1, Hmk. reflexivity.
    - apply Nat.leb_gt in El. destruct (d =? 0) eqn:Ez; [apply Nat.eqb_eq in Ez; lia|].
      cbn [fallback].
      destruct (mmap_state_inv P d data (mk_src [] [] chunks) (S (S (length data))) moff ignore d false 0
                  HP Hd Hal ltac:(lia) ltac:(lia) ltac:(intros E; discriminate) ltac:(intros; split; [lia|reflexivity]) ltac:(lia)) as (I1 & R1).
      eexists. split; [reflexivity|]. split; [exact I1|]. rewrite R1, Hmk. reflexivity.
  Qed.

  (* BFileAt k needs the descriptor to sit inside the file *)
  Definition at_ok (b : backend) (data : list N) : Prop := match b with BFileAt k => k < length data | _ => True end.

  Theorem init_inv : forall b P mb data chunks, 0 < P -> at_ok b data ->
    exists s, init v b P mb data chunks = Some s /\ Inv (length data) s /\ rest s = skipn (start_of b) data.
  Proof.
    intros b P mb data chunks HP Hok. destruct b; simpl.
    - now apply init_file_inv.
    - now apply init_pipe_inv.
    - now apply init_stream_inv.
    - now apply init_pipe_stream_inv.
    - rewrite init_file_nommap_eq by exact HP. now apply init_pipe_inv.
    - now apply init_file_at_inv.
  Qed.
End Init.

(* ---------------------------------------------------------------------------------------------- *)
(* the main theorem, for any variant with the three repairs *)
Theorem window_refines_spec : forall v, fix_offset v = true -> fix_peek v = true -> fix_nan v = true ->
  forall b P mb data chunks ops, 0 < P -> at_ok b data ->
  exists tr, transcript v b P mb data chunks ops = Some tr /\
             Forall2 obs_agree (spec_run (length data) ops (skipn (start_of b) data)) tr.
Proof.
  intros v Hfo Hfp Hfn b P mb data chunks ops HP Hok.
  destruct (init_inv v Hfo b P mb data chunks HP Hok) as (s & Hi & I & R).
  unfold transcript. rewrite Hi. eexists. split; [reflexivity|].
  pose proof (run_refines v Hfo Hfp Hfn (length data) ops s I) as H. rewrite R in H. exact H.
Qed.

(* the specification never says "out of fuel", so neither does the model *)
Lemma spec_op_no_fuel : forall o r, fst (spec_op o r) <> ROutOfFuel.
Proof.
  intros o r. destruct o; simpl.
  - unfold spec_line. destruct (find_idx _ r); simpl; [discriminate|]. destruct r; discriminate.
  - unfold spec_delimited. destruct (drop_while is_space r); discriminate.
  - unfold spec_word_same_line. destruct (drop_while _ r); [discriminate|]. destruct (is_space n); discriminate.
  - unfold spec_number. destruct (drop_while is_space r); [discriminate|].
    destruct (spec_parse NFloat _) as [[x c]|] eqn:E; [|discriminate]. simpl.
    unfold spec_parse in E. simpl in E. unfold parse_float in E. simpl in E.
    destruct (scan_float _) as [[k c0]|]; [|discriminate]. destruct k; try (inversion E; discriminate).
    destruct (list_eqb _ _); inversion E; discriminate.
  - unfold spec_number. destruct (drop_while is_space r); [discriminate|].
    destruct (spec_parse NULong _) as [[x c]|] eqn:E; [|discriminate]. simpl.
    unfold spec_parse in E. simpl in E. unfold parse_ulong in E.
    destruct (split_sign _) as [[ng sl] t]. destruct (take_while is_digit t); [discriminate|].
    apply if_some_inv in E. apply (f_equal fst) in E. unfold fst in E. rewrite <- E. discriminate.
  - unfold spec_number. destruct (drop_while is_space r); [discriminate|].
    destruct (spec_parse NLong _) as [[x c]|] eqn:E; [|discriminate]. simpl.
    unfold spec_parse in E. simpl in E. unfold parse_long in E.
    destruct (split_sign _) as [[ng sl] t]. destruct (take_while is_digit t); [discriminate|].
    apply if_some_inv in E. apply (f_equal fst) in E. unfold fst in E. rewrite <- E. discriminate.
  - destruct r; discriminate.
  - destruct r; discriminate.
  - unfold spec_skip. destruct (drop_while is_space r); discriminate.
Qed.

Lemma spec_run_no_fuel : forall total ops r, Forall (fun x => fst x <> ROutOfFuel) (spec_run total ops r).
Proof.
  induction ops as [|o ops IH]; intros r; simpl; [constructor|].
  pose proof (spec_op_no_fuel o r) as H. destruct (spec_op o r) as [x r']. constructor; [exact H|apply IH].
Qed.

Lemma forall2_no_fuel : forall l l', Forall2 obs_agree l l' -> Forall (fun x => fst x <> ROutOfFuel) l ->
  Forall (fun x => fst x <> ROutOfFuel) l'.
Proof.
  induction 1 as [|x y l l' A F IH]; intros N; [constructor|]. inversion N; subst. constructor; [|now apply IH].
  destruct A as (A & _). intro E. destruct A as [A|(A & [B|B])].
  - rewrite A in E. contradiction.
  - rewrite B in E. discriminate.
  - rewrite B in E. discriminate.
Qed.

Theorem fuel_suffices : forall v, fix_offset v = true -> fix_peek v = true -> fix_nan v = true ->
  forall b P mb data chunks ops tr, 0 < P -> at_ok b data -> transcript v b P mb data chunks ops = Some tr ->
  Forall (fun x => fst x <> ROutOfFuel) tr.
Proof.
  intros v Hfo Hfp Hfn b P mb data chunks ops tr HP Hok Ht.
  destruct (window_refines_spec v Hfo Hfp Hfn b P mb data chunks ops HP Hok) as (tr' & Ht' & F).
  rewrite Ht in Ht'. inversion Ht'; subst tr'. clear Ht'.
  eapply forall2_no_fuel; [exact F|apply spec_run_no_fuel].
Qed.

(* ---------------------------------------------------------------------------------------------- *)
(* nothing after the end: once the remaining input is empty every call reports end / fails / returns no data,
   and the offset stays at the length of the input *)
Definition no_data (r : res) : Prop := r = REof \/ r = RParseErr \/ r = RUnit \/ r = RFalse.

Lemma spec_op_nil : forall o, spec_op o [] = (REof, []) \/ spec_op o [] = (RFalse, []).
Proof. intros o. destruct o; simpl; auto. Qed.

Theorem after_eof : forall v, fix_offset v = true -> fix_peek v = true -> fix_nan v = true ->
  forall total ops s, Inv total s -> rest s = [] ->
  Forall (fun x => no_data (fst x) /\ snd x = total) (run v ops s).
Proof.
  intros v Hfo Hfp Hfn total ops. induction ops as [|o ops IH]; intros s I R; simpl; [constructor|].
  pose proof (op_refines v Hfo Hfp Hfn total o s I) as H. unfold step_ok in H.
  destruct (run_op v o s) as [r s']. rewrite R in H.
  destruct (spec_op_nil o) as [E|E]; rewrite E in H; destruct H as (I' & R' & A); apply agree_op_res_agree in A.
  - constructor; [|now apply IH]. simpl. split.
    + destruct A as [A|(_ & [B|B])]; subst; unfold no_data; auto.
    + pose proof (inv_off _ _ I') as O. rewrite R' in O. simpl in O. lia.
  - constructor; [|now apply IH]. simpl. split.
    + destruct A as [A|(A & _)]; [subst; unfold no_data; auto|discriminate].
    + pose proof (inv_off _ _ I') as O. rewrite R' in O. simpl in O. lia.
Qed.

(* ---------------------------------------------------------------------------------------------- *)
(* tokens are never split, merged or lost: n calls of ReadDelimited return the first n words of the input
   (maximal runs of non-space bytes, in order), then end of input *)
Fixpoint words_fuel (fuel : nat) (l : list N) : list (list N) :=
  match fuel with
  | 0 => []
  | S f => match drop_while is_space l with
           | [] => []
           | r1 => take_while non_space r1 :: words_fuel f (drop_while non_space r1)
           end
  end.
Definition words (l : list N) : list (list N) := words_fuel (S (length l)) l.

Fixpoint expect_words (n : nat) (ws : list (list N)) : list res :=
  match n with
  | 0 => []
  | S k => match ws with [] => REof :: expect_words k [] | w :: t => RBytes w :: expect_words k t end
  end.

Lemma drop_while_length : forall p l, length (drop_while p l) <= length l.
Proof. intros. rewrite drop_while_skipn, skipn_length. lia. Qed.

Lemma words_fuel_enough : forall f1 f2 l, length l < f1 -> length l < f2 -> words_fuel f1 l = words_fuel f2 l.
Proof.
  induction f1 as [|f1 IH]; intros f2 l H1 H2; [lia|]. destruct f2 as [|f2]; [lia|]. simpl.
  destruct (drop_while is_space l) as [|b t] eqn:E; [reflexivity|]. f_equal.
  pose proof (drop_while_length is_space l) as L1. rewrite E in L1.
  assert (L2 : length (drop_while non_space (b :: t)) < length (b :: t)).
  { pose proof (drop_while_head _ _ _ _ E) as Hb. simpl. unfold non_space at 1. rewrite Hb. simpl.
    pose proof (drop_while_length non_space t). lia. }
  apply IH; simpl in *; lia.
Qed.

Lemma spec_delims_words : forall total n r,
  map fst (spec_run total (repeat ODelim n) r) = expect_words n (words r).
Proof.
  induction n as [|n IH]; intros r; [reflexivity|]. simpl repeat. simpl spec_run. unfold spec_delimited.
  unfold words. simpl words_fuel.
  destruct (drop_while is_space r) as [|b t] eqn:E.
  - simpl. f_equal. rewrite IH. unfold words. simpl. reflexivity.
  - simpl. f_equal. rewrite IH. f_equal. unfold words.
    change (fun b0 : N => negb (is_space b0)) with non_space.
    pose proof (drop_while_length is_space r) as L1. rewrite E in L1.
    assert (L2 : length (drop_while non_space (b :: t)) < length (b :: t)).
    { pose proof (drop_while_head _ _ _ _ E) as Hb. simpl. unfold non_space at 1. rewrite Hb. simpl.
      pose proof (drop_while_length non_space t). lia. }
    apply words_fuel_enough; simpl in *; unfold non_space in *; lia.
Qed.

Theorem no_split_merge : forall v, fix_offset v = true -> fix_peek v = true -> fix_nan v = true ->
  forall b P mb data chunks n, 0 < P -> at_ok b data ->
  exists tr, transcript v b P mb data chunks (repeat ODelim n) = Some tr /\
             map fst tr = expect_words n (words (skipn (start_of b) data)).
Proof.
  intros v Hfo Hfp Hfn b P mb data chunks n HP Hok.
  destruct (init_inv v Hfo b P mb data chunks HP Hok) as (s & Hi & I & R).
  unfold transcript. rewrite Hi. eexists. split; [reflexivity|].
  rewrite <- (spec_delims_words (length data) n (skipn (start_of b) data)).
  pose proof (run_refines_exact v Hfo Hfp Hfn (length data) (repeat ODelim n) s I) as H. rewrite R in H. apply H.
  clear. induction n; simpl; [reflexivity|assumption].
Qed.

(* ---------------------------------------------------------------------------------------------- *)
Lemma forall2_offsets : forall l l1 l2, Forall2 obs_agree l l1 -> Forall2 obs_agree l l2 -> map snd l1 = map snd l2.
Proof.
  induction l as [|x l IH]; intros l1 l2 H1 H2; inversion H1; inversion H2; subst; [reflexivity|].
  simpl. f_equal; [|now apply IH].
  match goal with A : obs_agree x ?a, B : obs_agree x ?b |- _ => destruct A as (_ & A); destruct B as (_ & B); congruence end.
Qed.

Theorem transparent : forall b1 b2 P mb1 mb2 data chunks1 chunks2 ops, 0 < P ->
  at_ok b1 data -> at_ok b2 data -> start_of b1 = start_of b2 ->
  exists tr1 tr2, transcript repaired b1 P mb1 data chunks1 ops = Some tr1 /\
                  transcript repaired b2 P mb2 data chunks2 ops = Some tr2 /\
                  Forall2 obs_agree (spec_run (length data) ops (skipn (start_of b1) data)) tr1 /\
                  Forall2 obs_agree (spec_run (length data) ops (skipn (start_of b1) data)) tr2 /\
                  map snd tr1 = map snd tr2.
Proof.
  intros b1 b2 P mb1 mb2 data c1 c2 ops HP K1 K2 E.
  destruct (window_refines_spec repaired eq_refl eq_refl eq_refl b1 P mb1 data c1 ops HP K1) as (t1 & E1 & F1).
  destruct (window_refines_spec repaired eq_refl eq_refl eq_refl b2 P mb2 data c2 ops HP K2) as (t2 & E2 & F2).
  rewrite <- E in F2.
  exists t1, t2. repeat split; try assumption. eapply forall2_offsets; eauto.
Qed.

Theorem exact_ops_equal : forall b P mb data chunks ops, 0 < P -> at_ok b data -> forallb exact_op ops = true ->
  exists tr, transcript repaired b P mb data chunks ops = Some tr /\
             map fst tr = map fst (spec_run (length data) ops (skipn (start_of b) data)).
Proof.
  intros b P mb data chunks ops HP Hok E.
  destruct (init_inv repaired eq_refl b P mb data chunks HP Hok) as (s & Hi & I & R).
  unfold transcript. rewrite Hi. eexists. split; [reflexivity|].
  pose proof (run_refines_exact repaired eq_refl eq_refl eq_refl (length data) ops s I E) as H. now rewrite R in H.
Qed.

Theorem shift_preserves_input : forall total s, Inv total s ->
  if at_end s then shift repaired s = None
  else exists s', shift repaired s = Some s' /\ Inv total s' /\ rest s' = rest s /\
                  exists more, avail s' = avail s ++ more /\ (more <> [] \/ at_end s' = true).
Proof.
  intros total s I. pose proof (shift_spec repaired eq_refl total s I) as H. destruct (at_end s); [exact H|].
  destruct H as (s' & Hs & Post). exists s'. split; [exact Hs|]. split; [apply Post|].
  split; [eapply shift_post_rest; eauto|]. destruct Post as (_ & more & A & _ & C). exists more. split; assumption.
Qed.

(* the hypotheses of after_eof are satisfiable: the state every constructor builds on the empty input *)
Example after_eof_hypotheses_satisfiable : exists s, Inv 0 s /\ rest s = [].
Proof.
  destruct (init_inv repaired eq_refl BFile 4096 1 [] [] ltac:(lia) I) as (s & _ & I & R). exists s. split; assumption.
Qed.

(* signals are invisible at the level of the transcript: a run in which read() calls are interrupted (any number of
   times, anywhere -- also before the very first byte) and the same run without the interruptions agree with the same
   specification transcript, report the same offsets, and return equal values for the exact operations *)
Theorem interrupts_invisible : forall b P mb data chunks ops, 0 < P -> at_ok b data ->
  exists tr1 tr2, transcript repaired b P mb data chunks ops = Some tr1 /\
                  transcript repaired b P mb data (strip_interrupts chunks) ops = Some tr2 /\
                  Forall2 obs_agree (spec_run (length data) ops (skipn (start_of b) data)) tr1 /\
                  Forall2 obs_agree (spec_run (length data) ops (skipn (start_of b) data)) tr2 /\
                  map snd tr1 = map snd tr2 /\
                  (forallb exact_op ops = true -> map fst tr1 = map fst tr2).
Proof.
  intros b P mb data chunks ops HP Hok.
  destruct (transparent b b P mb mb data chunks (strip_interrupts chunks) ops HP Hok Hok eq_refl) as (t1 & t2 & E1 & E2 & F1 & F2 & O).
  exists t1, t2. repeat split; try assumption. intros Ex.
  destruct (exact_ops_equal b P mb data chunks ops HP Hok Ex) as (u1 & U1 & V1).
  destruct (exact_ops_equal b P mb data (strip_interrupts chunks) ops HP Hok Ex) as (u2 & U2 & V2).
  rewrite E1 in U1. rewrite E2 in U2. inversion U1; inversion U2; subst. now rewrite V1, V2.
Qed.
