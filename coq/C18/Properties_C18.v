(* C18 -- the property theorems and nothing else.  Each is closed by `exact <lemma>`; vlib runs Print Assumptions on
   every one of them on every check run.
   Vocabulary: `transcript v backend page min_buffer input chunks ops` runs the window model of util::FilePiece
   (FilePieceModel.v) and returns, for every call, its result and Offset() after it; `spec_run` computes the same list
   from the input bytes alone (FilePieceSpec.v); `chunks` is the oracle of read() lengths; `repaired` / `original`
   select the code after / before the three fix: commits. *)
From Coq Require Import List NArith Arith.
From Kenlm Require Import C18.FilePieceModel C18.FilePieceSpec C18.WindowProofs C18.OpsProofs C18.MainProofs C18.Witnesses
  C18.ReadCompressedModel C18.ReadCompressedProofs C18.TokenizeModel C18.TokenizeProofs C18.LineInputModel C18.LineInputProofs.
Import ListNotations.

(* `start_of b` is 0 for every backend except BFileAt k (a regular file handed over as a descriptor positioned at offset k,
   behind a header the caller consumed): there the input is `skipn k data`, offsets stay absolute, and at_ok asks k < length.
   MAIN: for every input, every read() chunking, every min_buffer, every page size, all three backends and every
   finite sequence of calls, the values AND the offsets reported are those the specification computes from the whole
   input (agreement = equality, except that an exhausted input may be answered by a failure instead of "end"). *)
Theorem C18_window_refines_spec : forall b P min_buffer data chunks ops, 0 < P -> at_ok b data ->
  exists tr, transcript repaired b P min_buffer data chunks ops = Some tr /\
             Forall2 obs_agree (spec_run (length data) ops (skipn (start_of b) data)) tr.
Proof. exact (window_refines_spec repaired eq_refl eq_refl eq_refl). Qed.

(* ... in particular two runs that differ only in backend / chunking / min_buffer agree with the same list *)
Theorem C18_transparent : forall b1 b2 P mb1 mb2 data chunks1 chunks2 ops, 0 < P ->
  at_ok b1 data -> at_ok b2 data -> start_of b1 = start_of b2 ->
  exists tr1 tr2, transcript repaired b1 P mb1 data chunks1 ops = Some tr1 /\
                  transcript repaired b2 P mb2 data chunks2 ops = Some tr2 /\
                  Forall2 obs_agree (spec_run (length data) ops (skipn (start_of b1) data)) tr1 /\
                  Forall2 obs_agree (spec_run (length data) ops (skipn (start_of b1) data)) tr2 /\
                  map snd tr1 = map snd tr2.
Proof. exact transparent. Qed.

(* an interrupted read() (-1 / EINTR) is one of the ways a read can return: util::PartialRead retries it, so the bytes
   every reader obtains are those of the same run without the interruptions (exact, at PartialRead / ReadOrEOF /
   ReadFactory's header), and the transcript of a run with interruptions anywhere -- also before the first byte --
   agrees with the same specification transcript, with equal offsets and equal values *)
Theorem C18_partial_read_retries_interrupts : forall amt data o l d o', partial_read amt data o = (l, d, o') ->
  partial_read amt data (strip_interrupts o) = (l, d, strip_interrupts o').
Proof. exact partial_read_interrupts. Qed.

Theorem C18_header_read_ignores_interrupts : forall data o, open_fd data (strip_interrupts o) = strip_src (open_fd data o).
Proof. exact open_fd_interrupts. Qed.

Theorem C18_interrupts_invisible : forall b P mb data chunks ops, 0 < P -> at_ok b data ->
  exists tr1 tr2, transcript repaired b P mb data chunks ops = Some tr1 /\
                  transcript repaired b P mb data (strip_interrupts chunks) ops = Some tr2 /\
                  Forall2 obs_agree (spec_run (length data) ops (skipn (start_of b) data)) tr1 /\
                  Forall2 obs_agree (spec_run (length data) ops (skipn (start_of b) data)) tr2 /\
                  map snd tr1 = map snd tr2 /\
                  (forallb exact_op ops = true -> map fst tr1 = map fst tr2).
Proof. exact interrupts_invisible. Qed.

(* ReadLine / ReadDelimited / ReadWordSameLine / get / peek sequences: the results are EQUAL to the specification's *)
Theorem C18_exact_ops_equal : forall b P min_buffer data chunks ops, 0 < P -> at_ok b data -> forallb exact_op ops = true ->
  exists tr, transcript repaired b P min_buffer data chunks ops = Some tr /\
             map fst tr = map fst (spec_run (length data) ops (skipn (start_of b) data)).
Proof. exact exact_ops_equal. Qed.

(* once the input is exhausted every further call reports end / fails / returns no data; the offset stays put *)
Theorem C18_after_eof : forall total ops s, Inv total s -> rest s = [] ->
  Forall (fun x => no_data (fst x) /\ snd x = total) (run repaired ops s).
Proof. exact (after_eof repaired eq_refl eq_refl eq_refl). Qed.

(* a token is never split, merged or lost at a window boundary: n calls of ReadDelimited return the first n maximal
   runs of non-space bytes of the input, in order, then end of input *)
Theorem C18_no_split_merge : forall b P min_buffer data chunks n, 0 < P -> at_ok b data ->
  exists tr, transcript repaired b P min_buffer data chunks (repeat ODelim n) = Some tr /\
             map fst tr = expect_words n (words (skipn (start_of b) data)).
Proof. exact (no_split_merge repaired eq_refl eq_refl eq_refl). Qed.

(* the loops terminate: the bound on Shift calls built into the model is never hit *)
Theorem C18_fuel_never_exhausted : forall b P min_buffer data chunks ops tr, 0 < P -> at_ok b data ->
  transcript repaired b P min_buffer data chunks ops = Some tr -> Forall (fun x => fst x <> ROutOfFuel) tr.
Proof. exact (fuel_suffices repaired eq_refl eq_refl eq_refl). Qed.

(* one Shift: the remaining input and Offset() are unchanged (part of Inv), the window grows or the end is found *)
Theorem C18_shift_preserves_input : forall total s, Inv total s ->
  if at_end s then shift repaired s = None
  else exists s', shift repaired s = Some s' /\ Inv total s' /\ rest s' = rest s /\
                  exists more, avail s' = avail s ++ more /\ (more <> [] \/ at_end s' = true).
Proof. exact shift_preserves_input. Qed.

(* ReadOrEOF (header of ReadFactory) delivers the amount asked for unless the data ends, whatever the read() sizes *)
Theorem C18_read_or_eof_complete : forall amt data o g d o', read_or_eof amt data o = (g, d, o') ->
  data = g ++ d /\ (length g = amt \/ d = []).
Proof. exact read_or_eof_complete. Qed.

(* ReadCompressed over concatenated members (every member after the first starts with the magic of its format: wf),
   decompressors as oracles: for every split of the compressed bytes into
   read() calls (fdo), every input/output granularity of the decompressors (deco) and every sequence of request sizes,
   the calls deliver the concatenated plaintext in order, never more than asked, nothing lost or repeated, and return
   0 only when nothing was asked for or nothing is left -- hence 0 for ever after the end (good_reads spells this out) *)
Theorem C18_members_concat : forall members fdo deco reqs, Forall wf (tl members) ->
  exists chunks, rc_read_all reqs (rc_open members fdo deco) = Some chunks /\
                 good_reads (concat (map m_plain members)) reqs chunks.
Proof. exact members_concat. Qed.

(* magic recognition at a member boundary: the header ReadFactory examines is the first kMagicSize bytes of the compressed
   stream that remains, for every split of it between left-over bytes of the input buffer and bytes still to be read, and
   for every read() chunking (so a member that starts 1..5 bytes before the end of an input buffer is recognised) *)
Theorem C18_header_is_stream_prefix : forall s,
  firstn kMagicSize (r_in (open_member s)) = firstn kMagicSize (r_in s ++ r_fd s) /\
  (r_in (open_member s) = [] <-> r_in s ++ r_fd s = []).
Proof. exact open_member_header. Qed.

Theorem C18_good_reads_meaning : forall reqs plain chunks, good_reads plain reqs chunks ->
  (exists rest, plain = concat chunks ++ rest) /\ (plain = [] -> Forall (fun c => c = []) chunks).
Proof.
  intros reqs plain chunks G. split; [now apply (good_reads_prefix reqs)|]. intros E. subst. now apply (good_reads_after_end reqs).
Qed.

(* util::TokenIter over a string in memory: with BoolCharacter(kSpaces) and SkipEmpty it yields exactly the words that
   successive ReadDelimited calls return on the same bytes; without SkipEmpty the pieces and the delimiters give the
   string back (nothing lost, nothing invented) *)
Theorem C18_tokeniter_words : forall l, tokens_skip_empty is_space l = words l.
Proof. exact tokeniter_words. Qed.

Theorem C18_split_join : forall d l, join_with (filter d l) (split_on d l) = l.
Proof. exact split_join. Qed.

(* util::stream::LineInput: for every block size and every sequence of read() lengths, the blocks handed downstream put
   back together are exactly the input's bytes and every block but the last ends with a newline (unless a block-sized
   stretch has no newline at all, which the code reports as an error); the loop terminates.  The cut of one full block
   (li_cut: the step (block) -> (emitted, carry)) only partitions it. *)
Theorem C18_line_input_blocks : forall bs s,
  match line_input bs s with
  | LIOk blocks => concat blocks = src_rest s /\ Forall ends_nl (removelast blocks)
  | LINoNewline _ => True
  | LIFuel => False
  end.
Proof. exact line_input_spec. Qed.

Theorem C18_line_input_cut : forall block out carry, li_cut block = Some (out, carry) ->
  block = out ++ carry /\ ends_nl out /\ no_nl carry.
Proof. exact li_cut_partition. Qed.

(* ---- the code before the repairs (faithful model, variant `original`) ---- *)
(* F11: Offset() under-reports after a compaction in read mode *)
Theorem C18_offset_read_mode_refuted : exists data chunks ops tr,
  transcript original BPipe 4096 1 data chunks ops = Some tr /\
  map snd tr <> map snd (spec_run (length data) ops data) /\
  map fst tr = map fst (spec_run (length data) ops data).
Proof. exact offset_read_mode_refuted. Qed.

(* F12: get()/peek() report end of file in the middle of a memory-mapped file *)
Theorem C18_peek_eof_refuted : exists data ops tr,
  transcript original BFile 4096 1 data [] ops = Some tr /\
  In (REof, 8192) tr /\ length data = 12388.
Proof. exact peek_eof_refuted. Qed.

(* F13: whether ReadFloat accepts "NaN" depends on how much of the input is in the window *)
Theorem C18_nan_window_dependent_refuted : exists data,
  option_map (map fst) (transcript original BFile 4096 1 data [] [OFloat]) <>
  option_map (map fst) (transcript original BPipe 4096 1 data [] [OFloat]).
Proof. exact nan_window_dependent_refuted. Qed.
