(* C18 -- the property theorems and nothing else (under construction). *)
From Coq Require Import List NArith Arith.
From Kenlm Require Import C18.FilePieceModel C18.FilePieceSpec.
Import ListNotations.

Theorem C18_spec_get_consumes_one : forall b r, spec_get (b :: r) = (RChar b, r).
Proof. reflexivity. Qed.
