(* C18 -- executable model of util::ReadCompressed over a chain of compressed members (util/read_compressed.cc:
   ReadFactory, StreamCompressed<>::Read / ReadInput, Complete).  No proofs in this file.

   The compressed file is the concatenation of members; a member is (what remains of) its compressed bytes and of
   the plaintext its decompressor will deliver.  zlib / bzip2 / liblzma are NOT modelled: one Process() call consumes
   some of the available input and produces some output, the amounts are chosen by an oracle (a list of pairs), with
   the only guarantees a streaming decompressor gives: it does not consume more than avail_in nor produce more than
   avail_out, it makes progress when it can, and it reports the end of the stream exactly when the member's
   compressed bytes are consumed and its plaintext delivered -- leaving the unconsumed input, which seeds the next
   ReadFactory (the magic test itself is abstracted: the next bytes are the next member's). *)
From Coq Require Import List NArith Arith Bool.
From Kenlm Require Import C18.FilePieceModel.
Import ListNotations.

Record member := mk_member { m_comp : list N; m_plain : list N }.

Record rc := mk_rc {
  r_members : list member;       (* head: the member being decoded (remaining parts); [] = Complete *)
  r_in : list N;                 (* in_buffer_: bytes read from the descriptor, not yet consumed (avail_in) *)
  r_fd : list N;                 (* bytes still in the descriptor *)
  r_fdo : oracle;                (* outcomes of the next read() calls *)
  r_deco : list (nat * nat)      (* decompressor oracle: (input it wants to consume, output it wants to produce) per call *)
}.

Definition kInputBuffer : nat := 16384.
Definition is_nil {A : Type} (l : list A) : bool := match l with [] => true | _ => false end.

(* DetectMagic: gzip 1f 8b, bzip2 "BZh", xz fd "7zXZ" 00 *)
Definition magic_ok (h : list N) : bool :=
  starts_with [31; 139]%N h || starts_with [66; 90; 104]%N h || starts_with [253; 55; 122; 88; 90; 0]%N h.

(* ReadFactory(fd, raw_amount, already_data, already_size, ...): top the header up to kMagicSize bytes: the bytes read are
   appended AFTER the left-over ones (ReadOrEOF(fd, &header[original], kMagicSize - original)) *)
Definition open_member (s : rc) : rc :=
  if length (r_in s) <? kMagicSize then
    let '(g, d, o) := read_or_eof (kMagicSize - length (r_in s)) (r_fd s) (r_fdo s) in
    mk_rc (r_members s) (r_in s ++ g) d o (r_deco s)
  else s.

Definition rc_open (members : list member) (fdo : oracle) (deco : list (nat * nat)) : rc :=
  open_member (mk_rc members [] (concat (map m_comp members)) fdo deco).

(* one Process() call on member m with `avail` input bytes and `room` output bytes *)
Definition process (avail room : nat) (m : member) (deco : list (nat * nat)) : nat * nat * list (nat * nat) :=
  let '(a, b, deco') := match deco with [] => (avail, room, []) | (a, b) :: r => (a, b, r) end in
  let cin0 := Nat.min a (Nat.min avail (length (m_comp m))) in
  let cout0 := Nat.min b (Nat.min room (length (m_plain m))) in
  if (cin0 =? 0) && (cout0 =? 0) then
    (* a streaming decompressor makes progress when input is available / output is pending *)
    if negb (avail =? 0) && negb (is_nil (m_comp m)) then (1, 0, deco')
    else if negb (room =? 0) && negb (is_nil (m_plain m)) then (0, 1, deco')
    else (0, 0, deco')
  else (cin0, cout0, deco').

Inductive rres := ROk (out : list N) (s : rc) | RError | RFuel.
Inductive sres := SDone (out : list N) (s : rc) | SCont (s : rc) | SErr.

(* one round of the do { ... } while (next_out == to) loop of StreamCompressed<>::Read(to, amount, thunk), amount > 0 *)
Definition rc_step (amount : nat) (s : rc) : sres :=
  match r_members s with
  | [] => SDone [] s                                                           (* Complete::Read returns 0 *)
  | m :: ms =>
    (* if (!back_.Stream().avail_in) ReadInput(thunk); *)
    let s1 := if is_nil (r_in s)
              then let '(g, d, o) := read_or_eof kInputBuffer (r_fd s) (r_fdo s) in mk_rc (m :: ms) g d o (r_deco s)
              else s in
    let '(cin, cout, deco') := process (length (r_in s1)) amount m (r_deco s1) in
    if (cin =? 0) && (cout =? 0) && negb (is_nil (m_comp m) && is_nil (m_plain m)) then SErr   (* Z_BUF_ERROR etc. *)
    else
      let out := firstn cout (m_plain m) in
      let m' := mk_member (skipn cin (m_comp m)) (skipn cout (m_plain m)) in
      let in' := skipn cin (r_in s1) in
      if is_nil (m_comp m') && is_nil (m_plain m') then
        (* end of the member: ReplaceThis(ReadFactory(fd, next_in, avail_in, true)) *)
        let s3 := open_member (mk_rc ms in' (r_fd s1) (r_fdo s1) deco') in
        (* the header examined: empty -> Complete; a known magic -> the next decompressor; anything else ->
           CompressedException "Uncompressed data detected after a compresssed file" (require_compressed) *)
        if negb (is_nil (r_in s3)) && negb (magic_ok (firstn kMagicSize (r_in s3))) then SErr
        else
        match out with
        | [] => SCont s3                  (* return Current(thunk)->Read(to, amount, thunk) *)
        | _ :: _ => SDone out s3
        end
      else
        let s2 := mk_rc (m' :: ms) in' (r_fd s1) (r_fdo s1) deco' in
        match out with
        | [] => SCont s2                  (* while (next_out == to) *)
        | _ :: _ => SDone out s2
        end
  end.

Fixpoint rc_read_loop (fuel amount : nat) (s : rc) : rres :=
  match fuel with
  | 0 => RFuel
  | S f => match rc_step amount s with
           | SDone out s' => ROk out s'
           | SCont s' => rc_read_loop f amount s'
           | SErr => RError
           end
  end.

Definition rc_fuel (s : rc) : nat := S (S (length (r_members s) + length (concat (map m_comp (r_members s))))).

Definition rc_read (amount : nat) (s : rc) : rres :=
  if amount =? 0 then ROk [] s else rc_read_loop (rc_fuel s) amount s.

(* a sequence of Read calls with the given request sizes: the chunks returned *)
Fixpoint rc_read_all (reqs : list nat) (s : rc) : option (list (list N)) :=
  match reqs with
  | [] => Some []
  | a :: t => match rc_read a s with
              | ROk out s' => option_map (cons out) (rc_read_all t s')
              | _ => None
              end
  end.

Definition rc_plain (s : rc) : list N := concat (map m_plain (r_members s)).
