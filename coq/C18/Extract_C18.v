(* Extraction of the C18 executable model and of the specification functions (ExtrOcamlBasic only; N/Z/positive/nat
   stay inductive types).  coqc runs with cwd = /verif/coq, so the output lands in coq/extracted/. *)
From Coq Require Import List NArith ZArith Extraction ExtrOcamlBasic.
From Kenlm Require Import Gen.SpacesC18 C18.FilePieceModel C18.FilePieceSpec C18.ReadCompressedModel C18.TokenizeModel C18.LineInputModel.
Extraction Language OCaml.
Extraction "extracted/c18_model.ml" transcript spec_run original repaired rc_open rc_read_all split_on tokens_skip_empty is_space line_input open_fd open_stream.
