(* C18 -- the specification: what each FilePiece call returns and consumes as a pure function of the input
   bytes that remain.  Nothing here knows about windows, pages, reads or buffers.  The byte offset reported
   after a call is the number of input bytes consumed so far:  length input - length remaining. *)
From Coq Require Import List NArith ZArith Arith Bool.
From Kenlm Require Import C18.FilePieceModel.
Import ListNotations.

(* a line: the bytes before the first delimiter (without a final CR when asked), the delimiter is consumed;
   without a delimiter the whole rest is the last line; nothing left = end of input *)
Definition spec_line (delim : N) (strip : bool) (r : list N) : res * list N :=
  match find_idx (N.eqb delim) r with
  | Some k =>
    let line := firstn k r in
    let line' := if strip && (0 <? k) && (nth (k - 1) r 0 =? 13)%N then firstn (k - 1) r else line in
    (RBytes line', skipn (S k) r)
  | None => match r with [] => (REof, []) | _ :: _ => (RBytes r, []) end
  end.

(* a delimited word: skip delimiters, take the bytes up to the next delimiter, which is left in place *)
Definition spec_delimited (d : N -> bool) (r : list N) : res * list N :=
  match drop_while d r with
  | [] => (REof, [])
  | r1 => (RBytes (take_while (fun b => negb (d b)) r1), drop_while (fun b => negb (d b)) r1)
  end.

(* a word on the same line: skip delimiters other than newline; a newline (left in place) or the end gives false *)
Definition spec_word_same_line (d : N -> bool) (r : list N) : res * list N :=
  match drop_while (fun b => d b && negb (b =? 10)%N) r with
  | [] => (RFalse, [])
  | b :: t => if d b then (RFalse, b :: t)
              else (RBytes (take_while (fun b => negb (d b)) (b :: t)), drop_while (fun b => negb (d b)) (b :: t))
  end.

(* numbers: skip spaces; the token is everything up to the next space; the parser sees the token only *)
Definition spec_parse (k : numkind) (tok : list N) : option (res * nat) := parse_number repaired k tok.
Definition spec_number (k : numkind) (r : list N) : res * list N :=
  match drop_while is_space r with
  | [] => (REof, [])
  | r1 => match spec_parse k (take_while non_space r1) with
          | None => (RParseErr, r1)
          | Some (x, count) => (x, skipn count r1)
          end
  end.

Definition spec_get (r : list N) : res * list N := match r with [] => (REof, []) | b :: t => (RChar b, t) end.
Definition spec_peek (r : list N) : res * list N := match r with [] => (REof, []) | b :: _ => (RChar b, r) end.
Definition spec_skip (d : N -> bool) (r : list N) : res * list N :=
  match drop_while d r with [] => (REof, []) | r1 => (RUnit, r1) end.

Definition spec_op (o : op) (r : list N) : res * list N :=
  match o with
  | OLine d st => spec_line d st r
  | ODelim => spec_delimited is_space r
  | OWord => spec_word_same_line is_space r
  | OFloat => spec_number NFloat r
  | OULong => spec_number NULong r
  | OLong => spec_number NLong r
  | OGet => spec_get r
  | OPeek => spec_peek r
  | OSkip => spec_skip is_space r
  end.

Fixpoint spec_run (total : nat) (ops : list op) (r : list N) : list (res * nat) :=
  match ops with
  | [] => []
  | o :: t => let '(x, r') := spec_op o r in (x, total - length r') :: spec_run total t r'
  end.

(* When the input is exhausted the specification says "end of input"; the property text allows the
   implementation to answer that situation with end of input *or* a failure that returns no data
   (ReadULong raises ParseNumberException on the empty rest when at_end_ was not yet known, SkipSpaces
   returns normally).  Everywhere else results must be equal. *)
Definition res_agree (spec impl : res) : Prop :=
  impl = spec \/ (spec = REof /\ (impl = RParseErr \/ impl = RUnit)).
Definition obs_agree (spec impl : res * nat) : Prop := res_agree (fst spec) (fst impl) /\ snd spec = snd impl.
