(* C18 -- the window mechanics: the read source delivers its data in order, Shift preserves the remaining
   input and the reported offset and makes progress, for both backends, for every chunk oracle. *)
From Coq Require Import List NArith Arith Bool Lia.
From Kenlm Require Import Gen.SpacesC18 C18.FilePieceModel C18.ListLemmas.
Import ListNotations.

(* ---------------------------------------------------------------------------------------------- *)
(* the read source *)
Lemma partial_read_spec : forall amt data o l d o', partial_read amt data o = (l, d, o') ->
  data = l ++ d /\ length l <= amt /\ (l = [] -> amt = 0 \/ data = []).
Proof.
  intros amt data o. induction o as [|x r IH]; intros l d o' H; simpl in H.
  - inversion H; subst; clear H. split; [now rewrite firstn_skipn|]. split; [rewrite firstn_length; lia|].
    intros E. destruct amt; [now left|]. destruct data; [now right|simpl in E; discriminate].
  - destruct x as [c|]; [|exact (IH _ _ _ H)].
    inversion H; subst; clear H. split; [now rewrite firstn_skipn|]. split; [rewrite firstn_length; lia|].
    intros E. destruct amt; [now left|]. right.
    destruct data; [reflexivity|]. apply (f_equal (@length N)) in E. rewrite firstn_length in E.
    simpl in E. destruct c; simpl in E; lia.
Qed.

(* signals are invisible at PartialRead: interrupted calls are retried, so the bytes delivered are those of the same
   run without the interruptions *)
Lemma partial_read_interrupts : forall amt data o l d o', partial_read amt data o = (l, d, o') ->
  partial_read amt data (strip_interrupts o) = (l, d, strip_interrupts o').
Proof.
  intros amt data o. induction o as [|x r IH]; intros l d o' H; simpl in *.
  - inversion H; subst. reflexivity.
  - destruct x as [c|]; [|now apply IH]. simpl. inversion H; subst. reflexivity.
Qed.

Lemma src_read_spec : forall amt s l s', src_read amt s = (l, s') ->
  src_rest s = l ++ src_rest s' /\ length l <= amt /\ (l = [] -> amt = 0 \/ src_rest s = []).
Proof.
  intros amt s l s' H. unfold src_read in H. destruct (s_hdr s) as [|h hs] eqn:Eh.
  - destruct (partial_read amt (s_data s) (s_oracle s)) as [[l0 d] o] eqn:Ep. inversion H; subst; clear H.
    apply partial_read_spec in Ep as (A & B & C). unfold src_rest. rewrite Eh. simpl. repeat split; assumption.
  - inversion H; subst; clear H. unfold src_rest. rewrite Eh. simpl s_hdr. simpl s_data.
    split; [now rewrite app_assoc, firstn_skipn|]. split; [rewrite firstn_length; lia|].
    intros E. destruct amt; [now left|]. simpl in E. discriminate.
Qed.

Lemma read_or_eof_loop_spec : forall fuel amt data o g d o', read_or_eof_loop fuel amt data o = (g, d, o') ->
  data = g ++ d /\ length g <= amt /\ (amt <= fuel -> length g = amt \/ d = []).
Proof.
  induction fuel as [|f IH]; intros amt data o g d o' H; simpl in H.
  - inversion H; subst. simpl. repeat split; [lia|]. intros. left. lia.
  - destruct amt as [|a]; [inversion H; subst; simpl; repeat split; [lia|now left]|].
    destruct (partial_read (S a) data o) as [[l d1] o1] eqn:Ep.
    apply partial_read_spec in Ep as (A & B & C).
    destruct l as [|b l].
    + inversion H; subst. simpl in *. repeat split; [lia|]. intros _. right. destruct (C eq_refl); [lia|assumption].
    + destruct (read_or_eof_loop f (S a - length (b :: l)) d1 o1) as [[g2 d2] o2] eqn:Er. inversion H; subst; clear H.
      apply IH in Er as (A2 & B2 & C2). split; [rewrite A2; simpl; rewrite ?app_assoc; reflexivity|].
      assert (Hl : length ((b :: l) ++ g2) = length (b :: l) + length g2) by apply app_length.
      simpl in *. split; [lia|]. intros Hf.
      destruct C2 as [C2|C2]; [lia|left; lia|now right].
Qed.

(* ReadOrEOF returns the amount asked for unless the data ends (the fuel `amount` suffices) *)
Lemma read_or_eof_complete : forall amt data o g d o', read_or_eof amt data o = (g, d, o') ->
  data = g ++ d /\ (length g = amt \/ d = []).
Proof.
  intros amt data o g d o' H. apply read_or_eof_loop_spec in H as (A & B & C). split; [exact A|]. apply C. lia.
Qed.

(* ... and at every reader built on it: the source, ReadOrEOF, ReadFactory's header *)
Definition strip_src (s : src) : src := mk_src (s_hdr s) (s_data s) (strip_interrupts (s_oracle s)).

Lemma src_read_interrupts : forall amt s l s', src_read amt s = (l, s') ->
  src_read amt (strip_src s) = (l, strip_src s').
Proof.
  intros amt s l s' H. unfold src_read, strip_src in *. simpl. destruct (s_hdr s) as [|h hs].
  - destruct (partial_read amt (s_data s) (s_oracle s)) as [[l0 d] o] eqn:E. inversion H; subst; clear H.
    rewrite (partial_read_interrupts _ _ _ _ _ _ E). reflexivity.
  - inversion H; subst. reflexivity.
Qed.

Lemma read_or_eof_loop_interrupts : forall fuel amt data o g d o', read_or_eof_loop fuel amt data o = (g, d, o') ->
  read_or_eof_loop fuel amt data (strip_interrupts o) = (g, d, strip_interrupts o').
Proof.
  induction fuel as [|f IH]; intros amt data o g d o' H; simpl in *; [inversion H; reflexivity|].
  destruct amt as [|a]; [inversion H; reflexivity|].
  destruct (partial_read (S a) data o) as [[l d1] o1] eqn:E. rewrite (partial_read_interrupts _ _ _ _ _ _ E).
  destruct l as [|x l]; [inversion H; reflexivity|].
  destruct (read_or_eof_loop f (S a - length (x :: l)) d1 o1) as [[g2 d2] o2] eqn:E2.
  rewrite (IH _ _ _ _ _ _ E2). inversion H; reflexivity.
Qed.

Lemma open_fd_interrupts : forall data o, open_fd data (strip_interrupts o) = strip_src (open_fd data o).
Proof.
  intros data o. unfold open_fd, read_or_eof. destruct (read_or_eof_loop kMagicSize kMagicSize data o) as [[h d] o'] eqn:E.
  rewrite (read_or_eof_loop_interrupts _ _ _ _ _ _ _ E). reflexivity.
Qed.

Lemma open_fd_rest : forall data o, src_rest (open_fd data o) = data.
Proof.
  intros data o. unfold open_fd. destruct (read_or_eof kMagicSize data o) as [[h d] o'] eqn:E.
  apply read_or_eof_complete in E as [A _]. unfold src_rest. simpl. now rewrite A.
Qed.

(* ---------------------------------------------------------------------------------------------- *)
(* last_space_ *)
Lemma last_space_rel_spec : forall l,
  match last_space_rel l with
  | 0 => forallb non_space l = true
  | S k => k < length l /\ is_space (nth k l 0%N) = true /\ forallb non_space (skipn (S k) l) = true
  end.
Proof.
  induction l as [|b r IH]; simpl; [reflexivity|].
  destruct (last_space_rel r) as [|k].
  - unfold non_space at 1. destruct (is_space b) eqn:E; simpl.
    + repeat split; [lia|exact E|exact IH].
    + exact IH.
  - destruct IH as (A & B & C). repeat split; [lia|exact B|exact C].
Qed.

(* ---------------------------------------------------------------------------------------------- *)
(* the invariant *)
Record Inv (total : nat) (s : fp) : Prop := mk_Inv {
  inv_pos : pos s <= length (buf s);
  inv_end : at_end s = true -> future s = [];
  inv_ls1 : forall i, ls s <= i -> i < length (buf s) -> is_space (nth i (buf s) 0%N) = false;
  inv_ls2 : ls s <= pos s \/ (1 <= ls s /\ ls s <= length (buf s) /\ is_space (nth (ls s - 1) (buf s) 0%N) = true);
  inv_off : offset s + length (rest s) = total;
  inv_fuel : length (rest s) + 2 <= fuel s;
  inv_page : 0 < page s;
  inv_dms : page s <= dms s;
  inv_read : fallback s = true -> length (buf s) <= dms s;
  inv_mmap : fallback s = false ->
             mapped s = true /\ (mo s) mod (page s) = 0 /\
             buf s = firstn (length (buf s)) (skipn (mo s) (file s)) /\
             (at_end s = true -> mo s + length (buf s) = length (file s)) /\
             (at_end s = false -> mo s + length (buf s) < length (file s) /\ length (buf s) = dms s)
}.

Lemma rest_advance : forall k s, k <= length (avail s) -> rest (advance k s) = skipn k (rest s).
Proof.
  intros k s H. unfold rest, advance, avail, future, set_pos in *. simpl.
  rewrite skipn_app_le by exact H. now rewrite skipn_skipn_add.
Qed.

Lemma avail_advance : forall k s, avail (advance k s) = skipn k (avail s).
Proof. intros. unfold avail, advance, set_pos. simpl. now rewrite skipn_skipn_add. Qed.

Lemma avail_length : forall s, pos s <= length (buf s) -> length (avail s) = length (buf s) - pos s.
Proof. intros. unfold avail. now rewrite skipn_length. Qed.

Lemma advance_inv : forall total k s, Inv total s -> k <= length (avail s) -> Inv total (advance k s).
Proof.
  intros total k s I Hk. pose proof (avail_length s (inv_pos _ _ I)) as La.
  assert (R : rest (advance k s) = skipn k (rest s)) by now apply rest_advance.
  destruct I. constructor; try (unfold advance, set_pos; simpl; assumption).
  - unfold advance, set_pos; simpl. lia.
  - unfold advance, set_pos; simpl. destruct inv_ls4 as [A|A]; [left; lia|right; exact A].
  - rewrite R. rewrite skipn_length. unfold offset, advance, set_pos; simpl. unfold offset in inv_off0.
    assert (k <= length (rest s)) by (unfold rest; rewrite app_length; lia). lia.
  - rewrite R, skipn_length. unfold advance, set_pos; simpl. lia.
Qed.

Lemma advance_facts : forall k s, future (advance k s) = future s /\ at_end (advance k s) = at_end s /\
  offset (advance k s) = offset s + k.
Proof. intros. unfold future, advance, set_pos, offset; simpl. repeat split. lia. Qed.

(* the window handed to ParseNumber *)
Lemma num_view_spec : forall total s, Inv total s ->
  match num_view s with
  | None => forallb non_space (avail s) = true
  | Some w => exists sp more, avail s = w ++ sp :: more /\ is_space sp = true /\ forallb non_space more = true
  end.
Proof.
  intros total s I. unfold num_view. destruct (ls s <=? pos s) eqn:E.
  - apply Nat.leb_le in E. apply forallb_nth. intros i Hi. unfold avail in *. rewrite nth_skipn_add.
    unfold non_space. rewrite (inv_ls1 _ _ I); [reflexivity|lia|]. rewrite skipn_length in Hi. lia.
  - apply Nat.leb_gt in E. destruct (inv_ls2 _ _ I) as [A|(A & B & C)]; [lia|].
    exists (nth (ls s - 1) (buf s) 0%N), (skipn (ls s) (buf s)). split; [|split; [exact C|]].
    + unfold avail.
      assert (Hs : skipn (ls s - 1 - pos s) (skipn (pos s) (buf s)) = nth (ls s - 1) (buf s) 0%N :: skipn (ls s) (buf s)).
      { rewrite skipn_skipn_add. replace (pos s + (ls s - 1 - pos s)) with (ls s - 1) by lia.
        assert (Hl : ls s - 1 < length (buf s)) by lia.
        rewrite <- (firstn_skipn (ls s - 1) (buf s)) at 1.
        destruct (skipn (ls s - 1) (buf s)) as [|x xs] eqn:Ex.
        { apply skipn_nil_length in Ex. lia. }
        apply skipn_cons_nth in Ex as (N1 & N2 & N3). rewrite skipn_app.
        rewrite firstn_length. replace (ls s - 1 - Nat.min (ls s - 1) (length (buf s))) with 0 by lia.
        rewrite skipn_all2 by (rewrite firstn_length; lia). simpl. rewrite N1.
        replace (S (ls s - 1)) with (ls s) in N3 by lia. now rewrite N3. }
      rewrite <- Hs. now rewrite firstn_skipn.
    + apply forallb_nth. intros i Hi. rewrite nth_skipn_add. unfold non_space.
      rewrite (inv_ls1 _ _ I); [reflexivity|lia|]. rewrite skipn_length in Hi. lia.
Qed.

(* ---------------------------------------------------------------------------------------------- *)
(* re-establishing the last_space_ part of the invariant *)
Lemma set_ls_inv_parts : forall s,
  pos s <= length (buf s) ->
  let s' := set_ls s (pos s + last_space_rel (avail s)) in
  (forall i, ls s' <= i -> i < length (buf s') -> is_space (nth i (buf s') 0%N) = false) /\
  (ls s' <= pos s' \/ (1 <= ls s' /\ ls s' <= length (buf s') /\ is_space (nth (ls s' - 1) (buf s') 0%N) = true)).
Proof.
  intros s Hp. simpl. pose proof (last_space_rel_spec (avail s)) as L.
  pose proof (avail_length s Hp) as La.
  destruct (last_space_rel (avail s)) as [|k] eqn:E.
  - split; [|left; lia]. intros i Hi Hl. rewrite Nat.add_0_r in Hi.
    assert (Hn : non_space (nth (i - pos s) (avail s) 0%N) = true).
    { rewrite forallb_forall in L. apply L. apply nth_In. lia. }
    unfold avail in Hn. rewrite nth_skipn_add in Hn. replace (pos s + (i - pos s)) with i in Hn by lia.
    unfold non_space in Hn. now apply negb_true_iff in Hn.
  - destruct L as (A & B & C). split.
    + intros i Hi Hl.
      assert (Hn : non_space (nth (i - (pos s + S k)) (skipn (S k) (avail s)) 0%N) = true).
      { rewrite forallb_forall in C. apply C. apply nth_In. rewrite skipn_length. lia. }
      rewrite nth_skipn_add in Hn. unfold avail in Hn. rewrite nth_skipn_add in Hn.
      replace (pos s + (S k + (i - (pos s + S k)))) with i in Hn by lia.
      unfold non_space in Hn. now apply negb_true_iff in Hn.
    + right. split; [lia|]. split; [lia|]. unfold avail in B. rewrite nth_skipn_add in B.
      replace (pos s + S k - 1) with (pos s + k) by lia. exact B.
Qed.

(* ---------------------------------------------------------------------------------------------- *)
(* Shift *)
Section Shift.
  Variable v : variant.
  Hypothesis Hfo : fix_offset v = true.

  Definition shift_post (total : nat) (s s' : fp) : Prop :=
    Inv total s' /\
    exists more, avail s' = avail s ++ more /\ future s = more ++ future s' /\ (more <> [] \/ at_end s' = true).

  Lemma shift_post_rest : forall total s s', shift_post total s s' -> rest s' = rest s.
  Proof. intros total s s' (_ & more & A & B & _). unfold rest. rewrite A, B. now rewrite app_assoc. Qed.

  (* the read backend: reset / double / compact, then append what the source returns *)
  Lemma read_shift_post : forall total s, Inv total s -> fallback s = true -> at_end s = false ->
    let s2 := read_shift v s in
    shift_post total s (set_ls s2 (pos s2 + last_space_rel (avail s2))).
  Proof.
    intros total s I Hf Ha.
    pose proof (inv_pos _ _ I) as Hp. pose proof (inv_read _ _ I Hf) as Hd.
    pose proof (inv_page _ _ I) as Hpg. pose proof (inv_dms _ _ I) as Hdm.
    unfold read_shift.
    (* name the three stages *)
    set (st1 := if pos s =? length (buf s) then ([], 0, mo s + length (buf s)) else (buf s, pos s, mo s)).
    destruct st1 as [[b1 p1] m1] eqn:E1.
    assert (S1 : skipn p1 b1 = avail s /\ p1 + m1 = pos s + mo s /\ p1 <= length b1 /\ length b1 <= dms s /\
                 (p1 = length b1 -> b1 = [])).
    { subst st1. destruct (pos s =? length (buf s)) eqn:Ee; inversion E1; subst; clear E1.
      - apply Nat.eqb_eq in Ee. unfold avail. rewrite Ee, skipn_all. simpl. repeat split; lia.
      - apply Nat.eqb_neq in Ee. unfold avail. repeat split; try lia. }
    destruct S1 as (Sa & Sb & Sc & Sd & Se).
    set (st2 := if length b1 =? dms s then
                  if p1 =? 0 then (b1, p1, m1, 2 * dms s)
                  else (skipn p1 b1, 0, (if fix_offset v then m1 + p1 else m1), dms s)
                else (b1, p1, m1, dms s)).
    destruct st2 as [[[b2 p2] m2] d2] eqn:E2.
    assert (S2 : skipn p2 b2 = avail s /\ p2 + m2 = pos s + mo s /\ p2 <= length b2 /\ length b2 < d2 /\ page s <= d2).
    { subst st2. destruct (length b1 =? dms s) eqn:Ee.
      - apply Nat.eqb_eq in Ee. destruct (p1 =? 0) eqn:Ez; inversion E2; subst; clear E2.
        + apply Nat.eqb_eq in Ez. repeat split; try assumption; lia.
        + apply Nat.eqb_neq in Ez. rewrite Hfo. simpl. rewrite skipn_length. repeat split; try lia. exact Sa.
      - apply Nat.eqb_neq in Ee. inversion E2; subst; clear E2. repeat split; try assumption; lia. }
    destruct S2 as (Ta & Tb & Tc & Td & Te).
    destruct (src_read (d2 - length b2) (source s)) as [l src'] eqn:Er.
    apply src_read_spec in Er as (Ra & Rb & Rc).
    (* the state after read_shift *)
    set (s2 := mk_fp (b2 ++ l) p2 (ls s) m2 d2 (match l with [] => true | _ :: _ => at_end s end) (fallback s) (mapped s)
                     (page s) (file s) src' (fuel s)).
    assert (Av : avail s2 = avail s ++ l).
    { unfold avail. subst s2. simpl. rewrite skipn_app_le by exact Tc. now rewrite Ta. }
    assert (Fu : future s = l ++ future s2).
    { unfold future. subst s2. simpl. rewrite Hf. exact Ra. }
    assert (Re : rest (set_ls s2 (pos s2 + last_space_rel (avail s2))) = rest s).
    { unfold rest. change (avail (set_ls s2 _)) with (avail s2). change (future (set_ls s2 _)) with (future s2).
      rewrite Av, Fu. now rewrite app_assoc. }
    assert (Hp2 : pos s2 <= length (buf s2)) by (subst s2; simpl; rewrite app_length; lia).
    destruct (set_ls_inv_parts s2 Hp2) as (L1 & L2).
    split.
    - constructor.
      + exact Hp2.
      + (* at_end_ only when the source returned nothing although asked for at least one byte *)
        change (at_end (set_ls s2 _)) with (at_end s2). change (future (set_ls s2 _)) with (future s2).
        subst s2. simpl. destruct l as [|x xs]; [|rewrite Ha; discriminate].
        intros _. unfold future. simpl. rewrite Hf.
        destruct (Rc eq_refl) as [Z|Z]; [lia|]. rewrite Ra in Z. simpl in Z. exact Z.
      + exact L1.
      + exact L2.
      + rewrite Re. change (offset (set_ls s2 _)) with (offset s2). unfold offset. subst s2. simpl.
        pose proof (inv_off _ _ I) as O. unfold offset in O. lia.
      + rewrite Re. exact (inv_fuel _ _ I).
      + exact Hpg.
      + exact Te.
      + intros _. subst s2. simpl. rewrite app_length. lia.
      + subst s2. simpl. rewrite Hf. discriminate.
    - exists l. change (avail (set_ls s2 _)) with (avail s2). change (future (set_ls s2 _)) with (future s2).
      change (at_end (set_ls s2 _)) with (at_end s2).
      split; [exact Av|]. split; [exact Fu|]. subst s2. simpl. destruct l; [now right|left; discriminate].
  Qed.

  (* the mmap backend: a new page-aligned map that starts at or before position_ and ends after the old one *)
  Lemma mmap_shift_post : forall total s, Inv total s -> fallback s = false -> at_end s = false ->
    let s1 := mmap_shift (pos s + mo s) s in
    fallback s1 = false /\ shift_post total s (set_ls s1 (pos s1 + last_space_rel (avail s1))).
  Proof.
    intros total s I Hf Ha.
    pose proof (inv_pos _ _ I) as Hp. pose proof (inv_page _ _ I) as Hpg. pose proof (inv_dms _ _ I) as Hdm.
    destruct (inv_mmap _ _ I Hf) as (Hm & Hal & Hb & _ & Hne). destruct (Hne Ha) as (Hlt & Hlen). clear Hne.
    set (L := length (buf s)) in *.
    set (P := page s) in *. set (desired := pos s + mo s).
    assert (Hig : desired mod P = pos s mod P).
    { unfold desired. rewrite Nat.add_mod by lia. rewrite Hal, Nat.add_0_r. apply Nat.mod_mod. lia. }
    assert (Hil : pos s mod P < P) by (apply Nat.mod_upper_bound; lia).
    assert (Hile : pos s mod P <= pos s) by (apply Nat.mod_le; lia).
    unfold mmap_shift. fold P. fold desired. rewrite Hig. rewrite Hm, andb_true_r.
    set (ignore := pos s mod P) in *.
    set (dms' := if pos s =? ignore then 2 * dms s else dms s).
    set (moff := desired - ignore).
    assert (Hmo : mo s <= moff /\ moff <= desired /\ moff + ignore = desired) by (unfold moff, desired; lia).
    assert (Hmoffmod : moff mod P = 0).
    { unfold moff, desired, ignore. replace (pos s + mo s - pos s mod P) with (mo s + (pos s - pos s mod P)) by lia.
      rewrite Nat.add_mod by lia. rewrite Hal. simpl.
      assert (E : pos s - pos s mod P = P * (pos s / P)).
      { pose proof (Nat.div_mod_eq (pos s) P). lia. }
      rewrite E. rewrite Nat.mul_comm, Nat.mod_mul by lia. simpl. apply Nat.mod_0_l. lia. }
    assert (Hend : mo s + L < moff + dms').
    { unfold dms'. destruct (pos s =? ignore) eqn:Ee.
      - apply Nat.eqb_eq in Ee. lia.
      - apply Nat.eqb_neq in Ee.
        (* position_ is at least one page into the map: the new map starts at least one page later *)
        assert (P <= pos s - ignore).
        { unfold ignore in *. pose proof (Nat.div_mod_eq (pos s) P).
          assert (pos s / P <> 0). { intro Z. rewrite Z in H. lia. }
          assert (P * 1 <= P * (pos s / P)) by (apply Nat.mul_le_mono_l; lia). lia. }
        unfold moff, desired. lia. }
    assert (Hdms' : dms s <= dms') by (unfold dms'; destruct (pos s =? ignore); lia).
    set (remaining := length (file s) - moff).
    assert (Hrem : 0 < remaining /\ moff + remaining = length (file s) /\ ignore < remaining) by (unfold remaining; lia).
    destruct (remaining <=? dms') eqn:Er.
    - (* the map reaches the end of the file *)
      apply Nat.leb_le in Er. destruct (remaining =? 0) eqn:Ez; [apply Nat.eqb_eq in Ez; lia|].
      set (s1 := mk_fp (firstn remaining (skipn moff (file s))) ignore (ls s) moff dms' true (fallback s) true P (file s) (source s) (fuel s)).
      assert (Lb : length (buf s1) = remaining).
      { subst s1. simpl. rewrite firstn_length, skipn_length. lia. }
      split; [exact Hf|].
      assert (Av : avail s1 = avail s ++ skipn (mo s + L) (file s)).
      { unfold avail. subst s1. simpl. rewrite Hb.
        rewrite !skipn_firstn_comm, !skipn_skipn_add.
        replace (moff + ignore) with desired by lia. replace (mo s + pos s) with desired by (unfold desired; lia).
        rewrite firstn_all2 by (rewrite skipn_length; lia).
        rewrite <- (firstn_skipn (L - pos s) (skipn desired (file s))) at 1.
        f_equal. rewrite skipn_skipn_add. f_equal. unfold desired. lia. }
      assert (Fu1 : future s1 = []).
      { unfold future. subst s1. simpl. rewrite Hf. rewrite firstn_length, skipn_length.
        apply skipn_all2. lia. }
      assert (Fu : future s = skipn (mo s + L) (file s)) by (unfold future; now rewrite Hf).
      assert (Hp1 : pos s1 <= length (buf s1)) by (rewrite Lb; subst s1; simpl; lia).
      destruct (set_ls_inv_parts s1 Hp1) as (L1 & L2).
      assert (Re : rest (set_ls s1 (pos s1 + last_space_rel (avail s1))) = rest s).
      { unfold rest. change (avail (set_ls s1 _)) with (avail s1). change (future (set_ls s1 _)) with (future s1).
        rewrite Av, Fu1, Fu. now rewrite app_nil_r. }
      split.
      + constructor; try assumption.
        * intros _. exact Fu1.
        * rewrite Re. change (offset (set_ls s1 _)) with (offset s1). unfold offset. subst s1. simpl.
          pose proof (inv_off _ _ I) as O. unfold offset in O. unfold desired in *. lia.
        * rewrite Re. exact (inv_fuel _ _ I).
        * change (dms (set_ls s1 _)) with dms'. change (page (set_ls s1 _)) with P. lia.
        * change (fallback (set_ls s1 _)) with (fallback s). rewrite Hf. discriminate.
        * intros _. change (buf (set_ls s1 _)) with (buf s1). change (mo (set_ls s1 _)) with moff.
          change (page (set_ls s1 _)) with P. change (at_end (set_ls s1 _)) with true. change (file (set_ls s1 _)) with (file s).
          split; [reflexivity|]. split; [exact Hmoffmod|]. rewrite Lb. split; [reflexivity|]. split; [intros _; lia|discriminate].
      + exists (skipn (mo s + L) (file s)).
        change (avail (set_ls s1 _)) with (avail s1). change (future (set_ls s1 _)) with (future s1).
        split; [exact Av|]. split; [rewrite Fu1, app_nil_r; exact Fu|]. now right.
    - (* a full window of dms' bytes, not at the end *)
      apply Nat.leb_gt in Er. destruct (dms' =? 0) eqn:Ez; [apply Nat.eqb_eq in Ez; lia|].
      set (s1 := mk_fp (firstn dms' (skipn moff (file s))) ignore (ls s) moff dms' false (fallback s) true P (file s) (source s) (fuel s)).
      assert (Lb : length (buf s1) = dms').
      { subst s1. simpl. rewrite firstn_length, skipn_length. lia. }
      split; [exact Hf|].
      set (more := firstn (moff + dms' - (mo s + L)) (skipn (mo s + L) (file s))).
      assert (Av : avail s1 = avail s ++ more).
      { unfold avail. subst s1. simpl. rewrite Hb. unfold more.
        rewrite !skipn_firstn_comm, !skipn_skipn_add.
        replace (moff + ignore) with desired by lia. replace (mo s + pos s) with desired by (unfold desired; lia).
        replace (mo s + L) with (desired + (L - pos s)) by (unfold desired; lia).
        rewrite <- skipn_skipn_add.
        set (X := skipn desired (file s)).
        replace (dms' - ignore) with ((L - pos s) + (moff + dms' - (desired + (L - pos s)))) by (unfold desired in *; lia).
        rewrite firstn_plus. reflexivity. }
      assert (Fu : future s = more ++ future s1).
      { unfold future. rewrite Hf. subst s1. simpl. rewrite Hf. rewrite firstn_length, skipn_length.
        replace (Nat.min dms' (length (file s) - moff)) with dms' by lia. unfold more. fold L.
        set (X := skipn (mo s + L) (file s)). set (k := moff + dms' - (mo s + L)).
        transitivity (firstn k X ++ skipn k X); [symmetry; apply firstn_skipn|].
        f_equal. unfold X. rewrite skipn_skipn_add. f_equal. unfold k. lia. }
      assert (Hmore : more <> []).
      { unfold more. intro Z. apply (f_equal (@length N)) in Z. rewrite firstn_length, skipn_length in Z. simpl in Z. lia. }
      assert (Hp1 : pos s1 <= length (buf s1)) by (rewrite Lb; subst s1; simpl; lia).
      destruct (set_ls_inv_parts s1 Hp1) as (L1 & L2).
      assert (Re : rest (set_ls s1 (pos s1 + last_space_rel (avail s1))) = rest s).
      { unfold rest. change (avail (set_ls s1 _)) with (avail s1). change (future (set_ls s1 _)) with (future s1).
        rewrite Av, Fu. now rewrite app_assoc. }
      split.
      + constructor; try assumption.
        * change (at_end (set_ls s1 _)) with false. discriminate.
        * rewrite Re. change (offset (set_ls s1 _)) with (offset s1). unfold offset. subst s1. simpl.
          pose proof (inv_off _ _ I) as O. unfold offset in O. unfold desired in *. lia.
        * rewrite Re. exact (inv_fuel _ _ I).
        * change (dms (set_ls s1 _)) with dms'. change (page (set_ls s1 _)) with P. lia.
        * change (fallback (set_ls s1 _)) with (fallback s). rewrite Hf. discriminate.
        * intros _. change (buf (set_ls s1 _)) with (buf s1). change (mo (set_ls s1 _)) with moff.
          change (page (set_ls s1 _)) with P. change (at_end (set_ls s1 _)) with false. change (file (set_ls s1 _)) with (file s).
          change (dms (set_ls s1 _)) with dms'.
          split; [reflexivity|]. split; [exact Hmoffmod|]. rewrite Lb. split; [reflexivity|]. split; [discriminate|intros _; lia].
      + exists more. change (avail (set_ls s1 _)) with (avail s1). change (future (set_ls s1 _)) with (future s1).
        split; [exact Av|]. split; [exact Fu|]. now left.
  Qed.

  Theorem shift_spec : forall total s, Inv total s ->
    if at_end s then shift v s = None
    else exists s', shift v s = Some s' /\ shift_post total s s'.
  Proof.
    intros total s I. unfold shift. destruct (at_end s) eqn:Ha; [reflexivity|].
    destruct (fallback s) eqn:Hf.
    - rewrite Hf. eexists. split; [reflexivity|]. now apply read_shift_post.
    - destruct (mmap_shift_post total s I Hf Ha) as (F1 & Post). rewrite F1. eexists. split; [reflexivity|]. exact Post.
  Qed.
End Shift.
