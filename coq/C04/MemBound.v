(* C04/MemBound.v -- the bit-packed arrays the trie builder fills fit into the bytes Size() asked for: every write of
   BitPackedMiddle::Insert / FinishedLoading / BitPackedLongest::Insert (C03/TrieMem.v, over the GENERATED bit-packing routines) touches
   only the first BaseSize bytes, so the memory value stays below 2^(8 * BaseSize) -- which is what makes the byte image of the array
   (bytes_of_Z) determine the array (Z_of_bytes_of_Z). *)
From Coq Require Import ZArith Lia Bool List.
From Kenlm Require Import Base.Mem Gen.BitPacking C20.ArrayModel C03.BhikshaModel C03.TrieLayout C03.TrieMem C03.TrieMemProofs C04.TrieSize C04.TrieSizeProofs.
Import ListNotations.
Local Open Scope Z_scope.

Lemma no_high_bits_small : forall v k, 0 <= k -> 0 <= v -> (forall i, k <= i -> Z.testbit v i = false) -> v < 2 ^ k.
Proof.
  intros v k Hk Hv H.
  assert (E : Z.land v (Z.ones k) = v).
  { apply Z.bits_inj'. intros i Hi. rewrite Z.land_spec, testbit_ones by lia.
    destruct (Z.ltb_spec i k); [apply andb_true_r|]. rewrite H by lia. reflexivity. }
  rewrite Z.land_ones in E by lia. rewrite <- E. apply Z.mod_pos_bound. apply Z.pow_pos_nonneg; lia.
Qed.

Lemma storew_bound : forall w mem a v S, 0 <= w -> 0 <= a -> 8 * a + w <= 8 * S -> 0 <= mem < 2 ^ (8 * S) ->
  0 <= storew w mem a v < 2 ^ (8 * S).
Proof.
  intros w mem a v S Hw Ha Hin Hm.
  assert (H0 : 0 <= storew w mem a v) by (apply storew_nonneg; lia).
  split; [exact H0|]. apply no_high_bits_small; [lia|exact H0|].
  intros i Hi. rewrite storew_bit by lia.
  destruct (Z.leb_spec (8 * a) i), (Z.ltb_spec i (8 * a + w)); cbn [andb]; try lia; apply (small_no_high_bits mem (8 * S)); lia.
Qed.

Lemma WriteInt57_bound : forall mem base off len v S, 0 <= base -> 0 <= off -> base + off / 8 + 8 <= S -> 0 <= mem < 2 ^ (8 * S) ->
  0 <= WriteInt57 mem base off len v < 2 ^ (8 * S).
Proof.
  intros mem base off len v S Hb Ho Hin Hm. unfold WriteInt57, store64.
  rewrite Z.shiftr_div_pow2 by lia. change (2 ^ 3) with 8.
  assert (0 <= off / 8) by (apply Z.div_pos; lia).
  apply storew_bound; lia.
Qed.

Lemma in_size : forall entries vocab remaining x, 0 <= entries -> 0 <= remaining -> 0 <= x <= (1 + entries) * (bits_needed vocab + remaining) ->
  x / 8 + 8 <= bitpacked_base_size entries vocab remaining.
Proof.
  intros entries vocab remaining x He Hr Hx. unfold bitpacked_base_size.
  assert (x / 8 <= ((1 + entries) * (bits_needed vocab + remaining) + 7) / 8) by (apply Z.div_le_mono; lia). lia.
Qed.

Section Mid.
  Variable m : tmid.
  Variable n : Z.                  (* number of records *)
  Hypothesis Hbase : t_base m = 0.
  Hypothesis Hwb : t_wb m = bits_needed (t_max_vocab m).
  Hypothesis Hnb : 0 <= t_nb m.
  Hypothesis Hn : 0 <= n.
  Let S := bitpacked_base_size n (t_max_vocab m) (63 + t_nb m).
  Let tb := t_tb m.

  Lemma tb_is : tb = bits_needed (t_max_vocab m) + (63 + t_nb m).
  Proof. unfold tb, t_tb. rewrite Hwb. lia. Qed.

  Lemma wr : forall mem x len v, 0 <= x <= (1 + n) * tb -> 0 <= mem < 2 ^ (8 * S) -> 0 <= WriteInt57 mem (t_base m) x len v < 2 ^ (8 * S).
  Proof.
    intros mem x len v Hx Hm. rewrite Hbase. apply WriteInt57_bound; try lia.
    rewrite tb_is in Hx. pose proof (in_size n (t_max_vocab m) (63 + t_nb m) x Hn ltac:(lia) Hx). unfold S. lia.
  Qed.

  Lemma tmid_insert_bound : forall mem i r, 0 <= i < n -> 0 <= mem < 2 ^ (8 * S) -> 0 <= tmid_insert m mem i r < 2 ^ (8 * S).
  Proof.
    intros mem i r Hi Hm. unfold tmid_insert, WriteFloat32, WriteNonPositiveFloat31. cbv zeta.
    pose proof (bits_needed_nonneg (t_max_vocab m)) as Hb. pose proof tb_is as Etb. fold tb.
    assert (Hrec : (i + 1) * tb <= (1 + n) * tb) by nia.
    assert (H0 : 0 <= i * tb) by nia.
    apply wr; [rewrite Hwb; nia|]. apply wr; [rewrite Hwb; nia|]. apply wr; [rewrite Hwb; nia|]. apply wr; [nia|]. exact Hm.
  Qed.

  Lemma tmid_inserts_bound : forall recs mem i, 0 <= i -> i + Z.of_nat (length recs) <= n -> 0 <= mem < 2 ^ (8 * S) ->
    0 <= tmid_inserts m mem i recs < 2 ^ (8 * S).
  Proof.
    induction recs as [|r rest IH]; intros mem i Hi Hl Hm; [exact Hm|].
    cbn [tmid_inserts]. cbn [length] in Hl. apply IH; [lia|lia|]. apply tmid_insert_bound; [lia|exact Hm].
  Qed.

  Lemma tmid_finish_bound : forall mem next_end, 0 <= mem < 2 ^ (8 * S) -> 0 <= tmid_finish m mem n next_end < 2 ^ (8 * S).
  Proof.
    intros mem next_end Hm. unfold tmid_finish. fold tb. pose proof tb_is. pose proof (bits_needed_nonneg (t_max_vocab m)).
    apply wr; [nia|exact Hm].
  Qed.
End Mid.

Lemma pow_pos8 : forall S, 0 <= S -> 0 <= 0 < 2 ^ (8 * S).
Proof. intros. split; [lia|apply Z.pow_pos_nonneg; lia]. Qed.

(* the memory of one middle array, as mk_mid builds it *)
Lemma mk_mid_mem_bound : forall (array : bool) cfg vocab (l : list (rec pb)) max_next,
  0 <= next_bits array (Z.of_nat (length l)) max_next cfg ->
  let mm := mk_mid array cfg vocab l max_next in
  0 <= mm_mem mm < 2 ^ (8 * bitpacked_base_size (Z.of_nat (mm_count mm)) (t_max_vocab (mm_par mm)) (63 + t_nb (mm_par mm))).
Proof.
  intros array cfg vocab l max_next Hnb mm. unfold mm, mk_mid, next_bits in *. destruct array; cbn [mm_mem mm_count mm_par t_max_vocab t_nb fst].
  - rewrite tmidA_inserts_split. unfold tmidA_finish. cbn [fst].
    set (m := {| t_base := 0; t_wb := bits_needed vocab; t_nb := inline_bits (Z.of_nat (length l) + 1) max_next cfg; t_max_vocab := vocab |}).
    apply (tmid_finish_bound m (Z.of_nat (length l)) eq_refl eq_refl Hnb ltac:(lia)).
    apply (tmid_inserts_bound m (Z.of_nat (length l)) eq_refl eq_refl Hnb ltac:(lia)); [lia|rewrite map_length; lia|].
    apply pow_pos8. apply bitpacked_base_size_nonneg; cbn [t_nb m]; lia.
  - set (m := {| t_base := 0; t_wb := bits_needed vocab; t_nb := bits_needed max_next; t_max_vocab := vocab |}).
    apply (tmid_finish_bound m (Z.of_nat (length l)) eq_refl eq_refl Hnb ltac:(lia)).
    apply (tmid_inserts_bound m (Z.of_nat (length l)) eq_refl eq_refl Hnb ltac:(lia)); [lia|lia|].
    apply pow_pos8. apply bitpacked_base_size_nonneg; cbn [t_nb m]; lia.
Qed.

(* BitPackedLongest *)
Lemma tlong_inserts_bound : forall (lp : tlong) n recs mem i,
  l_base lp = 0 -> l_wb lp = bits_needed (l_max_vocab lp) -> 0 <= i -> i + Z.of_nat (length recs) <= n ->
  0 <= mem < 2 ^ (8 * bitpacked_base_size n (l_max_vocab lp) 31) ->
  0 <= tlong_inserts lp mem i recs < 2 ^ (8 * bitpacked_base_size n (l_max_vocab lp) 31).
Proof.
  intros lp n. induction recs as [|r rest IH]; intros mem i Hb Hw Hi Hl Hm; [exact Hm|].
  cbn [tlong_inserts]. cbn [length] in Hl. apply IH; try assumption; try lia.
  unfold tlong_insert, WriteNonPositiveFloat31. cbv zeta. rewrite Hb.
  pose proof (bits_needed_nonneg (l_max_vocab lp)) as Hbn.
  assert (Etb : l_tb lp = bits_needed (l_max_vocab lp) + 31) by (unfold l_tb; rewrite Hw; reflexivity).
  assert (Hrec : (i + 1) * l_tb lp <= (1 + n) * l_tb lp) by nia.
  assert (H0 : 0 <= i * l_tb lp) by nia.
  apply WriteInt57_bound; try lia.
  - rewrite Hw. pose proof (in_size n (l_max_vocab lp) 31 (i * l_tb lp + bits_needed (l_max_vocab lp)) ltac:(lia) ltac:(lia) ltac:(rewrite <- Etb; nia)). lia.
  - apply WriteInt57_bound; try lia.
    pose proof (in_size n (l_max_vocab lp) 31 (i * l_tb lp) ltac:(lia) ltac:(lia) ltac:(rewrite <- Etb; nia)). lia.
Qed.

(* bytes determine the value *)
Lemma Z_of_bytes_of_Z : forall n v, 0 <= v < 2 ^ (8 * Z.of_nat n) -> Z_of_bytes (bytes_of_Z n v) = v.
Proof.
  induction n as [|n IH]; intros v Hv.
  - cbn in *. lia.
  - cbn [bytes_of_Z Z_of_bytes].
    replace (8 * Z.of_nat (S n)) with (8 + 8 * Z.of_nat n) in Hv by lia. rewrite Z.pow_add_r in Hv by lia. change (2 ^ 8) with 256 in Hv.
    rewrite IH.
    + apply Z.bits_inj'. intros i Hi. rewrite Z.lor_spec, !Z.land_spec. change 255 with (Z.ones 8). rewrite testbit_ones by lia.
      destruct (Z.ltb_spec i 8) as [Hlt|Hge].
      * rewrite Z.shiftl_spec_low by lia. rewrite !andb_true_r, orb_false_r. reflexivity.
      * rewrite Z.shiftl_spec, Z.shiftr_spec by lia. rewrite !andb_false_r. cbn [orb]. f_equal. lia.
    + rewrite Z.shiftr_div_pow2 by lia. change (2 ^ 8) with 256. split; [apply Z.div_pos; lia|apply Z.div_lt_upper_bound; lia].
Qed.
