(* C04/FileTables.v -- the tables decoded from the loaded files satisfy the loaders' invariant (TInv transfers along pointwise equality:
   LM/TableExt.v TInv_ext; file_table = mem_table, file_ptable = pmem_table). *)
From Coq Require Import ZArith List Bool Lia.
From Kenlm Require Import LM.Defs LM.Query LM.QueryProofs LM.TableExt C03.TrieImage C03.ProbingImage C03.TrieEndToEnd C03.ProbingEndToEnd
                          C04.FileImage C04.TrieParse C04.TrieParseEnd C04.HashedParse C04.HashedParseProofs C03.Properties_C03.
Import ListNotations.
Local Open Scope Z_scope.

Theorem file_table_invariants : forall (array : bool) cfg n V (t : atable) pz M rest,
  (2 <= n)%nat -> (0 <= V < 2 ^ 32)%Z -> (0 <= cfg)%Z -> TInv n (alookup t) M -> NoDup (map fst t) ->
  (forall w, alookup t [w] <> None <-> (Z.of_N w < V)%Z) ->
  (forall k e, alookup t k = Some e -> (- 2 ^ 24 < e_prob e < 2 ^ 24 /\ - 2 ^ 24 < e_bo e < 2 ^ 24)%Z) ->
  (forall k e, alookup t k = Some e -> (2 <= length k)%nat -> (e_prob e <= 0)%Z) ->
  (forall k e, alookup t k = Some e -> length k = n -> e_bo e = 0%Z) ->
  (Z.of_nat (n * length t) < 2 ^ 57)%Z ->
  TInv n (file_table array cfg n V (trie_counts n t) (C03.TrieImage.trie_image array cfg n t pz ++ rest)) M.
Proof.
  intros array cfg n V t pz M rest Hn HV Hc Inv Hnd Hd Hr Hneg Hl Hs.
  apply (TInv_ext n (mem_table array cfg n V t pz)).
  - intros k. symmetry. exact (file_table_is_mem_table array cfg n V t pz M Hn HV Hc Inv Hnd Hd Hr Hs rest k).
  - exact (C03_memory_table_invariants array cfg n V t pz M Hn HV Hc Inv Hnd Hd Hr Hneg Hl Hs).
Qed.

Theorem probing_file_table_invariants : forall buckets n V (t : atable) M slots img rest,
  (2 <= n)%nat -> TInv n (Defs.alookup t) M -> NoDup (map fst t) ->
  (forall w, Defs.alookup t [w] <> None <-> (Z.of_N w < V)%Z) ->
  (forall k e, Defs.alookup t k = Some e -> (- 2 ^ 24 < e_prob e <= 0 /\ - 2 ^ 24 < e_bo e < 2 ^ 24)%Z) ->
  (forall k e, Defs.alookup t k = Some e -> length k = n -> e_bo e = 0%Z) ->
  (forall j, (2 <= j <= n)%nat -> (length (order_entries t j) < nth (j - 2) buckets 0)%nat) ->
  (forall k, over_vocab n V k -> hash_key k <> 0%Z) ->
  (forall k1 k2, over_vocab n V k1 -> over_vocab n V k2 -> hash_key k1 = hash_key k2 -> k1 = k2) ->
  length buckets = (n - 1)%nat -> (V <= Z.of_nat slots)%Z -> probing_image t slots buckets = Some img ->
  TInv n (file_ptable buckets n V (parse_probing slots buckets (img ++ rest))) M.
Proof.
  intros buckets n V t M slots img rest Hn Inv Hnd Hd Hr Hl Hb Hnz Hinj Hlen Hslots Himg.
  apply (TInv_ext n (pmem_table buckets n V t)).
  - intros k. symmetry. apply (file_ptable_is_pmem_table t buckets n V slots img rest Hn Hlen Hslots Hnd Hd); [|exact Himg].
    intros k0 e He. destruct (Hr k0 e He) as [[A B] C]. split; [split; [exact A|]|exact C]. assert (0 < 2 ^ 24)%Z by (apply Z.pow_pos_nonneg; lia). lia.
  - exact (C03_probing_memory_table_invariants buckets n V t M Hn Inv Hnd Hd Hr Hl Hb Hnz Hinj).
Qed.

(* the two LOADED files of the same ARPA model -- a probing file and a trie / array-trie file -- return the same probability for every
   history and every vocabulary word: both loaded tables are pointwise the memory tables of C03_memory_structures_equal_probabilities *)
Theorem loaded_files_equal_probabilities :
  forall buckets (array : bool) cfg N V (tp tt : atable) pz M slots img rest1 rest2,
  (2 <= N)%nat -> 0 <= V < 2 ^ 32 -> 0 <= cfg ->
  TInv N (Defs.alookup tp) M -> NoDup (map fst tp) -> (forall w, Defs.alookup tp [w] <> None <-> Z.of_N w < V) ->
  (forall k e, Defs.alookup tp k = Some e -> - 2 ^ 24 < e_prob e <= 0 /\ - 2 ^ 24 < e_bo e < 2 ^ 24) ->
  (forall k e, Defs.alookup tp k = Some e -> length k = N -> e_bo e = 0) ->
  (forall j, (2 <= j <= N)%nat -> (length (order_entries tp j) < nth (j - 2) buckets 0)%nat) ->
  (forall k, over_vocab N V k -> hash_key k <> 0) ->
  (forall k1 k2, over_vocab N V k1 -> over_vocab N V k2 -> hash_key k1 = hash_key k2 -> k1 = k2) ->
  length buckets = (N - 1)%nat -> V <= Z.of_nat slots -> probing_image tp slots buckets = Some img ->
  TInv N (Defs.alookup tt) M -> NoDup (map fst tt) -> (forall w, Defs.alookup tt [w] <> None <-> Z.of_N w < V) ->
  (forall k e, Defs.alookup tt k = Some e -> - 2 ^ 24 < e_prob e < 2 ^ 24 /\ - 2 ^ 24 < e_bo e < 2 ^ 24) ->
  (forall k e, Defs.alookup tt k = Some e -> (2 <= length k)%nat -> e_prob e <= 0) ->
  (forall k e, Defs.alookup tt k = Some e -> length k = N -> e_bo e = 0) ->
  Z.of_nat (N * length tt) < 2 ^ 57 ->
  forall ctx w, Z.of_N w < V ->
  r_prob (fst (full_score_forgot N (file_ptable buckets N V (parse_probing slots buckets (img ++ rest1))) Probing ctx w)) =
  r_prob (fst (full_score_forgot N (file_table array cfg N V (trie_counts N tt) (trie_image array cfg N tt pz ++ rest2)) Trie ctx w)).
Proof.
  intros buckets array cfg N V tp tt pz M slots img rest1 rest2 HN HV Hc Ip Np Dp Rp Lp Rm Hz Hi Hlen Hslots Himg It Nt Dt Rt Gt Lt St ctx w Hw.
  assert (Rp' : forall k e, Defs.alookup tp k = Some e -> - 2 ^ 24 < e_prob e < 2 ^ 24 /\ - 2 ^ 24 < e_bo e < 2 ^ 24).
  { intros k e He. destruct (Rp k e He) as [[A B] C]. split; [split; [exact A|]|exact C]. assert (0 < 2 ^ 24) by (apply Z.pow_pos_nonneg; lia). lia. }
  destruct (same_table_same_answers N _ (pmem_table buckets N V tp) Probing null_state w ctx
              (fun k => file_ptable_is_pmem_table tp buckets N V slots img rest1 HN Hlen Hslots Np Dp Rp' Himg k)) as [_ [E1 _]].
  destruct (same_table_same_answers N _ (mem_table array cfg N V tt pz) Trie null_state w ctx
              (fun k => file_table_is_mem_table array cfg N V tt pz M HN HV Hc It Nt Dt Rt St rest2 k)) as [_ [E2 _]].
  rewrite E1, E2.
  exact (C03_memory_structures_equal_probabilities buckets array cfg N V tp tt pz M HN HV Hc Ip Np Dp Rp Lp Rm Hz Hi It Nt Dt Rt Gt Lt St ctx w Hw).
Qed.
