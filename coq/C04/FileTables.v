(* C04/FileTables.v -- the tables decoded from the loaded files satisfy the loaders' invariant (TInv transfers along pointwise equality:
   LM/TableExt.v TInv_ext; file_table = mem_table, file_ptable = pmem_table). *)
From Coq Require Import ZArith List Bool Lia.
From Kenlm Require Import LM.Defs LM.Query LM.QueryProofs LM.TableExt C03.TrieImage C03.ProbingImage C03.TrieEndToEnd C03.ProbingEndToEnd
                          C04.FileImage C04.TrieParse C04.TrieParseEnd C04.HashedParse C04.HashedParseProofs C03.Properties_C03.
Import ListNotations.
Local Open Scope Z_scope.

Theorem file_table_invariants : forall (array : bool) cfg n V (t : atable) pz M rest,
  (2 <= n)%nat -> (0 <= V < 2 ^ 32)%Z -> (0 <= cfg)%Z -> TInv n (alookup t) M -> NoDup (map fst t) ->
  (forall w, alookup t [w] <> None <-> (Z.of_N w < V)%Z) ->
  (forall k e, alookup t k = Some e -> (- 2 ^ 24 < e_prob e < 2 ^ 24 /\ - 2 ^ 24 < e_bo e < 2 ^ 24)%Z) ->
  (forall k e, alookup t k = Some e -> (2 <= length k)%nat -> (e_prob e <= 0)%Z) ->
  (forall k e, alookup t k = Some e -> length k = n -> e_bo e = 0%Z) ->
  (Z.of_nat (n * length t) < 2 ^ 57)%Z ->
  TInv n (file_table array cfg n V (trie_counts n t) (C03.TrieImage.trie_image array cfg n t pz ++ rest)) M.
Proof.
  intros array cfg n V t pz M rest Hn HV Hc Inv Hnd Hd Hr Hneg Hl Hs.
  apply (TInv_ext n (mem_table array cfg n V t pz)).
  - intros k. symmetry. exact (file_table_is_mem_table array cfg n V t pz M Hn HV Hc Inv Hnd Hd Hr Hs rest k).
  - exact (C03_memory_table_invariants array cfg n V t pz M Hn HV Hc Inv Hnd Hd Hr Hneg Hl Hs).
Qed.

Theorem probing_file_table_invariants : forall buckets n V (t : atable) M slots img rest,
  (2 <= n)%nat -> TInv n (Defs.alookup t) M -> NoDup (map fst t) ->
  (forall w, Defs.alookup t [w] <> None <-> (Z.of_N w < V)%Z) ->
  (forall k e, Defs.alookup t k = Some e -> (- 2 ^ 24 < e_prob e <= 0 /\ - 2 ^ 24 < e_bo e < 2 ^ 24)%Z) ->
  (forall k e, Defs.alookup t k = Some e -> length k = n -> e_bo e = 0%Z) ->
  (forall j, (2 <= j <= n)%nat -> (length (order_entries t j) < nth (j - 2) buckets 0)%nat) ->
  (forall k, over_vocab n V k -> hash_key k <> 0%Z) ->
  (forall k1 k2, over_vocab n V k1 -> over_vocab n V k2 -> hash_key k1 = hash_key k2 -> k1 = k2) ->
  length buckets = (n - 1)%nat -> (V <= Z.of_nat slots)%Z -> probing_image t slots buckets = Some img ->
  TInv n (file_ptable buckets n V (parse_probing slots buckets (img ++ rest))) M.
Proof.
  intros buckets n V t M slots img rest Hn Inv Hnd Hd Hr Hl Hb Hnz Hinj Hlen Hslots Himg.
  apply (TInv_ext n (pmem_table buckets n V t)).
  - intros k. symmetry. apply (file_ptable_is_pmem_table t buckets n V slots img rest Hn Hlen Hslots Hnd Hd); [|exact Himg].
    intros k0 e He. destruct (Hr k0 e He) as [[A B] C]. split; [split; [exact A|]|exact C]. assert (0 < 2 ^ 24)%Z by (apply Z.pow_pos_nonneg; lia). lia.
  - exact (C03_probing_memory_table_invariants buckets n V t M Hn Inv Hnd Hd Hr Hl Hb Hnz Hinj).
Qed.
