(* C04/TrieLoaderSize.v -- the loader's own size computation on the model's file.  `trie_body_size` is what lm/model.cc does before it maps
   the body of a trie file: RecognizeBinary-style header decoding (order, the 8-byte little-endian counts), for the array trie
   ArrayBhiksha::UpdateConfigFromBinary (the configured bits are fetched from the file, behind the vocabulary and the unigram array, when
   the order is above 2), then SortedVocabulary::Size(counts[0]) + TrieSearch::Size(counts, config) (C04/TrieSize.v).
   trie_body_size_agrees: on the file the model writes, that is exactly |vocabulary region| + vocab_pad + |search structure| -- the
   hypothesis `body_size` of write_then_load / model_file_loads_back, for the loader's actual function. *)
From Coq Require Import ZArith Lia Bool List Arith.
From Kenlm Require Import Base.Mem Gen.BinaryFormatConsts C09.CrashModel C09.CrashProofs C04.RoundTrip LM.Defs LM.QueryProofs
                          C03.TrieLayout C03.TrieMem C03.TrieImage C03.ProbingImage C04.FileImage C04.FileImageProofs
                          C04.TrieSize C04.TrieSizeProofs C04.TrieSizeEnd.
Import ListNotations.
Local Open Scope Z_scope.

Fixpoint le_bytes_val (bs : list byte) : Z := match bs with [] => 0 | b :: r => Z.of_nat b + 256 * le_bytes_val r end.
Fixpoint chunks8 (n : nat) (bs : list byte) : list Z :=
  match n with O => [] | S n' => le_bytes_val (firstn 8 bs) :: chunks8 n' (skipn 8 bs) end.

Definition file_bhiksha_bits (img : list byte) (order : nat) (count0 : Z) : Z :=
  Z.of_nat (nth (header_size order + Z.to_nat (sorted_vocab_size count0) + S (Z.to_nat (unigram_size count0))) img 0%nat).

Definition trie_body_size (array : bool) (lc : loader_cfg) (img : list byte) : nat :=
  match recognize (fun _ => true) img with
  | Some h =>
      let counts := chunks8 (h_order h) (h_counts h) in
      let cfg := if array && Nat.ltb 2 (h_order h) then file_bhiksha_bits img (h_order h) (nth 0 counts 0) else 0 in
      Z.to_nat (sorted_vocab_size (nth 0 counts 0) + trie_size array cfg counts)
  | None => 0%nat
  end.

(* ---- decoding the counts ---- *)
Lemma le_bytes_of_Z : forall n v, 0 <= v < 2 ^ (8 * Z.of_nat n) -> le_bytes_val (map Z.to_nat (bytes_of_Z n v)) = v.
Proof.
  induction n as [|n IH]; intros v Hv.
  - cbn in *. lia.
  - cbn [bytes_of_Z map le_bytes_val].
    assert (Hl : 0 <= Z.land v 255 < 256).
    { change 255 with (Z.ones 8). rewrite Z.land_ones by lia. apply Z.mod_pos_bound. lia. }
    rewrite Z2Nat.id by lia.
    rewrite IH.
    + change 255 with (Z.ones 8). rewrite Z.land_ones, Z.shiftr_div_pow2 by lia. change (2 ^ 8) with 256.
      pose proof (Z.div_mod v 256 ltac:(lia)). lia.
    + rewrite Z.shiftr_div_pow2 by lia. change (2 ^ 8) with 256.
      replace (8 * Z.of_nat (S n)) with (8 + 8 * Z.of_nat n) in Hv by lia. rewrite Z.pow_add_r in Hv by lia. change (2 ^ 8) with 256 in Hv.
      split; [apply Z.div_pos; lia|apply Z.div_lt_upper_bound; lia].
Qed.

Lemma bytes_of_Z_length8 : forall v, length (map Z.to_nat (bytes_of_Z 8 v)) = 8%nat.
Proof. intros. rewrite map_length. apply bytes_of_Z_len. Qed.

Lemma chunks8_bytes : forall counts, Forall (fun c => 0 <= c < 2 ^ 64) counts ->
  chunks8 (length counts) (map Z.to_nat (flat_map (bytes_of_Z 8) counts)) = counts.
Proof.
  induction counts as [|c r IH]; intros H; [reflexivity|].
  inversion H as [|? ? Hc Hr]. subst.
  cbn [length chunks8 flat_map]. rewrite map_app.
  rewrite (firstn_app_exact _ _ 8%nat) by apply bytes_of_Z_length8.
  rewrite (skipn_app_exact _ _ 8%nat) by apply bytes_of_Z_length8.
  rewrite le_bytes_of_Z by (cbn; lia). rewrite IH by exact Hr. reflexivity.
Qed.

Lemma trie_size_no_array_cfg : forall cfg cfg' counts, trie_size false cfg counts = trie_size false cfg' counts.
Proof.
  intros cfg cfg' counts. unfold trie_size. f_equal. f_equal.
  generalize (nth 0 counts 0). generalize (tl counts). intros l v.
  induction l as [|c [|c' r] IH]; [reflexivity|reflexivity|].
  change (middles_size false cfg v (c :: c' :: r)) with (middle_size false cfg c v c' + middles_size false cfg v (c' :: r)).
  change (middles_size false cfg' v (c :: c' :: r)) with (middle_size false cfg' c v c' + middles_size false cfg' v (c' :: r)).
  rewrite IH. reflexivity.
Qed.

Lemma trie_size_order2_cfg : forall array cfg cfg' c0 c1, trie_size array cfg [c0; c1] = trie_size array cfg' [c0; c1].
Proof. reflexivity. Qed.

Lemma nth_app3 : forall (A : Type) (a b c : list A) k d, (k < length c)%nat -> nth (length a + length b + k) (a ++ b ++ c) d = nth k c d.
Proof.
  intros A a b c k d Hk. rewrite app_nth2 by lia. replace (length a + length b + k - length a)%nat with (length b + k)%nat by lia.
  rewrite app_nth2 by lia. replace (length b + k - length b)%nat with k by lia. reflexivity.
Qed.

Section Agree.
  Variable array : bool.
  Variable cfg pm : Z.
  Variable n : nat.
  Variable V : Z.
  Variable t : atable.
  Variable pz : list key.
  Variable M : arpa.
  Variable words : list (list Z).
  Let T := alookup t.
  Hypothesis Hn : (2 <= n <= max_order)%nat.
  Hypothesis HV : 0 <= V < 2 ^ 32.
  Hypothesis Hcfg : 0 <= cfg < 256.                     (* Config::pointer_bhiksha_bits is a uint8_t *)
  Hypothesis Inv : TInv n T M.
  Hypothesis Hnodup : NoDup (map fst t).
  Hypothesis Hdense : forall w, T [w] <> None <-> Z.of_N w < V.
  Hypothesis Hrange : forall k e, T k = Some e -> - 2 ^ 24 < e_prob e < 2 ^ 24 /\ - 2 ^ 24 < e_bo e < 2 ^ 24.
  Hypothesis Hsize : Z.of_nat (n * length t) < 2 ^ 57.
  Hypothesis Hwords : S (length words) = length (order_entries t 1).

  Let w := trie_written array cfg pm n t pz words.

  Lemma counts_range : Forall (fun c => 0 <= c < 2 ^ 64) (trie_counts n t).
  Proof.
    unfold trie_counts. apply Forall_forall. intros c Hc. apply in_map_iff in Hc. destruct Hc as [j [<- _]].
    unfold order_entries.
    assert (Hle : (length (filter (fun ke : key * entry => Nat.eqb (length (fst ke)) j) t) <= length t)%nat).
    { clear. induction t as [|x r IH]; [reflexivity|]. cbn [filter]. destruct (Nat.eqb (length (fst x)) j); cbn [length]; lia. }
    pose proof Hsize as Hs57. rewrite Nat2Z.inj_mul in Hs57. unfold atable, key in *.
    assert (Z.of_nat (length t) * 1 <= Z.of_nat (length t) * Z.of_nat n) by (apply Z.mul_le_mono_nonneg_l; lia).
    assert (Z.of_nat (length t) < 2 ^ 57) by lia. lia.
  Qed.

  Theorem trie_body_size_agrees : forall lc (iv : bool) vocab1 search1 wm,
    length vocab1 = length (sorted_vocab_bytes words) -> length search1 = length (trie_image array cfg n t pz) ->
    trie_body_size array lc (final_image wm iv (contents_of w iv vocab1 search1)) = (length (w_vocab w) + w_pad w + length (w_search w))%nat.
  Proof.
    intros lc iv vocab1 search1 wm Hv Hs.
    pose proof (trie_written_wf array cfg pm n t pz words vocab1 search1 Hn Hv Hs) as Hwf. fold w in Hwf.
    unfold trie_body_size.
    rewrite (recognize_written (fun _ => true) w iv vocab1 search1 Hwf eq_refl wm). cbn [h_order h_counts].
    assert (Ecounts : chunks8 (w_order w) (w_counts w) = trie_counts n t).
    { unfold w, trie_written. cbn [w_order w_counts].
      replace n with (length (trie_counts n t)) at 1 by (unfold trie_counts; rewrite map_length, seq_length; reflexivity).
      apply chunks8_bytes. exact counts_range. }
    rewrite Ecounts.
    assert (Hn2 : (2 <= n)%nat) by lia.
    pose proof (trie_image_size array cfg n V t pz M Hn2 HV ltac:(lia) Inv Hnodup Hdense Hrange Hsize) as Esearch.
    pose proof (sorted_vocab_region_size n t words ltac:(lia) Hwords) as Evocab.
    assert (Hlen : (length (w_vocab w) + w_pad w + length (w_search w))%nat =
                   Z.to_nat (sorted_vocab_size (nth 0 (trie_counts n t) 0) + trie_size array cfg (trie_counts n t))).
    { unfold w, trie_written. cbn [w_vocab w_pad w_search]. rewrite !map_length. rewrite <- Evocab, <- Esearch. lia. }
    rewrite Hlen. f_equal. f_equal.
    (* the configured bits the loader uses are the ones the writer used *)
    change (w_order w) with n.
    destruct array; [|apply trie_size_no_array_cfg].
    destruct (Nat.ltb_spec 2 n) as [H3|H2]; cbn [andb].
    - f_equal.
      (* UpdateConfigFromBinary reads the byte behind the header, the vocabulary and the unigram array *)
      destruct (trie_levels_counts n V t pz M Hn2 HV Inv Hnodup Hdense Hrange Hsize) as [Llen Lmap].
      set (c0 := nth 0 (trie_counts n t) 0) in *.
      assert (Ec0 : Z.of_nat (length (nth 0 (trie_levels n t pz) [])) = c0).
      { unfold c0. rewrite <- Lmap. exact (eq_sym (map_nth (fun l : list (rec pb) => Z.of_nat (length l)) (trie_levels n t pz) [] 0)). }
      pose proof (bhiksha_config_read_back cfg (trie_levels n t pz) ltac:(lia)) as Hcfgb. rewrite Ec0 in Hcfgb.
      unfold bhiksha_config_from in Hcfgb. apply (f_equal snd) in Hcfgb. cbn [snd] in Hcfgb.
      change (trie_bytes true cfg (mk_trie true cfg (trie_levels n t pz))) with (trie_image true cfg n t pz) in Hcfgb.
      unfold file_bhiksha_bits.
      rewrite (final_image_expected wm iv _ (contents_of_wf w iv vocab1 search1 Hwf)).
      unfold expected_image, contents_of. cbn [c_header c_vocab2 c_pad c_search2 c_words].
      change (w_pad w) with 0%nat. cbn [repeat app].
      assert (Hh : length (make_header (w_order w) (w_p0 w) (w_p1 w) (w_p2 w) (w_p3 w) (w_model_type w) (hv_byte iv) (w_search_version w) (w_counts w)) = header_size n).
      { apply make_header_length; [unfold w, trie_written; cbn [w_order]; lia|]. destruct Hwf as (_ & Hc & _). exact Hc. }
      assert (Hvl : length (w_vocab w) = Z.to_nat (sorted_vocab_size c0)).
      { unfold w, trie_written. cbn [w_vocab]. rewrite map_length. rewrite <- Evocab. rewrite Nat2Z.id. reflexivity. }
      assert (Hk : (S (Z.to_nat (unigram_size c0)) < length (w_search w))%nat).
      { unfold w, trie_written. cbn [w_search]. rewrite map_length.
        pose proof (trie_bytes_has_config cfg (trie_levels n t pz) ltac:(lia)) as Hc.
        change (trie_bytes true cfg (mk_trie true cfg (trie_levels n t pz))) with (trie_image true cfg n t pz) in Hc.
        pose proof (uni_bytes_len (mk_trie true cfg (trie_levels n t pz))) as Hu.
        assert (Eu : tm_uni (mk_trie true cfg (trie_levels n t pz)) = nth 0 (trie_levels n t pz) []) by reflexivity.
        rewrite Eu, Ec0 in Hu. rewrite <- Hu, Nat2Z.id. exact Hc. }
      rewrite <- Hh, <- Hvl. rewrite <- Nat.add_assoc, Nat.add_assoc.
      rewrite (nth_app3 _ _ (w_vocab w) (w_search w ++ (if iv then w_words w else [])) _ 0%nat) by (rewrite app_length; lia).
      rewrite app_nth1 by exact Hk.
      unfold w, trie_written. cbn [w_search]. change 0%nat with (Z.to_nat 0). rewrite map_nth. rewrite Hcfgb.
      assert (Hl : 0 <= Z.land cfg 255) by (apply Z.land_nonneg; right; lia).
      rewrite Z2Nat.id by exact Hl. change 255 with (Z.ones 8). rewrite Z.land_ones by lia. apply Z.mod_small. lia.
    - (* order 2: no middle array, the size does not depend on the bits *)
      assert (n = 2)%nat by lia. subst n. unfold trie_counts. cbn [seq map]. apply trie_size_order2_cfg.
  Qed.
End Agree.

(* model_file_loads_back with the loader's own size function: no hypothesis about sizes is left *)
Theorem trie_file_loads_back : forall pm_ok words_ok (array : bool) cfg pm n V (t : atable) pz M words (iv : bool) vocab1 search1 wm lcfg,
  let w := trie_written array cfg pm n t pz words in
  (2 <= n <= max_order)%nat -> 0 <= V < 2 ^ 32 -> 0 <= cfg < 256 -> TInv n (alookup t) M -> NoDup (map fst t) ->
  (forall x, alookup t [x] <> None <-> Z.of_N x < V) ->
  (forall k e, alookup t k = Some e -> - 2 ^ 24 < e_prob e < 2 ^ 24 /\ - 2 ^ 24 < e_bo e < 2 ^ 24) ->
  Z.of_nat (n * length t) < 2 ^ 57 -> S (length words) = length (order_entries t 1) ->
  length vocab1 = length (sorted_vocab_bytes words) -> length search1 = length (trie_image array cfg n t pz) ->
  pm_ok [w_p0 w; w_p1 w; w_p2 w; w_p3 w] = true ->
  l_model_type lcfg = w_model_type w -> l_search_version lcfg = w_search_version w ->
  (l_enumerate lcfg = true -> iv = true) ->
  (iv = true -> l_enumerate lcfg = true -> words_ok (w_counts w) (w_words w) = true) ->
  load pm_ok (trie_body_size array) words_ok lcfg (final_image wm iv (contents_of w iv vocab1 search1))
    = Some (body_of w iv, if iv && l_enumerate lcfg then Some (w_words w) else None) /\
  firstn (length (w_vocab w)) (skipn (header_size n) (body_of w iv)) = map Z.to_nat (sorted_vocab_bytes words) /\
  firstn (length (w_search w)) (skipn (header_size n + length (w_vocab w) + 0) (body_of w iv)) = map Z.to_nat (trie_image array cfg n t pz).
Proof.
  intros pm_ok words_ok array cfg pm n V t pz M words iv vocab1 search1 wm lcfg w Hn HV Hcfg Inv Hnd Hdense Hrange Hsize Hwords Hv Hs Hpm Ht Hsv He Hw.
  apply (model_file_loads_back pm_ok (trie_body_size array) words_ok array cfg pm n t pz words iv vocab1 search1 wm lcfg Hn Hv Hs Hpm Ht Hsv He); [|exact Hw].
  exact (trie_body_size_agrees array cfg pm n V t pz M words Hn HV Hcfg Inv Hnd Hdense Hrange Hsize Hwords lcfg iv vocab1 search1 wm Hv Hs).
Qed.

(* a concrete file: an order-3 model with a blank (the trigram "a b a" needs the bigram "b a"), written as an array trie with 3 configured
   bits; the loader's size function, run on the bytes of the file, returns the extent of vocabulary + search structure *)
From Kenlm Require Import LM.Load.
Definition ex_table : atable :=
  match load_trie 3 true (-6400)
          [ {| g_key := [0%N]; g_prob := -128; g_bo := 0; g_pz := false |}; {| g_key := [1%N]; g_prob := -64; g_bo := -32; g_pz := false |};
            {| g_key := [2%N]; g_prob := -96; g_bo := -16; g_pz := false |} ]
          [ [ {| g_key := [2%N; 1%N]; g_prob := -40; g_bo := -8; g_pz := false |} ];
            [ {| g_key := [1%N; 2%N; 1%N]; g_prob := -24; g_bo := 0; g_pz := false |} ] ] with
  | Loaded t => t
  | LoadError _ => []
  end.
Definition ex_words : list (list Z) := [[97]; [98]].
Example ex_loader_size :
  let file := trie_file true 3 1069547520 3 ex_table [] ex_words true in
  ex_table <> [] /\
  trie_body_size true {| l_model_type := 4; l_search_version := 1; l_enumerate := false |} (map Z.to_nat file)
  = (length (sorted_vocab_bytes ex_words) + length (trie_image true 3 3 ex_table []))%nat /\
  (header_size 3 + length (sorted_vocab_bytes ex_words) + length (trie_image true 3 3 ex_table []) + length (strings_bytes ex_words))%nat = length file.
Proof. vm_compute. repeat split; discriminate. Qed.
