(* C04/TrieParseProofs.v -- reading back what was laid out: parse_trie (C04/TrieParse.v: the slices SetupMemory takes, from the counts and
   the configuration alone) applied to the bytes of the search structure built from level lists (C03/TrieMem.v trie_bytes (mk_trie ..))
   returns exactly that structure -- every record of the unigram array, the closing pointer, the memory of every bit-packed array
   (which fits its Size() bytes: C04/MemBound.v) and ArrayBhiksha's offset table.  So the arrays the loader queries after mapping a file
   are the arrays the builder queried before writing it. *)
From Coq Require Import ZArith Lia Bool List Arith.
From Kenlm Require Import Base.Mem C20.ArrayModel C20.MiddleAProofs C03.BhikshaModel C03.BhikshaProofs C03.TrieLayout C03.TrieMem C03.TrieMemProofs
                          C03.TrieWalkProofs C04.TrieSize C04.TrieSizeProofs C04.MemBound C04.TrieParse.
Import ListNotations.
Local Open Scope Z_scope.

(* ---- slices ---- *)
Lemma slice_app_mid : forall (a b c : list Z), slice (length a) (length b) (a ++ b ++ c) = b.
Proof.
  intros a b c. unfold slice. rewrite skipn_app, skipn_all, Nat.sub_diag. cbn [app skipn].
  rewrite firstn_app, firstn_all, Nat.sub_diag. cbn [firstn]. apply app_nil_r.
Qed.

Lemma slice_app_mid' : forall (a b c : list Z) o n, o = length a -> n = length b -> slice o n (a ++ b ++ c) = b.
Proof. intros a b c o n -> ->. apply slice_app_mid. Qed.

Lemma slice_0 : forall (b c : list Z) n, n = length b -> slice 0 n (b ++ c) = b.
Proof. intros b c n ->. exact (slice_app_mid [] b c). Qed.

Lemma skipn_add : forall (l : list Z) a b, skipn (a + b) l = skipn b (skipn a l).
Proof.
  intros l a. revert l. induction a as [|a IH]; intros l b; [reflexivity|].
  destruct l as [|x r]; [cbn [plus skipn]; destruct b; reflexivity|]. cbn [plus skipn]. apply IH.
Qed.

Lemma slice_flat_map_fixed : forall (A : Type) (f : A -> list Z) (k : nat) (d : A) (l : list A) (i : nat) (rest : list Z),
  (forall x, length (f x) = k) -> (i < length l)%nat -> slice (k * i) k (flat_map f l ++ rest) = f (nth i l d).
Proof.
  intros A f k d. induction l as [|x r IH]; intros i rest Hk Hi; [cbn in Hi; lia|].
  cbn [flat_map]. rewrite <- app_assoc. destruct i as [|i].
  - rewrite Nat.mul_0_r. cbn [nth]. apply slice_0. symmetry. apply Hk.
  - cbn [nth]. cbn [length] in Hi. rewrite <- (IH i rest Hk ltac:(lia)).
    unfold slice. f_equal. rewrite Nat.mul_succ_r, Nat.add_comm. rewrite <- (Hk x) at 1.
    rewrite skipn_add. f_equal. rewrite skipn_app, skipn_all, Nat.sub_diag. reflexivity.
Qed.

(* ---- the unigram array ---- *)
Definition uni_rec_bytes (r : rec pb) : list Z := le_bytes 4 (fst (r_val _ r)) ++ le_bytes 4 (snd (r_val _ r)) ++ le_bytes 8 (r_next _ r).
Definition uni_tail (uni_end : Z) : list Z := le_bytes 8 0 ++ le_bytes 8 uni_end ++ le_bytes 16 0.

Lemma uni_bytes_is : forall t, uni_bytes t = flat_map uni_rec_bytes (tm_uni t) ++ uni_tail (tm_uni_end t).
Proof. reflexivity. Qed.

Lemma uni_rec_bytes_len : forall r, length (uni_rec_bytes r) = 16%nat.
Proof. intros. unfold uni_rec_bytes, le_bytes. rewrite !app_length, !bytes_of_Z_len. reflexivity. Qed.

Definition uni_rec_ok (i : nat) (r : rec pb) : Prop :=
  r_word _ r = Z.of_nat i /\ 0 <= fst (r_val _ r) < 2 ^ 32 /\ 0 <= snd (r_val _ r) < 2 ^ 32 /\ 0 <= r_next _ r < 2 ^ 64.

Lemma parse_uni_rec_ok : forall (u : list (rec pb)) rest i, (i < length u)%nat -> uni_rec_ok i (nth i u dflt) ->
  parse_uni_rec (flat_map uni_rec_bytes u ++ rest) i = nth i u dflt.
Proof.
  intros u rest i Hi [Hw [Ha [Hb Hn]]]. unfold parse_uni_rec.
  rewrite (slice_flat_map_fixed _ uni_rec_bytes 16 dflt u i rest uni_rec_bytes_len Hi).
  destruct (nth i u dflt) as [w [a b] nx]. cbn [r_word r_val r_next fst snd] in *. subst w.
  unfold uni_rec_bytes, le_bytes. cbn [r_val r_next fst snd].
  rewrite (slice_0 (bytes_of_Z 4 a)) by (rewrite bytes_of_Z_len; reflexivity).
  rewrite (slice_app_mid' (bytes_of_Z 4 a) (bytes_of_Z 4 b) (bytes_of_Z 8 nx)) by (rewrite bytes_of_Z_len; reflexivity).
  replace (bytes_of_Z 4 a ++ bytes_of_Z 4 b ++ bytes_of_Z 8 nx) with ((bytes_of_Z 4 a ++ bytes_of_Z 4 b) ++ bytes_of_Z 8 nx ++ []) by (rewrite app_nil_r, app_assoc; reflexivity).
  rewrite (slice_app_mid' (bytes_of_Z 4 a ++ bytes_of_Z 4 b) (bytes_of_Z 8 nx) []) by (rewrite ?app_length, !bytes_of_Z_len; reflexivity).
  rewrite !Z_of_bytes_of_Z by (cbn; lia). reflexivity.
Qed.

Lemma parse_uni_ok : forall (u : list (rec pb)) rest, (forall i, (i < length u)%nat -> uni_rec_ok i (nth i u dflt)) ->
  parse_uni (length u) (flat_map uni_rec_bytes u ++ rest) = u.
Proof.
  intros u rest H. unfold parse_uni.
  apply nth_ext with (d := parse_uni_rec (flat_map uni_rec_bytes u ++ rest) 0) (d' := dflt); [rewrite map_length, seq_length; reflexivity|].
  intros i Hi. rewrite map_length, seq_length in Hi. rewrite map_nth. rewrite seq_nth by exact Hi. cbn [plus].
  apply parse_uni_rec_ok; [exact Hi|apply H; exact Hi].
Qed.

Lemma parse_uni_end_ok : forall (u : list (rec pb)) e rest, 0 <= e < 2 ^ 64 ->
  parse_uni_end (length u) (flat_map uni_rec_bytes u ++ bytes_of_Z 8 0 ++ bytes_of_Z 8 e ++ rest) = e.
Proof.
  intros u e rest He. unfold parse_uni_end.
  assert (El : (16 * length u + 8)%nat = length (flat_map uni_rec_bytes u ++ bytes_of_Z 8 0)).
  { rewrite app_length, (flat_map_fixed_len _ _ 16%nat) by apply uni_rec_bytes_len. rewrite bytes_of_Z_len. lia. }
  rewrite app_assoc.
  rewrite (slice_app_mid' _ (bytes_of_Z 8 e) _ _ 8%nat El) by (rewrite bytes_of_Z_len; reflexivity).
  apply Z_of_bytes_of_Z. cbn. lia.
Qed.

(* ---- ArrayBhiksha's offset table ---- *)
Lemma slice_skip : forall (p x : list Z) o n, slice (length p + o) n (p ++ x) = slice o n x.
Proof. intros p x o n. unfold slice. rewrite skipn_add, skipn_app, skipn_all, Nat.sub_diag. reflexivity. Qed.

Lemma parse_offs_ok : forall off cfg offs rest, (forall x, In x offs -> 0 <= x < 2 ^ 64) ->
  map (fun i => Z_of_bytes (slice (Z.to_nat ((8 - off mod 8) mod 8) + 8 + 8 * i) 8 (bhiksha_bytes off cfg offs ++ rest))) (seq 0 (length offs)) = offs.
Proof.
  intros off cfg offs rest Hr. unfold bhiksha_bytes.
  set (pad := (8 - off mod 8) mod 8). assert (Hp : 0 <= pad < 8) by (unfold pad; apply Z.mod_pos_bound; lia).
  set (P := [0; Z.land cfg 255] ++ repeat 0 (Z.to_nat (pad + 8 - 2))).
  assert (HP : length P = (Z.to_nat pad + 8)%nat) by (unfold P; rewrite app_length, repeat_length; cbn [length]; lia).
  set (R := repeat 0 (Z.to_nat (8 * (1 + Z.of_nat (length offs)) + 7 - Z.of_nat (length (P ++ flat_map (le_bytes 8) offs))))).
  apply nth_ext with (d := Z_of_bytes (slice (Z.to_nat pad + 8 + 8 * 0) 8 (((P ++ flat_map (le_bytes 8) offs) ++ R) ++ rest))) (d' := 0);
    [rewrite map_length, seq_length; reflexivity|].
  intros i Hi. rewrite map_length, seq_length in Hi.
  rewrite (map_nth (fun i => Z_of_bytes (slice (Z.to_nat pad + 8 + 8 * i) 8 (((P ++ flat_map (le_bytes 8) offs) ++ R) ++ rest)))).
  rewrite seq_nth by exact Hi. cbn [plus].
  rewrite <- HP. rewrite <- !app_assoc. rewrite slice_skip.
  rewrite (slice_flat_map_fixed _ (le_bytes 8) 8 0 offs i (R ++ rest)) by (intros; try apply bytes_of_Z_len; exact Hi).
  unfold le_bytes. apply Z_of_bytes_of_Z. specialize (Hr (nth i offs 0) (nth_In _ _ Hi)). cbn. lia.
Qed.

Lemma mk_mid_offs_range : forall cfg vocab (l : list (rec pb)) max_next, 0 <= cfg -> 0 <= max_next < 2 ^ 57 -> nx_ok l max_next ->
  forall x, In x (mm_offs (mk_mid true cfg vocab l max_next)) -> 0 <= x <= Z.of_nat (S (length l)).
Proof.
  intros cfg vocab l max_next Hc Hm Hnx x Hx. unfold mk_mid in Hx. cbn [mm_offs] in Hx.
  rewrite tmidA_offs in Hx. cbn [t_nb] in Hx.
  destruct (nx_ok_sorted l max_next ltac:(lia) Hnx) as [Hs Hn].
  set (b := inline_bits (Z.of_nat (length l) + 1) max_next cfg) in *.
  assert (Hb : 0 <= b) by (pose proof (inline_bits_range (Z.of_nat (length l) + 1) max_next cfg Hc Hm); unfold b; lia).
  rewrite (write_spec b Hb _ Hs Hn) in Hx. cbn [fst] in Hx. apply in_map_iff in Hx. destruct Hx as [e [<- _]].
  pose proof (first_idx_range b (map rnext l ++ [max_next]) (Z.of_nat e)) as Hr.
  rewrite app_length, map_length in Hr. cbn [length] in Hr. lia.
Qed.

(* ---- one middle array ---- *)
Lemma mk_mid_shape : forall (array : bool) cfg vocab (l : list (rec pb)) max_next,
  mk_mid array cfg vocab l max_next =
  {| mm_par := {| t_base := 0; t_wb := bits_needed vocab; t_nb := next_bits array (Z.of_nat (length l)) max_next cfg; t_max_vocab := vocab |};
     mm_mem := mm_mem (mk_mid array cfg vocab l max_next); mm_offs := mm_offs (mk_mid array cfg vocab l max_next); mm_count := length l |}.
Proof. intros. unfold mk_mid, next_bits. destruct array; reflexivity. Qed.

Lemma parse_mid_ok : forall (array : bool) cfg vocab (l : list (rec pb)) max_next off rest,
  0 <= cfg -> 0 <= max_next < 2 ^ 57 -> Z.of_nat (length l) < 2 ^ 57 -> (array = true -> nx_ok l max_next) ->
  let mm := mk_mid array cfg vocab l max_next in
  parse_mid array cfg vocab (Z.of_nat (length l)) max_next off (mid_bytes array cfg off mm ++ rest) = (mm, length (mid_bytes array cfg off mm)).
Proof.
  intros array cfg vocab l max_next off rest Hc Hm Hl57 Hnx mm.
  pose proof (next_bits_nonneg array (Z.of_nat (length l)) max_next cfg Hc Hm) as Hnb.
  pose proof (mk_mid_mem_bound array cfg vocab l max_next Hnb) as Hmem. fold mm in Hmem. cbv zeta in Hmem.
  pose proof (mk_mid_shape array cfg vocab l max_next) as Eshape. fold mm in Eshape.
  unfold parse_mid, mid_bytes. fold mm.
  assert (Ecount : mm_count mm = length l) by apply mk_mid_count.
  assert (Enb : t_nb (mm_par mm) = next_bits array (Z.of_nat (length l)) max_next cfg) by apply mk_mid_nb.
  assert (Evoc : t_max_vocab (mm_par mm) = vocab) by apply mk_mid_vocab.
  rewrite Ecount, Enb, Evoc in *.
  set (size := bitpacked_base_size (Z.of_nat (length l)) vocab (63 + next_bits array (Z.of_nat (length l)) max_next cfg)) in *.
  assert (Hsz : 0 <= size) by (unfold size; apply bitpacked_base_size_nonneg; lia).
  set (B := if array then bhiksha_bytes off cfg (mm_offs mm) else []).
  assert (HB : length B = Z.to_nat (bhiksha_size array (Z.of_nat (length l) + 1) max_next cfg)).
  { unfold B, bhiksha_size. destruct array; [|reflexivity].
    rewrite <- (Nat2Z.id (length _)). f_equal. rewrite bhiksha_bytes_len. unfold mm. rewrite (mk_mid_offs_len cfg vocab l max_next Hc Hm (Hnx eq_refl)). reflexivity. }
  rewrite <- HB. rewrite <- app_assoc.
  rewrite (slice_app_mid' B (bytes_of_Z (Z.to_nat size) (mm_mem mm)) rest _ _ eq_refl) by (rewrite bytes_of_Z_len; reflexivity).
  rewrite Z_of_bytes_of_Z by (rewrite Z2Nat.id by exact Hsz; exact Hmem).
  rewrite app_length, bytes_of_Z_len. f_equal.
  etransitivity; [|symmetry; exact Eshape]. rewrite Nat2Z.id. f_equal.
  (* the offset table *)
  unfold B. destruct array; [|unfold mm, mk_mid; reflexivity].
  replace (Z.to_nat (array_count (Z.of_nat (length l) + 1) max_next cfg)) with (length (mm_offs mm))
    by (rewrite <- (Nat2Z.id (length _)); f_equal; unfold mm; apply (mk_mid_offs_len cfg vocab l max_next Hc Hm (Hnx eq_refl))).
  apply parse_offs_ok. intros x Hx. pose proof (mk_mid_offs_range cfg vocab l max_next Hc Hm (Hnx eq_refl) x Hx) as Hr.
  assert (2 ^ 57 < 2 ^ 64) by (apply Z.pow_lt_mono_r; lia). lia.
Qed.

(* ---- all middle arrays ---- *)
Lemma parse_mids_cons2 : forall array cfg vocab c c' rest off bs,
  parse_mids array cfg vocab (c :: c' :: rest) off bs =
  let '(mm, sz) := parse_mid array cfg vocab c c' off bs in
  let '(mms, tail) := parse_mids array cfg vocab (c' :: rest) (off + Z.of_nat sz) (skipn sz bs) in (mm :: mms, tail).
Proof. reflexivity. Qed.

Lemma parse_mids_ok : forall (array : bool) cfg vocab ls off rest, 0 <= cfg -> levels_nx ls ->
  Forall (fun l : list (rec pb) => Z.of_nat (length l) < 2 ^ 57) ls ->
  parse_mids array cfg vocab (map (fun l : list (rec pb) => Z.of_nat (length l)) ls) off
             (mids_bytes array cfg off (mk_mids array cfg vocab ls) ++ rest) = (mk_mids array cfg vocab ls, rest).
Proof.
  intros array cfg vocab. induction ls as [|l r IH]; intros off rest Hc Hnx H57; [reflexivity|].
  destruct r as [|l' r']; [reflexivity|].
  change (mk_mids array cfg vocab (l :: l' :: r')) with (mk_mid array cfg vocab l (Z.of_nat (length l')) :: mk_mids array cfg vocab (l' :: r')).
  cbn [mids_bytes].
  change (map (fun l0 : list (rec pb) => Z.of_nat (length l0)) (l :: l' :: r'))
    with (Z.of_nat (length l) :: Z.of_nat (length l') :: map (fun l0 : list (rec pb) => Z.of_nat (length l0)) r').
  rewrite parse_mids_cons2.
  destruct Hnx as [Hl' [Hn Hrest]]. inversion H57 as [|? ? Hl Hr57]. subst.
  rewrite <- app_assoc.
  rewrite (parse_mid_ok array cfg vocab l (Z.of_nat (length l')) off _ Hc ltac:(lia) Hl (fun _ => Hn)).
  rewrite skipn_app, skipn_all, Nat.sub_diag. cbn [app skipn].
  change (Z.of_nat (length l') :: map (fun l0 : list (rec pb) => Z.of_nat (length l0)) r')
    with (map (fun l0 : list (rec pb) => Z.of_nat (length l0)) (l' :: r')).
  rewrite (IH _ rest Hc Hrest Hr57). reflexivity.
Qed.

(* ---- the whole search structure ---- *)
Lemma Lok_tail_sizes : forall vocab ls, Lok vocab ls -> Forall (fun l : list (rec pb) => Z.of_nat (length l) < 2 ^ 57) (tl ls).
Proof.
  intros vocab. induction ls as [|l r IH]; intros H; [constructor|]. cbn [tl].
  destruct r as [|l' r']; [constructor|]. cbn [Lok] in H. destruct H as [_ [[H57 _] Hr]].
  constructor; [exact H57|]. exact (IH Hr).
Qed.

Definition dense_words (l : list (rec pb)) : Prop := forall i, (i < length l)%nat -> r_word _ (nth i l dflt) = Z.of_nat i.

Theorem parse_trie_ok : forall (array : bool) cfg (ls : levels pb) vocab rest,
  0 <= cfg -> (2 <= length ls)%nat -> Lok vocab ls -> dense_words (nth 0 ls []) ->
  parse_trie array cfg (map (fun l : list (rec pb) => Z.of_nat (length l)) ls) (trie_bytes array cfg (mk_trie array cfg ls) ++ rest)
  = mk_trie array cfg ls.
Proof.
  intros array cfg ls vocab rest Hc Hl HL Hdense.
  destruct ls as [|l0 [|l1 r]]; try (cbn in Hl; lia).
  pose proof (Lok_tail_sizes vocab _ HL) as Hsizes. cbn [tl] in Hsizes.
  assert (HLr : Lok vocab (l1 :: r)) by (cbn [Lok] in HL; destruct HL as [_ [_ H]]; exact H).
  assert (Hl1 : Z.of_nat (length l1) < 2 ^ 57) by (inversion Hsizes; assumption).
  cbn [Lok] in HL. destruct HL as [Hvals [[_ Hrange] _]].
  set (t := mk_trie array cfg (l0 :: l1 :: r)).
  assert (Et : t = mk_trie array cfg (l0 :: l1 :: r)) by reflexivity.
  unfold mk_trie in Et. cbn [nth tl] in Et.
  assert (Euni : tm_uni t = l0) by (rewrite Et; reflexivity).
  assert (Eend : tm_uni_end t = Z.of_nat (length l1)) by (rewrite Et; reflexivity).
  assert (Emids : tm_mids t = mk_mids array cfg (Z.of_nat (length l0)) (l1 :: r)) by (rewrite Et; reflexivity).
  unfold trie_bytes. fold t.
  set (u := uni_bytes t).
  assert (Hu : Z.of_nat (length u) = unigram_size (Z.of_nat (length l0))) by (unfold u; rewrite uni_bytes_len, Euni; reflexivity).
  unfold parse_trie.
  change (nth 0 (map (fun l : list (rec pb) => Z.of_nat (length l)) (l0 :: l1 :: r)) 0) with (Z.of_nat (length l0)).
  change (tl (map (fun l : list (rec pb) => Z.of_nat (length l)) (l0 :: l1 :: r))) with (map (fun l : list (rec pb) => Z.of_nat (length l)) (l1 :: r)).
  rewrite <- Hu, Nat2Z.id.
  rewrite <- !app_assoc. rewrite skipn_app, skipn_all, Nat.sub_diag. cbn [app skipn].
  rewrite Emids.
  rewrite (parse_mids_ok array cfg (Z.of_nat (length l0)) (l1 :: r) (Z.of_nat (length u)) _ Hc (Lok_levels_nx vocab _ HLr) Hsizes).
  (* the longest array *)
  assert (Elast : last (map (fun l : list (rec pb) => Z.of_nat (length l)) (l0 :: l1 :: r)) 0 = Z.of_nat (length (last (l0 :: l1 :: r) []))).
  { exact (last_map _ _ (fun l : list (rec pb) => Z.of_nat (length l)) (l0 :: l1 :: r) [] ltac:(discriminate)). }
  rewrite Elast. unfold longest_size.
  assert (Elc : tm_long_count t = length (last (l0 :: l1 :: r) [])) by (rewrite Et; reflexivity).
  assert (Elp : tm_long_par t = {| l_base := 0; l_wb := bits_needed (Z.of_nat (length l0)); l_max_vocab := Z.of_nat (length l0) |}) by (rewrite Et; reflexivity).
  assert (Elong : tm_long t = tlong_inserts (tm_long_par t) 0 0 (last (l0 :: l1 :: r) [])) by (rewrite Et; reflexivity).
  rewrite Elc. rewrite Elp at 1. cbn [l_max_vocab].
  set (lsz := bitpacked_base_size (Z.of_nat (length (last (l0 :: l1 :: r) []))) (Z.of_nat (length l0)) 31).
  assert (Hlsz : 0 <= lsz) by (unfold lsz; apply bitpacked_base_size_nonneg; lia).
  rewrite (slice_0 (bytes_of_Z (Z.to_nat lsz) (tm_long t))) by (rewrite bytes_of_Z_len; reflexivity).
  rewrite Z_of_bytes_of_Z.
  2:{ rewrite Z2Nat.id by exact Hlsz. rewrite Elong, Elp.
      apply (tlong_inserts_bound {| l_base := 0; l_wb := bits_needed (Z.of_nat (length l0)); l_max_vocab := Z.of_nat (length l0) |}
               (Z.of_nat (length (last (l0 :: l1 :: r) []))) (last (l0 :: l1 :: r) []) 0 0 eq_refl eq_refl ltac:(lia) ltac:(lia)).
      cbn [l_max_vocab]. fold lsz. apply pow_pos8. exact Hlsz. }
  (* the unigram array and its closing pointer *)
  unfold u. rewrite uni_bytes_is, Euni, Eend. rewrite !Nat2Z.id.
  unfold uni_tail, le_bytes. rewrite <- !app_assoc.
  rewrite parse_uni_ok.
  2:{ intros i Hi. unfold uni_rec_ok. split; [apply Hdense; exact Hi|].
      unfold vals_ok in Hvals. rewrite Forall_forall in Hvals. destruct (Hvals (nth i l0 dflt) (nth_In _ _ Hi)) as [_ [Ha Hb]].
      split; [exact Ha|]. split; [exact Hb|].
      destruct (Hrange (Z.of_nat i) ltac:(lia)) as [R1 [R2 [R3 _]]].
      assert (E : nxt l0 (Z.of_nat (length l1)) (Z.of_nat i) = r_next _ (nth i l0 dflt)).
      { unfold nxt. destruct (Z.ltb_spec (Z.of_nat i) (Z.of_nat (length l0))); [|lia]. rewrite Nat2Z.id. reflexivity. }
      rewrite E in R1, R2.
      assert (2 ^ 57 < 2 ^ 64) by (apply Z.pow_lt_mono_r; lia). lia. }
  rewrite parse_uni_end_ok by (assert (2 ^ 57 < 2 ^ 64) by (apply Z.pow_lt_mono_r; lia); lia).
  rewrite Et. reflexivity.
Qed.
