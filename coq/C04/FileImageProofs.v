(* C04/FileImageProofs.v -- the file model of C04/FileImage.v meets the file theorems of C04/RoundTrip.v / C09/CrashProofs.v:
   whatever the write method, and whatever the mapping held before FinishFile, the bytes the system-call trace of a build leaves in
   the file are exactly the model's file (trie_file): model_file_is_final_image. *)
From Coq Require Import ZArith Lia Bool List Arith NArith.
From Kenlm Require Import Base.Mem Gen.BinaryFormatConsts C09.CrashModel C09.CrashProofs C04.RoundTrip LM.Defs
                          C03.TrieLayout C03.TrieMem C03.TrieImage C04.FileImage.
Import ListNotations.
Local Open Scope Z_scope.

Definition nn (l : list Z) : Prop := Forall (fun b => 0 <= b) l.

Lemma nn_app : forall a b, nn a -> nn b -> nn (a ++ b).
Proof. intros. apply Forall_app. split; assumption. Qed.
Lemma nn_repeat0 : forall n, nn (repeat 0 n).
Proof. induction n; cbn [repeat]; constructor; [lia|assumption]. Qed.
Lemma nn_bytes_of_Z : forall n m, nn (bytes_of_Z n m).
Proof.
  induction n as [|n IH]; intros m; cbn [bytes_of_Z]; constructor; [|apply IH].
  apply Z.land_nonneg. right. lia.
Qed.
Lemma nn_flat_map : forall (A : Type) (f : A -> list Z) l, (forall x, nn (f x)) -> nn (flat_map f l).
Proof. intros A f l H. induction l as [|x r IH]; cbn [flat_map]; [constructor|apply nn_app; [apply H|exact IH]]. Qed.

Lemma of_to_nat : forall l, nn l -> map Z.of_nat (map Z.to_nat l) = l.
Proof.
  induction l as [|x r IH]; intros H; [reflexivity|]. inversion H. subst. cbn [map]. rewrite Z2Nat.id by assumption. rewrite IH by assumption. reflexivity.
Qed.

Lemma nn_sorted_vocab : forall words, nn (sorted_vocab_bytes words).
Proof. intros. unfold sorted_vocab_bytes. repeat apply nn_app; try apply nn_bytes_of_Z. apply nn_flat_map. intros. apply nn_bytes_of_Z. Qed.

Lemma nn_strings : forall words, Forall nn words -> nn (strings_bytes words).
Proof.
  intros words H. unfold strings_bytes. apply nn_app; [repeat constructor; lia|].
  induction H as [|w r Hw Hr IH]; cbn [flat_map]; [constructor|]. apply nn_app; [apply nn_app; [exact Hw|repeat constructor; lia]|exact IH].
Qed.

Lemma nn_mids_bytes : forall array cfg mids off, nn (mids_bytes array cfg off mids).
Proof.
  intros array cfg. induction mids as [|mm r IH]; intros off; cbn [mids_bytes]; [constructor|].
  apply nn_app; [|apply IH]. unfold mid_bytes. apply nn_app; [|apply nn_bytes_of_Z].
  destruct array; [|constructor]. unfold bhiksha_bytes. apply nn_app; [|apply nn_repeat0].
  apply nn_app; [constructor; [lia|constructor; [apply Z.land_nonneg; right; lia|constructor]]|].
  apply nn_app; [apply nn_repeat0|]. apply nn_flat_map. intros. apply nn_bytes_of_Z.
Qed.

Lemma nn_trie_image : forall array cfg n t pz, nn (trie_image array cfg n t pz).
Proof.
  intros. unfold trie_image, trie_bytes. apply nn_app; [|apply nn_app; [apply nn_mids_bytes|apply nn_bytes_of_Z]].
  unfold TrieMem.uni_bytes. repeat apply nn_app; try apply nn_bytes_of_Z.
  apply nn_flat_map. intros r. repeat apply nn_app; apply nn_bytes_of_Z.
Qed.

(* the description handed to the writer model of C04/RoundTrip.v *)
Definition pm_byte (pm : Z) (i : nat) : nat := Z.to_nat (nth i (bytes_of_Z 4 pm) 0).

Definition trie_written (array : bool) (cfg pm : Z) (n : nat) (t : atable) (pz : list key) (words : list (list Z)) : written :=
  {| w_order := n; w_p0 := pm_byte pm 0; w_p1 := pm_byte pm 1; w_p2 := pm_byte pm 2; w_p3 := pm_byte pm 3;
     w_model_type := if array then 4%nat else 2%nat; w_search_version := 1%nat;
     w_counts := map Z.to_nat (flat_map (bytes_of_Z 8) (trie_counts n t));
     w_vocab := map Z.to_nat (sorted_vocab_bytes words); w_pad := 0%nat;
     w_search := map Z.to_nat (trie_image array cfg n t pz); w_words := map Z.to_nat (strings_bytes words) |}.

Lemma flat_map_bytes8_length : forall l, length (flat_map (bytes_of_Z 8) l) = (8 * length l)%nat.
Proof. induction l as [|x r IH]; [reflexivity|]. cbn [flat_map]. rewrite app_length, IH. cbn [bytes_of_Z length]. lia. Qed.

Theorem model_file_is_final_image : forall (array : bool) cfg pm n t pz words (iv : bool) wm vocab1 search1,
  (2 <= n <= max_order)%nat -> Forall nn words ->
  length vocab1 = length (sorted_vocab_bytes words) -> length search1 = length (trie_image array cfg n t pz) ->
  map Z.of_nat (final_image wm iv (contents_of (trie_written array cfg pm n t pz words) iv vocab1 search1))
  = trie_file array cfg pm n t pz words iv.
Proof.
  intros array cfg pm n t pz words iv wm vocab1 search1 Hn Hw Hv Hs.
  set (w := trie_written array cfg pm n t pz words).
  assert (Hwf : wf_written w vocab1 search1).
  { unfold wf_written, w, trie_written. cbn [w_order w_counts w_model_type w_search_version w_vocab w_search].
    split; [exact Hn|]. split; [rewrite map_length, flat_map_bytes8_length; unfold trie_counts; rewrite map_length, seq_length; reflexivity|].
    split; [unfold fits32; destruct array; cbn; lia|]. split; [unfold fits32; cbn; lia|].
    rewrite !map_length. split; assumption. }
  rewrite (final_image_expected wm iv _ (contents_of_wf w iv vocab1 search1 Hwf)).
  unfold expected_image, contents_of. cbn [c_header c_vocab2 c_pad c_search2 c_words].
  unfold w, trie_written. cbn [w_order w_p0 w_p1 w_p2 w_p3 w_model_type w_search_version w_counts w_vocab w_pad w_search w_words].
  cbn [repeat app]. rewrite !map_app.
  unfold trie_file, header_bytes, hv_byte, pm_byte. cbv zeta.
  apply (f_equal2 (@app Z)); [destruct array, iv; reflexivity|].
  apply (f_equal2 (@app Z)); [apply of_to_nat; apply nn_sorted_vocab|].
  apply (f_equal2 (@app Z)); [apply of_to_nat; apply nn_trie_image|].
  destruct iv; [|reflexivity]. apply of_to_nat. apply nn_strings. exact Hw.
Qed.

(* the writer description of the model file is well-formed ... *)
Lemma trie_written_wf : forall (array : bool) cfg pm n t pz words vocab1 search1,
  (2 <= n <= max_order)%nat ->
  length vocab1 = length (sorted_vocab_bytes words) -> length search1 = length (trie_image array cfg n t pz) ->
  wf_written (trie_written array cfg pm n t pz words) vocab1 search1.
Proof.
  intros array cfg pm n t pz words vocab1 search1 Hn Hv Hs.
  unfold wf_written, trie_written. cbn [w_order w_counts w_model_type w_search_version w_vocab w_search].
  split; [exact Hn|]. split; [rewrite map_length, flat_map_bytes8_length; unfold trie_counts; rewrite map_length, seq_length; reflexivity|].
  split; [unfold fits32; destruct array; cbn; lia|]. split; [unfold fits32; cbn; lia|].
  rewrite !map_length. split; assumption.
Qed.

(* ... so the loader of the written type accepts the model's file and finds the model's vocabulary region and the model's search
   structure exactly where it looks for them (C04_write_then_load instantiated with the file model) *)
Theorem model_file_loads_back :
  forall pm_ok body_size words_ok (array : bool) cfg pm n t pz words (iv : bool) vocab1 search1 wm lcfg,
  let w := trie_written array cfg pm n t pz words in
  (2 <= n <= max_order)%nat ->
  length vocab1 = length (sorted_vocab_bytes words) -> length search1 = length (trie_image array cfg n t pz) ->
  pm_ok [w_p0 w; w_p1 w; w_p2 w; w_p3 w] = true ->
  l_model_type lcfg = w_model_type w -> l_search_version lcfg = w_search_version w ->
  (l_enumerate lcfg = true -> iv = true) ->
  body_size lcfg (final_image wm iv (contents_of w iv vocab1 search1)) = (length (w_vocab w) + w_pad w + length (w_search w))%nat ->
  (iv = true -> l_enumerate lcfg = true -> words_ok (w_counts w) (w_words w) = true) ->
  load pm_ok body_size words_ok lcfg (final_image wm iv (contents_of w iv vocab1 search1))
    = Some (body_of w iv, if iv && l_enumerate lcfg then Some (w_words w) else None) /\
  firstn (length (w_vocab w)) (skipn (header_size n) (body_of w iv)) = map Z.to_nat (sorted_vocab_bytes words) /\
  firstn (length (w_search w)) (skipn (header_size n + length (w_vocab w) + 0) (body_of w iv)) = map Z.to_nat (trie_image array cfg n t pz).
Proof.
  intros pm_ok body_size words_ok array cfg pm n t pz words iv vocab1 search1 wm lcfg w Hn Hv Hs Hpm Ht Hsv He Hb Hw.
  pose proof (trie_written_wf array cfg pm n t pz words vocab1 search1 Hn Hv Hs) as Hwf. fold w in Hwf.
  destruct (write_then_load pm_ok body_size words_ok w iv vocab1 search1 Hwf Hpm wm lcfg Ht Hsv He Hb
              ltac:(intros _; reflexivity) Hw) as [L [V [S _]]].
  split; [exact L|]. split; [exact V|exact S].
Qed.
