(* C04/FileImageProofs.v -- the file model of C04/FileImage.v meets the file theorems of C04/RoundTrip.v / C09/CrashProofs.v:
   whatever the write method, and whatever the mapping held before FinishFile, the bytes the system-call trace of a build leaves in
   the file are exactly the model's file (trie_file): model_file_is_final_image. *)
From Coq Require Import ZArith Lia Bool List Arith NArith.
From Kenlm Require Import Base.Mem Gen.BinaryFormatConsts C09.CrashModel C09.CrashProofs C04.RoundTrip LM.Defs
                          C03.TrieLayout C03.TrieMem C03.TrieImage C04.FileImage.
Import ListNotations.
Local Open Scope Z_scope.

Definition nn (l : list Z) : Prop := Forall (fun b => 0 <= b) l.

Lemma nn_app : forall a b, nn a -> nn b -> nn (a ++ b).
Proof. intros. apply Forall_app. split; assumption. Qed.
Lemma nn_repeat0 : forall n, nn (repeat 0 n).
Proof. induction n; cbn [repeat]; constructor; [lia|assumption]. Qed.
Lemma nn_bytes_of_Z : forall n m, nn (bytes_of_Z n m).
Proof.
  induction n as [|n IH]; intros m; cbn [bytes_of_Z]; constructor; [|apply IH].
  apply Z.land_nonneg. right. lia.
Qed.
Lemma nn_flat_map : forall (A : Type) (f : A -> list Z) l, (forall x, nn (f x)) -> nn (flat_map f l).
Proof. intros A f l H. induction l as [|x r IH]; cbn [flat_map]; [constructor|apply nn_app; [apply H|exact IH]]. Qed.

Lemma of_to_nat : forall l, nn l -> map Z.of_nat (map Z.to_nat l) = l.
Proof.
  induction l as [|x r IH]; intros H; [reflexivity|]. inversion H. subst. cbn [map]. rewrite Z2Nat.id by assumption. rewrite IH by assumption. reflexivity.
Qed.

Lemma nn_sorted_vocab : forall words, nn (sorted_vocab_bytes words).
Proof. intros. unfold sorted_vocab_bytes. repeat apply nn_app; try apply nn_bytes_of_Z. apply nn_flat_map. intros. apply nn_bytes_of_Z. Qed.

Lemma nn_strings : forall words, Forall nn words -> nn (strings_bytes words).
Proof.
  intros words H. unfold strings_bytes. apply nn_app; [repeat constructor; lia|].
  induction H as [|w r Hw Hr IH]; cbn [flat_map]; [constructor|]. apply nn_app; [apply nn_app; [exact Hw|repeat constructor; lia]|exact IH].
Qed.

Lemma nn_mids_bytes : forall array cfg mids off, nn (mids_bytes array cfg off mids).
Proof.
  intros array cfg. induction mids as [|mm r IH]; intros off; cbn [mids_bytes]; [constructor|].
  apply nn_app; [|apply IH]. unfold mid_bytes. apply nn_app; [|apply nn_bytes_of_Z].
  destruct array; [|constructor]. unfold bhiksha_bytes. apply nn_app; [|apply nn_repeat0].
  apply nn_app; [constructor; [lia|constructor; [apply Z.land_nonneg; right; lia|constructor]]|].
  apply nn_app; [apply nn_repeat0|]. apply nn_flat_map. intros. apply nn_bytes_of_Z.
Qed.

Lemma nn_trie_image : forall array cfg n t pz, nn (trie_image array cfg n t pz).
Proof.
  intros. unfold trie_image, trie_bytes. apply nn_app; [|apply nn_app; [apply nn_mids_bytes|apply nn_bytes_of_Z]].
  unfold TrieMem.uni_bytes. repeat apply nn_app; try apply nn_bytes_of_Z.
  apply nn_flat_map. intros r. repeat apply nn_app; apply nn_bytes_of_Z.
Qed.

(* the description handed to the writer model of C04/RoundTrip.v *)
Definition pm_byte (pm : Z) (i : nat) : nat := Z.to_nat (nth i (bytes_of_Z 4 pm) 0).

Definition trie_written (array : bool) (cfg pm : Z) (n : nat) (t : atable) (pz : list key) (words : list (list Z)) : written :=
  {| w_order := n; w_p0 := pm_byte pm 0; w_p1 := pm_byte pm 1; w_p2 := pm_byte pm 2; w_p3 := pm_byte pm 3;
     w_model_type := if array then 4%nat else 2%nat; w_search_version := 1%nat;
     w_counts := map Z.to_nat (flat_map (bytes_of_Z 8) (trie_counts n t));
     w_vocab := map Z.to_nat (sorted_vocab_bytes words); w_pad := 0%nat;
     w_search := map Z.to_nat (trie_image array cfg n t pz); w_words := map Z.to_nat (strings_bytes words) |}.

Lemma flat_map_bytes8_length : forall l, length (flat_map (bytes_of_Z 8) l) = (8 * length l)%nat.
Proof. induction l as [|x r IH]; [reflexivity|]. cbn [flat_map]. rewrite app_length, IH. cbn [bytes_of_Z length]. lia. Qed.

Theorem model_file_is_final_image : forall (array : bool) cfg pm n t pz words (iv : bool) wm vocab1 search1,
  (2 <= n <= max_order)%nat -> Forall nn words ->
  length vocab1 = length (sorted_vocab_bytes words) -> length search1 = length (trie_image array cfg n t pz) ->
  map Z.of_nat (final_image wm iv (contents_of (trie_written array cfg pm n t pz words) iv vocab1 search1))
  = trie_file array cfg pm n t pz words iv.
Proof.
  intros array cfg pm n t pz words iv wm vocab1 search1 Hn Hw Hv Hs.
  set (w := trie_written array cfg pm n t pz words).
  assert (Hwf : wf_written w vocab1 search1).
  { unfold wf_written, w, trie_written. cbn [w_order w_counts w_model_type w_search_version w_vocab w_search].
    split; [exact Hn|]. split; [rewrite map_length, flat_map_bytes8_length; unfold trie_counts; rewrite map_length, seq_length; reflexivity|].
    split; [unfold fits32; destruct array; cbn; lia|]. split; [unfold fits32; cbn; lia|].
    rewrite !map_length. split; assumption. }
  rewrite (final_image_expected wm iv _ (contents_of_wf w iv vocab1 search1 Hwf)).
  unfold expected_image, contents_of. cbn [c_header c_vocab2 c_pad c_search2 c_words].
  unfold w, trie_written. cbn [w_order w_p0 w_p1 w_p2 w_p3 w_model_type w_search_version w_counts w_vocab w_pad w_search w_words].
  cbn [repeat app]. rewrite !map_app.
  unfold trie_file, header_bytes, hv_byte, pm_byte. cbv zeta.
  apply (f_equal2 (@app Z)); [destruct array, iv; reflexivity|].
  apply (f_equal2 (@app Z)); [apply of_to_nat; apply nn_sorted_vocab|].
  apply (f_equal2 (@app Z)); [apply of_to_nat; apply nn_trie_image|].
  destruct iv; [|reflexivity]. apply of_to_nat. apply nn_strings. exact Hw.
Qed.

(* the writer description of the model file is well-formed ... *)
Lemma trie_written_wf : forall (array : bool) cfg pm n t pz words vocab1 search1,
  (2 <= n <= max_order)%nat ->
  length vocab1 = length (sorted_vocab_bytes words) -> length search1 = length (trie_image array cfg n t pz) ->
  wf_written (trie_written array cfg pm n t pz words) vocab1 search1.
Proof.
  intros array cfg pm n t pz words vocab1 search1 Hn Hv Hs.
  unfold wf_written, trie_written. cbn [w_order w_counts w_model_type w_search_version w_vocab w_search].
  split; [exact Hn|]. split; [rewrite map_length, flat_map_bytes8_length; unfold trie_counts; rewrite map_length, seq_length; reflexivity|].
  split; [unfold fits32; destruct array; cbn; lia|]. split; [unfold fits32; cbn; lia|].
  rewrite !map_length. split; assumption.
Qed.

(* ... so the loader of the written type accepts the model's file and finds the model's vocabulary region and the model's search
   structure exactly where it looks for them (C04_write_then_load instantiated with the file model) *)
Theorem model_file_loads_back :
  forall pm_ok body_size words_ok (array : bool) cfg pm n t pz words (iv : bool) vocab1 search1 wm lcfg,
  let w := trie_written array cfg pm n t pz words in
  (2 <= n <= max_order)%nat ->
  length vocab1 = length (sorted_vocab_bytes words) -> length search1 = length (trie_image array cfg n t pz) ->
  pm_ok [w_p0 w; w_p1 w; w_p2 w; w_p3 w] = true ->
  l_model_type lcfg = w_model_type w -> l_search_version lcfg = w_search_version w ->
  (l_enumerate lcfg = true -> iv = true) ->
  body_size lcfg (final_image wm iv (contents_of w iv vocab1 search1)) = (length (w_vocab w) + w_pad w + length (w_search w))%nat ->
  (iv = true -> l_enumerate lcfg = true -> words_ok (w_counts w) (w_words w) = true) ->
  load pm_ok body_size words_ok lcfg (final_image wm iv (contents_of w iv vocab1 search1))
    = Some (body_of w iv, if iv && l_enumerate lcfg then Some (w_words w) else None) /\
  firstn (length (w_vocab w)) (skipn (header_size n) (body_of w iv)) = map Z.to_nat (sorted_vocab_bytes words) /\
  firstn (length (w_search w)) (skipn (header_size n + length (w_vocab w) + 0) (body_of w iv)) = map Z.to_nat (trie_image array cfg n t pz).
Proof.
  intros pm_ok body_size words_ok array cfg pm n t pz words iv vocab1 search1 wm lcfg w Hn Hv Hs Hpm Ht Hsv He Hb Hw.
  pose proof (trie_written_wf array cfg pm n t pz words vocab1 search1 Hn Hv Hs) as Hwf. fold w in Hwf.
  destruct (write_then_load pm_ok body_size words_ok w iv vocab1 search1 Hwf Hpm wm lcfg Ht Hsv He Hb
              ltac:(intros _; reflexivity) Hw) as [L [V [S _]]].
  split; [exact L|]. split; [exact V|exact S].
Qed.

(* ---- the probing / rest files: the same statement with the ProbingVocabulary region and the hashed search structure ---- *)
From Kenlm Require Import C20.ProbingModel C03.ProbingImage.

Lemma nn_cells_bytes : forall (kb vb : nat) (c : list cell),
  nn (flat_map (fun kv : cell => bytes_of_Z kb (fst kv) ++ bytes_of_Z vb (snd kv)) c).
Proof. intros. apply nn_flat_map. intros. apply nn_app; apply nn_bytes_of_Z. Qed.

Lemma some_inj : forall (A : Type) (a b : A), Some a = Some b -> a = b.
Proof. intros A a b H. injection H as H. exact H. Qed.

Lemma nn_probing_vocab : forall words b v, probing_vocab_bytes words b = Some v -> nn v.
Proof.
  intros words b v H. unfold probing_vocab_bytes in H. destruct (table_cells b _) as [c|]; [|discriminate].
  apply some_inj in H. rewrite <- H. apply nn_app; [apply nn_bytes_of_Z|]. apply nn_app; [apply nn_bytes_of_Z|]. apply nn_cells_bytes.
Qed.

Lemma nn_uni_bytes : forall t slots, nn (ProbingImage.uni_bytes t slots).
Proof.
  intros. unfold ProbingImage.uni_bytes. apply nn_flat_map. intros w.
  destruct (alookup t [N.of_nat w]); apply nn_app; apply nn_bytes_of_Z.
Qed.

Lemma nn_rest_uni_bytes : forall t slots unset, nn (rest_uni_bytes t slots unset).
Proof.
  intros. unfold rest_uni_bytes. apply nn_flat_map. intros w.
  destruct (alookup t [N.of_nat w]); [apply nn_app; [apply nn_bytes_of_Z|]|]; apply nn_app; apply nn_bytes_of_Z.
Qed.

Lemma nn_longest_bytes : forall t n b x, longest_bytes t n b = Some x -> nn x.
Proof. intros t n b x H. unfold longest_bytes in H. destruct (table_cells b _); [|discriminate]. apply some_inj in H. rewrite <- H. apply nn_cells_bytes. Qed.
Lemma nn_middle_bytes : forall t n b x, middle_bytes t n b = Some x -> nn x.
Proof. intros t n b x H. unfold middle_bytes in H. destruct (table_cells b _); [|discriminate]. apply some_inj in H. rewrite <- H. apply nn_cells_bytes. Qed.
Lemma nn_rest_middle_bytes : forall t n b x, rest_middle_bytes t n b = Some x -> nn x.
Proof. intros t n b x H. unfold rest_middle_bytes in H. destruct (table_cells b _); [|discriminate]. apply some_inj in H. rewrite <- H. apply nn_cells_bytes. Qed.

Lemma nn_tables_bytes : forall t buckets n x, tables_bytes t n buckets = Some x -> nn x.
Proof.
  intros t. induction buckets as [|b r IH]; intros n x H.
  - apply some_inj in H. rewrite <- H. constructor.
  - destruct r as [|b2 r2].
    + exact (nn_longest_bytes _ _ _ _ H).
    + change (tables_bytes t n (b :: b2 :: r2)) with
        (match middle_bytes t n b, tables_bytes t (S n) (b2 :: r2) with Some x, Some y => Some (x ++ y) | _, _ => None end) in H.
      destruct (middle_bytes t n b) as [m|] eqn:Em; [|discriminate].
      destruct (tables_bytes t (S n) (b2 :: r2)) as [y|] eqn:Ey; [|discriminate].
      apply some_inj in H. rewrite <- H. apply nn_app; [exact (nn_middle_bytes _ _ _ _ Em)|exact (IH _ _ Ey)].
Qed.

Lemma nn_rest_tables_bytes : forall t buckets n x, rest_tables_bytes t n buckets = Some x -> nn x.
Proof.
  intros t. induction buckets as [|b r IH]; intros n x H.
  - apply some_inj in H. rewrite <- H. constructor.
  - destruct r as [|b2 r2].
    + exact (nn_longest_bytes _ _ _ _ H).
    + change (rest_tables_bytes t n (b :: b2 :: r2)) with
        (match rest_middle_bytes t n b, rest_tables_bytes t (S n) (b2 :: r2) with Some x, Some y => Some (x ++ y) | _, _ => None end) in H.
      destruct (rest_middle_bytes t n b) as [m|] eqn:Em; [|discriminate].
      destruct (rest_tables_bytes t (S n) (b2 :: r2)) as [y|] eqn:Ey; [|discriminate].
      apply some_inj in H. rewrite <- H. apply nn_app; [exact (nn_rest_middle_bytes _ _ _ _ Em)|exact (IH _ _ Ey)].
Qed.

Lemma nn_probing_image : forall t slots buckets x, probing_image t slots buckets = Some x -> nn x.
Proof.
  intros t slots buckets x H. unfold probing_image in H. destruct (tables_bytes t 2 buckets) as [y|] eqn:E; [|discriminate].
  apply some_inj in H. rewrite <- H. apply nn_app; [apply nn_uni_bytes|exact (nn_tables_bytes _ _ _ _ E)].
Qed.
Lemma nn_rest_probing_image : forall t slots buckets unset x, rest_probing_image t slots buckets unset = Some x -> nn x.
Proof.
  intros t slots buckets unset x H. unfold rest_probing_image in H. destruct (rest_tables_bytes t 2 buckets) as [y|] eqn:E; [|discriminate].
  apply some_inj in H. rewrite <- H. apply nn_app; [apply nn_rest_uni_bytes|exact (nn_rest_tables_bytes _ _ _ _ E)].
Qed.

(* the description of a hashed build handed to the writer model: model type 0 (probing) or 1 (rest probing), search version 0, the counts
   the ARPA header announced (the hashed builds do not recount), the ProbingVocabulary region v and the search structure s *)
Definition hashed_written (rest : bool) (pm : Z) (n : nat) (arpa_counts : list Z) (v s : list Z) (words : list (list Z)) : written :=
  {| w_order := n; w_p0 := pm_byte pm 0; w_p1 := pm_byte pm 1; w_p2 := pm_byte pm 2; w_p3 := pm_byte pm 3;
     w_model_type := if rest then 1%nat else 0%nat; w_search_version := 0%nat;
     w_counts := map Z.to_nat (flat_map (bytes_of_Z 8) arpa_counts);
     w_vocab := map Z.to_nat v; w_pad := 0%nat;
     w_search := map Z.to_nat s; w_words := map Z.to_nat (strings_bytes words) |}.

Lemma hashed_written_wf : forall (rest : bool) pm n counts v s words vocab1 search1,
  (2 <= n <= max_order)%nat -> length counts = n -> length vocab1 = length v -> length search1 = length s ->
  wf_written (hashed_written rest pm n counts v s words) vocab1 search1.
Proof.
  intros rest pm n counts v s words vocab1 search1 Hn Hc Hv Hs.
  unfold wf_written, hashed_written. cbn [w_order w_counts w_model_type w_search_version w_vocab w_search].
  split; [exact Hn|]. split; [rewrite map_length, flat_map_bytes8_length, Hc; reflexivity|].
  split; [unfold fits32; destruct rest; cbn; lia|]. split; [unfold fits32; cbn; lia|].
  rewrite !map_length. split; assumption.
Qed.

Lemma hashed_file_is_final_image : forall (rest : bool) pm n counts v s words (iv : bool) wm vocab1 search1,
  (2 <= n <= max_order)%nat -> length counts = n -> Forall nn words -> nn v -> nn s ->
  length vocab1 = length v -> length search1 = length s ->
  map Z.of_nat (final_image wm iv (contents_of (hashed_written rest pm n counts v s words) iv vocab1 search1))
  = header_bytes n pm (if rest then 1%nat else 0%nat) iv 0 counts ++ v ++ s ++ (if iv then strings_bytes words else []).
Proof.
  intros rest pm n counts v s words iv wm vocab1 search1 Hn Hc Hw Nv Ns Hv Hs.
  rewrite (final_image_expected wm iv _ (contents_of_wf _ iv vocab1 search1 (hashed_written_wf rest pm n counts v s words vocab1 search1 Hn Hc Hv Hs))).
  unfold expected_image, contents_of. cbn [c_header c_vocab2 c_pad c_search2 c_words].
  unfold hashed_written. cbn [w_order w_p0 w_p1 w_p2 w_p3 w_model_type w_search_version w_counts w_vocab w_pad w_search w_words].
  cbn [repeat app]. rewrite !map_app.
  unfold header_bytes, hv_byte, pm_byte. cbv zeta.
  apply (f_equal2 (@app Z)); [destruct rest, iv; reflexivity|].
  apply (f_equal2 (@app Z)); [apply of_to_nat; exact Nv|].
  apply (f_equal2 (@app Z)); [apply of_to_nat; exact Ns|].
  destruct iv; [|reflexivity]. apply of_to_nat. apply nn_strings. exact Hw.
Qed.

(* whatever the write method, and whatever the mapping held before, the file a probing build leaves is the model's probing_file ... *)
Theorem probing_file_is_final_image : forall pm n t counts vb buckets words (iv : bool) wm vocab1 search1 file,
  (2 <= n <= max_order)%nat -> length counts = n -> Forall nn words ->
  probing_file pm n t counts vb buckets words iv = Some file ->
  exists v s, probing_vocab_bytes words vb = Some v /\ probing_image t (S (Z.to_nat (nth 0 counts 0))) buckets = Some s /\
    (length vocab1 = length v -> length search1 = length s ->
     map Z.of_nat (final_image wm iv (contents_of (hashed_written false pm n counts v s words) iv vocab1 search1)) = file).
Proof.
  intros pm n t counts vb buckets words iv wm vocab1 search1 file Hn Hc Hw H. unfold probing_file in H.
  destruct (probing_vocab_bytes words vb) as [v|] eqn:Ev; [|discriminate].
  destruct (probing_image t _ buckets) as [s|] eqn:Es; [|discriminate]. apply some_inj in H. rewrite <- H.
  exists v, s. split; [reflexivity|]. split; [reflexivity|]. intros Hv Hs.
  apply (hashed_file_is_final_image false); try assumption; [exact (nn_probing_vocab _ _ _ Ev)|exact (nn_probing_image _ _ _ _ Es)].
Qed.

(* ... and a rest build's is the model's rest_file *)
Theorem rest_file_is_final_image : forall pm n t counts vb buckets unset words (iv : bool) wm vocab1 search1 file,
  (2 <= n <= max_order)%nat -> length counts = n -> Forall nn words ->
  rest_file pm n t counts vb buckets unset words iv = Some file ->
  exists v s, probing_vocab_bytes words vb = Some v /\ rest_probing_image t (S (Z.to_nat (nth 0 counts 0))) buckets unset = Some s /\
    (length vocab1 = length v -> length search1 = length s ->
     map Z.of_nat (final_image wm iv (contents_of (hashed_written true pm n counts v s words) iv vocab1 search1)) = file).
Proof.
  intros pm n t counts vb buckets unset words iv wm vocab1 search1 file Hn Hc Hw H. unfold rest_file in H.
  destruct (probing_vocab_bytes words vb) as [v|] eqn:Ev; [|discriminate].
  destruct (rest_probing_image t _ buckets unset) as [s|] eqn:Es; [|discriminate]. apply some_inj in H. rewrite <- H.
  exists v, s. split; [reflexivity|]. split; [reflexivity|]. intros Hv Hs.
  apply (hashed_file_is_final_image true); try assumption; [exact (nn_probing_vocab _ _ _ Ev)|exact (nn_rest_probing_image _ _ _ _ _ Es)].
Qed.

(* the loader of the written hashed type accepts the model's file and finds the ProbingVocabulary region and the hashed search
   structure exactly where it looks for them *)
Theorem hashed_file_loads_back :
  forall pm_ok body_size words_ok (rest : bool) pm n counts v s words (iv : bool) vocab1 search1 wm lcfg,
  let w := hashed_written rest pm n counts v s words in
  (2 <= n <= max_order)%nat -> length counts = n -> nn v -> nn s ->
  length vocab1 = length v -> length search1 = length s ->
  pm_ok [w_p0 w; w_p1 w; w_p2 w; w_p3 w] = true ->
  l_model_type lcfg = w_model_type w -> l_search_version lcfg = w_search_version w ->
  (l_enumerate lcfg = true -> iv = true) ->
  body_size lcfg (final_image wm iv (contents_of w iv vocab1 search1)) = (length (w_vocab w) + w_pad w + length (w_search w))%nat ->
  (iv = true -> l_enumerate lcfg = true -> words_ok (w_counts w) (w_words w) = true) ->
  load pm_ok body_size words_ok lcfg (final_image wm iv (contents_of w iv vocab1 search1))
    = Some (body_of w iv, if iv && l_enumerate lcfg then Some (w_words w) else None) /\
  map Z.of_nat (firstn (length (w_vocab w)) (skipn (header_size n) (body_of w iv))) = v /\
  map Z.of_nat (firstn (length (w_search w)) (skipn (header_size n + length (w_vocab w) + 0) (body_of w iv))) = s.
Proof.
  intros pm_ok body_size words_ok rest pm n counts v s words iv vocab1 search1 wm lcfg w Hn Hc Nv Ns Hv Hs Hpm Ht Hsv He Hb Hw.
  pose proof (hashed_written_wf rest pm n counts v s words vocab1 search1 Hn Hc Hv Hs) as Hwf. fold w in Hwf.
  destruct (write_then_load pm_ok body_size words_ok w iv vocab1 search1 Hwf Hpm wm lcfg Ht Hsv He Hb
              ltac:(intros _; reflexivity) Hw) as [L [V [S _]]].
  split; [exact L|]. split.
  - change (w_order w) with n in V. rewrite V. unfold w, hashed_written. cbn [w_vocab]. apply of_to_nat. exact Nv.
  - change (w_order w) with n in S. change (w_pad w) with 0%nat in S. rewrite S. unfold w, hashed_written. cbn [w_search]. apply of_to_nat. exact Ns.
Qed.
