(* C04/VocabProofs.v -- the vocabulary lookups of C04/VocabModel.v are the maps the rest of the development takes word ids from:
     sorted_index_spec        on strictly increasing 64-bit hashes, whatever Pivot64's float expression evaluates to (any f >= 0):
                              the hash at position p gives p + 1, an absent hash gives 0
     sorted_vocab_id_is_rank  with pairwise distinct hashes, the id of a word of the vocabulary is 1 + the number of words with a
                              smaller hash (so the ids are 1 .. V-1, one per word), and an unknown hash gives 0
     probing_vocab_id_is_position  with pairwise distinct non-zero hashes and room in the table, the i-th inserted word gets id i + 1,
                              an unknown non-zero hash gives 0 *)
From Coq Require Import ZArith Lia Bool List Arith Sorted Permutation.
From Kenlm Require Import Base.Mem C20.SearchModel C20.SearchProofs C20.ProbingModel C20.ProbingProofs C03.ProbingImage C03.ProbingImageProofs
                          C04.FileImage C04.VocabModel.
Import ListNotations.
Local Open Scope Z_scope.

(* ---- hashes are 64-bit values ---- *)
Lemma lxor_range : forall n a b, 0 < n -> 0 <= a < 2 ^ n -> 0 <= b < 2 ^ n -> 0 <= Z.lxor a b < 2 ^ n.
Proof.
  intros n a b Hn Ha Hb. assert (H0 : 0 <= Z.lxor a b) by (apply Z.lxor_nonneg; lia). split; [exact H0|].
  destruct (Z.eq_dec (Z.lxor a b) 0) as [E|E]; [rewrite E; apply Z.pow_pos_nonneg; lia|].
  apply Z.log2_lt_pow2; [lia|].
  pose proof (Z.log2_lxor a b ltac:(lia) ltac:(lia)) as Hl.
  assert (La : Z.log2 a < n) by (destruct (Z.eq_dec a 0) as [->|]; [cbn; lia|apply Z.log2_lt_pow2; lia]).
  assert (Lb : Z.log2 b < n) by (destruct (Z.eq_dec b 0) as [->|]; [cbn; lia|apply Z.log2_lt_pow2; lia]).
  lia.
Qed.

Lemma shiftr_range : forall n a k, 0 <= k -> 0 <= a < 2 ^ n -> 0 <= Z.shiftr a k < 2 ^ n.
Proof.
  intros n a k Hk Ha. rewrite Z.shiftr_div_pow2 by exact Hk. split; [apply Z.div_pos; [lia|apply Z.pow_pos_nonneg; lia]|].
  apply Z.le_lt_trans with a; [|lia]. apply Z.div_le_upper_bound; [apply Z.pow_pos_nonneg; lia|].
  assert (1 <= 2 ^ k) by (apply Z.pow_pos_nonneg with (a := 2) in Hk; lia). nia.
Qed.

Lemma hash_for_vocab_range : forall w, 0 <= hash_for_vocab w < 2 ^ 64.
Proof.
  intros w. unfold hash_for_vocab, murmur64a.
  destruct (murmur_chunks _ _ _) as [h tail].
  match goal with |- 0 <= Z.lxor ?x (Z.shiftr ?x 47) < _ => assert (Hx : 0 <= x < 2 ^ 64) by (unfold mul64; apply wrap_range; lia) end.
  apply lxor_range; [lia|exact Hx|apply shiftr_range; [lia|exact Hx]].
Qed.

(* ---- the sorted lookup ---- *)
Definition strictly_sorted (hs : list Z) : Prop := StronglySorted Z.lt hs.

Lemma sorted_nth_lt : forall hs, strictly_sorted hs -> forall i j, (i < j < length hs)%nat -> nth i hs 0 < nth j hs 0.
Proof.
  intros hs H. induction H as [|x r Hr IH Hx]; intros i j Hij; [cbn in Hij; lia|].
  cbn [length] in Hij. destruct j as [|j]; [lia|]. destruct i as [|i].
  - cbn [nth]. rewrite Forall_forall in Hx. apply Hx. apply nth_In. lia.
  - cbn [nth]. apply IH. lia.
Qed.

Lemma sorted_index_spec : forall f hs key,
  (forall o r w, 0 <= f o r w) -> strictly_sorted hs -> (forall h, In h hs -> 0 <= h < 2 ^ 64) -> 0 <= key < 2 ^ 64 ->
  (forall p, (p < length hs)%nat -> nth p hs 0 = key -> sorted_index f hs key = Some (Z.of_nat p + 1)) /\
  (~ In key hs -> sorted_index f hs key = Some 0).
Proof.
  intros f hs key Hf Hs Hr Hk. unfold sorted_index.
  set (n := Z.of_nat (length hs)).
  destruct (bounded_find_correct (hs_at hs) (Pivot64_Calc f) (2 ^ 64) n ltac:(lia) (S (S (length hs))) (-1) 0 n (2 ^ 64 - 1) key
              (pivot64_ok f n Hf)) as [r [Hr1 Hr2]]; try lia.
  - intros i j Hi Hij Hj. unfold hs_at. destruct (Z.eq_dec i j) as [->|Hne]; [lia|].
    apply Z.lt_le_incl. apply sorted_nth_lt; [exact Hs|]. unfold n in *. lia.
  - intros i Hi. unfold hs_at. apply Hr. apply nth_In. unfold n in *. lia.
  - rewrite Hr1. split.
    + intros p Hp Hnth. destruct r as [q|].
      * destruct Hr2 as [Hq Hqa]. unfold hs_at in Hqa. f_equal.
        destruct (Nat.lt_trichotomy (Z.to_nat q) p) as [Hlt|[Heq|Hgt]]; [|lia|].
        -- pose proof (sorted_nth_lt hs Hs (Z.to_nat q) p ltac:(lia)). lia.
        -- pose proof (sorted_nth_lt hs Hs p (Z.to_nat q) ltac:(unfold n in *; lia)). lia.
      * exfalso. apply (Hr2 (Z.of_nat p)); [unfold n; lia|]. unfold hs_at. rewrite Nat2Z.id. exact Hnth.
    + intros Hni. destruct r as [q|]; [|reflexivity]. exfalso. destruct Hr2 as [Hq Hqa]. apply Hni. rewrite <- Hqa.
      unfold hs_at. apply nth_In. unfold n in *. lia.
Qed.

(* ---- sort_z is a sorted permutation; with distinct elements strictly sorted ---- *)
Lemma insert_sorted_perm : forall x l, Permutation (insert_sorted x l) (x :: l).
Proof.
  intros x. induction l as [|y r IH]; cbn [insert_sorted]; [apply Permutation_refl|].
  destruct (x <=? y); [apply Permutation_refl|]. eapply perm_trans; [apply perm_skip; exact IH|apply perm_swap].
Qed.
Lemma sort_z_perm : forall l, Permutation (sort_z l) l.
Proof.
  induction l as [|x r IH]; [apply Permutation_refl|]. unfold sort_z in *. cbn [fold_right].
  eapply perm_trans; [apply insert_sorted_perm|apply perm_skip; exact IH].
Qed.

Lemma insert_sorted_le : forall x l, StronglySorted Z.le l -> StronglySorted Z.le (insert_sorted x l).
Proof.
  intros x l H. induction H as [|y r Hr IH Hy]; cbn [insert_sorted]; [repeat constructor|].
  destruct (Z.leb_spec x y) as [Hle|Hgt].
  - constructor; [constructor; assumption|]. constructor; [exact Hle|]. rewrite Forall_forall in *. intros z Hz. specialize (Hy z Hz). lia.
  - constructor; [exact IH|]. rewrite Forall_forall in *. intros z Hz.
    apply (Permutation_in _ (insert_sorted_perm x r)) in Hz. destruct Hz as [<-|Hz]; [lia|apply Hy; exact Hz].
Qed.
Lemma sort_z_le : forall l, StronglySorted Z.le (sort_z l).
Proof. induction l as [|x r IH]; [constructor|]. unfold sort_z in *. cbn [fold_right]. apply insert_sorted_le. exact IH. Qed.

Lemma le_nodup_lt : forall l, StronglySorted Z.le l -> NoDup l -> strictly_sorted l.
Proof.
  intros l H. induction H as [|x r Hr IH Hx]; intros Hnd; [constructor|].
  apply NoDup_cons_iff in Hnd. destruct Hnd as [Hni Hnd]. constructor; [apply IH; exact Hnd|].
  rewrite Forall_forall in *. intros z Hz. specialize (Hx z Hz). assert (z <> x) by (intros ->; apply Hni; exact Hz). lia.
Qed.

Lemma sort_z_strict : forall l, NoDup l -> strictly_sorted (sort_z l).
Proof.
  intros l Hnd. apply le_nodup_lt; [apply sort_z_le|]. apply (Permutation_NoDup (Permutation_sym (sort_z_perm l))). exact Hnd.
Qed.

(* ---- rank ---- *)
Definition rank (x : Z) (l : list Z) : nat := length (filter (fun h => h <? x) l).

Lemma rank_perm : forall x l l', Permutation l l' -> rank x l = rank x l'.
Proof.
  intros x l l' H. unfold rank. induction H as [|y l l' H IH|y z l|l l' l'' H1 IH1 H2 IH2]; cbn [filter].
  - reflexivity.
  - destruct (y <? x); cbn [length]; lia.
  - destruct (y <? x), (z <? x); reflexivity.
  - lia.
Qed.

Lemma rank_sorted_nth : forall hs, strictly_sorted hs -> forall p, (p < length hs)%nat -> rank (nth p hs 0) hs = p.
Proof.
  intros hs H. induction H as [|x r Hr IH Hx]; intros p Hp; [cbn in Hp; lia|].
  rewrite Forall_forall in Hx. unfold rank in *. destruct p as [|p]; cbn [nth filter].
  - rewrite Z.ltb_irrefl. assert (E : filter (fun h => h <? x) r = []).
    { clear IH Hr Hp. induction r as [|y r IHr]; [reflexivity|]. cbn [filter].
      pose proof (Hx y (or_introl eq_refl)). destruct (Z.ltb_spec y x); [lia|]. apply IHr. intros z Hz. apply Hx. right. exact Hz. }
    rewrite E. reflexivity.
  - cbn [length] in Hp. assert (x < nth p r 0) by (apply Hx; apply nth_In; lia).
    destruct (Z.ltb_spec x (nth p r 0)); [|lia]. cbn [length]. rewrite IH by lia. reflexivity.
Qed.

Lemma In_nth_ex : forall (l : list Z) x, In x l -> exists p, (p < length l)%nat /\ nth p l 0 = x.
Proof. intros l x H. destruct (In_nth l x 0 H) as [p [Hp E]]. exists p. split; assumption. Qed.

(* SortedVocabulary: id = 1 + rank of the hash among the vocabulary's hashes; unknown hash -> 0 *)
Theorem sorted_vocab_id_is_rank : forall f words,
  (forall o r w, 0 <= f o r w) -> NoDup (map hash_for_vocab words) ->
  let hs := sort_z (map hash_for_vocab words) in
  (forall w, In w words -> sorted_index f hs (hash_for_vocab w) = Some (Z.of_nat (rank (hash_for_vocab w) (map hash_for_vocab words)) + 1)) /\
  (forall q, ~ In (hash_for_vocab q) (map hash_for_vocab words) -> sorted_index f hs (hash_for_vocab q) = Some 0).
Proof.
  intros f words Hf Hnd hs.
  assert (Hs : strictly_sorted hs) by (apply sort_z_strict; exact Hnd).
  assert (Hp : Permutation hs (map hash_for_vocab words)) by apply sort_z_perm.
  assert (Hr : forall h, In h hs -> 0 <= h < 2 ^ 64).
  { intros h Hh. apply (Permutation_in _ Hp) in Hh. apply in_map_iff in Hh. destruct Hh as [w [<- _]]. apply hash_for_vocab_range. }
  split.
  - intros w Hw. destruct (sorted_index_spec f hs (hash_for_vocab w) Hf Hs Hr (hash_for_vocab_range w)) as [Hfound _].
    assert (Hin : In (hash_for_vocab w) hs) by (apply (Permutation_in _ (Permutation_sym Hp)); apply in_map; exact Hw).
    destruct (In_nth_ex hs _ Hin) as [p [Hpl Hpn]]. rewrite (Hfound p Hpl Hpn).
    rewrite <- (rank_perm _ _ _ Hp). rewrite <- Hpn at 1. rewrite (rank_sorted_nth hs Hs p Hpl). reflexivity.
  - intros q Hq. destruct (sorted_index_spec f hs (hash_for_vocab q) Hf Hs Hr (hash_for_vocab_range q)) as [_ Hnone].
    apply Hnone. intros Hin. apply Hq. apply (Permutation_in _ Hp). exact Hin.
Qed.

(* distinct words of the vocabulary get distinct ids in 1 .. V-1 *)
Lemma filter_len_le : forall (g : Z -> bool) l, (length (filter g l) <= length l)%nat.
Proof. intros g. induction l as [|a l IH]; [reflexivity|]. cbn [filter]. destruct (g a); cbn [length]; lia. Qed.

Lemma rank_lt_length : forall x l, In x l -> (rank x l < length l)%nat.
Proof.
  intros x l. unfold rank. induction l as [|y r IH]; intros H; [destruct H|]. cbn [filter length].
  destruct H as [->|H].
  - rewrite Z.ltb_irrefl. pose proof (filter_len_le (fun h => h <? x) r). lia.
  - specialize (IH H). destruct (y <? x); cbn [length]; lia.
Qed.

Lemma rank_mono : forall x y l, x < y -> In x l -> (rank x l < rank y l)%nat.
Proof.
  intros x y l Hxy. unfold rank. induction l as [|z r IH]; intros H; [destruct H|]. cbn [filter].
  assert (Hle : (length (filter (fun h : Z => (h <? x)%Z) r) <= length (filter (fun h : Z => (h <? y)%Z) r))%nat).
  { clear IH H. induction r as [|a r IHr]; [reflexivity|]. cbn [filter]. destruct (Z.ltb_spec a x), (Z.ltb_spec a y); cbn [length]; lia. }
  destruct H as [->|H].
  - rewrite Z.ltb_irrefl. destruct (Z.ltb_spec x y); [|lia]. cbn [length]. lia.
  - specialize (IH H). destruct (Z.ltb_spec z x), (Z.ltb_spec z y); cbn [length]; lia.
Qed.

Theorem sorted_vocab_ids_distinct : forall words w1 w2,
  In w1 words -> In w2 words ->
  rank (hash_for_vocab w1) (map hash_for_vocab words) = rank (hash_for_vocab w2) (map hash_for_vocab words) ->
  hash_for_vocab w1 = hash_for_vocab w2.
Proof.
  intros words w1 w2 H1 H2 E. destruct (Z.lt_trichotomy (hash_for_vocab w1) (hash_for_vocab w2)) as [Hlt|[Heq|Hgt]]; [|exact Heq|].
  - pose proof (rank_mono _ _ (map hash_for_vocab words) Hlt (in_map _ _ _ H1)). lia.
  - pose proof (rank_mono _ _ (map hash_for_vocab words) Hgt (in_map _ _ _ H2)). lia.
Qed.

(* ---- ProbingVocabulary ---- *)
Lemma alookup_combine_nth : forall (ks vs : list Z) i, length ks = length vs -> NoDup ks -> (i < length ks)%nat ->
  alookup (combine ks vs) (nth i ks 0) = Some (nth i vs 0).
Proof.
  induction ks as [|k ks IH]; intros vs i Hl Hnd Hi; [cbn in Hi; lia|].
  destruct vs as [|v vs]; [discriminate|]. apply NoDup_cons_iff in Hnd. destruct Hnd as [Hni Hnd].
  cbn [combine alookup]. destruct i as [|i]; cbn [nth].
  - rewrite Z.eqb_refl. reflexivity.
  - cbn [length] in Hi, Hl. destruct (Z.eqb_spec k (nth i ks 0)) as [E|Hne].
    + exfalso. apply Hni. rewrite E. apply nth_In. lia.
    + apply IH; [lia|exact Hnd|lia].
Qed.

Lemma map_fst_combine : forall (ks vs : list Z), length ks = length vs -> map fst (combine ks vs) = ks.
Proof. induction ks as [|k ks IH]; intros [|v vs] H; try discriminate; [reflexivity|]. cbn [combine map fst]. rewrite IH by (cbn in H; lia). reflexivity. Qed.

Theorem probing_vocab_id_is_position : forall buckets words,
  (0 < buckets)%nat -> (length words < buckets)%nat ->
  NoDup (map hash_for_vocab words) -> (forall w, In w words -> hash_for_vocab w <> 0) ->
  exists t, table_of buckets (vocab_entries words) = Ok t /\
    (forall i, (i < length words)%nat -> probing_index buckets t (hash_for_vocab (nth i words [])) = Some (Z.of_nat i + 1)) /\
    (forall q, hash_for_vocab q <> 0 -> ~ In (hash_for_vocab q) (map hash_for_vocab words) -> probing_index buckets t (hash_for_vocab q) = Some 0).
Proof.
  intros buckets words Hb Hlen Hnd Hnz.
  assert (Hl : length (map hash_for_vocab words) = length (map Z.of_nat (seq 1 (length words)))) by (rewrite !map_length, seq_length; reflexivity).
  destruct (probing_table_is_map buckets (vocab_entries words) Hb) as [t [Ht Hfind]].
  - intros [kk vv] Hin. cbn [fst]. unfold vocab_entries in Hin. apply in_combine_l in Hin. apply in_map_iff in Hin. destruct Hin as [w [<- Hw]]. apply Hnz. exact Hw.
  - unfold vocab_entries. rewrite map_fst_combine by exact Hl. exact Hnd.
  - unfold vocab_entries. rewrite combine_length, !map_length, seq_length. lia.
  - exists t. split; [exact Ht|]. split.
    + intros i Hi. unfold probing_index. rewrite Hfind by (apply Hnz; apply nth_In; exact Hi).
      unfold vocab_entries. replace (hash_for_vocab (nth i words [])) with (nth i (map hash_for_vocab words) 0).
      * rewrite alookup_combine_nth; [|exact Hl|exact Hnd|rewrite map_length; exact Hi].
        f_equal. change 0 with (Z.of_nat 0) at 1. rewrite (map_nth Z.of_nat). rewrite seq_nth by exact Hi. lia.
      * rewrite <- (map_nth hash_for_vocab words []). apply nth_indep. rewrite map_length. exact Hi.
    + intros q Hq Hni. unfold probing_index. rewrite Hfind by exact Hq.
      rewrite alookup_none_notin; [reflexivity|]. unfold vocab_entries. rewrite map_fst_combine by exact Hl. exact Hni.
Qed.
