(* C04/HashedParseProofs.v -- the probing model's loaded memory is its built memory: parsing the bytes of the search structure
   (C03/ProbingImage.v probing_image) with the loader's slices (C04/HashedParse.v) gives back the unigram values and the cells of every
   table, and the table decoded from the loaded memory (file_ptable) is pmem_table of C03/ProbingEndToEnd.v, for which
   C03_probing_memory_table_invariants holds.  The bucket counts are a parameter (ProbingHashTable::Size is a float computation). *)
From Coq Require Import ZArith Lia Bool List Arith NArith.
From Kenlm Require Import Base.Mem LM.Defs C20.ProbingModel C20.ProbingProofs C03.TrieImage C03.ProbingImage C03.ProbingEndToEnd
                          C04.TrieSizeProofs C04.MemBound C04.TrieParse C04.TrieParseProofs C04.HashedParse.
Import ListNotations.
Local Open Scope Z_scope.

Definition cell_bytes (kb vb : nat) (kv : cell) : list Z := bytes_of_Z kb (fst kv) ++ bytes_of_Z vb (snd kv).
Definition cell_fits (kb vb : nat) (kv : cell) : Prop := 0 <= fst kv < 2 ^ (8 * Z.of_nat kb) /\ 0 <= snd kv < 2 ^ (8 * Z.of_nat vb).

Lemma parse_cells_ok : forall kb vb (c : list cell) rest, Forall (cell_fits kb vb) c ->
  parse_cells kb vb (length c) (flat_map (cell_bytes kb vb) c ++ rest) = c.
Proof.
  intros kb vb c rest H. unfold parse_cells.
  apply nth_ext with (d := (Z_of_bytes (slice 0 kb (slice ((kb + vb) * 0) (kb + vb) (flat_map (cell_bytes kb vb) c ++ rest))),
                             Z_of_bytes (slice kb vb (slice ((kb + vb) * 0) (kb + vb) (flat_map (cell_bytes kb vb) c ++ rest))))) (d' := (0, 0));
    [rewrite map_length, seq_length; reflexivity|].
  intros i Hi. rewrite map_length, seq_length in Hi.
  rewrite (map_nth (fun i => (Z_of_bytes (slice 0 kb (slice ((kb + vb) * i) (kb + vb) (flat_map (cell_bytes kb vb) c ++ rest))),
                              Z_of_bytes (slice kb vb (slice ((kb + vb) * i) (kb + vb) (flat_map (cell_bytes kb vb) c ++ rest)))))).
  rewrite seq_nth by exact Hi. cbn [plus].
  rewrite (slice_flat_map_fixed _ (cell_bytes kb vb) (kb + vb) (0, 0) c i rest)
    by (try exact Hi; intros x; unfold cell_bytes; rewrite app_length, !bytes_of_Z_len; reflexivity).
  rewrite Forall_forall in H. destruct (H (nth i c (0, 0)) (nth_In _ _ Hi)) as [Hk Hv].
  destruct (nth i c (0, 0)) as [k v]. cbn [fst snd] in *. unfold cell_bytes. cbn [fst snd].
  rewrite (slice_0 (bytes_of_Z kb k)) by (rewrite bytes_of_Z_len; reflexivity).
  replace (bytes_of_Z kb k ++ bytes_of_Z vb v) with (bytes_of_Z kb k ++ bytes_of_Z vb v ++ []) by (rewrite app_nil_r; reflexivity).
  rewrite (slice_app_mid' (bytes_of_Z kb k) (bytes_of_Z vb v) []) by (rewrite bytes_of_Z_len; reflexivity).
  rewrite !Z_of_bytes_of_Z by assumption. reflexivity.
Qed.

(* ---- what a table built by table_of contains ---- *)
Lemma setc_Forall : forall (P : cell -> Prop) c i x, Forall P c -> P x -> Forall P (setc c i x).
Proof.
  intros P. induction c as [|y r IH]; intros i x Hc Hx; [constructor|]. inversion Hc. subst.
  destruct i; cbn [setc]; constructor; try assumption. apply IH; assumption.
Qed.

Lemma fold_insert_stuck : forall b (l : list cell) (e : res table), (forall t, e <> Ok t) ->
  fold_left (fun acc kv => match acc with Ok t => insert b (ideal_of DivMod b) (next_of DivMod b) t kv | other => other end) l e = e.
Proof.
  intros b. induction l as [|x r IH]; intros e He; [reflexivity|]. cbn [fold_left].
  destruct e as [t| |]; [exfalso; exact (He t eq_refl)| |]; apply IH; intros t; discriminate.
Qed.

Lemma table_of_cells : forall b ents t, table_of b ents = Ok t ->
  length (cells t) = b /\ Forall (fun c => c = (0, 0) \/ In c ents) (cells t).
Proof.
  intros b ents. unfold table_of.
  assert (G : forall l t0 t, length (cells t0) = b -> Forall (fun c => c = (0, 0) \/ In c ents) (cells t0) -> (forall x, In x l -> In x ents) ->
              fold_left (fun acc kv => match acc with Ok t => insert b (ideal_of DivMod b) (next_of DivMod b) t kv | other => other end) l (Ok t0) = Ok t ->
              length (cells t) = b /\ Forall (fun c => c = (0, 0) \/ In c ents) (cells t)).
  { induction l as [|kv r IH]; intros t0 t Hl Hf Hin H.
    - cbn [fold_left] in H. assert (E : t0 = t) by congruence. subst t. split; [exact Hl|exact Hf].
    - cbn [fold_left] in H. unfold insert at 2 in H.
      destruct (entries t0 + 1 >=? Z.of_nat b).
      + rewrite fold_insert_stuck in H by (intros; discriminate). discriminate.
      + unfold unchecked_insert in H. destruct (probe_empty _ _ _ _) as [i|].
        * apply (IH _ t) in H; [exact H| | |].
          -- cbn [cells]. rewrite setc_length. exact Hl.
          -- cbn [cells]. apply setc_Forall; [exact Hf|]. right. apply Hin. left. reflexivity.
          -- intros x Hx. apply Hin. right. exact Hx.
        * rewrite fold_insert_stuck in H by (intros; discriminate). discriminate. }
  intros t H. apply (G ents _ t) in H; [exact H| | |].
  - cbn [cells]. unfold empty_cells. apply repeat_length.
  - cbn [cells]. unfold empty_cells. apply Forall_forall. intros c Hc. apply repeat_spec in Hc. left. exact Hc.
  - intros x Hx. exact Hx.
Qed.

(* ---- ranges ---- *)
From Kenlm Require Import C03.TrieEndToEnd C04.VocabProofs.

Lemma hash_key_range : forall k, (2 <= length k)%nat -> 0 <= hash_key k < 2 ^ 64.
Proof.
  intros k Hk. destruct k as [|w [|x older]]; try (cbn in Hk; lia). unfold hash_key.
  assert (G : forall l h, l <> [] -> 0 <= fold_left (fun h x => combine_word_hash h (Z.of_N x)) l h < 2 ^ 64).
  { intros l. induction l as [|y r IH] using rev_ind; intros h Hne; [congruence|].
    rewrite fold_left_app. cbn [fold_left]. unfold combine_word_hash. apply lxor_range; [lia| |]; apply wrap_range; lia. }
  apply G. discriminate.
Qed.

Lemma in_alookup : forall (t : atable) k e, NoDup (map fst t) -> In (k, e) t -> Defs.alookup t k = Some e.
Proof.
  induction t as [|[k' e'] r IH]; intros k e Hnd Hin; [destruct Hin|].
  cbn [map fst] in Hnd. apply NoDup_cons_iff in Hnd. destruct Hnd as [Hni Hnd]. cbn [Defs.alookup].
  destruct Hin as [E|Hin].
  - inversion E. subst. rewrite (proj2 (key_eqb_iff k k) eq_refl). reflexivity.
  - destruct (key_eqb k' k) eqn:Ek.
    + apply key_eqb_iff in Ek. subst k'. exfalso. apply Hni. apply in_map_iff. exists (k, e). split; [reflexivity|exact Hin].
    + apply IH; assumption.
Qed.

Lemma pvalue_range : forall e, - 2 ^ 24 < e_prob e < 2 ^ 24 -> - 2 ^ 24 < e_bo e < 2 ^ 24 -> 0 <= pvalue e < 2 ^ 64.
Proof.
  intros e Hp Hb. unfold pvalue. rewrite Z.shiftl_mul_pow2 by lia.
  pose proof (prob_bits_range e Hp). pose proof (backoff_bits_range e Hb).
  change (2 ^ 64) with (2 ^ 32 * 2 ^ 32). nia.
Qed.

(* 8 bytes = the two 4-byte halves *)
Lemma Z_of_bytes_halves : forall a b, 0 <= a < 2 ^ 32 -> 0 <= b < 2 ^ 32 ->
  Z_of_bytes (bytes_of_Z 4 a ++ bytes_of_Z 4 b) = a + Z.shiftl b 32.
Proof.
  intros a b Ha Hb.
  assert (E : bytes_of_Z 4 a ++ bytes_of_Z 4 b = bytes_of_Z 8 (a + Z.shiftl b 32)).
  { assert (G : forall n m v w, 0 <= v < 2 ^ (8 * Z.of_nat n) -> 0 <= w -> bytes_of_Z n v ++ bytes_of_Z m w = bytes_of_Z (n + m) (v + Z.shiftl w (8 * Z.of_nat n))).
    { induction n as [|n IH]; intros m v w Hv Hw.
      - cbn [bytes_of_Z app plus]. cbn in Hv. replace v with 0 by lia. rewrite Z.shiftl_0_r. reflexivity.
      - cbn [bytes_of_Z app plus]. f_equal.
        + (* low byte *) apply Z.bits_inj'. intros i Hi. rewrite !Z.land_spec. change 255 with (Z.ones 8). rewrite testbit_ones by lia.
          destruct (Z.ltb_spec i 8); [|rewrite !andb_false_r; reflexivity]. rewrite !andb_true_r.
          rewrite Z.shiftl_mul_pow2 by lia.
          replace (8 * Z.of_nat (S n)) with (8 + 8 * Z.of_nat n) by lia. rewrite Z.pow_add_r by lia.
          rewrite <- (Z.mod_pow2_bits_low v 8 i) by lia. rewrite <- (Z.mod_pow2_bits_low (v + _) 8 i) by lia.
          f_equal. replace (w * (2 ^ 8 * 2 ^ (8 * Z.of_nat n))) with ((w * 2 ^ (8 * Z.of_nat n)) * 2 ^ 8) by ring. rewrite Z.mod_add by lia. reflexivity.
        + replace (8 * Z.of_nat (S n)) with (8 + 8 * Z.of_nat n) in * by lia. rewrite Z.pow_add_r in Hv by lia. change (2 ^ 8) with 256 in Hv.
          rewrite (IH m (Z.shiftr v 8) w); [|rewrite Z.shiftr_div_pow2 by lia; change (2 ^ 8) with 256; split; [apply Z.div_pos; lia|apply Z.div_lt_upper_bound; lia]|exact Hw].
          f_equal. rewrite !Z.shiftr_div_pow2, !Z.shiftl_mul_pow2 by lia. rewrite Z.pow_add_r by lia.
          replace (w * (2 ^ 8 * 2 ^ (8 * Z.of_nat n))) with ((w * 2 ^ (8 * Z.of_nat n)) * 2 ^ 8) by ring. rewrite Z.div_add by lia. reflexivity. }
    exact (G 4%nat 4%nat a b ltac:(cbn; lia) ltac:(lia)). }
  rewrite E. apply Z_of_bytes_of_Z. rewrite Z.shiftl_mul_pow2 by lia. change (2 ^ (8 * Z.of_nat 8)) with (2 ^ 32 * 2 ^ 32). nia.
Qed.

(* ---- the tables ---- *)
Lemma parse_tables_cons2 : forall b b2 r bs, parse_tables (b :: b2 :: r) bs = parse_cells 8 8 b bs :: parse_tables (b2 :: r) (skipn (16 * b) bs).
Proof. reflexivity. Qed.

Lemma some_inj' : forall (A : Type) (a b : A), Some a = Some b -> a = b.
Proof. intros A a b H. injection H as H. exact H. Qed.

Section Hashed.
  Variable t : atable.
  Hypothesis Hnodup : NoDup (map fst t).
  Hypothesis Hrange : forall k e, Defs.alookup t k = Some e -> - 2 ^ 24 < e_prob e < 2 ^ 24 /\ - 2 ^ 24 < e_bo e < 2 ^ 24.

  Definition order_ents (j : nat) (longest : bool) : list (Z * Z) :=
    map (fun ke => (hash_key (fst ke), if longest then prob_bits (snd ke) else pvalue (snd ke))) (order_entries t j).

  Lemma order_ents_fit : forall j (longest : bool), (2 <= j)%nat ->
    forall c, c = (0, 0) \/ In c (order_ents j longest) -> cell_fits 8 (if longest then 4 else 8) c.
  Proof.
    intros j longest Hj c [->|Hin].
    - unfold cell_fits. cbn [fst snd]. destruct longest; split; split; try lia; apply Z.pow_pos_nonneg; lia.
    - unfold order_ents in Hin. apply in_map_iff in Hin. destruct Hin as [[k e] [<- Hke]]. cbn [fst snd].
      unfold order_entries in Hke. apply filter_In in Hke. destruct Hke as [Hin Hlen]. cbn [fst] in Hlen. apply Nat.eqb_eq in Hlen.
      destruct (Hrange k e (in_alookup t k e Hnodup Hin)) as [Hp Hb].
      unfold cell_fits. cbn [fst snd]. split; [change (8 * Z.of_nat 8) with 64; apply hash_key_range; lia|].
      destruct longest; [change (8 * Z.of_nat 4) with 32; apply prob_bits_range; exact Hp|change (8 * Z.of_nat 8) with 64; apply pvalue_range; assumption].
  Qed.

  Lemma flat_cells_len : forall kb vb (c : list cell), length (flat_map (cell_bytes kb vb) c) = ((kb + vb) * length c)%nat.
  Proof. intros. apply flat_map_fixed_len. intros x. unfold cell_bytes. rewrite app_length, !bytes_of_Z_len. reflexivity. Qed.

  Lemma parse_tables_ok : forall buckets j x rest, (2 <= j)%nat -> tables_bytes t j buckets = Some x ->
    forall i, (i < length buckets)%nat ->
    exists tb, table_of (nth i buckets 0%nat) (order_ents (j + i) (Nat.eqb (S i) (length buckets))) = Ok tb /\
               nth i (parse_tables buckets (x ++ rest)) [] = cells tb.
  Proof.
    induction buckets as [|b r IH]; intros j x rest Hj Hx i Hi; [cbn in Hi; lia|].
    destruct r as [|b2 r2].
    - (* the longest table *)
      cbn [length] in Hi. assert (i = 0%nat) by lia. subst i. rewrite Nat.add_0_r. cbn [nth length Nat.eqb parse_tables].
      cbn [tables_bytes] in Hx. unfold longest_bytes, table_cells in Hx. fold (order_ents j true) in Hx.
      destruct (table_of b (order_ents j true)) as [tb| |] eqn:Et; try discriminate. exists tb. split; [reflexivity|].
      apply some_inj' in Hx. subst x.
      destruct (table_of_cells b _ tb Et) as [Hlen Hcells].
      change (flat_map (fun kv : Z * Z => bytes_of_Z 8 (fst kv) ++ bytes_of_Z 4 (snd kv)) (cells tb)) with (flat_map (cell_bytes 8 4) (cells tb)).
      rewrite <- Hlen at 1. apply (parse_cells_ok 8 4).
      rewrite Forall_forall in *. intros c Hc. exact (order_ents_fit j true Hj c (Hcells c Hc)).
    - change (tables_bytes t j (b :: b2 :: r2)) with
        (match middle_bytes t j b, tables_bytes t (S j) (b2 :: r2) with Some a, Some y => Some (a ++ y) | _, _ => None end) in Hx.
      unfold middle_bytes, table_cells in Hx.
      change (map (fun ke : key * entry => (hash_key (fst ke), prob_bits (snd ke) + Z.shiftl (backoff_bits (snd ke)) 32)) (order_entries t j)) with (order_ents j false) in Hx.
      destruct (table_of b (order_ents j false)) as [tb| |] eqn:Et; try discriminate.
      destruct (tables_bytes t (S j) (b2 :: r2)) as [y|] eqn:Ey; try discriminate.
      apply some_inj' in Hx. subst x.
      destruct (table_of_cells b _ tb Et) as [Hlen Hcells].
      change (flat_map (fun kv : Z * Z => bytes_of_Z 8 (fst kv) ++ bytes_of_Z 8 (snd kv)) (cells tb)) with (flat_map (cell_bytes 8 8) (cells tb)).
      rewrite parse_tables_cons2.
      destruct i as [|i'].
      + rewrite Nat.add_0_r. cbn [nth]. replace (Nat.eqb 1 (length (b :: b2 :: r2))) with false by reflexivity.
        exists tb. split; [exact Et|]. rewrite <- app_assoc. rewrite <- Hlen at 1. apply (parse_cells_ok 8 8).
        rewrite Forall_forall in *. intros c Hc. exact (order_ents_fit j false Hj c (Hcells c Hc)).
      + cbn [nth]. rewrite <- app_assoc.
        replace (16 * b)%nat with (length (flat_map (cell_bytes 8 8) (cells tb))) by (rewrite flat_cells_len, Hlen; reflexivity).
        rewrite skipn_app, skipn_all, Nat.sub_diag. cbn [app skipn].
        cbn [length] in Hi. destruct (IH (S j) y rest ltac:(lia) Ey i' ltac:(cbn [length]; lia)) as [tb' [E1 E2]].
        exists tb'. split; [|exact E2].
        replace (j + S i')%nat with (S j + i')%nat by lia.
        replace (Nat.eqb (S (S i')) (length (b :: b2 :: r2))) with (Nat.eqb (S i') (length (b2 :: r2))) by reflexivity. exact E1.
  Qed.
End Hashed.

(* ---- the loaded memory answers like the built memory ---- *)
Lemma nth_map_seq : forall (f : nat -> Z) n i d, (i < n)%nat -> nth i (map f (seq 0 n)) d = f i.
Proof.
  intros f n i d Hi. rewrite (nth_indep _ d (f 0%nat)) by (rewrite map_length, seq_length; exact Hi).
  rewrite map_nth, seq_nth by exact Hi. reflexivity.
Qed.

Lemma find_cells_only : forall b i nx (tb : table) e key,
  ProbingModel.find b i nx {| cells := cells tb; entries := e |} key = ProbingModel.find b i nx tb key.
Proof. reflexivity. Qed.

Theorem file_ptable_is_pmem_table : forall (t : atable) buckets n V slots img rest,
  (2 <= n)%nat -> length buckets = (n - 1)%nat -> V <= Z.of_nat slots ->
  NoDup (map fst t) ->
  (forall w, Defs.alookup t [w] <> None <-> Z.of_N w < V) ->
  (forall k e, Defs.alookup t k = Some e -> - 2 ^ 24 < e_prob e < 2 ^ 24 /\ - 2 ^ 24 < e_bo e < 2 ^ 24) ->
  probing_image t slots buckets = Some img ->
  forall k, file_ptable buckets n V (parse_probing slots buckets (img ++ rest)) k = pmem_table buckets n V t k.
Proof.
  intros t buckets n V slots img rest Hn Hlen Hslots Hnd Hdense Hrange Himg k.
  unfold probing_image in Himg. destruct (tables_bytes t 2 buckets) as [x|] eqn:Ex; [|discriminate].
  apply some_inj' in Himg. subst img.
  unfold file_ptable, pmem_table, parse_probing. cbn [fst snd].
  destruct (forallb (fun w => Z.of_N w <? V) k) eqn:Eg; [|reflexivity].
  destruct k as [|w [|w2 ws]]; [reflexivity| |].
  - (* a unigram: the slot of the word *)
    cbn [forallb] in Eg. rewrite andb_true_r in Eg. apply Z.ltb_lt in Eg.
    destruct (Defs.alookup t [w]) as [e|] eqn:Ee; [|exfalso; apply (proj2 (Hdense w) Eg); exact Ee].
    f_equal. f_equal.
    destruct (Hrange [w] e Ee) as [Hp Hb].
    unfold parse_puni.
    assert (Hi : (N.to_nat w < slots)%nat) by lia.
    transitivity (Z_of_bytes (slice (8 * N.to_nat w) 8 ((ProbingImage.uni_bytes t slots ++ x) ++ rest))).
    { apply (nth_map_seq (fun i => Z_of_bytes (slice (8 * i) 8 ((ProbingImage.uni_bytes t slots ++ x) ++ rest)))). exact Hi. }
    unfold ProbingImage.uni_bytes. rewrite <- app_assoc.
    rewrite (slice_flat_map_fixed _ _ 8 0%nat (seq 0 slots) (N.to_nat w) (x ++ rest)).
    + rewrite seq_nth by exact Hi. cbn [plus]. rewrite N2Nat.id, Ee.
      rewrite Z_of_bytes_halves; [reflexivity|apply prob_bits_range; exact Hp|apply backoff_bits_range; exact Hb].
    + intros i. destruct (Defs.alookup t [N.of_nat i]); rewrite app_length, !bytes_of_Z_len; reflexivity.
    + rewrite seq_length. exact Hi.
  - (* a longer n-gram: Find in the table of its order *)
    set (j := length (w :: w2 :: ws)). assert (Hj : (2 <= j)%nat) by (unfold j; cbn [length]; lia).
    destruct (Nat.ltb_spec n j) as [Hgt|Hle]; [reflexivity|].
    assert (Hi : (j - 2 < length buckets)%nat) by lia.
    destruct (parse_tables_ok t Hnd Hrange buckets 2 x rest ltac:(lia) Ex (j - 2)%nat Hi) as [tb [E1 E2]].
    replace (2 + (j - 2))%nat with j in E1 by lia.
    replace (Nat.eqb (S (j - 2)) (length buckets)) with (Nat.eqb j n) in E1
      by (rewrite Hlen; destruct (Nat.eqb_spec j n), (Nat.eqb_spec (S (j - 2)) (n - 1)); try reflexivity; lia).
    unfold order_ents in E1.
    assert (Eskip : skipn (8 * slots) ((ProbingImage.uni_bytes t slots ++ x) ++ rest) = x ++ rest).
    { rewrite <- app_assoc. replace (8 * slots)%nat with (length (ProbingImage.uni_bytes t slots)).
      - rewrite skipn_app, skipn_all, Nat.sub_diag. reflexivity.
      - unfold ProbingImage.uni_bytes. rewrite (flat_map_fixed_len _ _ 8%nat), seq_length; [reflexivity|].
        intros i. destruct (Defs.alookup t [N.of_nat i]); rewrite app_length, !bytes_of_Z_len; reflexivity. }
    rewrite Eskip, E2, find_cells_only.
    destruct (Nat.eqb j n); rewrite E1; reflexivity.
Qed.
