(* C04/HashedParse.v -- executable model of how the loader of a probing model reads the bytes of its search structure back
   (lm/search_hashed.cc HashedSearch::SetupMemory: Unigram array of (count + 1) {float prob; float backoff}, then one
   util::ProbingHashTable per order, each a slice of `buckets` cells {uint64 key; value}; the bucket counts are what
   ProbingHashTable::Size yields for the header's counts and probing_multiplier -- a float computation, taken as given here),
   and the table decoded from that memory.  No proofs here. *)
From Coq Require Import ZArith List Bool Arith NArith.
From Kenlm Require Import Base.Mem LM.Defs C20.ProbingModel C03.TrieImage C03.ProbingImage C03.ProbingEndToEnd C04.TrieParse.
Import ListNotations.
Local Open Scope Z_scope.

Definition parse_cells (kb vb count : nat) (bs : list Z) : list cell :=
  map (fun i => let r := slice ((kb + vb) * i) (kb + vb) bs in (Z_of_bytes (slice 0 kb r), Z_of_bytes (slice kb vb r))) (seq 0 count).

Definition parse_puni (slots : nat) (bs : list Z) : list Z := map (fun i => Z_of_bytes (slice (8 * i) 8 bs)) (seq 0 slots).

(* buckets of the orders 2 .. N; the last table holds {key; prob} only *)
Fixpoint parse_tables (buckets : list nat) (bs : list Z) : list (list cell) :=
  match buckets with
  | [] => []
  | [b] => [parse_cells 8 4 b bs]
  | b :: rest => parse_cells 8 8 b bs :: parse_tables rest (skipn (16 * b) bs)
  end.

Definition parse_probing (slots : nat) (buckets : list nat) (bs : list Z) : list Z * list (list cell) :=
  (parse_puni slots bs, parse_tables buckets (skipn (8 * slots) bs)).

(* the table the loaded memory answers with: unigrams by index, longer n-grams by Find of the 64-bit hash in their order's table *)
Definition file_ptable (buckets : list nat) (n : nat) (V : Z) (mem : list Z * list (list cell)) : Defs.table :=
  fun k =>
    if forallb (fun w => Z.of_N w <? V) k then
      match k with
      | [] => None
      | [w] => Some (entry_of_probing (nth (N.to_nat w) (fst mem) 0))
      | _ :: _ :: _ =>
          let j := length k in
          let b := nth (j - 2) buckets 0%nat in
          if Nat.ltb n j then None else
          let longest := Nat.eqb j n in
          match ProbingModel.find b (ideal_of DivMod b) (next_of DivMod b) {| cells := nth (j - 2) (snd mem) []; entries := 0 |} (hash_key k) with
          | Ok (Some v) => Some (if longest then entry_of_probing_longest v else entry_of_probing v)
          | _ => None
          end
      end
    else None.
