(* C04 -- binary model files round-trip exactly.  (Layout theorems are added below as they land.) *)
From Coq Require Import ZArith List Bool.
From Kenlm Require Import LM.Defs LM.Query LM.QueryProofs.
Import ListNotations.
Local Open Scope Z_scope.

(* Queries are a function of the table alone: a loader that reconstructs the same table from the stored regions
   (same lookup function) gives bit-identical answers for every query and every state.  What remains for the
   round trip is that the regions are stored and found again at the same offsets (layout arithmetic, below). *)
From Kenlm Require Import LM.TableExt.
Theorem C04_same_table_same_answers : forall N T1 T2 K s w ctx,
  (forall k, T1 k = T2 k) ->
  full_score N T1 s w = full_score N T2 s w /\
  full_score_forgot N T1 K ctx w = full_score_forgot N T2 K ctx w /\
  get_state N T1 ctx = get_state N T2 ctx.
Proof. exact same_table_same_answers. Qed.

(* ------------------------------------------------------------------------------------------------------------
   The file round trip, over the C09 development: the system-call trace of a binary build (finish_trace, both
   write methods), the file semantics, the header constants regenerated from lm/binary_format.cc, and the loader
   model (load = IsBinaryFormat + ReadHeader + MatchCheck + CheckCounts + LoadBinary + ReadWords; recognize =
   RecognizeBinary).  `written` describes a file: order, the four bytes of probing_multiplier, model type, search
   version, counts, vocabulary table, vocab_pad, search structure, vocabulary strings; contents_of hands it to the
   writer together with ARBITRARY intermediate vocabulary / search bytes (what the mapping held before the final
   stores).  pm_ok / body_size / words_ok are the environment (the float test, the Size() functions, the string
   enumeration), universally quantified. *)
From Kenlm Require Import Gen.BinaryFormatConsts C09.CrashModel C04.RoundTrip.
Local Close Scope Z_scope.

(* the complete file, all operations applied: header ++ vocabulary ++ vocab_pad zeros ++ search ++ strings *)
Theorem C04_final_image : forall wm iv c, CrashProofs.wf_contents c ->
  CrashProofs.final_image wm iv c = expected_image iv c.
Proof. exact final_image_expected. Qed.

(* byte-identical rebuilds: mmap and write-after leave the same bytes *)
Theorem C04_write_methods_agree : forall iv c, CrashProofs.wf_contents c ->
  CrashProofs.final_image WriteMmap iv c = CrashProofs.final_image WriteAfter iv c.
Proof. exact write_methods_agree. Qed.

(* The complete file is accepted by the loader configured for the type and version that were written (when the
   Size() functions yield the laid-out size, the strings start with "<unk>\0" and enumerate), and what it obtains is
   what was written, byte for byte: [0,total) = header ++ vocabulary ++ pad ++ search, the strings; the vocabulary
   region is found at header_size order, the search region at header_size order + |vocabulary| + vocab_pad. *)
Theorem C04_write_then_load :
  forall pm_ok body_size words_ok (w : written) (iv : bool) (vocab1 search1 : list byte),
  wf_written w vocab1 search1 -> pm_ok [w_p0 w; w_p1 w; w_p2 w; w_p3 w] = true ->
  forall wm cfg,
  l_model_type cfg = w_model_type w -> l_search_version cfg = w_search_version w ->
  (l_enumerate cfg = true -> iv = true) ->
  body_size cfg (CrashProofs.final_image wm iv (contents_of w iv vocab1 search1)) = length (w_vocab w) + w_pad w + length (w_search w) ->
  (iv = true -> firstn 6 (w_words w) = unk6) ->
  (iv = true -> l_enumerate cfg = true -> words_ok (w_counts w) (w_words w) = true) ->
  load pm_ok body_size words_ok cfg (CrashProofs.final_image wm iv (contents_of w iv vocab1 search1))
    = Some (body_of w iv, if iv && l_enumerate cfg then Some (w_words w) else None) /\
  firstn (length (w_vocab w)) (skipn (header_size (w_order w)) (body_of w iv)) = w_vocab w /\
  firstn (length (w_search w)) (skipn (header_size (w_order w) + length (w_vocab w) + w_pad w) (body_of w iv)) = w_search w /\
  skipn (length (body_of w iv)) (CrashProofs.final_image wm iv (contents_of w iv vocab1 search1)) = (if iv then w_words w else []).
Proof. exact write_then_load. Qed.

(* RecognizeBinary returns exactly the header fields that were written *)
Theorem C04_recognize :
  forall pm_ok (w : written) (iv : bool) (vocab1 search1 : list byte),
  wf_written w vocab1 search1 -> pm_ok [w_p0 w; w_p1 w; w_p2 w; w_p3 w] = true ->
  forall wm,
  recognize pm_ok (CrashProofs.final_image wm iv (contents_of w iv vocab1 search1)) =
  Some {| h_order := w_order w; h_probing_multiplier := [w_p0 w; w_p1 w; w_p2 w; w_p3 w];
          h_model_type := w_model_type w; h_has_vocabulary := iv;
          h_search_version := w_search_version w; h_counts := w_counts w |}.
Proof. exact recognize_written. Qed.

(* a loader of another model type or search version refuses the file (MatchCheck) *)
Theorem C04_other_type_rejected :
  forall pm_ok body_size words_ok (w : written) (iv : bool) (vocab1 search1 : list byte),
  wf_written w vocab1 search1 -> pm_ok [w_p0 w; w_p1 w; w_p2 w; w_p3 w] = true ->
  forall wm cfg,
  l_model_type cfg <> w_model_type w \/ l_search_version cfg <> w_search_version w ->
  load pm_ok body_size words_ok cfg (CrashProofs.final_image wm iv (contents_of w iv vocab1 search1)) = None.
Proof. exact other_type_rejected. Qed.

(* the header really is the code's: WriteHeader's layout reproduces the offsets of FixedWidthParameters of the
   current sources, and its length is TotalHeaderSize(order) *)
Theorem C04_header_layout : forall order p0 p1 p2 p3 mtype hv version counts,
  order <= max_order -> length counts = 8 * order ->
  length (make_header order p0 p1 p2 p3 mtype hv version counts) = header_size order /\
  nth off_order (make_fixed order p0 p1 p2 p3 mtype hv version) 0 = order /\
  firstn 4 (skipn off_probing_multiplier (make_fixed order p0 p1 p2 p3 mtype hv version)) = [p0; p1; p2; p3] /\
  nth off_has_vocabulary (make_fixed order p0 p1 p2 p3 mtype hv version) 0 = hv /\
  length (make_fixed order p0 p1 p2 p3 mtype hv version) = fixed_size.
Proof. exact header_layout. Qed.

(* ---- the file as a function of the model (C04/FileImage.v; compared byte for byte with every trie / trie -a / probing / rest file
   the check writes).  Whatever the write method, and whatever vocabulary / search bytes the mapping held before the final ones were
   in place, the bytes the build's system-call trace leaves in the file are exactly the model's file: header with the written type,
   version, multiplier bits and recounted counts ++ SortedVocabulary region (sorted MurmurHash64A hashes) ++ the trie's search
   structure (whose memory lookup is the table lookup: C03_trie_memory_is_table) ++ the vocabulary strings. *)
From Kenlm Require Import LM.Defs C04.FileImage C04.FileImageProofs.
Theorem C04_model_file_is_final_image : forall (array : bool) cfg pm n t pz words (iv : bool) wm vocab1 search1,
  (2 <= n <= max_order)%nat -> Forall nn words ->
  length vocab1 = length (sorted_vocab_bytes words) -> length search1 = length (C03.TrieImage.trie_image array cfg n t pz) ->
  map Z.of_nat (CrashProofs.final_image wm iv (contents_of (trie_written array cfg pm n t pz words) iv vocab1 search1))
  = trie_file array cfg pm n t pz words iv.
Proof. exact model_file_is_final_image. Qed.

(* ... and the loader of the written type and version accepts that file and finds the model's vocabulary region and the model's search
   structure exactly where it looks for them (C04_write_then_load instantiated with the file model; body_size = the Size() functions). *)
Theorem C04_model_file_loads_back :
  forall pm_ok body_size words_ok (array : bool) cfg pm n t pz words (iv : bool) vocab1 search1 wm lcfg,
  let w := trie_written array cfg pm n t pz words in
  (2 <= n <= max_order)%nat ->
  length vocab1 = length (sorted_vocab_bytes words) -> length search1 = length (C03.TrieImage.trie_image array cfg n t pz) ->
  pm_ok [w_p0 w; w_p1 w; w_p2 w; w_p3 w] = true ->
  l_model_type lcfg = w_model_type w -> l_search_version lcfg = w_search_version w ->
  (l_enumerate lcfg = true -> iv = true) ->
  body_size lcfg (CrashProofs.final_image wm iv (contents_of w iv vocab1 search1)) = (length (w_vocab w) + w_pad w + length (w_search w))%nat ->
  (iv = true -> l_enumerate lcfg = true -> words_ok (w_counts w) (w_words w) = true) ->
  load pm_ok body_size words_ok lcfg (CrashProofs.final_image wm iv (contents_of w iv vocab1 search1))
    = Some (body_of w iv, if iv && l_enumerate lcfg then Some (w_words w) else None) /\
  firstn (length (w_vocab w)) (skipn (header_size n) (body_of w iv)) = map Z.to_nat (sorted_vocab_bytes words) /\
  firstn (length (w_search w)) (skipn (header_size n + length (w_vocab w) + 0) (body_of w iv)) = map Z.to_nat (C03.TrieImage.trie_image array cfg n t pz).
Proof. exact model_file_loads_back. Qed.

(* ---- the hashed model types: the same for the probing and the rest-probing file (ProbingVocabulary region: DivMod probing table of
   {MurmurHash64A hash; id}; search structure: C03/ProbingImage.v, whose memory lookup is the table lookup by
   C03_probing_memory_table_invariants).  Whatever the write method and the previous contents of the mapping, the bytes left in the
   file are the model's probing_file / rest_file, which the check compares byte for byte with the files the code writes. *)
From Kenlm Require Import C03.ProbingImage.
Theorem C04_probing_file_is_final_image : forall pm n t counts vb buckets words (iv : bool) wm vocab1 search1 file,
  (2 <= n <= max_order)%nat -> length counts = n -> Forall nn words ->
  probing_file pm n t counts vb buckets words iv = Some file ->
  exists v s, probing_vocab_bytes words vb = Some v /\ probing_image t (S (Z.to_nat (nth 0 counts 0%Z))) buckets = Some s /\
    (length vocab1 = length v -> length search1 = length s ->
     map Z.of_nat (CrashProofs.final_image wm iv (contents_of (hashed_written false pm n counts v s words) iv vocab1 search1)) = file).
Proof. exact probing_file_is_final_image. Qed.

Theorem C04_rest_file_is_final_image : forall pm n t counts vb buckets unset words (iv : bool) wm vocab1 search1 file,
  (2 <= n <= max_order)%nat -> length counts = n -> Forall nn words ->
  rest_file pm n t counts vb buckets unset words iv = Some file ->
  exists v s, probing_vocab_bytes words vb = Some v /\ rest_probing_image t (S (Z.to_nat (nth 0 counts 0%Z))) buckets unset = Some s /\
    (length vocab1 = length v -> length search1 = length s ->
     map Z.of_nat (CrashProofs.final_image wm iv (contents_of (hashed_written true pm n counts v s words) iv vocab1 search1)) = file).
Proof. exact rest_file_is_final_image. Qed.

(* ... and the loader of that hashed type accepts it and finds both regions where it looks for them *)
Theorem C04_hashed_file_loads_back :
  forall pm_ok body_size words_ok (rest : bool) pm n counts v s words (iv : bool) vocab1 search1 wm lcfg,
  let w := hashed_written rest pm n counts v s words in
  (2 <= n <= max_order)%nat -> length counts = n -> nn v -> nn s ->
  length vocab1 = length v -> length search1 = length s ->
  pm_ok [w_p0 w; w_p1 w; w_p2 w; w_p3 w] = true ->
  l_model_type lcfg = w_model_type w -> l_search_version lcfg = w_search_version w ->
  (l_enumerate lcfg = true -> iv = true) ->
  body_size lcfg (CrashProofs.final_image wm iv (contents_of w iv vocab1 search1)) = (length (w_vocab w) + w_pad w + length (w_search w))%nat ->
  (iv = true -> l_enumerate lcfg = true -> words_ok (w_counts w) (w_words w) = true) ->
  load pm_ok body_size words_ok lcfg (CrashProofs.final_image wm iv (contents_of w iv vocab1 search1))
    = Some (body_of w iv, if iv && l_enumerate lcfg then Some (w_words w) else None) /\
  map Z.of_nat (firstn (length (w_vocab w)) (skipn (header_size n) (body_of w iv))) = v /\
  map Z.of_nat (firstn (length (w_search w)) (skipn (header_size n + length (w_vocab w) + 0) (body_of w iv))) = s.
Proof. exact hashed_file_loads_back. Qed.

(* ---- the vocabulary lookups (lm/vocab.cc; model C04/VocabModel.v, answered against the implementation's own ids for every word of
   every generated vocabulary and for unknown spellings).  Word ids are what ties a file's records to spellings:
   SortedVocabulary::Index is the Pivot64 interpolation search between the sentinels (begin_ - 1, 0) and (end_, 2^64 - 1); whatever
   the float pivot expression evaluates to, the id of a vocabulary word is 1 + the number of vocabulary words with a smaller
   MurmurHash64A hash -- so the ids are a bijection onto 1 .. V-1 -- and a spelling whose hash is not in the vocabulary gets 0 = <unk>. *)
From Kenlm Require Import C20.ProbingModel C04.VocabModel C04.VocabProofs.
Theorem C04_sorted_vocab_id_is_rank : forall f words,
  (forall o r w, (0 <= f o r w)%Z) -> NoDup (map hash_for_vocab words) ->
  let hs := sort_z (map hash_for_vocab words) in
  (forall w, In w words -> sorted_index f hs (hash_for_vocab w) = Some (Z.of_nat (rank (hash_for_vocab w) (map hash_for_vocab words)) + 1)%Z) /\
  (forall q, ~ In (hash_for_vocab q) (map hash_for_vocab words) -> sorted_index f hs (hash_for_vocab q) = Some 0%Z).
Proof. exact sorted_vocab_id_is_rank. Qed.

Theorem C04_sorted_vocab_ids_distinct : forall words w1 w2,
  In w1 words -> In w2 words ->
  rank (hash_for_vocab w1) (map hash_for_vocab words) = rank (hash_for_vocab w2) (map hash_for_vocab words) ->
  hash_for_vocab w1 = hash_for_vocab w2.
Proof. exact sorted_vocab_ids_distinct. Qed.

(* on any strictly increasing array of 64-bit hashes: position p answers p + 1, an absent hash answers 0 *)
Theorem C04_sorted_index_spec : forall f hs key,
  (forall o r w, (0 <= f o r w)%Z) -> strictly_sorted hs -> (forall h, In h hs -> (0 <= h < 2 ^ 64)%Z) -> (0 <= key < 2 ^ 64)%Z ->
  (forall p, (p < length hs)%nat -> nth p hs 0%Z = key -> sorted_index f hs key = Some (Z.of_nat p + 1)%Z) /\
  (~ In key hs -> sorted_index f hs key = Some 0%Z).
Proof. exact sorted_index_spec. Qed.

(* ProbingVocabulary::Index: with pairwise distinct non-zero hashes and room in the table, the i-th inserted word has id i + 1 and an
   unknown non-zero hash gets 0 *)
Theorem C04_probing_vocab_id_is_position : forall buckets words,
  (0 < buckets)%nat -> (length words < buckets)%nat ->
  NoDup (map hash_for_vocab words) -> (forall w, In w words -> hash_for_vocab w <> 0%Z) ->
  exists t, table_of buckets (vocab_entries words) = Ok t /\
    (forall i, (i < length words)%nat -> probing_index buckets t (hash_for_vocab (nth i words [])) = Some (Z.of_nat i + 1)%Z) /\
    (forall q, hash_for_vocab q <> 0%Z -> ~ In (hash_for_vocab q) (map hash_for_vocab words) -> probing_index buckets t (hash_for_vocab q) = Some 0%Z).
Proof. exact probing_vocab_id_is_position. Qed.

(* every hash is a 64-bit value *)
Theorem C04_hash_for_vocab_range : forall w, (0 <= hash_for_vocab w < 2 ^ 64)%Z.
Proof. exact hash_for_vocab_range. Qed.

(* ---- Size() / SetupMemory agreement (lm/model.cc:23-35,59-78; lm/search_trie.hh Size; lm/trie.cc; lm/bhiksha.cc) ------------------------
   The loader computes the extent of the vocabulary and of the search structure from the counts in the header BEFORE it reads them
   (C04/TrieSize.v: TrieSearch::Size = Unigram::Size + BitPackedMiddle::Size ... + BitPackedLongest::Size, ArrayBhiksha::Size,
   SortedVocabulary::Size).  For the trie of every table that satisfies the loaders' invariant TInv (what both loader models are proved
   to establish), these functions of the header's counts are exactly the number of bytes the model's search structure and vocabulary
   region occupy -- the hypothesis `body_size` of C04_write_then_load / C04_model_file_loads_back, discharged for `trie` and `trie -a`.
   Ingredients: the arrays have one record per table entry of that order (C04_level_count: the pre-order keys of the forest are the
   table's keys, each once), ArrayBhiksha's offset table has ArrayCount slots and its region's size does not depend on the alignment
   padding (C04_trie_bytes_size), and the configured bits are found where UpdateConfigFromBinary reads them. *)
From Kenlm Require Import LM.QueryProofs C03.TrieLayout C03.TrieLayoutProofs C03.TrieMem C03.TrieTableProofs C03.TrieWalkProofs
                          C04.TrieSize C04.TrieSizeProofs C04.TrieCounts C04.TrieSizeEnd.
Theorem C04_trie_image_size : forall (array : bool) cfg n V (t : atable) pz M,
  (2 <= n)%nat -> (0 <= V < 2 ^ 32)%Z -> (0 <= cfg)%Z -> TInv n (alookup t) M -> NoDup (map fst t) ->
  (forall w, alookup t [w] <> None <-> (Z.of_N w < V)%Z) ->
  (forall k e, alookup t k = Some e -> (- 2 ^ 24 < e_prob e < 2 ^ 24 /\ - 2 ^ 24 < e_bo e < 2 ^ 24)%Z) ->
  (Z.of_nat (n * length t) < 2 ^ 57)%Z ->
  Z.of_nat (length (C03.TrieImage.trie_image array cfg n t pz)) = trie_size array cfg (trie_counts n t).
Proof. exact trie_image_size. Qed.

Theorem C04_sorted_vocab_region_size : forall n (t : atable) words, (1 <= n)%nat -> S (length words) = length (order_entries t 1) ->
  Z.of_nat (length (sorted_vocab_bytes words)) = sorted_vocab_size (nth 0 (trie_counts n t) 0%Z).
Proof. exact sorted_vocab_region_size. Qed.

(* for any level lists with ordered next pointers (Lok), whatever they were built from *)
Theorem C04_trie_bytes_size : forall (array : bool) cfg (ls : levels pb) vocab,
  (0 <= cfg)%Z -> (2 <= length ls)%nat -> Lok vocab ls ->
  Z.of_nat (length (trie_bytes array cfg (mk_trie array cfg ls))) = trie_size array cfg (map (fun l => Z.of_nat (length l)) ls).
Proof. exact trie_bytes_size. Qed.

Theorem C04_level_count : forall (V : Type) (dv : V) t j, table_ok V t ->
  length (lev V j (of_table V dv t)) = length (filter (has_len (S j)) (map fst t)).
Proof. exact level_count. Qed.

Theorem C04_bhiksha_config_read_back : forall cfg (ls : levels pb), (3 <= length ls)%nat ->
  bhiksha_config_from (trie_bytes true cfg (mk_trie true cfg ls)) (Z.of_nat (length (nth 0 ls []))) = (0%Z, Z.land cfg 255).
Proof. exact bhiksha_config_read_back. Qed.

(* ---- the loader's own size function on the model's file (C04/TrieLoaderSize.v).  trie_body_size is what lm/model.cc computes before it
   maps the body: the header's order and counts decoded from their little-endian bytes, for the array trie the configured bits fetched from
   the file behind the vocabulary and the unigram array (ArrayBhiksha::UpdateConfigFromBinary, order > 2), then
   SortedVocabulary::Size(counts[0]) + TrieSearch::Size(counts, config).  On the file the model writes for any table with the loaders'
   invariant this is exactly |vocabulary| + vocab_pad + |search| -- so C04_model_file_loads_back holds with NO hypothesis about sizes:
   the trie and array-trie loaders accept the file, find the vocabulary and the search structure where they look, and (C03 / C01) answer
   from that memory as the ARPA recursion prescribes. *)
From Kenlm Require Import C04.TrieLoaderSize.
Theorem C04_trie_body_size_agrees : forall (array : bool) cfg pm n V (t : atable) pz M words,
  (2 <= n <= max_order)%nat -> (0 <= V < 2 ^ 32)%Z -> (0 <= cfg < 256)%Z -> TInv n (alookup t) M -> NoDup (map fst t) ->
  (forall x, alookup t [x] <> None <-> (Z.of_N x < V)%Z) ->
  (forall k e, alookup t k = Some e -> (- 2 ^ 24 < e_prob e < 2 ^ 24 /\ - 2 ^ 24 < e_bo e < 2 ^ 24)%Z) ->
  (Z.of_nat (n * length t) < 2 ^ 57)%Z -> S (length words) = length (order_entries t 1) ->
  let w := trie_written array cfg pm n t pz words in
  forall lc (iv : bool) vocab1 search1 wm,
  length vocab1 = length (sorted_vocab_bytes words) -> length search1 = length (C03.TrieImage.trie_image array cfg n t pz) ->
  trie_body_size array lc (CrashProofs.final_image wm iv (contents_of w iv vocab1 search1)) = (length (w_vocab w) + w_pad w + length (w_search w))%nat.
Proof. exact trie_body_size_agrees. Qed.

Theorem C04_trie_file_loads_back : forall pm_ok words_ok (array : bool) cfg pm n V (t : atable) pz M words (iv : bool) vocab1 search1 wm lcfg,
  let w := trie_written array cfg pm n t pz words in
  (2 <= n <= max_order)%nat -> (0 <= V < 2 ^ 32)%Z -> (0 <= cfg < 256)%Z -> TInv n (alookup t) M -> NoDup (map fst t) ->
  (forall x, alookup t [x] <> None <-> (Z.of_N x < V)%Z) ->
  (forall k e, alookup t k = Some e -> (- 2 ^ 24 < e_prob e < 2 ^ 24 /\ - 2 ^ 24 < e_bo e < 2 ^ 24)%Z) ->
  (Z.of_nat (n * length t) < 2 ^ 57)%Z -> S (length words) = length (order_entries t 1) ->
  length vocab1 = length (sorted_vocab_bytes words) -> length search1 = length (C03.TrieImage.trie_image array cfg n t pz) ->
  pm_ok [w_p0 w; w_p1 w; w_p2 w; w_p3 w] = true ->
  l_model_type lcfg = w_model_type w -> l_search_version lcfg = w_search_version w ->
  (l_enumerate lcfg = true -> iv = true) ->
  (iv = true -> l_enumerate lcfg = true -> words_ok (w_counts w) (w_words w) = true) ->
  load pm_ok (trie_body_size array) words_ok lcfg (CrashProofs.final_image wm iv (contents_of w iv vocab1 search1))
    = Some (body_of w iv, if iv && l_enumerate lcfg then Some (w_words w) else None) /\
  firstn (length (w_vocab w)) (skipn (header_size n) (body_of w iv)) = map Z.to_nat (sorted_vocab_bytes words) /\
  firstn (length (w_search w)) (skipn (header_size n + length (w_vocab w) + 0) (body_of w iv)) = map Z.to_nat (C03.TrieImage.trie_image array cfg n t pz).
Proof. exact trie_file_loads_back. Qed.

(* ---- reading the search structure back (C04/TrieParse.v, TrieParseProofs.v, MemBound.v, TrieParseEnd.v) ---------------------------------
   parse_trie models TrieSearch::SetupMemory on a mapped file: every array is a slice of the bytes, positioned by the Size() functions
   of the header's counts and the configuration; ArrayBhiksha's offset table at the next 8-byte boundary + 8 of its region.
   C04_parse_trie_roundtrip: for ANY level lists with ordered next pointers and word-id-addressed unigrams, parsing the bytes of the
   structure built from them gives that structure back -- records, closing pointers, every bit-packed memory (C04_array_memory_fits:
   the builder's writes stay inside Size() bytes, so the bytes determine the memory), the offset tables.  C04_loaded_memory_is_built_memory /
   C04_file_table_is_mem_table: for every table with the loaders' invariant, what the loader sets up over the file's search region is what
   the builder had in memory; the table it answers with is mem_table, about which C01_trie_memory_end_to_end, C02_memory_state_sufficient
   and C08_memory_any_bracketing_sentence speak. *)
From Kenlm Require Import C03.TrieEndToEnd C04.MemBound C04.TrieParse C04.TrieParseProofs C04.TrieParseEnd.
Theorem C04_parse_trie_roundtrip : forall (array : bool) cfg (ls : levels pb) vocab rest,
  (0 <= cfg)%Z -> (2 <= length ls)%nat -> Lok vocab ls -> dense_words (nth 0 ls []) ->
  parse_trie array cfg (map (fun l : list (rec pb) => Z.of_nat (length l)) ls) (trie_bytes array cfg (mk_trie array cfg ls) ++ rest)
  = mk_trie array cfg ls.
Proof. exact parse_trie_ok. Qed.

Theorem C04_array_memory_fits : forall (array : bool) cfg vocab (l : list (rec pb)) max_next,
  (0 <= next_bits array (Z.of_nat (length l)) max_next cfg)%Z ->
  let mm := mk_mid array cfg vocab l max_next in
  (0 <= mm_mem mm < 2 ^ (8 * C20.ArrayModel.bitpacked_base_size (Z.of_nat (mm_count mm)) (t_max_vocab (mm_par mm)) (63 + t_nb (mm_par mm))))%Z.
Proof. exact mk_mid_mem_bound. Qed.

Theorem C04_loaded_memory_is_built_memory : forall (array : bool) cfg n V (t : atable) pz M,
  (2 <= n)%nat -> (0 <= V < 2 ^ 32)%Z -> (0 <= cfg)%Z -> TInv n (alookup t) M -> NoDup (map fst t) ->
  (forall w, alookup t [w] <> None <-> (Z.of_N w < V)%Z) ->
  (forall k e, alookup t k = Some e -> (- 2 ^ 24 < e_prob e < 2 ^ 24 /\ - 2 ^ 24 < e_bo e < 2 ^ 24)%Z) ->
  (Z.of_nat (n * length t) < 2 ^ 57)%Z ->
  forall rest, parse_trie array cfg (trie_counts n t) (C03.TrieImage.trie_image array cfg n t pz ++ rest) = C03.TrieImage.trie_mem array cfg n t pz.
Proof. exact parse_image. Qed.

Theorem C04_file_table_is_mem_table : forall (array : bool) cfg n V (t : atable) pz M,
  (2 <= n)%nat -> (0 <= V < 2 ^ 32)%Z -> (0 <= cfg)%Z -> TInv n (alookup t) M -> NoDup (map fst t) ->
  (forall w, alookup t [w] <> None <-> (Z.of_N w < V)%Z) ->
  (forall k e, alookup t k = Some e -> (- 2 ^ 24 < e_prob e < 2 ^ 24 /\ - 2 ^ 24 < e_bo e < 2 ^ 24)%Z) ->
  (Z.of_nat (n * length t) < 2 ^ 57)%Z ->
  forall rest k, file_table array cfg n V (trie_counts n t) (C03.TrieImage.trie_image array cfg n t pz ++ rest) k = mem_table array cfg n V t pz k.
Proof. exact file_table_is_mem_table. Qed.

(* ---- the same for the probing model (C04/HashedParse.v, HashedParseProofs.v): HashedSearch::SetupMemory's slices -- the unigram
   array and one table of `buckets` cells per order -- parsed from the bytes of the search structure give back the unigram values and the
   cells of every table (a table built by Insert holds only empty cells and its entries, all of which fit their fields), and the table the
   loaded memory answers with is pmem_table, for which C03_probing_memory_table_invariants holds; so by C04_same_table_same_answers every
   query on the loaded probing file is the query on the built model.  The bucket counts stay a parameter: ProbingHashTable::Size is a
   float32 product (mirrored in the harness, compared in C20's SZ stream). *)
From Kenlm Require Import C03.ProbingEndToEnd C04.HashedParse C04.HashedParseProofs.
Theorem C04_probing_file_table_is_pmem_table : forall (t : atable) buckets n V slots img rest,
  (2 <= n)%nat -> length buckets = (n - 1)%nat -> (V <= Z.of_nat slots)%Z ->
  NoDup (map fst t) ->
  (forall w, Defs.alookup t [w] <> None <-> (Z.of_N w < V)%Z) ->
  (forall k e, Defs.alookup t k = Some e -> (- 2 ^ 24 < e_prob e < 2 ^ 24 /\ - 2 ^ 24 < e_bo e < 2 ^ 24)%Z) ->
  probing_image t slots buckets = Some img ->
  forall k, file_ptable buckets n V (parse_probing slots buckets (img ++ rest)) k = pmem_table buckets n V t k.
Proof. exact file_ptable_is_pmem_table. Qed.

(* ---- so the tables decoded from the LOADED files satisfy the loaders' invariant: every theorem of C01, C02 and C08, stated for an
   arbitrary table with TInv, holds for the answers computed from a loaded trie / array-trie / probing file of the model ---- *)
From Kenlm Require Import LM.TableExt C04.FileTables.
Theorem C04_file_table_invariants : forall (array : bool) cfg n V (t : atable) pz M rest,
  (2 <= n)%nat -> (0 <= V < 2 ^ 32)%Z -> (0 <= cfg)%Z -> TInv n (alookup t) M -> NoDup (map fst t) ->
  (forall w, alookup t [w] <> None <-> (Z.of_N w < V)%Z) ->
  (forall k e, alookup t k = Some e -> (- 2 ^ 24 < e_prob e < 2 ^ 24 /\ - 2 ^ 24 < e_bo e < 2 ^ 24)%Z) ->
  (forall k e, alookup t k = Some e -> (2 <= length k)%nat -> (e_prob e <= 0)%Z) ->
  (forall k e, alookup t k = Some e -> length k = n -> e_bo e = 0%Z) ->
  (Z.of_nat (n * length t) < 2 ^ 57)%Z ->
  TInv n (file_table array cfg n V (trie_counts n t) (C03.TrieImage.trie_image array cfg n t pz ++ rest)) M.
Proof. exact file_table_invariants. Qed.

Theorem C04_probing_file_table_invariants : forall buckets n V (t : atable) M slots img rest,
  (2 <= n)%nat -> TInv n (Defs.alookup t) M -> NoDup (map fst t) ->
  (forall w, Defs.alookup t [w] <> None <-> (Z.of_N w < V)%Z) ->
  (forall k e, Defs.alookup t k = Some e -> (- 2 ^ 24 < e_prob e <= 0 /\ - 2 ^ 24 < e_bo e < 2 ^ 24)%Z) ->
  (forall k e, Defs.alookup t k = Some e -> length k = n -> e_bo e = 0%Z) ->
  (forall j, (2 <= j <= n)%nat -> (length (order_entries t j) < nth (j - 2) buckets 0)%nat) ->
  (forall k, over_vocab n V k -> hash_key k <> 0%Z) ->
  (forall k1 k2, over_vocab n V k1 -> over_vocab n V k2 -> hash_key k1 = hash_key k2 -> k1 = k2) ->
  length buckets = (n - 1)%nat -> (V <= Z.of_nat slots)%Z -> probing_image t slots buckets = Some img ->
  TInv n (file_ptable buckets n V (parse_probing slots buckets (img ++ rest))) M.
Proof. exact probing_file_table_invariants. Qed.

(* a probing file and a trie / array-trie file of the same ARPA model, each loaded back, return the same probability for every history and
   every vocabulary word (C03_memory_structures_equal_probabilities for the loaded memories) *)
Local Open Scope Z_scope.
Theorem C04_loaded_files_equal_probabilities :
  forall buckets (array : bool) cfg N V (tp tt : atable) pz M slots img rest1 rest2,
  (2 <= N)%nat -> 0 <= V < 2 ^ 32 -> 0 <= cfg ->
  TInv N (Defs.alookup tp) M -> NoDup (map fst tp) -> (forall w, Defs.alookup tp [w] <> None <-> Z.of_N w < V) ->
  (forall k e, Defs.alookup tp k = Some e -> - 2 ^ 24 < e_prob e <= 0 /\ - 2 ^ 24 < e_bo e < 2 ^ 24) ->
  (forall k e, Defs.alookup tp k = Some e -> length k = N -> e_bo e = 0) ->
  (forall j, (2 <= j <= N)%nat -> (length (order_entries tp j) < nth (j - 2) buckets 0)%nat) ->
  (forall k, over_vocab N V k -> hash_key k <> 0) ->
  (forall k1 k2, over_vocab N V k1 -> over_vocab N V k2 -> hash_key k1 = hash_key k2 -> k1 = k2) ->
  length buckets = (N - 1)%nat -> V <= Z.of_nat slots -> probing_image tp slots buckets = Some img ->
  TInv N (Defs.alookup tt) M -> NoDup (map fst tt) -> (forall w, Defs.alookup tt [w] <> None <-> Z.of_N w < V) ->
  (forall k e, Defs.alookup tt k = Some e -> - 2 ^ 24 < e_prob e < 2 ^ 24 /\ - 2 ^ 24 < e_bo e < 2 ^ 24) ->
  (forall k e, Defs.alookup tt k = Some e -> (2 <= length k)%nat -> e_prob e <= 0) ->
  (forall k e, Defs.alookup tt k = Some e -> length k = N -> e_bo e = 0) ->
  Z.of_nat (N * length tt) < 2 ^ 57 ->
  forall ctx w, Z.of_N w < V ->
  r_prob (fst (full_score_forgot N (file_ptable buckets N V (parse_probing slots buckets (img ++ rest1))) Probing ctx w)) =
  r_prob (fst (full_score_forgot N (file_table array cfg N V (trie_counts N tt) (C03.TrieImage.trie_image array cfg N tt pz ++ rest2)) Trie ctx w)).
Proof. exact loaded_files_equal_probabilities. Qed.
