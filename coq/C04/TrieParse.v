(* C04/TrieParse.v -- executable model of how the loader of a trie model turns the bytes of the search structure back into the arrays
   it queries (lm/search_trie.cc TrieSearch::SetupMemory called from InitializeFromBinary / LoadedBinary; lm/trie.cc Unigram::Init,
   BitPackedMiddle ctor + BaseInit, BitPackedLongest::Init; lm/bhiksha.cc ArrayBhiksha ctor): every array is a slice of the mapped
   bytes whose position and length are computed from the header's counts and the configuration with the Size() functions of
   C04/TrieSize.v; ArrayBhiksha's offset table sits at the next 8-byte boundary + 8 inside its region.  No proofs here. *)
From Coq Require Import ZArith List Bool Arith.
From Kenlm Require Import Base.Mem C20.ArrayModel C03.BhikshaModel C03.TrieLayout C03.TrieMem C04.TrieSize.
Import ListNotations.
Local Open Scope Z_scope.

Definition slice (off len : nat) (l : list Z) : list Z := firstn len (skipn off l).

Definition parse_uni_rec (bs : list Z) (i : nat) : rec pb :=
  let r := slice (16 * i) 16 bs in
  {| r_word := Z.of_nat i; r_val := (Z_of_bytes (slice 0 4 r), Z_of_bytes (slice 4 4 r)); r_next := Z_of_bytes (slice 8 8 r) |}.
Definition parse_uni (count0 : nat) (bs : list Z) : list (rec pb) := map (parse_uni_rec bs) (seq 0 count0).
Definition parse_uni_end (count0 : nat) (bs : list Z) : Z := Z_of_bytes (slice (16 * count0 + 8) 8 bs).

(* one middle array from the bytes starting at its region; off = the region's offset inside the search memory (alignment);
   returns the array and the number of bytes of the region *)
Definition parse_mid (array : bool) (cfg vocab entries max_next off : Z) (bs : list Z) : midmem * nat :=
  let nb := next_bits array entries max_next cfg in
  let m := {| t_base := 0; t_wb := bits_needed vocab; t_nb := nb; t_max_vocab := vocab |} in
  let bsz := Z.to_nat (bhiksha_size array (entries + 1) max_next cfg) in
  let pad := Z.to_nat ((8 - off mod 8) mod 8) in
  let offs := if array then map (fun i => Z_of_bytes (slice (pad + 8 + 8 * i) 8 bs)) (seq 0 (Z.to_nat (array_count (entries + 1) max_next cfg)))
              else [] in
  let size := Z.to_nat (bitpacked_base_size entries vocab (63 + nb)) in
  ({| mm_par := m; mm_mem := Z_of_bytes (slice bsz size bs); mm_offs := offs; mm_count := Z.to_nat entries |}, (bsz + size)%nat).

(* counts of the orders 2 .. N; returns the middle arrays and the bytes that follow them *)
Fixpoint parse_mids (array : bool) (cfg vocab : Z) (counts : list Z) (off : Z) (bs : list Z) : list midmem * list Z :=
  match counts with
  | c :: ((c' :: _) as rest) =>
      let '(mm, sz) := parse_mid array cfg vocab c c' off bs in
      let '(mms, tail) := parse_mids array cfg vocab rest (off + Z.of_nat sz) (skipn sz bs) in
      (mm :: mms, tail)
  | _ => ([], bs)
  end.

Definition parse_trie (array : bool) (cfg : Z) (counts : list Z) (bs : list Z) : triemem :=
  let c0 := nth 0 counts 0 in
  let usz := Z.to_nat (unigram_size c0) in
  let '(mids, rest) := parse_mids array cfg c0 (tl counts) (unigram_size c0) (skipn usz bs) in
  let lc := last counts 0 in
  {| tm_uni := parse_uni (Z.to_nat c0) bs; tm_uni_end := parse_uni_end (Z.to_nat c0) bs; tm_mids := mids;
     tm_long_par := {| l_base := 0; l_wb := bits_needed c0; l_max_vocab := c0 |};
     tm_long := Z_of_bytes (slice 0 (Z.to_nat (longest_size lc c0)) rest); tm_long_count := Z.to_nat lc |}.
