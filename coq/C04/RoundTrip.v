(* C04 -- binary model files round-trip exactly: what FinishFile leaves on disk is what the loader reads back.
   Built on the C09 development: the system-call trace of a binary build (finish_trace), the file semantics,
   the header constants regenerated from lm/binary_format.cc, and the loader's functions `load` / `recognize`. *)
From Coq Require Import List Arith Bool Lia.
From Kenlm Require Import Gen.BinaryFormatConsts C15.IoModel C15.IoProofs C09.CrashModel C09.CrashProofs.
Import ListNotations.

(* ------------------------------------------------------------------------------------------ *)
(* list algebra of the file operations *)
Lemma resize_nil : forall n, resize zero (@nil byte) n = repeat zero n.
Proof. intro n. unfold resize. simpl. rewrite Nat.sub_0_r. rewrite firstn_all2 by (rewrite repeat_length; lia). reflexivity. Qed.

Lemma resize_grow : forall (f : list byte) n, length f <= n -> resize zero f n = f ++ repeat zero (n - length f).
Proof.
  intros f n H. unfold resize. apply firstn_all2. rewrite app_length, repeat_length. lia.
Qed.

Lemma firstn_app_exact : forall (a b : list byte) n, length a = n -> firstn n (a ++ b) = a.
Proof. intros a b n H. subst n. rewrite firstn_app, Nat.sub_diag, firstn_all. simpl. apply app_nil_r. Qed.

Lemma skipn_app_exact : forall (a b : list byte) n, length a = n -> skipn n (a ++ b) = b.
Proof. intros a b n H. subst n. rewrite skipn_app, Nat.sub_diag, skipn_all. reflexivity. Qed.

(* storing bs over the middle part of a ++ b ++ c *)
Lemma overwrite_mid : forall (f a b c bs : list byte) off,
  f = a ++ b ++ c -> length a = off -> length b = length bs -> overwrite zero f off bs = a ++ bs ++ c.
Proof.
  intros f a b c bs off -> Ha Hb. unfold overwrite.
  replace (off - length (a ++ b ++ c)) with 0 by (rewrite !app_length; lia). simpl. rewrite app_nil_r.
  rewrite (firstn_app_exact a (b ++ c) off Ha). f_equal. f_equal.
  rewrite app_assoc. apply skipn_app_exact. rewrite app_length. lia.
Qed.

(* storing at or beyond the end: the gap reads as zeros *)
Lemma overwrite_past : forall (f bs : list byte) off, length f <= off ->
  overwrite zero f off bs = f ++ repeat zero (off - length f) ++ bs.
Proof.
  intros f bs off H. unfold overwrite.
  rewrite firstn_all2 by (rewrite app_length, repeat_length; lia).
  rewrite skipn_all2 by lia. rewrite app_nil_r, app_assoc. reflexivity.
Qed.

(* the page cache is a function of the operations alone *)
Definition cstep (c : list byte) (op : sysop) : list byte :=
  match op with
  | Create => []
  | Truncate n => resize zero c n
  | MapStore off bs | Write off bs => overwrite zero c off bs
  | _ => c
  end.

Lemma cache_run : forall tr st, cache (run st tr) = fold_left cstep tr (cache st).
Proof.
  induction tr as [|op tr IH]; intro st; [reflexivity|]. simpl. rewrite IH. f_equal. destruct op; reflexivity.
Qed.

Ltac lens := rewrite ?app_length, ?repeat_length, ?incomplete_header_length; simpl; lia.
Ltac norm := rewrite <- ?app_assoc; simpl; rewrite ?app_nil_r; reflexivity.

(* ------------------------------------------------------------------------------------------ *)
(* the complete file, computed: both write methods leave header ++ vocabulary ++ pad ++ search ++ strings *)
Lemma final_image_expected : forall wm iv c, wf_contents c -> final_image wm iv c = expected_image iv c.
Proof.
  intros wm iv c (H1 & H2 & H3 & H4 & H5). unfold final_image, expected_image. rewrite cache_run.
  unfold finish_trace, finish_trace_gen, body_trace, sync_trace, header_op, tail_trace.
  set (H := c_H c) in *. set (V := length (c_vocab1 c)) in *. set (P := c_pad c). set (M := length (c_search1 c)) in *.
  set (inc := incomplete_header H).
  assert (Hinc : length inc = H) by apply incomplete_header_length.
  destruct wm.
  - (* mmap *)
    assert (S4 : fold_left cstep [Create; Truncate 0; Truncate (H + V); Mmap (H + V); MapStore 0 inc; MapStore H (c_vocab1 c)] [] =
                 inc ++ c_vocab1 c).
    { cbn [fold_left cstep]. rewrite !resize_nil. rewrite repeat_app.
      rewrite (overwrite_mid _ [] (repeat zero H) (repeat zero V) inc 0) by (try reflexivity; lens).
      rewrite (overwrite_mid _ inc (repeat zero V) [] (c_vocab1 c) H) by (try norm; lens). norm. }
    assert (S7 : fold_left cstep [Msync (H + V); Munmap (H + V); Truncate (H + V + P + M); Mmap (H + V + P + M);
                                  MapStore H (c_vocab2 c); MapStore (H + V + P) (c_search1 c)] (inc ++ c_vocab1 c) =
                 inc ++ c_vocab2 c ++ repeat zero P ++ c_search1 c).
    { cbn [fold_left cstep]. rewrite resize_grow by lens.
      replace (H + V + P + M - length (inc ++ c_vocab1 c)) with (P + M) by lens. rewrite repeat_app.
      rewrite (overwrite_mid _ inc (c_vocab1 c) (repeat zero P ++ repeat zero M) (c_vocab2 c) H) by (try norm; lens).
      rewrite (overwrite_mid _ (inc ++ c_vocab2 c ++ repeat zero P) (repeat zero M) [] (c_search1 c) (H + V + P)) by (try norm; lens).
      norm. }
    assert (S9 : forall w, fold_left cstep [MapStore (H + V + P) (c_search2 c); Msync (H + V + P + M); Fsync; MapStore 0 (c_header c);
                                             Msync (H + V + P + M); Msync (H + V + P + M); Munmap (H + V + P + M); Close]
                             (inc ++ c_vocab2 c ++ repeat zero P ++ c_search1 c ++ w) =
                           c_header c ++ c_vocab2 c ++ repeat zero P ++ c_search2 c ++ w).
    { intro w. cbn [fold_left cstep].
      rewrite (overwrite_mid _ (inc ++ c_vocab2 c ++ repeat zero P) (c_search1 c) w (c_search2 c) (H + V + P)) by (try norm; lens).
      rewrite (overwrite_mid _ [] inc (c_vocab2 c ++ repeat zero P ++ c_search2 c ++ w) (c_header c) 0) by (try norm; lens).
      reflexivity. }
    set (A := [Create; Truncate 0; Truncate (H + V); Mmap (H + V); MapStore 0 inc; MapStore H (c_vocab1 c)]) in *.
    set (B := [Msync (H + V); Munmap (H + V); Truncate (H + V + P + M); Mmap (H + V + P + M);
               MapStore H (c_vocab2 c); MapStore (H + V + P) (c_search1 c)]) in *.
    set (Z := [MapStore (H + V + P) (c_search2 c); Msync (H + V + P + M); Fsync; MapStore 0 (c_header c);
               Msync (H + V + P + M); Msync (H + V + P + M); Munmap (H + V + P + M); Close]) in *.
    destruct iv.
    + set (I := [Msync (H + V + P + M); Munmap (H + V + P + M); Write (H + V + P + M) (c_words c); Mmap (H + V + P + M)]).
      change (fold_left cstep (A ++ B ++ I ++ Z) [] = c_header c ++ c_vocab2 c ++ repeat zero P ++ c_search2 c ++ c_words c).
      rewrite !fold_left_app, S4, S7.
      replace (fold_left cstep I (inc ++ c_vocab2 c ++ repeat zero P ++ c_search1 c))
        with (inc ++ c_vocab2 c ++ repeat zero P ++ c_search1 c ++ c_words c); [apply S9|].
      unfold I. cbn [fold_left cstep]. rewrite overwrite_past by lens.
      replace (H + V + P + M - length (inc ++ c_vocab2 c ++ repeat zero P ++ c_search1 c)) with 0 by lens. norm.
    + change (fold_left cstep (A ++ B ++ Z) [] = c_header c ++ c_vocab2 c ++ repeat zero P ++ c_search2 c ++ []).
      rewrite !fold_left_app, S4, S7.
      specialize (S9 []). rewrite !app_nil_r in S9. rewrite app_nil_r. exact S9.
  - (* write after *)
    destruct iv; cbn [app fold_left cstep]; rewrite ?resize_nil; simpl repeat.
    + rewrite (overwrite_past [] (c_words c)) by (simpl; lia). simpl length. rewrite Nat.sub_0_r. cbn [app].
      replace (H + V + P + M) with (H + V + (P + M)) by lia. rewrite repeat_app.
      rewrite (overwrite_mid _ [] (repeat zero (H + V)) (repeat zero (P + M) ++ c_words c) (inc ++ c_vocab2 c) 0) by (try norm; lens).
      cbn [app]. rewrite (repeat_app zero P M).
      rewrite (overwrite_mid _ (inc ++ c_vocab2 c ++ repeat zero P) (repeat zero M) (c_words c) (c_search2 c) (H + V + P)) by (try norm; lens).
      rewrite (overwrite_mid _ [] inc (c_vocab2 c ++ repeat zero P ++ c_search2 c ++ c_words c) (c_header c) 0) by (try norm; lens).
      reflexivity.
    + rewrite (overwrite_past [] (inc ++ c_vocab2 c)) by (simpl; lia). simpl length. simpl repeat. cbn [app].
      rewrite (overwrite_past (inc ++ c_vocab2 c) (c_search2 c)) by lens.
      replace (H + V + P - length (inc ++ c_vocab2 c)) with P by lens.
      rewrite (overwrite_mid _ [] inc (c_vocab2 c ++ repeat zero P ++ c_search2 c) (c_header c) 0) by (try norm; lens).
      rewrite app_nil_r. reflexivity.
Qed.

(* byte-identical rebuilds: the two write methods leave the same file *)
Lemma write_methods_agree : forall iv c, wf_contents c ->
  final_image WriteMmap iv c = final_image WriteAfter iv c.
Proof. intros iv c Hwf. rewrite !final_image_expected by exact Hwf. reflexivity. Qed.

(* ------------------------------------------------------------------------------------------ *)
(* the header as WriteHeader lays it out, and what the decoder gets back from it *)
Lemma list_eqb_refl : forall a, list_eqb a a = true.
Proof. induction a as [|x a IH]; [reflexivity|]. simpl. rewrite Nat.eqb_refl. exact IH. Qed.

(* n fits in 32 bits (stated without the unary numeral 2^32) *)
Definition fits32 (n : nat) : Prop := n / 256 / 256 / 256 < 256.

Lemma le32_bytes : forall n rest, fits32 n -> le32 (bytes_le32 n ++ rest) = n.
Proof.
  intros n rest Hn. unfold fits32 in Hn. unfold le32, bytes_le32. cbn [app nth].
  pose proof (Nat.div_mod n 256). pose proof (Nat.div_mod (n / 256) 256). pose proof (Nat.div_mod (n / 256 / 256) 256).
  rewrite (Nat.mod_small (n / 256 / 256 / 256) 256) by assumption. lia.
Qed.

Section Fixed.
  Variables order p0 p1 p2 p3 mtype hv version : nat.
  Notation fixed := (make_fixed order p0 p1 p2 p3 mtype hv version).

  Lemma fixed_length : length fixed = fixed_size.
  Proof. reflexivity. Qed.
  Lemma fixed_order : nth off_order fixed 0 = order.
  Proof. reflexivity. Qed.
  Lemma fixed_pm : firstn 4 (skipn off_probing_multiplier fixed) = [p0; p1; p2; p3].
  Proof. reflexivity. Qed.
  Lemma fixed_hv : nth off_has_vocabulary fixed 0 = hv.
  Proof. reflexivity. Qed.
  Lemma fixed_type : fits32 mtype -> le32 (skipn off_model_type fixed) = mtype.
  Proof. intro Hm. change (skipn off_model_type fixed) with (bytes_le32 mtype ++ [hv; 0; 0; 0] ++ bytes_le32 version). apply le32_bytes. exact Hm. Qed.
  Lemma fixed_version : fits32 version -> le32 (skipn off_search_version fixed) = version.
  Proof.
    intro Hv. change (skipn off_search_version fixed) with (bytes_le32 version ++ []). apply le32_bytes. exact Hv.
  Qed.
End Fixed.

Lemma header_size_ok : forall order, order <= max_order ->
  sanity_size + fixed_size + 8 * order <= header_size order /\ header_size order <= page /\ sanity_size <= header_size order.
Proof.
  intros order Ho. unfold max_order in Ho.
  do 7 (destruct order as [|order]; [vm_compute; repeat split; lia|]). lia.
Qed.

Lemma make_header_length : forall order p0 p1 p2 p3 mtype hv version counts,
  order <= max_order -> length counts = 8 * order ->
  length (make_header order p0 p1 p2 p3 mtype hv version counts) = header_size order.
Proof.
  intros order p0 p1 p2 p3 mtype hv version counts Ho Hc. unfold make_header.
  rewrite !app_length, repeat_length, fixed_length, Hc.
  destruct (header_size_ok order Ho) as (Hs & _). change (length ref_sanity) with sanity_size. lia.
Qed.

Lemma header_layout : forall order p0 p1 p2 p3 mtype hv version counts,
  order <= max_order -> length counts = 8 * order ->
  length (make_header order p0 p1 p2 p3 mtype hv version counts) = header_size order /\
  nth off_order (make_fixed order p0 p1 p2 p3 mtype hv version) 0 = order /\
  firstn 4 (skipn off_probing_multiplier (make_fixed order p0 p1 p2 p3 mtype hv version)) = [p0; p1; p2; p3] /\
  nth off_has_vocabulary (make_fixed order p0 p1 p2 p3 mtype hv version) 0 = hv /\
  length (make_fixed order p0 p1 p2 p3 mtype hv version) = fixed_size.
Proof. intros. split; [apply make_header_length; assumption|]. repeat split. Qed.

(* ------------------------------------------------------------------------------------------ *)
(* a complete description of a written file: which header fields, which regions *)
Record written := {
  w_order : nat; w_p0 : nat; w_p1 : nat; w_p2 : nat; w_p3 : nat;      (* order; the four bytes of probing_multiplier *)
  w_model_type : nat; w_search_version : nat; w_counts : list byte;     (* 8 * order bytes *)
  w_vocab : list byte; w_pad : nat; w_search : list byte; w_words : list byte }.

Definition hv_byte (iv : bool) : nat := if iv then 1 else 0.

(* the contents handed to the writer: any intermediate vocabulary / search bytes, final ones as in w *)
Definition contents_of (w : written) (iv : bool) (vocab1 search1 : list byte) : contents :=
  {| c_H := header_size (w_order w); c_vocab1 := vocab1; c_vocab2 := w_vocab w; c_pad := w_pad w;
     c_search1 := search1; c_search2 := w_search w; c_words := w_words w;
     c_header := make_header (w_order w) (w_p0 w) (w_p1 w) (w_p2 w) (w_p3 w) (w_model_type w) (hv_byte iv) (w_search_version w) (w_counts w) |}.

Definition wf_written (w : written) (vocab1 search1 : list byte) : Prop :=
  2 <= w_order w <= max_order /\ length (w_counts w) = 8 * w_order w /\
  fits32 (w_model_type w) /\ fits32 (w_search_version w) /\
  length vocab1 = length (w_vocab w) /\ length search1 = length (w_search w).

Lemma contents_of_wf : forall w iv vocab1 search1, wf_written w vocab1 search1 -> wf_contents (contents_of w iv vocab1 search1).
Proof.
  intros w iv vocab1 search1 ((Ho1 & Ho2) & Hc & _ & _ & Hv & Hs). unfold wf_contents, contents_of.
  cbn [c_H c_header c_vocab1 c_vocab2 c_search1 c_search2].
  destruct (header_size_ok _ Ho2) as (_ & Hp & Hsz).
  split; [exact Hsz|]. split; [exact Hp|]. split; [apply make_header_length; assumption|]. split; symmetry; assumption.
Qed.

Definition body_of (w : written) (iv : bool) : list byte :=
  make_header (w_order w) (w_p0 w) (w_p1 w) (w_p2 w) (w_p3 w) (w_model_type w) (hv_byte iv) (w_search_version w) (w_counts w) ++
  w_vocab w ++ repeat zero (w_pad w) ++ w_search w.

Section RoundTrip.
  Variable pm_ok : list byte -> bool.
  Variable body_size : loader_cfg -> list byte -> nat.
  Variable words_ok : list byte -> list byte -> bool.
  Notation load := (load pm_ok body_size words_ok).
  Notation recognize := (recognize pm_ok).

  Variables (w : written) (iv : bool) (vocab1 search1 : list byte).
  Hypothesis Hwf : wf_written w vocab1 search1.
  Notation c := (contents_of w iv vocab1 search1).
  (* ReadHeader's test on the stored float passes *)
  Hypothesis Hpm : pm_ok [w_p0 w; w_p1 w; w_p2 w; w_p3 w] = true.

  Let F wm := final_image wm iv c.

  Lemma F_eq : forall wm, F wm = body_of w iv ++ (if iv then w_words w else []).
  Proof.
    intro wm. unfold F. rewrite final_image_expected by (apply contents_of_wf; exact Hwf).
    unfold expected_image, body_of, contents_of. cbn [c_header c_vocab2 c_pad c_search2 c_words]. rewrite <- !app_assoc. reflexivity.
  Qed.

  (* the image as the decoder looks at it: Sanity, fixed parameters, counts, the rest *)
  Lemma F_split : forall wm, exists rest,
    F wm = ref_sanity ++ make_fixed (w_order w) (w_p0 w) (w_p1 w) (w_p2 w) (w_p3 w) (w_model_type w) (hv_byte iv) (w_search_version w) ++ w_counts w ++ rest.
  Proof.
    intro wm. rewrite F_eq. unfold body_of, make_header. eexists. rewrite <- !app_assoc. reflexivity.
  Qed.

  Lemma F_length : forall wm, length (F wm) = header_size (w_order w) + (length (w_vocab w) + w_pad w + length (w_search w)) + (if iv then length (w_words w) else 0).
  Proof.
    intro wm. rewrite F_eq. unfold body_of. destruct Hwf as ((_ & Ho) & Hc & _).
    rewrite !app_length, repeat_length, make_header_length by assumption. destruct iv; simpl; lia.
  Qed.

  (* what every later step of the loader sees of the header *)
  Lemma header_facts : forall wm,
    sanity_size < length (F wm) /\ firstn sanity_size (F wm) = ref_sanity /\
    firstn fixed_size (skipn sanity_size (F wm)) = make_fixed (w_order w) (w_p0 w) (w_p1 w) (w_p2 w) (w_p3 w) (w_model_type w) (hv_byte iv) (w_search_version w) /\
    firstn (8 * w_order w) (skipn (sanity_size + fixed_size) (F wm)) = w_counts w.
  Proof.
    intro wm. destruct (F_split wm) as [rest E]. destruct Hwf as ((Ho1 & Ho2) & Hc & _).
    split; [rewrite F_length; destruct (header_size_ok _ Ho2); lia|].
    rewrite E. split; [apply firstn_app_exact; reflexivity|].
    split.
    - rewrite (skipn_app_exact ref_sanity _ sanity_size eq_refl). apply firstn_app_exact. reflexivity.
    - rewrite app_assoc. rewrite (skipn_app_exact (ref_sanity ++ _) _ (sanity_size + fixed_size)) by reflexivity.
      apply firstn_app_exact. exact Hc.
  Qed.

  (* C04_recognize *)
  Lemma recognize_written : forall wm,
    recognize (F wm) = Some {| h_order := w_order w; h_probing_multiplier := [w_p0 w; w_p1 w; w_p2 w; w_p3 w];
                               h_model_type := w_model_type w; h_has_vocabulary := iv;
                               h_search_version := w_search_version w; h_counts := w_counts w |}.
  Proof.
    intro wm. destruct (header_facts wm) as (Hl & Hs & Hf & Hc). destruct Hwf as ((Ho1 & Ho2) & Hcl & Ht & Hv & _).
    unfold CrashModel.recognize. cbv zeta. rewrite Hs, Hf, !fixed_order, Hc.
    rewrite (proj2 (Nat.leb_gt _ _) Hl). rewrite list_eqb_refl. cbn [negb].
    rewrite fixed_length, Nat.ltb_irrefl, fixed_pm, Hpm. cbn [negb].
    rewrite Hcl, Nat.ltb_irrefl, fixed_hv, fixed_type, fixed_version by assumption.
    destruct iv; reflexivity.
  Qed.

  (* the loader on the written file, reduced to the decisions that depend on the configuration *)
  Lemma load_written : forall wm cfg,
    load cfg (F wm) =
    if negb (Nat.eqb (w_model_type w) (l_model_type cfg)) then None
    else if negb (Nat.eqb (w_search_version w) (l_search_version cfg)) then None
    else if l_enumerate cfg && negb iv then None
    else let total := header_size (w_order w) + body_size cfg (F wm) in
         if length (F wm) <? total then None
         else if negb iv && negb (Nat.eqb (length (F wm)) total) then None
         else if iv then
           let ws := skipn total (F wm) in
           if negb (list_eqb (firstn 6 ws) unk6) then None
           else if l_enumerate cfg then (if words_ok (w_counts w) ws then Some (firstn total (F wm), Some ws) else None)
           else Some (firstn total (F wm), None)
         else Some (firstn total (F wm), None).
  Proof.
    intros wm cfg. destruct (header_facts wm) as (Hl & Hs & Hf & Hc). destruct Hwf as ((Ho1 & Ho2) & Hcl & Ht & Hv & _).
    unfold CrashModel.load. cbv zeta. rewrite Hs, Hf, !fixed_order, Hc.
    rewrite (proj2 (Nat.leb_gt _ _) Hl). rewrite list_eqb_refl. cbn [negb].
    rewrite fixed_length, Nat.ltb_irrefl, fixed_pm, Hpm. cbn [negb].
    rewrite Hcl, Nat.ltb_irrefl, fixed_hv, fixed_type, fixed_version by assumption.
    replace ((w_order w <? 2) || (max_order <? w_order w)) with false
      by (symmetry; apply orb_false_iff; split; [apply Nat.ltb_ge|apply Nat.ltb_ge]; lia).
    replace (negb (Nat.eqb (hv_byte iv) 0)) with iv by (destruct iv; reflexivity).
    reflexivity.
  Qed.

  (* C04_other_type_rejected *)
  Lemma other_type_rejected : forall wm cfg,
    l_model_type cfg <> w_model_type w \/ l_search_version cfg <> w_search_version w -> load cfg (F wm) = None.
  Proof.
    intros wm cfg Hd. rewrite load_written.
    destruct (Nat.eqb (w_model_type w) (l_model_type cfg)) eqn:E1; [|reflexivity].
    destruct (Nat.eqb (w_search_version w) (l_search_version cfg)) eqn:E2; [|reflexivity].
    apply Nat.eqb_eq in E1. apply Nat.eqb_eq in E2. destruct Hd as [Hd|Hd]; exfalso; apply Hd; congruence.
  Qed.

  (* C04_write_then_load: the matching loader, when the Size() functions give what was laid out *)
  Lemma write_then_load : forall wm cfg,
    l_model_type cfg = w_model_type w -> l_search_version cfg = w_search_version w ->
    (l_enumerate cfg = true -> iv = true) ->
    body_size cfg (F wm) = length (w_vocab w) + w_pad w + length (w_search w) ->
    (iv = true -> firstn 6 (w_words w) = unk6) ->
    (iv = true -> l_enumerate cfg = true -> words_ok (w_counts w) (w_words w) = true) ->
    load cfg (F wm) = Some (body_of w iv, if iv && l_enumerate cfg then Some (w_words w) else None) /\
    (* and the regions sit where the loader looks for them *)
    firstn (length (w_vocab w)) (skipn (header_size (w_order w)) (body_of w iv)) = w_vocab w /\
    firstn (length (w_search w)) (skipn (header_size (w_order w) + length (w_vocab w) + w_pad w) (body_of w iv)) = w_search w /\
    skipn (length (body_of w iv)) (F wm) = (if iv then w_words w else []).
  Proof.
    intros wm cfg Ht Hv He Hb Hu Hw. destruct Hwf as ((Ho1 & Ho2) & Hcl & _).
    assert (Hh : length (make_header (w_order w) (w_p0 w) (w_p1 w) (w_p2 w) (w_p3 w) (w_model_type w) (hv_byte iv) (w_search_version w) (w_counts w))
                 = header_size (w_order w)) by (apply make_header_length; assumption).
    assert (Hbl : length (body_of w iv) = header_size (w_order w) + (length (w_vocab w) + w_pad w + length (w_search w))).
    { unfold body_of. rewrite !app_length, repeat_length, Hh. lia. }
    split; [|split; [|split]].
    - rewrite load_written, Ht, Hv, !Nat.eqb_refl. cbn [negb]. cbv zeta. rewrite Hb, <- Hbl.
      rewrite (F_eq wm).
      rewrite (firstn_app_exact (body_of w iv) _ _ eq_refl), (skipn_app_exact (body_of w iv) _ _ eq_refl).
      replace (length (body_of w iv ++ (if iv then w_words w else [])) <? length (body_of w iv)) with false
        by (symmetry; apply Nat.ltb_ge; rewrite app_length; lia).
      destruct iv.
      + cbn [negb andb orb]. rewrite (Hu eq_refl), list_eqb_refl. cbn [negb andb].
        destruct (l_enumerate cfg) eqn:E; [rewrite (Hw eq_refl eq_refl)|]; reflexivity.
      + rewrite app_nil_r, Nat.eqb_refl. cbn [negb andb orb]. destruct (l_enumerate cfg) eqn:E; [specialize (He eq_refl); discriminate|]. reflexivity.
    - unfold body_of. rewrite (skipn_app_exact _ _ _ Hh). apply firstn_app_exact. reflexivity.
    - unfold body_of. rewrite app_assoc, app_assoc.
      rewrite (skipn_app_exact ((_ ++ w_vocab w) ++ repeat zero (w_pad w)) (w_search w))
        by (rewrite !app_length, repeat_length, Hh; lia).
      apply firstn_all.
    - rewrite (F_eq wm). apply skipn_app_exact. reflexivity.
  Qed.
End RoundTrip.

(* ------------------------------------------------------------------------------------------ *)
(* the hypotheses are satisfiable: a small order-2 probing model, written and read back *)
Definition ex_written : written :=
  {| w_order := 2; w_p0 := 0; w_p1 := 0; w_p2 := 192; w_p3 := 63; w_model_type := 0; w_search_version := 1;
     w_counts := [3; 0; 0; 0; 0; 0; 0; 0; 1; 0; 0; 0; 0; 0; 0; 0];
     w_vocab := repeat 7 8; w_pad := 3; w_search := repeat 9 13; w_words := unk6 ++ [97; 0; 98; 0] |}.

Example ex_written_wf : wf_written ex_written (repeat 1 8) (repeat 2 13).
Proof. unfold wf_written, fits32. vm_compute. repeat split; lia. Qed.

Example ex_round_trip : forall wm,
  load (fun _ => true) (fun _ _ => 24) (fun _ _ => true) {| l_model_type := 0; l_search_version := 1; l_enumerate := true |}
       (final_image wm true (contents_of ex_written true (repeat 1 8) (repeat 2 13)))
  = Some (body_of ex_written true, Some (unk6 ++ [97; 0; 98; 0])).
Proof. intros []; vm_compute; reflexivity. Qed.

Example ex_other_type : forall wm,
  load (fun _ => true) (fun _ _ => 24) (fun _ _ => true) {| l_model_type := 2; l_search_version := 1; l_enumerate := false |}
       (final_image wm true (contents_of ex_written true (repeat 1 8) (repeat 2 13))) = None.
Proof. intros []; vm_compute; reflexivity. Qed.
