(* C04/TrieCounts.v -- the number of records in array j of the trie built from a table is the number of the table's keys of length j
   (what the header's counts say): the nodes of the forest are exactly the keys of the pre-order list (lev_count), the pre-order keys of
   the forest of a prefix-closed table with distinct keys are exactly the table's keys, each once (preorder_keys_are_table_keys), hence
   level_count.  With C04/TrieSizeProofs.v: the search structure's size is TrieSearch::Size of the counts in the header. *)
From Coq Require Import ZArith Lia Bool List Arith Sorted Permutation.
From Kenlm Require Import C03.TrieLayout C03.TrieLayoutProofs C03.TrieTableProofs C03.TrieOrder.
Import ListNotations.
Local Open Scope Z_scope.

Section Counts.
  Variable V : Type.
  Variable dv : V.

  Definition has_len (n : nat) (k : list Z) : bool := Nat.eqb (length k) n.

  Lemma preorder_longer : forall (f : forest V) prefix kv, In kv (preorder V prefix f) -> (length prefix < length (fst kv))%nat.
  Proof.
    induction f as [|w v c IHc s IHs]; intros prefix kv Hin; [destruct Hin|].
    cbn [preorder In] in Hin. destruct Hin as [<-|Hin].
    - cbn [fst]. rewrite app_length. cbn [length]. lia.
    - apply in_app_or in Hin. destruct Hin as [Hin|Hin].
      + specialize (IHc _ _ Hin). rewrite app_length in IHc. cbn [length] in IHc. lia.
      + exact (IHs _ _ Hin).
  Qed.

  Lemma filter_none : forall (A : Type) (p : A -> bool) l, (forall x, In x l -> p x = false) -> filter p l = [].
  Proof.
    intros A p. induction l as [|x r IH]; intros H; [reflexivity|]. cbn [filter]. rewrite (H x (or_introl eq_refl)).
    apply IH. intros y Hy. apply H. right. exact Hy.
  Qed.

  (* the nodes of relative depth j are the pre-order keys of length |prefix| + j + 1 *)
  Lemma lev_count : forall (f : forest V) j prefix,
    length (lev V j f) = length (filter (has_len (length prefix + S j)) (map fst (preorder V prefix f))).
  Proof.
    induction f as [|w v c IHc s IHs]; intros j prefix; [reflexivity|].
    cbn [lev preorder map fst]. rewrite map_app.
    change ((prefix ++ [w]) :: map fst (preorder V (prefix ++ [w]) c) ++ map fst (preorder V prefix s))
      with ([prefix ++ [w]] ++ map fst (preorder V (prefix ++ [w]) c) ++ map fst (preorder V prefix s)).
    rewrite !filter_app, !app_length.
    rewrite <- (IHs j prefix).
    cbn [filter]. unfold has_len at 1. rewrite app_length. cbn [length].
    destruct j as [|j'].
    - replace (Nat.eqb (length prefix + 1) (length prefix + 1)) with true by (symmetry; apply Nat.eqb_refl).
      rewrite filter_none; [cbn [length plus]; reflexivity|].
      intros k Hk. apply in_map_iff in Hk. destruct Hk as [kv [<- Hin]]. apply preorder_longer in Hin.
      rewrite app_length in Hin. cbn [length] in Hin. unfold has_len. apply Nat.eqb_neq. lia.
    - replace (Nat.eqb (length prefix + 1) (length prefix + S (S j'))) with false by (symmetry; apply Nat.eqb_neq; lia).
      pose proof (IHc j' (prefix ++ [w])) as E. rewrite app_length in E. cbn [length] in E.
      replace (length prefix + 1 + S j')%nat with (length prefix + S (S j'))%nat in E by lia.
      cbn [length plus]. f_equal. exact E.
  Qed.

  Lemma lookup_nil : forall (f : forest V), lookup V f [] = None.
  Proof. destruct f; reflexivity. Qed.

  (* in a forest with strictly sorted sibling chains: the pre-order keys under `prefix` are prefix ++ k for the k that lookup finds *)
  Lemma preorder_keys_lookup : forall (f : forest V) prefix lb k, sorted_from V lb f ->
    (In k (map fst (preorder V prefix f)) <-> exists k', k = prefix ++ k' /\ lookup V f k' <> None).
  Proof.
    induction f as [|w v c IHc s IHs]; intros prefix lb k Hs.
    - split; [intros []|]. intros [k' [_ H]]. destruct k'; cbn in H; congruence.
    - cbn [sorted_from] in Hs. destruct Hs as [Hlb [Sc Ss]].
      cbn [preorder map fst]. rewrite map_app. split.
      + intros [<-|Hin].
        * exists [w]. split; [reflexivity|]. cbn [lookup find_sib]. rewrite Z.eqb_refl. discriminate.
        * apply in_app_or in Hin. destruct Hin as [Hin|Hin].
          -- apply (IHc (prefix ++ [w]) (-1) k Sc) in Hin. destruct Hin as [k' [-> Hl]].
             exists (w :: k'). split; [rewrite <- app_assoc; reflexivity|].
             cbn [lookup find_sib]. rewrite Z.eqb_refl. destruct k' as [|x k'']; [rewrite lookup_nil in Hl; congruence|exact Hl].
          -- apply (IHs prefix w k Ss) in Hin. destruct Hin as [k' [-> Hl]].
             exists k'. split; [reflexivity|].
             destruct k' as [|x ws]; [rewrite lookup_nil in Hl; congruence|].
             cbn [lookup find_sib] in *. destruct (Z.eqb_spec w x) as [E|Hne]; [|exact Hl].
             exfalso. subst x. rewrite (find_sib_below V s w w Ss ltac:(lia)) in Hl. congruence.
      + intros [k' [-> Hl]]. destruct k' as [|x ws]; [rewrite lookup_nil in Hl; congruence|].
        cbn [lookup find_sib] in Hl. destruct (Z.eqb_spec w x) as [E|Hne].
        * subst x. destruct ws as [|y ws'].
          -- left. reflexivity.
          -- right. apply in_or_app. left. apply (IHc (prefix ++ [w]) (-1) _ Sc). exists (y :: ws'). split; [rewrite <- app_assoc; reflexivity|exact Hl].
        * right. apply in_or_app. right. apply (IHs prefix w _ Ss). exists (x :: ws). split; [reflexivity|exact Hl].
  Qed.

  Lemma klt_irrefl : forall a, ~ klt a a.
  Proof. induction a as [|x a IH]; cbn [klt]; [tauto|]. intros [H|[_ H]]; [lia|exact (IH H)]. Qed.

  Lemma sorted_klt_nodup : forall l, StronglySorted klt l -> NoDup l.
  Proof.
    intros l H. induction H as [|x r Hr IH Hx]; constructor; [|exact IH].
    intros Hin. rewrite Forall_forall in Hx. exact (klt_irrefl x (Hx x Hin)).
  Qed.

  Lemma filter_perm_len : forall (A : Type) (p : A -> bool) l l', Permutation l l' -> length (filter p l) = length (filter p l').
  Proof.
    intros A p l l' H. induction H as [|y l l' H IH|y z l|l l' l'' H1 IH1 H2 IH2]; cbn [filter].
    - reflexivity.
    - destruct (p y); cbn [length]; lia.
    - destruct (p y), (p z); reflexivity.
    - lia.
  Qed.

  (* the pre-order keys of the forest of a table are the table's keys, each exactly once *)
  Theorem preorder_keys_are_table_keys : forall t, table_ok V t ->
    Permutation (map fst (preorder V [] (of_table V dv t))) (map fst t).
  Proof.
    intros t Hok. destruct (lookup_of_table V dv t Hok) as [Hs Hl].
    apply NoDup_Permutation.
    - apply sorted_klt_nodup. exact (preorder_sorted V _ [] (-1) Hs).
    - destruct Hok as [Hnd _]. exact Hnd.
    - intros k. rewrite (preorder_keys_lookup _ [] (-1) k Hs). split.
      + intros [k' [-> Hk']]. cbn [app]. destruct k' as [|x ws]; [rewrite lookup_nil in Hk'; congruence|].
        apply (assoc_in V). rewrite <- (Hl (x :: ws)) by discriminate. unfold lookupv.
        destruct (lookup V (of_table V dv t) (x :: ws)); [discriminate|congruence].
      + intros Hin. exists k. split; [reflexivity|]. destruct Hok as [_ [Hkeys _]]. destruct (Hkeys k Hin) as [Hne _].
        apply (assoc_in V) in Hin. rewrite <- (Hl k Hne) in Hin. unfold lookupv in Hin.
        destruct (lookup V (of_table V dv t) k); [discriminate|exfalso; apply Hin; reflexivity].
  Qed.

  (* array j (0-based) of the trie of a table has one record per key of length j + 1 *)
  Theorem level_count : forall t j, table_ok V t ->
    length (lev V j (of_table V dv t)) = length (filter (has_len (S j)) (map fst t)).
  Proof.
    intros t j Hok. rewrite (lev_count _ j []). cbn [length plus].
    apply filter_perm_len. apply preorder_keys_are_table_keys. exact Hok.
  Qed.
End Counts.
