(* C04/TrieParseEnd.v -- the arrays the loader slices out of the file's search region are the arrays the builder laid out, for every table
   with the loaders' invariant: parse_trie (counts of the header) (trie_image ...) = trie_mem ..., hence the table decoded from the LOADED
   memory (file_table) is the table decoded from the built memory (mem_table of C03/TrieEndToEnd.v), about which C01 / C02 / C08 speak. *)
From Coq Require Import ZArith Lia Bool List Arith.
From Kenlm Require Import Base.Mem LM.Defs LM.QueryProofs C20.ArrayModel C03.TrieLayout C03.TrieLayoutProofs C03.TrieMem C03.TrieMemProofs C03.TrieTableProofs
                          C03.TrieWalkProofs C03.TrieBuiltOk C03.TrieTableEnd C03.TrieImage C03.TrieDecode C03.TrieEndToEnd C03.ProbingImage
                          C04.FileImage C04.TrieSize C04.TrieSizeProofs C04.TrieCounts C04.TrieSizeEnd C04.TrieParse C04.TrieParseProofs.
Import ListNotations.
Local Open Scope Z_scope.

Lemma dense_recs : forall (f : forest pb) i base k, dense_from pb i f -> (k < length (chain pb f))%nat ->
  r_word _ (nth k (recs_of pb base (chain pb f)) dflt) = i + Z.of_nat k.
Proof.
  induction f as [|w v c _ s IHs]; intros i base k H Hk; [cbn in Hk; lia|].
  cbn [dense_from] in H. destruct H as [-> Hs]. cbn [chain recs_of]. destruct k as [|k']; cbn [nth].
  - cbn [r_word fst]. lia.
  - cbn [chain length] in Hk. rewrite (IHs (i + 1) _ k' Hs ltac:(lia)). lia.
Qed.

(* the table decoded from the memory the loader sets up over the bytes `search` of a file whose header carries `counts` *)
Definition file_table (array : bool) (cfg : Z) (n : nat) (V : Z) (counts : list Z) (search : list Z) : table :=
  fun k =>
    if forallb (fun w => Z.of_N w <? V) k then
      match k with
      | [] => None
      | _ :: _ =>
          match twalk array (parse_trie array cfg counts search) (zkey k) with
          | Some (Some r) => Some (entry_of_lookup (Nat.eqb (length k) n) r)
          | _ => None
          end
      end
    else None.

Section ParseEnd.
  Variable array : bool.
  Variable cfg : Z.
  Variable n : nat.
  Variable V : Z.
  Variable t : atable.
  Variable pz : list key.
  Variable M : arpa.
  Let T := alookup t.
  Hypothesis Hn : (2 <= n)%nat.
  Hypothesis HV : 0 <= V < 2 ^ 32.
  Hypothesis Hcfg : 0 <= cfg.
  Hypothesis Inv : TInv n T M.
  Hypothesis Hnodup : NoDup (map fst t).
  Hypothesis Hdense : forall w, T [w] <> None <-> Z.of_N w < V.
  Hypothesis Hrange : forall k e, T k = Some e -> - 2 ^ 24 < e_prob e < 2 ^ 24 /\ - 2 ^ 24 < e_bo e < 2 ^ 24.
  Hypothesis Hsize : Z.of_nat (n * length t) < 2 ^ 57.

  Theorem parse_image : forall rest,
    parse_trie array cfg (trie_counts n t) (trie_image array cfg n t pz ++ rest) = trie_mem array cfg n t pz.
  Proof.
    intros rest.
    assert (Hch : table_ok pb (conv pz t) /\ (forall w, In [w] (map fst (conv pz t)) <-> 0 <= w < V) /\
      Forall (fun kv => Forall (fun w => 0 <= w <= V) (fst kv) /\ pv_ok (snd kv) /\ (length (fst kv) <= n)%nat) (conv pz t) /\
      Z.of_nat (key_words (conv pz t)) < 2 ^ 57) by (eapply conv_hyps; eassumption).
    destruct Hch as [H1 [H2 [H3 H4]]].
    destruct (built_levels_of_table n V (conv pz t) Hn HV H1 H2 H3 H4) as [HL [Elen Emap]].
    assert (Ecounts : map (fun l : list (rec pb) => Z.of_nat (length l)) (trie_levels n t pz) = trie_counts n t)
      by (eapply trie_levels_counts; eassumption).
    rewrite <- Ecounts. unfold trie_image, trie_mem.
    apply (parse_trie_ok array cfg (trie_levels n t pz) V rest Hcfg).
    - change (trie_levels n t pz) with (built pb n (of_table pb (0, 0) (conv pz t))). rewrite Elen. exact Hn.
    - exact HL.
    - (* unigram records are addressed by word id *)
      change (trie_levels n t pz) with (built pb n (of_table pb (0, 0) (conv pz t))).
      destruct (of_table_dense pb (0, 0) (conv pz t) V H1 H2) as [Hd _].
      destruct (of_table_facts V n (conv pz t) FNil H3 I ltac:(cbn; lia)) as [_ [Hdep _]].
      fold (of_table pb (0, 0) (conv pz t)) in Hdep.
      rewrite (Lj n _ Hdep 0), lev_0.
      intros i Hi. rewrite recs_of_length in Hi. rewrite (dense_recs _ 0 0 i Hd Hi). lia.
  Qed.

  (* the table the loaded memory answers with is the table the built memory answers with *)
  Theorem file_table_is_mem_table : forall rest k,
    file_table array cfg n V (trie_counts n t) (trie_image array cfg n t pz ++ rest) k = mem_table array cfg n V t pz k.
  Proof. intros rest k. unfold file_table, mem_table. rewrite parse_image. reflexivity. Qed.
End ParseEnd.
