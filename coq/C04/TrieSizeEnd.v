(* C04/TrieSizeEnd.v -- Size()/SetupMemory agreement for the trie files of the model: the search structure laid out from a table that
   satisfies the loaders' invariant occupies exactly TrieSearch::Size(counts) bytes, for the counts FinishFile writes into the header
   (trie_counts: the number of the table's entries of every order), and the SortedVocabulary region SortedVocabulary::Size(counts[0]). *)
From Coq Require Import ZArith Lia Bool List Arith.
From Kenlm Require Import Base.Mem LM.Defs LM.QueryProofs C20.ArrayModel C03.BhikshaModel C03.TrieLayout C03.TrieLayoutProofs C03.TrieMem C03.TrieTableProofs
                          C03.TrieWalkProofs C03.TrieBuiltOk C03.TrieTableEnd C03.TrieImage C03.TrieEndToEnd C03.ProbingImage
                          C04.FileImage C04.TrieSize C04.TrieSizeProofs C04.TrieCounts.
Import ListNotations.
Local Open Scope Z_scope.

Lemma map_nth_seq : forall (A B : Type) (f : A -> B) (d : A) (L : list A), map f L = map (fun i => f (nth i L d)) (seq 0 (length L)).
Proof.
  intros A B f d. induction L as [|x r IH]; [reflexivity|]. cbn [map length seq nth]. f_equal.
  rewrite <- seq_shift, map_map. exact IH.
Qed.

Lemma filter_map_len : forall (A B : Type) (p : B -> bool) (f : A -> B) l, length (filter p (map f l)) = length (filter (fun x => p (f x)) l).
Proof. intros A B p f. induction l as [|x r IH]; [reflexivity|]. cbn [map filter]. destruct (p (f x)); cbn [length]; rewrite IH; reflexivity. Qed.

(* on tables of (word list, payload): the level lists have one record per key of that length *)
Lemma built_levels_of_table : forall n V (t : list (list Z * pb)),
  (2 <= n)%nat -> 0 <= V < 2 ^ 32 ->
  table_ok pb t -> (forall w, In [w] (map fst t) <-> 0 <= w < V) ->
  Forall (fun kv => Forall (fun w => 0 <= w <= V) (fst kv) /\ pv_ok (snd kv) /\ (length (fst kv) <= n)%nat) t ->
  Z.of_nat (key_words t) < 2 ^ 57 ->
  let L := built pb n (of_table pb (0, 0) t) in
  Lok V L /\ length L = n /\
  map (fun l : list (rec pb) => Z.of_nat (length l)) L = map (fun j => Z.of_nat (length (filter (has_len j) (map fst t)))) (seq 1 n).
Proof.
  intros n V t Hn HV Hok Huni Hall Hsize L.
  destruct (lookup_of_table pb (0, 0) t Hok) as [Hs Hl].
  destruct (of_table_dense pb (0, 0) t V Hok Huni) as [Hd Hlen].
  rewrite Z.max_r in Hlen by lia.
  destruct (of_table_facts V n t FNil Hall I ltac:(cbn; lia)) as [Hv [Hdep Hsz]]. cbn [fsize] in Hsz.
  fold (of_table pb (0, 0) t) in Hv, Hdep, Hsz.
  set (F := of_table pb (0, 0) t) in *.
  assert (Hsz57 : forall j, Z.of_nat (length (lev pb j F)) < 2 ^ 57) by (intros j; pose proof (lev_size F j); lia).
  pose proof (built_Lok n F V Hdep ltac:(apply sorted_from_is_fsorted; exact Hs) Hv HV Hsz57) as HL.
  pose proof (L_length n F Hdep) as Elen.
  split; [exact HL|]. split; [exact Elen|].
  unfold L. rewrite (map_nth_seq _ _ (fun l : list (rec pb) => Z.of_nat (length l)) [] (built pb n F)). rewrite Elen.
  rewrite <- seq_shift, map_map. apply map_ext. intros j.
  rewrite (Lj_len n F Hdep j). unfold F. rewrite (level_count pb (0, 0) t j Hok). reflexivity.
Qed.

Theorem trie_bytes_size_of_table : forall (array : bool) cfg n V (t : list (list Z * pb)),
  (2 <= n)%nat -> 0 <= V < 2 ^ 32 -> 0 <= cfg ->
  table_ok pb t -> (forall w, In [w] (map fst t) <-> 0 <= w < V) ->
  Forall (fun kv => Forall (fun w => 0 <= w <= V) (fst kv) /\ pv_ok (snd kv) /\ (length (fst kv) <= n)%nat) t ->
  Z.of_nat (key_words t) < 2 ^ 57 ->
  Z.of_nat (length (trie_bytes array cfg (mk_trie array cfg (built pb n (of_table pb (0, 0) t))))) =
  trie_size array cfg (map (fun j => Z.of_nat (length (filter (has_len j) (map fst t)))) (seq 1 n)).
Proof.
  intros array cfg n V t Hn HV Hcfg Hok Huni Hall Hsize.
  destruct (built_levels_of_table n V t Hn HV Hok Huni Hall Hsize) as [HL [Elen Emap]].
  assert (H2 : (2 <= length (built pb n (of_table pb (0%Z, 0%Z) t)))%nat) by (rewrite Elen; exact Hn).
  rewrite (trie_bytes_size array cfg _ V Hcfg H2 HL). rewrite Emap. reflexivity.
Qed.

(* on the tables of the language-model development *)
Section SizeEnd.
  Variable array : bool.
  Variable cfg : Z.
  Variable n : nat.
  Variable V : Z.
  Variable t : atable.
  Variable pz : list key.
  Variable M : arpa.
  Let T := alookup t.
  Hypothesis Hn : (2 <= n)%nat.
  Hypothesis HV : 0 <= V < 2 ^ 32.
  Hypothesis Hcfg : 0 <= cfg.
  Hypothesis Inv : TInv n T M.
  Hypothesis Hnodup : NoDup (map fst t).
  Hypothesis Hdense : forall w, T [w] <> None <-> Z.of_N w < V.
  Hypothesis Hrange : forall k e, T k = Some e -> - 2 ^ 24 < e_prob e < 2 ^ 24 /\ - 2 ^ 24 < e_bo e < 2 ^ 24.
  Hypothesis Hsize : Z.of_nat (n * length t) < 2 ^ 57.

  Lemma counts_conv : forall j, length (filter (has_len j) (map fst (conv pz t))) = length (order_entries t j).
  Proof.
    intros j. rewrite conv_keys, map_map, filter_map_len. unfold order_entries. f_equal.
    apply filter_ext. intros ke. unfold has_len, zkey. rewrite map_length. reflexivity.
  Qed.

  Lemma conv_hyps : table_ok pb (conv pz t) /\ (forall w, In [w] (map fst (conv pz t)) <-> 0 <= w < V) /\
    Forall (fun kv => Forall (fun w => 0 <= w <= V) (fst kv) /\ pv_ok (snd kv) /\ (length (fst kv) <= n)%nat) (conv pz t) /\
    Z.of_nat (key_words (conv pz t)) < 2 ^ 57.
  Proof.
    assert (H1 : table_ok pb (conv pz t)) by (eapply conv_table_ok; eassumption).
    assert (H2 : forall w, In [w] (map fst (conv pz t)) <-> 0 <= w < V) by (eapply conv_dense; eassumption).
    assert (H3 : Forall (fun kv => Forall (fun w => 0 <= w <= V) (fst kv) /\ pv_ok (snd kv) /\ (length (fst kv) <= n)%nat) (conv pz t))
      by (eapply conv_bounds; eassumption).
    assert (H4 : (key_words (conv pz t) <= n * length t)%nat) by (eapply key_words_conv; eassumption).
    split; [exact H1|]. split; [exact H2|]. split; [exact H3|]. lia.
  Qed.

  (* the level lists of the model's trie: n levels, level j - 1 with as many records as the header's count of order j *)
  Lemma trie_levels_counts : length (trie_levels n t pz) = n /\
    map (fun l : list (rec pb) => Z.of_nat (length l)) (trie_levels n t pz) = trie_counts n t.
  Proof.
    destruct conv_hyps as [H1 [H2 [H3 H4]]].
    destruct (built_levels_of_table n V (conv pz t) Hn HV H1 H2 H3 H4) as [_ [Elen Emap]].
    split; [exact Elen|].
    change (trie_levels n t pz) with (built pb n (of_table pb (0, 0) (conv pz t))). rewrite Emap.
    unfold trie_counts. apply map_ext. intros j. rewrite counts_conv. reflexivity.
  Qed.

  Theorem trie_image_size : Z.of_nat (length (trie_image array cfg n t pz)) = trie_size array cfg (trie_counts n t).
  Proof.
    unfold trie_image. rewrite trie_mem_conv.
    assert (H1 : table_ok pb (conv pz t)) by (eapply conv_table_ok; eassumption).
    assert (H2 : forall w, In [w] (map fst (conv pz t)) <-> 0 <= w < V) by (eapply conv_dense; eassumption).
    assert (H3 : Forall (fun kv => Forall (fun w => 0 <= w <= V) (fst kv) /\ pv_ok (snd kv) /\ (length (fst kv) <= n)%nat) (conv pz t))
      by (eapply conv_bounds; eassumption).
    assert (H4 : (key_words (conv pz t) <= n * length t)%nat) by (eapply key_words_conv; eassumption).
    rewrite (trie_bytes_size_of_table array cfg n V (conv pz t) Hn HV Hcfg H1 H2 H3 ltac:(lia)).
    unfold trie_counts. f_equal. apply map_ext. intros j. rewrite counts_conv. reflexivity.
  Qed.

End SizeEnd.

  (* the SortedVocabulary region: Size(counts[0]) when the table's unigrams are <unk> and the words *)
  Theorem sorted_vocab_region_size : forall n (t : atable) words, (1 <= n)%nat -> S (length words) = length (order_entries t 1) ->
    Z.of_nat (length (sorted_vocab_bytes words)) = sorted_vocab_size (nth 0 (trie_counts n t) 0).
  Proof.
    intros n t words Hn Hw. unfold sorted_vocab_bytes, sorted_vocab_size, trie_counts.
    rewrite !app_length, !bytes_of_Z_len, (flat_map_fixed_len _ _ 8%nat) by (intros; apply bytes_of_Z_len).
    assert (Hperm : length (sort_z (map hash_for_vocab words)) = length words).
    { clear. generalize (map_length hash_for_vocab words). generalize (map hash_for_vocab words). intros l <-.
      unfold sort_z. induction l as [|x r IH]; [reflexivity|]. cbn [fold_right length].
      assert (G : forall x l, length (insert_sorted x l) = S (length l)).
      { clear. intros x. induction l as [|y r IH]; [reflexivity|]. cbn [insert_sorted]. destruct (x <=? y); cbn [length]; [reflexivity|rewrite IH; reflexivity]. }
      rewrite G, IH. reflexivity. }
    rewrite Hperm. destruct n as [|n']; [lia|]. cbn [seq map nth]. rewrite <- Hw. lia.
  Qed.
