(* C04/VocabModel.v -- executable model of the vocabulary lookups of lm/vocab.cc (no proofs here):
     SortedVocabulary::Index   BoundedSortedUniformFind<Pivot64> over the sorted MurmurHash64A hashes, between the sentinels
                               (begin_ - 1, 0) and (end_, 2^64 - 1); found at position p  =>  id p + 1, else 0 (<unk>)
     ProbingVocabulary::Index  Find in the DivMod probing table {hash; id}; ids are handed out 1, 2, ... in insertion order
                               (the unigram section's order, <unk> apart), else 0
   The float expression of Pivot64::Calc is a parameter f (as in C20/SearchModel.v); the extracted model runs with the midpoint. *)
From Coq Require Import ZArith List Bool Arith.
From Kenlm Require Import Base.Mem C20.SearchModel C20.ProbingModel C03.ProbingImage C04.FileImage.
Import ListNotations.
Local Open Scope Z_scope.

Definition hs_at (hs : list Z) (i : Z) : Z := nth (Z.to_nat i) hs 0.

Definition sorted_index (f : Z -> Z -> Z -> Z) (hs : list Z) (key : Z) : option Z :=
  match bounded_find (hs_at hs) (Pivot64_Calc f) (S (S (length hs))) (-1) 0 (Z.of_nat (length hs)) (2 ^ 64 - 1) key with
  | Some (Some p) => Some (p + 1)
  | Some None => Some 0
  | None => None
  end.

Definition mid_pivot (off range width : Z) : Z := width / 2.

(* words: the spellings handed to Insert (every word of the unigram section but <unk>); queries: the spellings looked up *)
Definition sorted_vocab_ids (f : Z -> Z -> Z -> Z) (words queries : list (list Z)) : list (option Z) :=
  let hs := sort_z (map hash_for_vocab words) in
  map (fun q => sorted_index f hs (hash_for_vocab q)) queries.

Definition vocab_entries (words : list (list Z)) : list (Z * Z) :=
  combine (map hash_for_vocab words) (map Z.of_nat (seq 1 (length words))).

Definition probing_index (buckets : nat) (t : table) (key : Z) : option Z :=
  match find buckets (ideal_of DivMod buckets) (next_of DivMod buckets) t key with
  | Ok (Some v) => Some v
  | Ok None => Some 0
  | _ => None
  end.

Definition probing_vocab_ids (buckets : nat) (words queries : list (list Z)) : option (list (option Z)) :=
  match table_of buckets (vocab_entries words) with
  | Ok t => Some (map (fun q => probing_index buckets t (hash_for_vocab q)) queries)
  | _ => None
  end.
