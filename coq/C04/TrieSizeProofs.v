(* C04/TrieSizeProofs.v -- "Size()/SetupMemory agreement": the number of bytes the search structure of a trie / array-trie model
   occupies (C03/TrieMem.v trie_bytes of the memory built from ANY level lists whose next pointers are in order) is exactly what
   TrieSearch::Size computes from the level sizes alone (C04/TrieSize.v) -- the sizes the loader derives from the header's counts before
   reading the structure.  For ArrayBhiksha this includes the length of the offset table (ArrayCount) and the independence of the
   region's size from its alignment padding; the configured bits are read back from the place UpdateConfigFromBinary looks at. *)
From Coq Require Import ZArith Lia Bool List Arith.
From Kenlm Require Import Base.Mem C20.ArrayModel C20.MiddleAProofs C03.BhikshaModel C03.BhikshaProofs C03.TrieLayout C03.TrieMem C03.TrieMemProofs
                          C03.TrieWalkProofs C04.TrieSize.
Import ListNotations.
Local Open Scope Z_scope.

Lemma bytes_of_Z_len : forall n v, length (bytes_of_Z n v) = n.
Proof. induction n as [|n IH]; intros v; cbn [bytes_of_Z length]; [reflexivity|]. rewrite IH. reflexivity. Qed.

Lemma flat_map_fixed_len : forall (A : Type) (f : A -> list Z) k l, (forall x, length (f x) = k) -> length (flat_map f l) = (k * length l)%nat.
Proof. intros A f k l H. induction l as [|x r IH]; cbn [flat_map length]; [lia|]. rewrite app_length, H, IH. lia. Qed.

Lemma uni_bytes_len : forall t, Z.of_nat (length (uni_bytes t)) = unigram_size (Z.of_nat (length (tm_uni t))).
Proof.
  intros t. unfold uni_bytes, unigram_size, le_bytes. rewrite !app_length, !bytes_of_Z_len.
  rewrite (flat_map_fixed_len _ _ 16%nat) by (intros r; rewrite !app_length, !bytes_of_Z_len; reflexivity). unfold pb. lia.
Qed.

Lemma bitpacked_base_size_nonneg : forall e v r, 0 <= e -> 0 <= r -> 0 <= bitpacked_base_size e v r.
Proof.
  intros e v r He Hr. unfold bitpacked_base_size. pose proof (bits_needed_nonneg v).
  assert (0 <= ((1 + e) * (bits_needed v + r) + 7) / 8) by (apply Z.div_pos; nia). lia.
Qed.

(* ---- the offset table of ArrayBhiksha has ArrayCount slots ---- *)
Lemma tmidA_offs : forall m recs next_end,
  snd (tmidA_finish m (tmidA_inserts m (0, []) 0 recs) (Z.of_nat (length recs)) next_end) =
  fst (bhiksha_write (t_nb m) (map (r_next pb) recs ++ [next_end])).
Proof.
  intros m recs next_end. rewrite tmidA_inserts_split. unfold tmidA_finish. cbn [snd].
  unfold bhiksha_write.
  pose proof (waf_offs (map (r_next pb) recs ++ [next_end]) (t_nb m) [] [] 0) as Hw.
  destruct (write_all_from (t_nb m) ([], []) 0 (map (r_next pb) recs ++ [next_end])) as [o i]. cbn [fst] in *. subst o.
  rewrite offs_run_app. rewrite map_length. rewrite Z.add_0_l. rewrite offs_run_one. reflexivity.
Qed.

Lemma last_enc_app1 : forall b l e, last_enc b (l ++ [e]) = Z.shiftr e b.
Proof. intros b l e. unfold last_enc. rewrite rev_app_distr. reflexivity. Qed.

Lemma mk_mid_offs_len : forall cfg vocab (l : list (rec pb)) max_next, 0 <= cfg -> 0 <= max_next < 2 ^ 57 -> nx_ok l max_next ->
  Z.of_nat (length (mm_offs (mk_mid true cfg vocab l max_next))) = array_count (Z.of_nat (length l) + 1) max_next cfg.
Proof.
  intros cfg vocab l max_next Hc Hm Hnx. unfold mk_mid. cbn [mm_offs].
  rewrite tmidA_offs. cbn [t_nb].
  destruct (nx_ok_sorted l max_next ltac:(lia) Hnx) as [Hs Hn].
  set (b := inline_bits (Z.of_nat (length l) + 1) max_next cfg).
  assert (Hb : 0 <= b) by (pose proof (inline_bits_range (Z.of_nat (length l) + 1) max_next cfg Hc Hm); unfold b; lia).
  rewrite (write_spec b Hb _ Hs Hn). cbn [fst]. rewrite map_length, seq_length. rewrite last_enc_app1.
  unfold array_count. fold b. assert (0 <= Z.shiftr max_next b) by (apply Z.shiftr_nonneg; lia). lia.
Qed.

Lemma bhiksha_bytes_len : forall off cfg offs, Z.of_nat (length (bhiksha_bytes off cfg offs)) = 8 * (1 + Z.of_nat (length offs)) + 7.
Proof.
  intros off cfg offs. unfold bhiksha_bytes.
  set (pad := (8 - off mod 8) mod 8). assert (Hp : 0 <= pad < 8) by (unfold pad; apply Z.mod_pos_bound; lia).
  rewrite !app_length, !repeat_length. cbn [length].
  rewrite (flat_map_fixed_len _ _ 8%nat) by (intros; apply bytes_of_Z_len). lia.
Qed.

Lemma mk_mid_count : forall array cfg vocab l max_next, mm_count (mk_mid array cfg vocab l max_next) = length l.
Proof. intros. unfold mk_mid. destruct array; reflexivity. Qed.
Lemma mk_mid_nb : forall array cfg vocab (l : list (rec pb)) max_next,
  t_nb (mm_par (mk_mid array cfg vocab l max_next)) = next_bits array (Z.of_nat (length l)) max_next cfg.
Proof. intros. unfold mk_mid, next_bits. destruct array; reflexivity. Qed.
Lemma mk_mid_vocab : forall array cfg vocab l max_next, t_max_vocab (mm_par (mk_mid array cfg vocab l max_next)) = vocab.
Proof. intros. unfold mk_mid. destruct array; reflexivity. Qed.

Lemma next_bits_nonneg : forall array e mp cfg, 0 <= cfg -> 0 <= mp < 2 ^ 57 -> 0 <= next_bits array e mp cfg.
Proof.
  intros array e mp cfg Hc Hm. unfold next_bits. destruct array; [pose proof (inline_bits_range (e + 1) mp cfg Hc Hm); lia|apply bits_needed_nonneg].
Qed.

(* the bytes of one middle array: independent of the offset (alignment padding) it is written at *)
Lemma mid_bytes_len : forall (array : bool) cfg off vocab (l : list (rec pb)) max_next,
  0 <= cfg -> 0 <= max_next < 2 ^ 57 -> (array = true -> nx_ok l max_next) ->
  Z.of_nat (length (mid_bytes array cfg off (mk_mid array cfg vocab l max_next))) = middle_size array cfg (Z.of_nat (length l)) vocab max_next.
Proof.
  intros array cfg off vocab l max_next Hc Hm Hnx. unfold mid_bytes, middle_size.
  rewrite app_length, bytes_of_Z_len, mk_mid_count, mk_mid_nb, mk_mid_vocab.
  pose proof (next_bits_nonneg array (Z.of_nat (length l)) max_next cfg Hc Hm) as Hnb.
  pose proof (bitpacked_base_size_nonneg (Z.of_nat (length l)) vocab (63 + next_bits array (Z.of_nat (length l)) max_next cfg) ltac:(lia) ltac:(lia)) as Hb.
  rewrite Nat2Z.inj_add, Z2Nat.id by exact Hb. f_equal.
  unfold bhiksha_size. destruct array; [|reflexivity].
  rewrite bhiksha_bytes_len, (mk_mid_offs_len cfg vocab l max_next Hc Hm (Hnx eq_refl)). reflexivity.
Qed.

(* the levels below the unigrams: every level's next pointers are in order (what Lok provides) *)
Fixpoint levels_nx (ls : list (list (rec pb))) : Prop :=
  match ls with
  | l :: ((l' :: _) as rest) => Z.of_nat (length l') < 2 ^ 57 /\ nx_ok l (Z.of_nat (length l')) /\ levels_nx rest
  | _ => True
  end.

Lemma mids_bytes_len : forall (array : bool) cfg vocab ls off, 0 <= cfg -> levels_nx ls ->
  Z.of_nat (length (mids_bytes array cfg off (mk_mids array cfg vocab ls))) = middles_size array cfg vocab (map (fun l => Z.of_nat (length l)) ls).
Proof.
  intros array cfg vocab. induction ls as [|l rest IH]; intros off Hc Hnx; [reflexivity|].
  destruct rest as [|l' rest']; [reflexivity|].
  change (mk_mids array cfg vocab (l :: l' :: rest')) with (mk_mid array cfg vocab l (Z.of_nat (length l')) :: mk_mids array cfg vocab (l' :: rest')).
  cbn [mids_bytes]. rewrite app_length, Nat2Z.inj_add.
  destruct Hnx as [H57 [Hn Hrest]].
  rewrite (mid_bytes_len array cfg off vocab l (Z.of_nat (length l')) Hc ltac:(lia) (fun _ => Hn)).
  rewrite (IH _ Hc Hrest).
  change (map (fun l0 : list (rec pb) => Z.of_nat (length l0)) (l :: l' :: rest'))
    with (Z.of_nat (length l) :: Z.of_nat (length l') :: map (fun l0 : list (rec pb) => Z.of_nat (length l0)) rest').
  reflexivity.
Qed.

Lemma Lok_levels_nx : forall vocab ls, Lok vocab ls -> levels_nx ls.
Proof.
  intros vocab. induction ls as [|l rest IH]; intros H; [exact I|].
  destruct rest as [|l' rest']; [exact I|].
  cbn [Lok] in H. destruct H as [_ [[H57 Hr] Hrest]].
  change (levels_nx (l :: l' :: rest')) with (Z.of_nat (length l') < 2 ^ 57 /\ nx_ok l (Z.of_nat (length l')) /\ levels_nx (l' :: rest')).
  split; [exact H57|]. split; [apply Lok_nx_ok; exact Hr|apply IH; exact Hrest].
Qed.

Lemma last_map : forall (A B : Type) (f : A -> B) (l : list A) d, l <> [] -> last (map f l) (f d) = f (last l d).
Proof.
  intros A B f. induction l as [|x r IH]; intros d H; [congruence|]. destruct r as [|y r']; [reflexivity|].
  change (last (map f (x :: y :: r')) (f d)) with (last (map f (y :: r')) (f d)). rewrite IH by discriminate. reflexivity.
Qed.

(* ---- the whole search structure ---- *)
Theorem trie_bytes_size : forall (array : bool) cfg (ls : levels pb) vocab,
  0 <= cfg -> (2 <= length ls)%nat -> Lok vocab ls ->
  Z.of_nat (length (trie_bytes array cfg (mk_trie array cfg ls))) = trie_size array cfg (map (fun l => Z.of_nat (length l)) ls).
Proof.
  intros array cfg ls vocab Hc Hl HL.
  destruct ls as [|l0 rest]; [cbn in Hl; lia|]. destruct rest as [|l1 rest]; [cbn in Hl; lia|].
  unfold trie_bytes. rewrite !app_length, !Nat2Z.inj_add, bytes_of_Z_len.
  rewrite uni_bytes_len.
  unfold mk_trie. cbn [tm_uni tm_mids tm_long_count tm_long_par l_max_vocab nth tl].
  assert (HLr : Lok vocab (l1 :: rest)) by (cbn [Lok] in HL; destruct HL as [_ [_ H]]; exact H).
  rewrite (mids_bytes_len array cfg (Z.of_nat (length l0)) (l1 :: rest) _ Hc (Lok_levels_nx vocab _ HLr)).
  rewrite Z2Nat.id by (apply bitpacked_base_size_nonneg; lia).
  unfold trie_size. cbn [map nth tl]. unfold longest_size.
  change (Z.of_nat (length l0) :: Z.of_nat (length l1) :: map (fun l => Z.of_nat (length l)) rest)
    with (map (fun l : list (rec pb) => Z.of_nat (length l)) (l0 :: l1 :: rest)).
  assert (E : last (map (fun l : list (rec pb) => Z.of_nat (length l)) (l0 :: l1 :: rest)) 0 = Z.of_nat (length (last (l0 :: l1 :: rest) []))).
  { exact (last_map _ _ (fun l : list (rec pb) => Z.of_nat (length l)) (l0 :: l1 :: rest) [] ltac:(discriminate)). }
  rewrite E. lia.
Qed.

(* UpdateConfigFromBinary finds {version 0; configured bits & 255} right behind the unigram array of an array trie with >= 3 levels *)
Theorem bhiksha_config_read_back : forall cfg (ls : levels pb),
  (3 <= length ls)%nat ->
  bhiksha_config_from (trie_bytes true cfg (mk_trie true cfg ls)) (Z.of_nat (length (nth 0 ls []))) = (0, Z.land cfg 255).
Proof.
  intros cfg ls Hl. destruct ls as [|l0 [|l1 [|l2 rest]]]; try (cbn in Hl; lia).
  unfold bhiksha_config_from, trie_bytes.
  set (t := mk_trie true cfg (l0 :: l1 :: l2 :: rest)).
  assert (Eu : Z.to_nat (unigram_size (Z.of_nat (length (nth 0 (l0 :: l1 :: l2 :: rest) [])))) = length (uni_bytes t)).
  { cbn [nth]. rewrite <- (Nat2Z.id (length (uni_bytes t))). f_equal. rewrite uni_bytes_len. reflexivity. }
  rewrite Eu.
  assert (Em : tm_mids t = mk_mid true cfg (Z.of_nat (length l0)) l1 (Z.of_nat (length l2)) :: mk_mids true cfg (Z.of_nat (length l0)) (l2 :: rest)) by reflexivity.
  rewrite Em. cbn [mids_bytes]. unfold mid_bytes at 1 3. unfold bhiksha_bytes.
  set (u := uni_bytes t). clearbody u. clear Eu Em.
  apply f_equal2.
  - rewrite app_nth2 by lia. replace (length u - length u)%nat with 0%nat by lia. reflexivity.
  - rewrite app_nth2 by lia. replace (S (length u) - length u)%nat with 1%nat by lia. reflexivity.
Qed.

(* the two configuration bytes lie inside the search structure *)
Lemma trie_bytes_has_config : forall cfg (ls : levels pb), (3 <= length ls)%nat ->
  (S (length (uni_bytes (mk_trie true cfg ls))) < length (trie_bytes true cfg (mk_trie true cfg ls)))%nat.
Proof.
  intros cfg ls Hl. destruct ls as [|l0 [|l1 [|l2 rest]]]; try (cbn in Hl; lia).
  unfold trie_bytes. set (t := mk_trie true cfg (l0 :: l1 :: l2 :: rest)).
  assert (Em : tm_mids t = mk_mid true cfg (Z.of_nat (length l0)) l1 (Z.of_nat (length l2)) :: mk_mids true cfg (Z.of_nat (length l0)) (l2 :: rest)) by reflexivity.
  rewrite Em. cbn [mids_bytes]. unfold mid_bytes at 1. rewrite !app_length.
  pose proof (bhiksha_bytes_len (Z.of_nat (length (uni_bytes t))) cfg (mm_offs (mk_mid true cfg (Z.of_nat (length l0)) l1 (Z.of_nat (length l2))))) as Hb.
  lia.
Qed.
