(* C04/FileImage.v -- the complete binary file as a function of the model (executable, no proofs here):
     header (make_header of C09/CrashModel.v: Sanity, FixedWidthParameters, counts, padded to 8)
     vocabulary   SortedVocabulary (trie types): number of stored hashes, the MurmurHash64A hashes of all words but <unk> in increasing
                  order, and the unused last slot / vocab_pad (8 zero bytes either way);
                  ProbingVocabulary: {version; bound}, then a probing table {uint64 hash; WordIndex id} with DivMod placement
     search       C03/TrieImage.v (trie, trie -a) or C03/ProbingImage.v (probing)
     strings      "<unk>\0" and every word in id order, each followed by NUL (when include_vocab)
   util/murmur_hash.cc MurmurHash64A is modelled with its 64-bit wrap-around. *)
From Coq Require Import ZArith List Bool Arith NArith.
From Kenlm Require Import Base.Mem Gen.BinaryFormatConsts C09.CrashModel C20.ProbingModel LM.Defs C03.TrieImage C03.ProbingImage.
Import ListNotations.
Local Open Scope Z_scope.

Definition murmur_m : Z := 14313749767032793493.     (* 0xc6a4a7935bd1e995 *)
Definition mul64 (a b : Z) : Z := wrap 64 (a * b).

Fixpoint murmur_chunks (fuel : nat) (data : list Z) (h : Z) : Z * list Z :=
  match fuel with
  | O => (h, data)
  | S f =>
      match data with
      | b0 :: b1 :: b2 :: b3 :: b4 :: b5 :: b6 :: b7 :: rest =>
          let k := Z_of_bytes [b0; b1; b2; b3; b4; b5; b6; b7] in
          let k := mul64 k murmur_m in
          let k := Z.lxor k (Z.shiftr k 47) in
          let k := mul64 k murmur_m in
          murmur_chunks f rest (mul64 (Z.lxor h k) murmur_m)
      | _ => (h, data)
      end
  end.

Definition murmur64a (data : list Z) (seed : Z) : Z :=
  let len := Z.of_nat (length data) in
  let h := Z.lxor seed (mul64 len murmur_m) in
  let '(h, tail) := murmur_chunks (length data) data h in
  let h := match tail with [] => h | _ :: _ => mul64 (Z.lxor h (Z_of_bytes tail)) murmur_m end in
  let h := Z.lxor h (Z.shiftr h 47) in
  let h := mul64 h murmur_m in
  Z.lxor h (Z.shiftr h 47).

Definition hash_for_vocab (word : list Z) : Z := murmur64a word 0.

Fixpoint insert_sorted (x : Z) (l : list Z) : list Z :=
  match l with [] => [x] | y :: r => if x <=? y then x :: l else y :: insert_sorted x r end.
Definition sort_z (l : list Z) : list Z := fold_right insert_sorted [] l.

(* words: spelling of every id 1 .. V-1, in id order (<unk> = id 0 is not stored) *)
Definition sorted_vocab_bytes (words : list (list Z)) : list Z :=
  let hs := sort_z (map hash_for_vocab words) in
  bytes_of_Z 8 (Z.of_nat (length hs)) ++ flat_map (bytes_of_Z 8) hs ++ bytes_of_Z 8 0.

Definition probing_vocab_bytes (words : list (list Z)) (buckets : nat) : option (list Z) :=
  let ents := combine (map hash_for_vocab words) (map Z.of_nat (seq 1 (length words))) in
  match table_cells buckets ents with
  | None => None
  | Some c => Some (bytes_of_Z 4 0 ++ bytes_of_Z 4 (Z.of_nat (S (length words))) ++
                    flat_map (fun kv => bytes_of_Z 8 (fst kv) ++ bytes_of_Z 4 (snd kv)) c)
  end.

Definition strings_bytes (words : list (list Z)) : list Z :=
  [60; 117; 110; 107; 62; 0] ++ flat_map (fun w => w ++ [0]) words.

Definition header_bytes (order : nat) (pm : Z) (mtype : nat) (hv : bool) (version : nat) (counts : list Z) : list Z :=
  let p := bytes_of_Z 4 pm in
  let b i := Z.to_nat (nth i p 0) in
  map Z.of_nat (make_header order (b 0%nat) (b 1%nat) (b 2%nat) (b 3%nat) mtype (if hv then 1%nat else 0%nat) version
                            (map Z.to_nat (flat_map (bytes_of_Z 8) counts))).

(* counts as FinishFile writes them *)
Definition trie_counts (N_order : nat) (t : atable) : list Z :=
  map (fun j => Z.of_nat (length (order_entries t j))) (seq 1 N_order).

Definition trie_file (array : bool) (cfg pm : Z) (N_order : nat) (t : atable) (plus_zero : list key)
                     (words : list (list Z)) (include_vocab : bool) : list Z :=
  header_bytes N_order pm (if array then 4%nat else 2%nat) include_vocab 1 (trie_counts N_order t) ++
  sorted_vocab_bytes words ++ trie_image array cfg N_order t plus_zero ++
  (if include_vocab then strings_bytes words else []).

Definition probing_file (pm : Z) (N_order : nat) (t : atable) (arpa_counts : list Z) (vbuckets : nat) (buckets : list nat)
                        (words : list (list Z)) (include_vocab : bool) : option (list Z) :=
  match probing_vocab_bytes words vbuckets, probing_image t (S (Z.to_nat (nth 0 arpa_counts 0))) buckets with
  | Some v, Some s =>
      Some (header_bytes N_order pm 0 include_vocab 0 arpa_counts ++ v ++ s ++ (if include_vocab then strings_bytes words else []))
  | _, _ => None
  end.

Definition rest_file (pm : Z) (N_order : nat) (t : atable) (arpa_counts : list Z) (vbuckets : nat) (buckets : list nat)
                     (unset : list key) (words : list (list Z)) (include_vocab : bool) : option (list Z) :=
  match probing_vocab_bytes words vbuckets, rest_probing_image t (S (Z.to_nat (nth 0 arpa_counts 0))) buckets unset with
  | Some v, Some s =>
      Some (header_bytes N_order pm 1 include_vocab 0 arpa_counts ++ v ++ s ++ (if include_vocab then strings_bytes words else []))
  | _, _ => None
  end.
