(* C04/TrieSize.v -- the Size() functions the loader of a trie model evaluates on the counts of the file header, before it looks at a
   single byte of the search structure (lm/search_trie.hh TrieSearch::Size, lm/trie.cc Unigram::Size / BitPacked::BaseSize /
   BitPackedMiddle::Size / BitPackedLongest::Size, lm/bhiksha.cc ArrayBhiksha::Size, lm/vocab.cc SortedVocabulary::Size), and
   ArrayBhiksha::UpdateConfigFromBinary, which reads the configured pointer-compression bits back from the file.  No proofs here. *)
From Coq Require Import ZArith List Bool Arith.
From Kenlm Require Import Base.Mem C20.ArrayModel C03.BhikshaModel.
Import ListNotations.
Local Open Scope Z_scope.

(* Unigram::Size: +1 in case <unk> does not appear, +1 for the final next; sizeof(UnigramValue) = 16 *)
Definition unigram_size (count : Z) : Z := (count + 2) * 16.

(* ArrayBhiksha::Size = sizeof(uint64_t) * (1 + ArrayCount(max_offset, max_next, config)) + 7;  DontBhiksha::Size = 0 *)
Definition bhiksha_size (array : bool) (max_offset max_next cfg : Z) : Z :=
  if array then 8 * (1 + array_count max_offset max_next cfg) + 7 else 0.

(* Bhiksha::InlineBits *)
Definition next_bits (array : bool) (entries max_ptr cfg : Z) : Z :=
  if array then inline_bits (entries + 1) max_ptr cfg else bits_needed max_ptr.

(* BitPackedMiddle::Size(quant_bits = 63, entries, max_vocab, max_ptr, config) *)
Definition middle_size (array : bool) (cfg entries max_vocab max_ptr : Z) : Z :=
  bhiksha_size array (entries + 1) max_ptr cfg + bitpacked_base_size entries max_vocab (63 + next_bits array entries max_ptr cfg).

(* counts of the orders 2 .. N *)
Fixpoint middles_size (array : bool) (cfg vocab : Z) (counts : list Z) : Z :=
  match counts with
  | c :: ((c' :: _) as rest) => middle_size array cfg c vocab c' + middles_size array cfg vocab rest
  | _ => 0
  end.

Definition longest_size (entries vocab : Z) : Z := bitpacked_base_size entries vocab 31.

(* TrieSearch<DontQuantize, Bhiksha>::Size(counts, config) *)
Definition trie_size (array : bool) (cfg : Z) (counts : list Z) : Z :=
  let vocab := nth 0 counts 0 in
  unigram_size vocab + middles_size array cfg vocab (tl counts) + longest_size (last counts 0) vocab.

(* SortedVocabulary::Size(entries) = sizeof(uint64_t) (the count) + sizeof(uint64_t) * entries, entries = counts[0] (<unk> included) *)
Definition sorted_vocab_size (entries : Z) : Z := 8 + 8 * entries.

(* ArrayBhiksha::UpdateConfigFromBinary(file, offset + Quant::Size + Unigram::Size(counts[0]), config): two bytes {version; configured bits} *)
Definition bhiksha_config_from (search : list Z) (count0 : Z) : Z * Z :=
  let off := Z.to_nat (unigram_size count0) in (nth off search 0, nth (S off) search 0).
