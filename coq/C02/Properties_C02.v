(* C02 -- the returned state is sufficient, canonical and safe for recombination. *)
From Coq Require Import ZArith List Bool Lia.
From Kenlm Require Import LM.Defs LM.Query LM.QueryProofs.
Import ListNotations.
Local Open Scope Z_scope.

(* One step from any valid state: same probability as with the entire history supplied explicitly
   (C01_forgot_state_spec gives the other side), the next state IS GetState(history+word), and it is valid again. *)
Theorem C02_state_sufficient : forall N T M K, (2 <= N)%nat -> TInv N T M ->
  forall s h w, valid N T M s h -> T [w] <> None ->
  r_prob (fst (full_score N T s w)) = r_prob (fst (full_score_forgot N T K h w)) /\
  snd (full_score N T s w) = get_state N T (w :: h) /\
  valid N T M (snd (full_score N T s w)) (w :: h).
Proof.
  intros N T M K HN I s h w V Hw.
  destruct (full_score_step N HN T M I s h w V Hw) as [Hp [Ho Hv]].
  rewrite Hp, (forgot_prob N HN T M K I h w Hw). auto.
Qed.

(* the state computed directly from a history is valid for it *)
Theorem C02_get_state_valid : forall N T M, (2 <= N)%nat -> TInv N T M -> forall h, valid N T M (get_state N T h) h.
Proof. intros N T M HN I h. eapply get_state_valid; eassumption. Qed.

(* whatever context was supplied, ScoreExceptBackoff leaves the state of (word :: context) *)
Theorem C02_state_is_get_state : forall N T M, (2 <= N)%nat -> TInv N T M ->
  forall ctx w e, T [w] = Some e -> snd (score_except_backoff N T ctx w) = get_state N T (w :: ctx).
Proof. intros N T M HN I ctx w e He. eapply score_state_is_get_state; eassumption. Qed.

(* never more than order-1 words, never more than the previous state plus one *)
Theorem C02_state_bounds : forall N T M, (2 <= N)%nat -> TInv N T M -> forall s w,
  (length (s_words (snd (full_score N T s w))) <= N - 1)%nat /\
  (length (s_words (snd (full_score N T s w))) <= S (length (s_words s)))%nat.
Proof. intros N T M HN I s w. eapply state_bounds; eassumption. Qed.

(* two valid states with equal words store identical back-offs, hence give identical results for every continuation *)
Theorem C02_equal_states_equal_backoffs : forall N T M, (2 <= N)%nat -> forall s1 h1 s2 h2,
  valid N T M s1 h1 -> valid N T M s2 h2 -> s_words s1 = s_words s2 ->
  s_bo s1 = s_bo s2 /\ forall w, full_score N T s1 w = full_score N T s2 w.
Proof. intros N T M HN s1 h1 s2 h2 V1 V2 Hw. eapply equal_states_equal_backoffs; eassumption. Qed.

(* recombination is safe: two histories whose (valid) states have the same words are indistinguishable by any continuation --
   every later probability, matched length, flag and state is the same *)
Theorem C02_recombination_safe : forall N T M, (2 <= N)%nat -> forall s1 h1 s2 h2,
  valid N T M s1 h1 -> valid N T M s2 h2 -> s_words s1 = s_words s2 ->
  forall ws, score_seq N T s1 ws = score_seq N T s2 ws.
Proof.
  intros N T M HN s1 h1 s2 h2 V1 V2 Hw ws.
  destruct (equal_states_equal_backoffs N HN T M s1 h1 s2 h2 V1 V2 Hw) as [Hb _].
  destruct s1, s2. cbn in *. subst. reflexivity.
Qed.

(* State comparison, ordering and hashing are mutually consistent (model of lm/state.hh: length first, then memcmp
   over the little-endian bytes of the words; hash over exactly those bytes): Compare = 0 iff ==, Compare < 0 iff <,
   equal states have equal hash input, and exactly one of <, ==, > holds. *)
From Kenlm Require Import C02.StateCmp.
Theorem C02_compare_consistent : forall a b, wf a -> wf b ->
  (st_compare a b = 0 <-> st_eq a b = true) /\
  (st_compare a b < 0 <-> st_lt a b = true) /\
  (st_compare a b > 0 <-> st_lt b a = true) /\
  (st_eq a b = true -> c_len a = c_len b /\ c_words a = c_words b /\ st_hash_input a = st_hash_input b) /\
  (st_lt a b = true /\ st_eq a b = false /\ st_lt b a = false \/
   st_lt a b = false /\ st_eq a b = true /\ st_lt b a = false \/
   st_lt a b = false /\ st_eq a b = false /\ st_lt b a = true).
Proof. exact state_compare_consistent. Qed.

Theorem C02_left_compare_consistent : forall a b,
  (left_compare a b = 0 <-> left_eq a b = true) /\
  (left_lt a b = true <-> left_compare a b = -1) /\
  (left_compare a b = -1 \/ left_compare a b = 0 \/ left_compare a b = 1) /\
  left_compare b a = - left_compare a b /\
  (left_eq a b = true -> left_hash_input a = left_hash_input b).
Proof. exact left_compare_consistent. Qed.

(* finding F13 (repaired in /repo): the previous operator== ignored `full` for empty left states *)
Theorem C02_pre_fix_left_eq_hash_refuted : exists a b, pre_fix_left_eq a b = true /\ left_hash_input a <> left_hash_input b.
Proof. exact pre_fix_left_eq_hash_refuted. Qed.

(* ---- the same for the answers computed from the MEMORY of the trie (C03_memory_table_invariants): the state returned by FullScore
   over the table decoded from the bit-level memory is sufficient -- same probability as the whole history, equal to GetState, valid. *)
From Kenlm Require Import C03.TrieEndToEnd.
Corollary C02_memory_state_sufficient : forall (array : bool) cfg N V (t : atable) pz M K,
  (2 <= N)%nat -> 0 <= V < 2 ^ 32 -> 0 <= cfg -> TInv N (alookup t) M -> NoDup (map fst t) ->
  (forall w, alookup t [w] <> None <-> Z.of_N w < V) ->
  (forall k e, alookup t k = Some e -> - 2 ^ 24 < e_prob e < 2 ^ 24 /\ - 2 ^ 24 < e_bo e < 2 ^ 24) ->
  (forall k e, alookup t k = Some e -> (2 <= length k)%nat -> e_prob e <= 0) ->
  (forall k e, alookup t k = Some e -> length k = N -> e_bo e = 0) ->
  Z.of_nat (N * length t) < 2 ^ 57 ->
  let T' := mem_table array cfg N V t pz in
  forall s h w, valid N T' M s h -> T' [w] <> None ->
  r_prob (fst (full_score N T' s w)) = r_prob (fst (full_score_forgot N T' K h w)) /\
  snd (full_score N T' s w) = get_state N T' (w :: h) /\
  valid N T' M (snd (full_score N T' s w)) (w :: h).
Proof.
  intros array cfg N V t pz M K HN HV Hc Inv Hnd Hd Hr Hneg Hl Hs T' s h w Hv Hw.
  exact (C02_state_sufficient N T' M K HN (mem_table_TInv array cfg N V t pz M HN HV Hc Inv Hnd Hd Hr Hneg Hl Hs) s h w Hv Hw).
Qed.

(* ... and for the answers computed from the LOADED BINARY FILE (C04_file_table_invariants: the table decoded from the memory the trie
   loader sets up over the bytes of the file the model writes satisfies TInv) *)
From Kenlm Require Import C03.TrieImage C04.FileImage C04.TrieParse C04.TrieParseEnd C04.FileTables.
Corollary C02_file_state_sufficient : forall (array : bool) cfg N V (t : atable) pz M K rest,
  (2 <= N)%nat -> 0 <= V < 2 ^ 32 -> 0 <= cfg -> TInv N (alookup t) M -> NoDup (map fst t) ->
  (forall w, alookup t [w] <> None <-> Z.of_N w < V) ->
  (forall k e, alookup t k = Some e -> - 2 ^ 24 < e_prob e < 2 ^ 24 /\ - 2 ^ 24 < e_bo e < 2 ^ 24) ->
  (forall k e, alookup t k = Some e -> (2 <= length k)%nat -> e_prob e <= 0) ->
  (forall k e, alookup t k = Some e -> length k = N -> e_bo e = 0) ->
  Z.of_nat (N * length t) < 2 ^ 57 ->
  let T' := file_table array cfg N V (trie_counts N t) (trie_image array cfg N t pz ++ rest) in
  forall s h w, valid N T' M s h -> T' [w] <> None ->
  r_prob (fst (full_score N T' s w)) = r_prob (fst (full_score_forgot N T' K h w)) /\
  snd (full_score N T' s w) = get_state N T' (w :: h) /\
  valid N T' M (snd (full_score N T' s w)) (w :: h).
Proof.
  intros array cfg N V t pz M K rest HN HV Hc Inv Hnd Hd Hr Hneg Hl Hs T' s h w Hv Hw.
  exact (C02_state_sufficient N T' M K HN (file_table_invariants array cfg N V t pz M rest HN HV Hc Inv Hnd Hd Hr Hneg Hl Hs) s h w Hv Hw).
Qed.
