(* C02/StateCmp.v -- model of the comparison / hashing interface of lm/state.hh:
   State::operator==, Compare, operator<  (length, then memcmp over the little-endian bytes of the words),
   Left::operator==, Compare, operator<, ChartState likewise.  memcmp is modelled by its sign. *)
From Coq Require Import List ZArith Bool Arith Lia.
Import ListNotations.
Local Open Scope Z_scope.

Definition le_bytes (w : Z) : list Z :=
  [w mod 256; (w / 256) mod 256; (w / 65536) mod 256; (w / 16777216) mod 256].
Definition words_bytes (ws : list Z) : list Z := flat_map le_bytes ws.

(* sign of memcmp over equally long byte strings *)
Fixpoint memcmp (a b : list Z) : Z :=
  match a, b with
  | x :: a', y :: b' => if x <? y then -1 else if y <? x then 1 else memcmp a' b'
  | _, _ => 0
  end.

(* a State as seen by the comparison operators: its length and its first `length` words *)
Record cstate := { c_len : nat; c_words : list Z }.
Definition wf (s : cstate) : Prop := length (c_words s) = c_len s /\ Forall (fun w => 0 <= w < 2 ^ 32) (c_words s).

Definition st_eq (a b : cstate) : bool :=
  if Nat.eqb (c_len a) (c_len b) then memcmp (words_bytes (c_words a)) (words_bytes (c_words b)) =? 0 else false.
Definition st_compare (a b : cstate) : Z :=
  if Nat.eqb (c_len a) (c_len b) then memcmp (words_bytes (c_words a)) (words_bytes (c_words b))
  else if Nat.ltb (c_len a) (c_len b) then -1 else 1.
Definition st_lt (a b : cstate) : bool :=
  if Nat.eqb (c_len a) (c_len b) then memcmp (words_bytes (c_words a)) (words_bytes (c_words b)) <? 0
  else Nat.ltb (c_len a) (c_len b).
(* hash_value(State) = MurmurHash over exactly these bytes *)
Definition st_hash_input (a : cstate) : list Z := words_bytes (c_words a).

(* Left: length, last pointer, full *)
Record cleft := { l_len : nat; l_last : Z; l_full : bool }.   (* l_last = pointers[length-1], irrelevant when length = 0 *)
(* After the repair of finding F13 `full` is compared also for empty left states (the unrepaired operators,
   which ignored it when length = 0, are kept below for the refutation witness). *)
Definition left_eq (a b : cleft) : bool :=
  Nat.eqb (l_len a) (l_len b) && Bool.eqb (l_full a) (l_full b) && (Nat.eqb (l_len a) 0 || (l_last a =? l_last b)).
Definition left_compare (a b : cleft) : Z :=
  if Nat.ltb (l_len a) (l_len b) then -1
  else if Nat.ltb (l_len b) (l_len a) then 1
  else if negb (Nat.eqb (l_len a) 0) && (l_last b <? l_last a) then 1
  else if negb (Nat.eqb (l_len a) 0) && (l_last a <? l_last b) then -1
  else Z.b2z (l_full a) - Z.b2z (l_full b).
(* hash_value(Left) = MurmurHash over (length, full) seeded with the last pointer (0 when empty) *)
Definition left_hash_input (a : cleft) : nat * bool * Z := (l_len a, l_full a, if Nat.eqb (l_len a) 0 then 0 else l_last a).
Definition pre_fix_left_eq (a b : cleft) : bool :=
  Nat.eqb (l_len a) (l_len b) && (Nat.eqb (l_len a) 0 || ((l_last a =? l_last b) && Bool.eqb (l_full a) (l_full b))).
Definition left_lt (a b : cleft) : bool := left_compare a b =? -1.

(* ---- proofs ------------------------------------------------------------------------------------ *)
Lemma memcmp_refl : forall a, memcmp a a = 0.
Proof. induction a as [|x a IH]; cbn; [reflexivity|]. rewrite Z.ltb_irrefl. exact IH. Qed.

Lemma memcmp_eq : forall a b, length a = length b -> memcmp a b = 0 -> a = b.
Proof.
  induction a as [|x a IH]; intros [|y b] Hl H; cbn in *; try reflexivity; try discriminate.
  destruct (Z.ltb_spec x y); [discriminate|]. destruct (Z.ltb_spec y x); [discriminate|].
  f_equal; [lia|]. apply IH; [lia|exact H].
Qed.

Lemma memcmp_antisym : forall a b, length a = length b -> memcmp b a = - memcmp a b.
Proof.
  induction a as [|x a IH]; intros [|y b] Hl; cbn in *; try reflexivity; try discriminate.
  destruct (Z.ltb_spec x y); destruct (Z.ltb_spec y x); try lia; try reflexivity. apply IH. lia.
Qed.

Lemma memcmp_range : forall a b, memcmp a b = -1 \/ memcmp a b = 0 \/ memcmp a b = 1.
Proof.
  induction a as [|x a IH]; intros [|y b]; cbn; auto.
  destruct (x <? y); auto. destruct (y <? x); auto.
Qed.

Lemma words_bytes_length : forall ws, length (words_bytes ws) = (4 * length ws)%nat.
Proof.
  unfold words_bytes. induction ws as [|w ws IH]; [reflexivity|].
  cbn [flat_map]. rewrite app_length, IH. cbn [le_bytes length]. lia.
Qed.

Lemma le_bytes_inj : forall a b, 0 <= a < 2 ^ 32 -> 0 <= b < 2 ^ 32 -> le_bytes a = le_bytes b -> a = b.
Proof.
  intros a b Ha Hb H. unfold le_bytes in H. injection H as H0 H1 H2 H3.
  assert (Da : a = a mod 256 + 256 * ((a / 256) mod 256) + 65536 * ((a / 65536) mod 256) + 16777216 * ((a / 16777216) mod 256)).
  { change (2 ^ 32) with 4294967296 in Ha.
    pose proof (Z.div_mod a 256 ltac:(lia)). pose proof (Z.div_mod (a / 256) 256 ltac:(lia)).
    pose proof (Z.div_mod (a / 256 / 256) 256 ltac:(lia)).
    rewrite !Z.div_div in * by lia. change (256 * 256) with 65536 in *. change (65536 * 256) with 16777216 in *.
    assert ((a / 16777216) mod 256 = a / 16777216).
    { apply Z.mod_small. split; [apply Z.div_pos; lia|apply Z.div_lt_upper_bound; lia]. }
    lia. }
  assert (Db : b = b mod 256 + 256 * ((b / 256) mod 256) + 65536 * ((b / 65536) mod 256) + 16777216 * ((b / 16777216) mod 256)).
  { change (2 ^ 32) with 4294967296 in Hb.
    pose proof (Z.div_mod b 256 ltac:(lia)). pose proof (Z.div_mod (b / 256) 256 ltac:(lia)).
    pose proof (Z.div_mod (b / 256 / 256) 256 ltac:(lia)).
    rewrite !Z.div_div in * by lia. change (256 * 256) with 65536 in *. change (65536 * 256) with 16777216 in *.
    assert ((b / 16777216) mod 256 = b / 16777216).
    { apply Z.mod_small. split; [apply Z.div_pos; lia|apply Z.div_lt_upper_bound; lia]. }
    lia. }
  rewrite Da, Db, H0, H1, H2, H3. reflexivity.
Qed.

Lemma words_bytes_inj : forall a b, Forall (fun w => 0 <= w < 2 ^ 32) a -> Forall (fun w => 0 <= w < 2 ^ 32) b ->
  length a = length b -> words_bytes a = words_bytes b -> a = b.
Proof.
  induction a as [|x a IH]; intros [|y b] Fa Fb Hl H; cbn in *; try reflexivity; try discriminate.
  inversion Fa; inversion Fb; subst.
  assert (le_bytes x = le_bytes y /\ words_bytes a = words_bytes b).
  { unfold le_bytes in *. cbn in H. injection H as ? ? ? ? ?. split; [congruence|assumption]. }
  destruct H0 as [E1 E2]. f_equal; [apply le_bytes_inj; assumption|apply IH; try assumption; lia].
Qed.

(* exactly one of <, ==, > ; the three-way comparison agrees with them; equal states hash the same bytes *)
Theorem state_compare_consistent : forall a b, wf a -> wf b ->
  (st_compare a b = 0 <-> st_eq a b = true) /\
  (st_compare a b < 0 <-> st_lt a b = true) /\
  (st_compare a b > 0 <-> st_lt b a = true) /\
  (st_eq a b = true -> c_len a = c_len b /\ c_words a = c_words b /\ st_hash_input a = st_hash_input b) /\
  (st_lt a b = true /\ st_eq a b = false /\ st_lt b a = false \/
   st_lt a b = false /\ st_eq a b = true /\ st_lt b a = false \/
   st_lt a b = false /\ st_eq a b = false /\ st_lt b a = true).
Proof.
  intros a b [La Fa] [Lb Fb]. unfold st_compare, st_eq, st_lt, st_hash_input.
  rewrite (Nat.eqb_sym (c_len b) (c_len a)).
  destruct (Nat.eqb_spec (c_len a) (c_len b)) as [E|E].
  - assert (HL : length (words_bytes (c_words a)) = length (words_bytes (c_words b))) by (rewrite !words_bytes_length; lia).
    rewrite (memcmp_antisym _ _ HL).
    pose proof (memcmp_range (words_bytes (c_words a)) (words_bytes (c_words b))) as R.
    set (m := memcmp (words_bytes (c_words a)) (words_bytes (c_words b))) in *.
    assert (EQ : m = 0 -> c_words a = c_words b).
    { intros Hm. apply words_bytes_inj; try assumption; [lia|]. apply memcmp_eq; assumption. }
    assert (Hlt : (m <? 0) = true <-> m < 0) by apply Z.ltb_lt.
    assert (Hgt : (- m <? 0) = true <-> m > 0) by (rewrite Z.ltb_lt; lia).
    assert (Heq : (m =? 0) = true <-> m = 0) by apply Z.eqb_eq.
    split; [rewrite Heq; tauto|]. split; [rewrite Hlt; tauto|]. split; [rewrite Hgt; tauto|]. split.
    + intros H0. apply Heq in H0. split; [exact E|]. split; [apply EQ; exact H0|rewrite (EQ H0); reflexivity].
    + destruct R as [R|[R|R]]; rewrite R; cbn; auto.
  - destruct (Nat.ltb_spec (c_len a) (c_len b)); destruct (Nat.ltb_spec (c_len b) (c_len a)); try lia;
      repeat split; intros; try lia; try discriminate; try reflexivity; auto.
Qed.

Theorem left_compare_consistent : forall a b,
  (left_compare a b = 0 <-> left_eq a b = true) /\
  (left_lt a b = true <-> left_compare a b = -1) /\
  (left_compare a b = -1 \/ left_compare a b = 0 \/ left_compare a b = 1) /\
  left_compare b a = - left_compare a b /\
  (left_eq a b = true -> left_hash_input a = left_hash_input b).
Proof.
  intros [la pa fa] [lb pb fb]. unfold left_lt, left_compare, left_eq, left_hash_input. cbn [l_len l_last l_full].
  split; [|split; [apply Z.eqb_eq|]].
  - destruct (Nat.ltb_spec la lb); destruct (Nat.ltb_spec lb la); try lia;
      destruct (Nat.eqb_spec la lb) as [E|E]; try lia; cbn [andb]; try (split; intros; [lia|discriminate]).
    subst lb. destruct (Nat.eqb_spec la 0); cbn [orb negb andb].
    + destruct fa, fb; cbn; split; intros; try lia; try discriminate; reflexivity.
    + destruct (Z.ltb_spec pb pa); destruct (Z.ltb_spec pa pb); try lia;
        destruct (Z.eqb_spec pa pb); try lia; destruct fa, fb; cbn; split; intros; try lia; try discriminate; reflexivity.
  - destruct (Nat.ltb_spec la lb); destruct (Nat.ltb_spec lb la); try lia.
    + split; [auto|]. split; [reflexivity|]. destruct (Nat.eqb_spec la lb); [lia|]. cbn [andb]. discriminate.
    + split; [auto|]. split; [reflexivity|]. destruct (Nat.eqb_spec la lb); [lia|]. cbn [andb]. discriminate.
    + assert (E : lb = la) by lia. subst lb. rewrite Nat.eqb_refl. cbn [andb].
      destruct (Nat.eqb_spec la 0); cbn [orb negb andb].
      * destruct fa, fb; cbn; split; auto; split; try reflexivity; intros; try discriminate; reflexivity.
      * destruct (Z.ltb_spec pb pa); destruct (Z.ltb_spec pa pb); try lia;
          destruct (Z.eqb_spec pa pb); try lia; destruct fa, fb; cbn; split; auto; split; try reflexivity; intros; try discriminate;
          try (subst; reflexivity).
Qed.

(* the unrepaired operator== called two empty left states equal although their hash inputs differ *)
Example pre_fix_left_eq_hash_refuted : exists a b, pre_fix_left_eq a b = true /\ left_hash_input a <> left_hash_input b.
Proof.
  exists {| l_len := 0; l_last := 0; l_full := false |}, {| l_len := 0; l_last := 0; l_full := true |}.
  split; [reflexivity|discriminate].
Qed.
