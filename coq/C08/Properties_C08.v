(* C08 -- chart-state scoring equals left-to-right scoring.  Proofs: LM/ChartProofs.v *)
From Coq Require Import ZArith List Bool.
From Kenlm Require Import LM.Defs LM.Query LM.QueryProofs LM.Chart LM.ChartProofs.
Import ListNotations.
Local Open Scope Z_scope.

(* A rule made of terminals only, started with <s>: total = the left-to-right scores, right state = the
   left-to-right state, left state full and empty. *)
Theorem C08_terminals_after_bos : forall n T dr bos_state ws,
  eval_tree n T dr bos_state (Rule true false (map Term ws)) =
  ({| c_left := {| l_ptrs := []; l_full := true |}; c_right := snd (score_seq n T bos_state ws) |},
   fold_right Z.add 0 (fst (score_seq n T bos_state ws))).
Proof. exact terminals_after_bos. Qed.
