(* C08 -- chart-state scoring equals left-to-right scoring.  Proofs: LM/ChartProofs.v *)
From Coq Require Import ZArith List Bool Lia.
From Kenlm Require Import LM.Defs LM.Query LM.QueryProofs LM.Chart LM.ChartProofs.
Import ListNotations.
Local Open Scope Z_scope.

(* A rule made of terminals only, started with <s>: total = the left-to-right scores, right state = the
   left-to-right state, left state full and empty. *)
Theorem C08_terminals_after_bos : forall n T dr bos_state ws,
  eval_tree n T dr bos_state (Rule true false (map Term ws)) =
  ({| c_left := {| l_ptrs := []; l_full := true |}; c_right := snd (score_seq n T bos_state ws) |},
   fold_right Z.add 0 (fst (score_seq n T bos_state ws))).
Proof. exact terminals_after_bos. Qed.

(* Extending an already scored n-gram (pointer = the entry of w :: c1) with further left context c2, charging the
   back-offs of the contexts c1 ++ c2[0..i], gives -- once the .rest returned before is added back -- exactly the
   ARPA back-off score of w given c1 ++ c2, and the same matched n-gram as scoring with c1 ++ c2 in the first place. *)
Theorem C08_extend_left_is_rescoring : forall n T M, (2 <= n)%nat -> TInv n T M ->
  forall c1 c2 w e, T (w :: c1) = Some e -> (length (c1 ++ c2) <= n - 1)%nat ->
  let bin := map (fun i => bv T (c1 ++ firstn (S i) c2)) (seq 0 (length c2)) in
  let '(r, bos, nu) := extend_left n T c2 bin (w :: c1) in
  r_prob r + e_rest e = spec M (c1 ++ c2) w (length (c1 ++ c2)) /\
  (exists e', T (w :: firstn (r_len r - 1) (c1 ++ c2)) = Some e' /\
     forall i, (r_len r - 1 < i <= length (c1 ++ c2))%nat -> T (w :: firstn i (c1 ++ c2)) = None) /\
  (length c1 < r_len r)%nat.
Proof. intros n T M Hn I c1 c2 w e He Hl. exact (extend_left_rescoring n Hn T M I c1 c2 w e He Hl). Qed.

(* A rule that starts with a sub-derivation simply continues that fragment: NonTerminal on the initial rule state
   and BeginNonTerminal both resume the fragment's own rule state (pointers, right state, completeness, score).
   With C08_terminals_after_bos this makes every left-branching derivation equal to left-to-right scoring. *)
Theorem C08_rule_starting_with_subderivation_partial : forall n T dr c p,
  (l_ptrs (c_left c) = [] -> l_full (c_left c) = false -> c_right c = null_state) ->
  rs_nonterminal n T dr rs_init c p = resume_of c p /\ rs_begin_nonterminal c p = resume_of c p.
Proof. intros n T dr c p H. split; [apply nonterminal_from_init; exact H|reflexivity]. Qed.

(* ---- every derivation -------------------------------------------------------------------------------------------
   Parameters: `dr` = Search::kDifferentRest (true for RestProbingModel: rest costs differ from probabilities and
   InternalUnRest converts them when a left state is completed).
   Hypotheses: the loader invariants TInv for the ARPA file M; `dr = false -> rest = prob` (models without separate rest
   costs store rest = prob; with dr = true the rest costs are ARBITRARY); and the property's precondition as the tables see
   it -- the extension bit of a back-off is only found on n-grams that are contexts of longer n-grams (the loaders set it
   for contexts and for non-zero back-offs, and the precondition says only contexts have non-zero back-offs); unigrams are
   exempt (the synthesised <unk> carries +0.0).  LM/FlattenCheck.v gives a sound executable check of the last two
   (for dr = false); LM/InvCheck.v of the first.
   `good t`: every terminal is a known word and no inner rule applies <s>.  `flat` = Terminal applied word by word. *)
From Kenlm Require Import LM.FlattenProofs LM.FlattenCheck LM.InvCheck.

(* NonTerminal of a finished fragment is Terminal applied to each of its words (up to the left state being reported
   complete once it holds N-1 pointers, which is what Finish() does anyway) -- with or without separate rest costs. *)
Theorem C08_nonterminal_is_terminals : forall n T M dr, (2 <= n)%nat -> TInv n T M ->
  (dr = false -> forall k e, T k = Some e -> e_rest e = e_prob e) ->
  (forall k e, T k = Some e -> e_ext e = true -> (2 <= length k)%nat -> exists x, T (x :: k) <> None) ->
  forall ws R, wf R -> Forall (known T) ws ->
  norm n (rs_nonterminal n T dr R (fst (rs_finish n (flat n T rs_init ws))) (snd (rs_finish n (flat n T rs_init ws)))) =
  norm n (flat n T R ws).
Proof. intros n T M dr Hn I Hr Hx ws R WR Hk. exact (nt_flat n Hn T M I dr Hr Hx ws R WR Hk). Qed.

(* Any bracketing, any mix of Terminal / NonTerminal / BeginNonTerminal: the chart state and the score of a derivation
   are those of scoring its words left to right with Terminal -- for every model type, rest costs included. *)
Theorem C08_any_bracketing : forall n T M dr, (2 <= n)%nat -> TInv n T M ->
  (dr = false -> forall k e, T k = Some e -> e_rest e = e_prob e) ->
  (forall k e, T k = Some e -> e_ext e = true -> (2 <= length k)%nat -> exists x, T (x :: k) <> None) ->
  forall bs t, good T t ->
  eval_tree n T dr bs t = rs_finish n (flat n T rs_init (yield t)).
Proof. intros n T M dr Hn I Hr Hx bs t Hg. exact (proj1 (tree_flat n Hn T M I dr Hr Hx bs t Hg)). Qed.

(* ... hence, for models without separate rest costs, the total of every fragment on its own is the sum of the ARPA
   back-off scores of its words from the null context, and its right state is the state of the whole word sequence *)
Theorem C08_any_bracketing_total : forall n T M dr, (2 <= n)%nat -> TInv n T M ->
  (forall k e, T k = Some e -> e_rest e = e_prob e) ->
  (forall k e, T k = Some e -> e_ext e = true -> (2 <= length k)%nat -> exists x, T (x :: k) <> None) ->
  forall bs t, good T t ->
  snd (eval_tree n T dr bs t) = fold_right Z.add 0 (spec_seq n M [] (yield t)) /\
  c_right (fst (eval_tree n T dr bs t)) = (if yield t then null_state else get_state n T (rev (yield t))).
Proof. intros n T M dr Hn I Hr Hx bs t Hg. exact (any_bracketing_fragment n Hn T M I dr (fun _ => Hr) Hx bs t Hr Hg). Qed.

(* A sentence: the root rule applies <s>, then any derivation: complete empty left state, the left-to-right right state,
   and the sum of the ARPA back-off scores of the words after <s> -- also for rest-cost models, whatever the rest costs. *)
Theorem C08_any_bracketing_sentence : forall n T M dr, (2 <= n)%nat -> TInv n T M ->
  (dr = false -> forall k e, T k = Some e -> e_rest e = e_prob e) ->
  (forall k e, T k = Some e -> e_ext e = true -> (2 <= length k)%nat -> exists x, T (x :: k) <> None) ->
  forall b fast items, good_items T items ->
  eval_tree n T dr (bos_state T b) (Rule true fast items) =
  ({| c_left := {| l_ptrs := []; l_full := true |};
      c_right := (if yield_items items then bos_state T b else get_state n T (rev (yield_items items) ++ [b])) |},
   fold_right Z.add 0 (spec_seq n M [b] (yield_items items))).
Proof.
  intros n T M dr Hn I Hr Hx b fast items Hg.
  exact (any_bracketing_sentence n Hn T M I dr Hr Hx (bos_state T b) eq_refl b fast items eq_refl Hg).
Qed.

(* the executable check of the two extra hypotheses is sound; with C01_inv_check_sound the harness establishes all
   hypotheses of the theorems above for the tables of every generated estimator-like model *)
Theorem C08_flat_hyp_check_sound : forall t, flat_hyp_check t = true ->
  (forall k e, alookup t k = Some e -> e_rest e = e_prob e) /\
  (forall k e, alookup t k = Some e -> e_ext e = true -> (2 <= length k)%nat -> exists x, alookup t (x :: k) <> None).
Proof. exact flat_hyp_check_sound. Qed.

(* for rest-cost tables only the second hypothesis is needed *)
Theorem C08_ext_ctx_check_sound : forall t, ext_ctx_check t = true ->
  forall k e, alookup t k = Some e -> e_ext e = true -> (2 <= length k)%nat -> exists x, alookup t (x :: k) <> None.
Proof. exact ext_ctx_check_sound. Qed.

(* lm/partial.hh Subsume: merging two adjacent finished fragments gives the finished fragment of their concatenation
   (left state, right state) and the adjustment is exactly the whole minus the parts: score(us ++ ws) = score(us) +
   score(ws) + adjustment.  (mkrs P r d p is the rule state with pointers P, right state r, completeness d, score p.) *)
Theorem C08_subsume_is_concatenation : forall n T M dr, (2 <= n)%nat -> TInv n T M ->
  (dr = false -> forall k e, T k = Some e -> e_rest e = e_prob e) ->
  (forall k e, T k = Some e -> e_ext e = true -> (2 <= length k)%nat -> exists x, T (x :: k) <> None) ->
  forall us ws, Forall (known T) us -> Forall (known T) ws ->
  forall adj l' r',
  subsume n T dr (c_left (fst (rs_finish n (flat n T rs_init us)))) (c_right (fst (rs_finish n (flat n T rs_init us))))
                 (c_left (fst (rs_finish n (flat n T rs_init ws)))) (c_right (fst (rs_finish n (flat n T rs_init ws)))) = (adj, l', r') ->
  rs_finish n (mkrs (l_ptrs l') r' (l_full l') (snd (rs_finish n (flat n T rs_init us)) + snd (rs_finish n (flat n T rs_init ws)) + adj)) =
  rs_finish n (flat n T rs_init (us ++ ws)).
Proof. intros n T M dr Hn I Hr Hx us ws Hu Hw adj l' r' HS. exact (subsume_flat n Hn T M I dr Hr Hx us ws Hu Hw adj l' r' HS). Qed.

(* RevealAfter (seen from the fragment on the left) and RevealBefore (seen from the fragment on the right), revealing
   the whole neighbour at once, accumulate exactly the whole minus the parts.  (Revealing in several steps, seen > 0, is
   decided by differential execution and the whole-minus-parts oracle: no theorem.) *)
Theorem C08_reveal_whole_minus_parts : forall n T M dr, (2 <= n)%nat -> TInv n T M ->
  (dr = false -> forall k e, T k = Some e -> e_rest e = e_prob e) ->
  (forall k e, T k = Some e -> e_ext e = true -> (2 <= length k)%nat -> exists x, T (x :: k) <> None) ->
  forall us ws, Forall (known T) us -> Forall (known T) ws ->
  let A := rs_finish n (flat n T rs_init us) in
  let B := rs_finish n (flat n T rs_init ws) in
  let whole := snd (rs_finish n (flat n T rs_init (us ++ ws))) in
  fst (fst (reveal_after n T dr (c_left (fst A)) (c_right (fst A)) (c_left (fst B)) 0)) = whole - snd A - snd B /\
  fst (fst (reveal_before n T dr (c_right (fst A)) 0 (l_full (c_left (fst A))) (c_left (fst B)) (c_right (fst B)))) = whole - snd A - snd B.
Proof.
  intros n T M dr Hn I Hr Hx us ws Hu Hw A B whole.
  rewrite (reveal_after_is_subsume n T dr (c_left (fst A)) (c_right (fst A)) (c_left (fst B)) (c_right (fst B))).
  rewrite (proj1 (reveal_before_is_subsume n T dr (c_left (fst A)) (c_right (fst A)) (c_left (fst B)) (c_right (fst B)))).
  destruct (subsume n T dr (c_left (fst A)) (c_right (fst A)) (c_left (fst B)) (c_right (fst B))) as [[adj l'] r'] eqn:ES.
  pose proof (subsume_flat n Hn T M I dr Hr Hx us ws Hu Hw adj l' r' ES) as HF.
  apply (f_equal snd) in HF. cbn [fst snd] in *. unfold rs_finish at 1 in HF. cbn [snd mkrs rs_prob] in HF.
  unfold whole, A, B. split; lia.
Qed.

(* "revealing context incrementally ... accumulates exactly the difference between the whole and its parts", right-hand side:
   RevealAfter called in any number of instalments -- the left pointers of the following fragment handed over c1, then c2, ...
   at a time, `seen` being the previous cut, then the closing call with reveal.full once that fragment's left state is known to
   be complete (the protocol of CheckAdjustment in lm/partial_test.cc, with arbitrary cut points) -- accumulates the score of
   the concatenation minus the scores of the two fragments.  Every intermediate (left, right) is the loop state of the
   one-shot call (C08_reveal_after_instalments_one_call); the bookkeeping that derives left.full from counts never disagrees
   with the loop because an extension that would reach length N is always independent of further context. *)
From Kenlm Require Import LM.RevealProofs.
Theorem C08_reveal_after_instalments_one_call : forall n T dr, (2 <= n)%nat ->
  forall cuts c l r P seen, J l r seen -> chain n 0 P -> increasing seen (c :: cuts) (length P) ->
  ra_seq n T dr l r P seen (c :: cuts) = ra n T dr l r (skipn seen (firstn (last cuts c) P)).
Proof. intros n T dr Hn. exact (ra_seq_one_shot n Hn T dr). Qed.

Theorem C08_reveal_after_incremental : forall n T M dr, (2 <= n)%nat -> TInv n T M ->
  (dr = false -> forall k e, T k = Some e -> e_rest e = e_prob e) ->
  (forall k e, T k = Some e -> e_ext e = true -> (2 <= length k)%nat -> exists x, T (x :: k) <> None) ->
  forall us ws c cuts, Forall (known T) us -> Forall (known T) ws ->
  let A := rs_finish n (flat n T rs_init us) in
  let B := rs_finish n (flat n T rs_init ws) in
  let P := l_ptrs (c_left (fst B)) in
  increasing 0 (c :: cuts) (length P) -> last cuts c = length P ->
  let '(a1, l1, r1) := ra_seq n T dr (c_left (fst A)) (c_right (fst A)) P 0 (c :: cuts) in
  let '(a2, l2, r2) := if l_full (c_left (fst B))
                       then reveal_after n T dr l1 r1 {| l_ptrs := P; l_full := true |} (length P)
                       else (0, l1, r1) in
  a1 + a2 = snd (rs_finish n (flat n T rs_init (us ++ ws))) - snd A - snd B.
Proof. intros n T M dr Hn I Hr Hx. exact (reveal_after_incremental n Hn T M I dr Hr Hx). Qed.

(* ... and the left-hand side: RevealBefore in instalments.  Between two calls the left pointers themselves are rewritten (each
   is replaced by its extension with the words revealed so far), so this is not a loop split but a loop interchange: ExtendLeft
   over A1 ++ A2 is ExtendLeft over A1 followed by ExtendLeft over A2 from the extended pointer (el_comp_indep, el_comp_ext --
   the latter needs the loader invariant: the extension bit is inherited by suffixes), and the single call, the first call and the
   second call are run side by side (Rel_step: three phases -- all still writing / the single call stopped with the second
   call / the first call stopped).  Where the first call's left.full is set from the LENGTH of the right state while its loop had
   not stopped, the longest pointer has length N-1 and uses up all further context (run2_last), so charging the remaining
   back-offs at once or appending them to the right state are both no-ops. *)
Theorem C08_reveal_before_instalments_one_call : forall n T M dr, (2 <= n)%nat -> TInv n T M ->
  (dr = false -> forall k e, T k = Some e -> e_rest e = e_prob e) ->
  (forall k e, T k = Some e -> e_ext e = true -> (2 <= length k)%nat -> exists x, T (x :: k) <> None) ->
  forall cuts c W Bk l r seen, length Bk = length W -> (length W <= n - 1)%nat -> BJ n l r seen ->
  sincreasing seen (c :: cuts) (length W) ->
  rb_seq n T dr W Bk l r seen (c :: cuts) = reveal_before n T dr (rvc W Bk (last cuts c)) seen false l r.
Proof. intros n T M dr Hn I Hr Hx. exact (rb_seq_one_shot n Hn T M I dr Hr Hx). Qed.

Theorem C08_reveal_before_closing_call : forall n T M dr, (2 <= n)%nat -> TInv n T M ->
  (dr = false -> forall k e, T k = Some e -> e_rest e = e_prob e) ->
  (forall k e, T k = Some e -> e_ext e = true -> (2 <= length k)%nat -> exists x, T (x :: k) <> None) ->
  forall rv l r, length (s_bo rv) = length (s_words rv) -> s_words rv <> [] -> Forall (good' n) (l_ptrs l) ->
  reveal_before n T dr rv 0 true l r =
  (let '(x1, l1, r1) := reveal_before n T dr rv 0 false l r in
   let '(x2, l2, r2) := reveal_before n T dr rv (length (s_words rv)) true l1 r1 in (x1 + x2, l2, r2)).
Proof. intros n T M dr Hn I Hr Hx. exact (rb_finish n Hn T M I dr Hr Hx). Qed.

Theorem C08_reveal_before_incremental : forall n T M dr, (2 <= n)%nat -> TInv n T M ->
  (dr = false -> forall k e, T k = Some e -> e_rest e = e_prob e) ->
  (forall k e, T k = Some e -> e_ext e = true -> (2 <= length k)%nat -> exists x, T (x :: k) <> None) ->
  forall us ws c cuts, Forall (known T) us -> Forall (known T) ws ->
  let A := rs_finish n (flat n T rs_init us) in
  let B := rs_finish n (flat n T rs_init ws) in
  let rv := c_right (fst A) in
  sincreasing 0 (c :: cuts) (length (s_words rv)) -> last cuts c = length (s_words rv) ->
  let '(a1, l1, r1) := rb_seq n T dr (s_words rv) (s_bo rv) (c_left (fst B)) (c_right (fst B)) 0 (c :: cuts) in
  let '(a2, l2, r2) := if l_full (c_left (fst A))
                       then reveal_before n T dr rv (length (s_words rv)) true l1 r1
                       else (0, l1, r1) in
  a1 + a2 = snd (rs_finish n (flat n T rs_init (us ++ ws))) - snd A - snd B.
Proof. intros n T M dr Hn I Hr Hx. exact (reveal_before_incremental n Hn T M I dr Hr Hx). Qed.

(* Both sides of one fragment: the whole preceding context in instalments (plus its closing call), then all pointers of the
   following fragment in instalments (plus its closing call), accumulate the score of the three fragments' concatenation minus
   the three scores.  (After the left-hand side is done, the fragment's right state is the right state of the concatenation and
   its completeness flag is that of the concatenation's left state -- rb_state_is_concat -- and RevealAfter looks at the left
   state it is given only through that flag.) *)
Theorem C08_reveal_both_sides : forall n T M dr, (2 <= n)%nat -> TInv n T M ->
  (dr = false -> forall k e, T k = Some e -> e_rest e = e_prob e) ->
  (forall k e, T k = Some e -> e_ext e = true -> (2 <= length k)%nat -> exists x, T (x :: k) <> None) ->
  forall us ws vs cb cutsb ca cutsa, Forall (known T) us -> Forall (known T) ws -> Forall (known T) vs ->
  let U := rs_finish n (flat n T rs_init us) in
  let Mf := rs_finish n (flat n T rs_init ws) in
  let V := rs_finish n (flat n T rs_init vs) in
  let rv := c_right (fst U) in
  let P := l_ptrs (c_left (fst V)) in
  sincreasing 0 (cb :: cutsb) (length (s_words rv)) -> last cutsb cb = length (s_words rv) ->
  increasing 0 (ca :: cutsa) (length P) -> last cutsa ca = length P ->
  let '(a1, l1, r1) := rb_seq n T dr (s_words rv) (s_bo rv) (c_left (fst Mf)) (c_right (fst Mf)) 0 (cb :: cutsb) in
  let '(a2, l2, r2) := if l_full (c_left (fst U)) then reveal_before n T dr rv (length (s_words rv)) true l1 r1 else (0, l1, r1) in
  let '(a3, l3, r3) := ra_seq n T dr l2 r2 P 0 (ca :: cutsa) in
  let '(a4, l4, r4) := if l_full (c_left (fst V)) then reveal_after n T dr l3 r3 {| l_ptrs := P; l_full := true |} (length P) else (0, l3, r3) in
  a1 + a2 + a3 + a4 = snd (rs_finish n (flat n T rs_init (us ++ ws ++ vs))) - snd U - snd Mf - snd V.
Proof. intros n T M dr Hn I Hr Hx. exact (reveal_both_sides n Hn T M I dr Hr Hx). Qed.

(* ANY interleaving: the instalments of the two sides in any order -- `ops` is a list of "RevealBefore up to c words" (OB c) and
   "RevealAfter up to c pointers" (OA c) whose left-hand cuts increase strictly up to the length of the preceding fragment's right
   state and whose right-hand cuts increase up to the number of left pointers of the following fragment -- then the two closing
   calls, accumulate the three-fragment whole minus its parts.  A RevealBefore instalment and a RevealAfter instalment commute
   (commute_open: again the single call / first call / second call simulation, the second call now starting from the loop state
   RevealBefore has reached after the fragment's own pointers), so any interleaving can be sorted (sort_ops); the left-hand closing
   call commutes with RevealAfter (closing_commutes_ra: rest costs + UnRest = probabilities); C08_reveal_both_sides does the rest. *)
Theorem C08_reveal_interleaved : forall n T M dr, (2 <= n)%nat -> TInv n T M ->
  (dr = false -> forall k e, T k = Some e -> e_rest e = e_prob e) ->
  (forall k e, T k = Some e -> e_ext e = true -> (2 <= length k)%nat -> exists x, T (x :: k) <> None) ->
  forall us ws vs ops cb cutsb ca cutsa, ws <> [] ->
  Forall (known T) us -> Forall (known T) ws -> Forall (known T) vs ->
  let U := rs_finish n (flat n T rs_init us) in
  let Mf := rs_finish n (flat n T rs_init ws) in
  let V := rs_finish n (flat n T rs_init vs) in
  let rv := c_right (fst U) in
  let P := l_ptrs (c_left (fst V)) in
  bcuts ops = cb :: cutsb -> acuts ops = ca :: cutsa ->
  sincreasing 0 (cb :: cutsb) (length (s_words rv)) -> last cutsb cb = length (s_words rv) ->
  increasing 0 (ca :: cutsa) (length P) -> last cutsa ca = length P ->
  let '(a, l1, r1) := run_ops n T dr (s_words rv) (s_bo rv) P (c_left (fst Mf)) (c_right (fst Mf)) 0 0 ops in
  let '(b, l2, r2) := if l_full (c_left (fst U)) then reveal_before n T dr rv (length (s_words rv)) true l1 r1 else (0, l1, r1) in
  let '(c, l3, r3) := if l_full (c_left (fst V)) then reveal_after n T dr l2 r2 {| l_ptrs := P; l_full := true |} (length P) else (0, l2, r2) in
  a + b + c = snd (rs_finish n (flat n T rs_init (us ++ ws ++ vs))) - snd U - snd Mf - snd V.
Proof. intros n T M dr Hn I Hr Hx. exact (reveal_interleaved n Hn T M I dr Hr Hx). Qed.

(* ---- the same for the answers computed from the MEMORY of the trie: every derivation of a sentence scored by RuleScore over the table
   decoded from the bit-level memory (C03_memory_table_invariants; the two extra hypotheses transfer: mem_table_rest,
   mem_table_ext_ctx) gives the left-to-right total and the left-to-right final state. *)
From Kenlm Require Import C03.TrieEndToEnd.
Corollary C08_memory_any_bracketing_sentence : forall (array : bool) cfg n V (t : atable) pz M,
  (2 <= n)%nat -> (0 <= V < 2 ^ 32)%Z -> (0 <= cfg)%Z -> TInv n (alookup t) M -> NoDup (map fst t) ->
  (forall w, alookup t [w] <> None <-> (Z.of_N w < V)%Z) ->
  (forall k e, alookup t k = Some e -> (- 2 ^ 24 < e_prob e < 2 ^ 24 /\ - 2 ^ 24 < e_bo e < 2 ^ 24)%Z) ->
  (forall k e, alookup t k = Some e -> (2 <= length k)%nat -> (e_prob e <= 0)%Z) ->
  (forall k e, alookup t k = Some e -> length k = n -> e_bo e = 0%Z) ->
  (Z.of_nat (n * length t) < 2 ^ 57)%Z ->
  (forall k e, alookup t k = Some e -> e_ext e = true -> (2 <= length k)%nat -> exists x, alookup t (x :: k) <> None) ->
  let T' := mem_table array cfg n V t pz in
  forall b fast items, good_items T' items ->
  eval_tree n T' false (bos_state T' b) (Rule true fast items) =
  ({| c_left := {| l_ptrs := []; l_full := true |};
      c_right := (if yield_items items then bos_state T' b else get_state n T' (rev (yield_items items) ++ [b])) |},
   fold_right Z.add 0%Z (spec_seq n M [b] (yield_items items))).
Proof.
  intros array cfg n V t pz M Hn HV Hc Inv Hnd Hd Hr Hneg Hl Hs Hx T' b fast items Hg.
  apply (C08_any_bracketing_sentence n T' M false Hn (mem_table_TInv array cfg n V t pz M Hn HV Hc Inv Hnd Hd Hr Hneg Hl Hs)).
  - intros _ k e H. apply (mem_table_rest array cfg n V t pz k e H).
  - apply (mem_table_ext_ctx array cfg n V t pz M Hn HV Hc Inv Hnd Hd Hr Hneg Hl Hs Hx).
  - exact Hg.
Qed.

(* ... and for the answers computed from the LOADED BINARY FILE: the table decoded from the memory the trie loader sets up over the bytes of
   the file the model writes (C04/TrieParse.v, C04_file_table_is_mem_table) is mem_table pointwise, so its invariants (C04_file_table_invariants)
   and the two extra hypotheses transfer, and every derivation scored from the loaded file gives the left-to-right total and final state. *)
From Kenlm Require Import C03.TrieImage C04.FileImage C04.TrieParse C04.TrieParseEnd C04.FileTables.
Corollary C08_file_any_bracketing_sentence : forall (array : bool) cfg n V (t : atable) pz M rest,
  (2 <= n)%nat -> (0 <= V < 2 ^ 32)%Z -> (0 <= cfg)%Z -> TInv n (alookup t) M -> NoDup (map fst t) ->
  (forall w, alookup t [w] <> None <-> (Z.of_N w < V)%Z) ->
  (forall k e, alookup t k = Some e -> (- 2 ^ 24 < e_prob e < 2 ^ 24 /\ - 2 ^ 24 < e_bo e < 2 ^ 24)%Z) ->
  (forall k e, alookup t k = Some e -> (2 <= length k)%nat -> (e_prob e <= 0)%Z) ->
  (forall k e, alookup t k = Some e -> length k = n -> e_bo e = 0%Z) ->
  (Z.of_nat (n * length t) < 2 ^ 57)%Z ->
  (forall k e, alookup t k = Some e -> e_ext e = true -> (2 <= length k)%nat -> exists x, alookup t (x :: k) <> None) ->
  let T' := file_table array cfg n V (trie_counts n t) (trie_image array cfg n t pz ++ rest) in
  forall b fast items, good_items T' items ->
  eval_tree n T' false (bos_state T' b) (Rule true fast items) =
  ({| c_left := {| l_ptrs := []; l_full := true |};
      c_right := (if yield_items items then bos_state T' b else get_state n T' (rev (yield_items items) ++ [b])) |},
   fold_right Z.add 0%Z (spec_seq n M [b] (yield_items items))).
Proof.
  intros array cfg n V t pz M rest Hn HV Hc Inv Hnd Hd Hr Hneg Hl Hs Hx T' b fast items Hg.
  assert (E : forall k, T' k = mem_table array cfg n V t pz k)
    by (intros k; exact (file_table_is_mem_table array cfg n V t pz M Hn HV Hc Inv Hnd Hd Hr Hs rest k)).
  apply (C08_any_bracketing_sentence n T' M false Hn (file_table_invariants array cfg n V t pz M rest Hn HV Hc Inv Hnd Hd Hr Hneg Hl Hs)).
  - intros _ k e H. rewrite E in H. apply (mem_table_rest array cfg n V t pz k e H).
  - intros k e H He Hlen. rewrite E in H.
    destruct (mem_table_ext_ctx array cfg n V t pz M Hn HV Hc Inv Hnd Hd Hr Hneg Hl Hs Hx k e H He Hlen) as [x Hxx].
    exists x. rewrite E. exact Hxx.
  - exact Hg.
Qed.
