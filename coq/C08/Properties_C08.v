(* C08 -- chart-state scoring equals left-to-right scoring.  Proofs: LM/ChartProofs.v *)
From Coq Require Import ZArith List Bool.
From Kenlm Require Import LM.Defs LM.Query LM.QueryProofs LM.Chart LM.ChartProofs.
Import ListNotations.
Local Open Scope Z_scope.

(* A rule made of terminals only, started with <s>: total = the left-to-right scores, right state = the
   left-to-right state, left state full and empty. *)
Theorem C08_terminals_after_bos : forall n T dr bos_state ws,
  eval_tree n T dr bos_state (Rule true false (map Term ws)) =
  ({| c_left := {| l_ptrs := []; l_full := true |}; c_right := snd (score_seq n T bos_state ws) |},
   fold_right Z.add 0 (fst (score_seq n T bos_state ws))).
Proof. exact terminals_after_bos. Qed.

(* Extending an already scored n-gram (pointer = the entry of w :: c1) with further left context c2, charging the
   back-offs of the contexts c1 ++ c2[0..i], gives -- once the .rest returned before is added back -- exactly the
   ARPA back-off score of w given c1 ++ c2, and the same matched n-gram as scoring with c1 ++ c2 in the first place. *)
Theorem C08_extend_left_is_rescoring : forall n T M, (2 <= n)%nat -> TInv n T M ->
  forall c1 c2 w e, T (w :: c1) = Some e -> (length (c1 ++ c2) <= n - 1)%nat ->
  let bin := map (fun i => bv T (c1 ++ firstn (S i) c2)) (seq 0 (length c2)) in
  let '(r, bos, nu) := extend_left n T c2 bin (w :: c1) in
  r_prob r + e_rest e = spec M (c1 ++ c2) w (length (c1 ++ c2)) /\
  (exists e', T (w :: firstn (r_len r - 1) (c1 ++ c2)) = Some e' /\
     forall i, (r_len r - 1 < i <= length (c1 ++ c2))%nat -> T (w :: firstn i (c1 ++ c2)) = None) /\
  (length c1 < r_len r)%nat.
Proof. intros n T M Hn I c1 c2 w e He Hl. exact (extend_left_rescoring n Hn T M I c1 c2 w e He Hl). Qed.

(* A rule that starts with a sub-derivation simply continues that fragment: NonTerminal on the initial rule state
   and BeginNonTerminal both resume the fragment's own rule state (pointers, right state, completeness, score).
   With C08_terminals_after_bos this makes every left-branching derivation equal to left-to-right scoring. *)
Theorem C08_rule_starting_with_subderivation_partial : forall n T dr c p,
  (l_ptrs (c_left c) = [] -> l_full (c_left c) = false -> c_right c = null_state) ->
  rs_nonterminal n T dr rs_init c p = resume_of c p /\ rs_begin_nonterminal c p = resume_of c p.
Proof. intros n T dr c p H. split; [apply nonterminal_from_init; exact H|reflexivity]. Qed.
