(* C17 -- chain configuration and life cycle: proofs. *)
From Coq Require Import List Arith Lia Bool.
From Kenlm Require Import C17.LifeModel.
Import ListNotations.

(* an accepted configuration has a positive block size, a multiple of the entry size, and block_count blocks fit the budget;
   a budget below one entry per block (or zero entry size / block count) is refused *)
Theorem block_size_sound : forall es bc total bs, chain_block_size es bc total = Some bs ->
  0 < bs /\ (exists k, 0 < k /\ bs = k * es) /\ bs * bc <= total /\ 0 < es /\ 0 < bc.
Proof.
  intros es bc total bs H. unfold chain_block_size in H.
  destruct (es =? 0) eqn:E1; [discriminate|]. destruct (bc =? 0) eqn:E2; [discriminate|].
  destruct (total <? es * bc) eqn:E3; [discriminate|]. simpl in H. injection H as <-.
  apply Nat.eqb_neq in E1. apply Nat.eqb_neq in E2. apply Nat.ltb_ge in E3.
  assert (Hp : 0 < bc * es) by (apply Nat.mul_pos_pos; lia).
  assert (Hq : 1 <= total / (bc * es)).
  { apply Nat.div_le_lower_bound; [lia|]. rewrite Nat.mul_1_r, Nat.mul_comm. exact E3. }
  split; [apply Nat.mul_pos_pos; lia|]. split; [exists (total / (bc * es)); split; [lia|reflexivity]|]. split; [|lia].
  pose proof (Nat.mul_div_le total (bc * es) ltac:(lia)) as Hm.
  replace (total / (bc * es) * es * bc) with (bc * es * (total / (bc * es))); [exact Hm|].
  rewrite (Nat.mul_comm (bc * es)). rewrite <- Nat.mul_assoc. f_equal. apply Nat.mul_comm.
Qed.
Theorem block_size_refuses : forall es bc total, total < es * bc -> chain_block_size es bc total = None.
Proof.
  intros es bc total H. unfold chain_block_size. apply Nat.ltb_lt in H. rewrite H. rewrite !orb_true_r. reflexivity.
Qed.

(* a chain that is not running holds nothing *)
Definition stopped_clean (l : life) : Prop := lqueues l = 0 -> lthreads l = 0 /\ lcomplete l = false /\ linflight l = 0.

Lemma life_step_clean : forall bc l o, stopped_clean l -> stopped_clean (life_step bc l o).
Proof.
  intros bc l o H. unfold stopped_clean in *. destruct o; simpl.
  - unfold do_wait. destruct (lqueues l =? 0) eqn:E; [apply Nat.eqb_eq in E; auto|simpl; auto].
  - simpl. discriminate.
  - unfold do_add. destruct (lrunning l); simpl; discriminate.
  - unfold do_add. destruct (lrunning l); simpl; discriminate.
  - unfold lrunning. destruct (lqueues l =? 0) eqn:E; simpl; [exact H|]. apply Nat.eqb_neq in E. intros; contradiction.
Qed.
Lemma life_run_clean : forall bc ops l, stopped_clean l -> stopped_clean (life_run bc ops l).
Proof.
  intros bc ops. induction ops as [|o ops IH]; intros l H; simpl; [exact H|]. apply IH. apply life_step_clean. exact H.
Qed.
Lemma life_init_clean : stopped_clean life_init.
Proof. intros _. repeat split. Qed.

(* after Wait() the chain is empty -- no queue, no thread, no block in flight -- whatever was done to it before *)
Theorem wait_empties : forall bc ops, let l := life_step bc (life_run bc ops life_init) LWait in
  lqueues l = 0 /\ lrunning l = false /\ lthreads l = 0 /\ lcomplete l = false /\ linflight l = 0.
Proof.
  intros bc ops. pose proof (life_run_clean bc ops life_init life_init_clean) as H. simpl. unfold do_wait.
  destruct (lqueues (life_run bc ops life_init) =? 0) eqn:E.
  - apply Nat.eqb_eq in E. destruct (H E) as (A & B & C). unfold lrunning. rewrite E. auto.
  - simpl. auto.
Qed.

(* Start() -- also when called on a running chain -- leaves exactly a fresh lead queue holding block_count blocks *)
Theorem start_fresh : forall bc ops, let l0 := life_run bc ops life_init in let l := life_step bc l0 LStart in
  lqueues l = 1 /\ lthreads l = 0 /\ lcomplete l = false /\ linflight l = bc /\ lmade l = lmade l0 ++ [bc].
Proof.
  intros bc ops. simpl. unfold do_wait. destruct (lqueues (life_run bc ops life_init) =? 0); simpl; auto.
Qed.

Lemma do_wait_made : forall l, lmade (do_wait l) = lmade l.
Proof. intros l. unfold do_wait. destruct (lqueues l =? 0); reflexivity. Qed.

(* reuse: the first position added after a Wait() gets a fresh lead queue and its own queue: the next round starts from
   chain_init, so (C17_chain) it delivers exactly its own entries *)
Theorem reuse_starts_fresh : forall bc ops o, o = LAddOutside \/ o = LAddWorker ->
  let l0 := life_step bc (life_run bc ops life_init) LWait in let l := life_step bc l0 o in
  lqueues l = 2 /\ linflight l = bc /\ lmade l = lmade l0 ++ [bc; bc].
Proof.
  intros bc ops o Ho. destruct (wait_empties bc ops) as (A & B & C & D & E). simpl in *.
  destruct Ho as [-> | ->]; simpl; unfold do_add; rewrite B; simpl; rewrite <- app_assoc, do_wait_made; auto.
Qed.
