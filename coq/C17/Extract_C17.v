(* Extraction of the C17 executable model (ExtrOcamlBasic only; nat stays an inductive type). *)
From Coq Require Import List Extraction ExtrOcamlBasic.
From Kenlm Require Import C17.PCQueueOps Gen.PCQueueProg C17.PCQueueModel.
Extraction Language OCaml.
Extraction "extracted/c17_model.ml" init_st step run replay enabled finished consumed_by stored_by produce_prog consume_prog.
