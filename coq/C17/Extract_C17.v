(* Extraction of the C17 executable models (ExtrOcamlBasic only; nat stays an inductive type).
   Z.of_nat is extracted only so that the shared OCaml glue (ocaml/zio.ml.inc), which mentions z/positive, compiles. *)
From Coq Require Import List ZArith Extraction ExtrOcamlBasic.
From Kenlm Require Import C17.PCQueueOps Gen.PCQueueProg C17.PCQueueModel C17.PoolModel C17.ChainModel C17.LifeModel.
Extraction Language OCaml.
Extraction "extracted/c17_model.ml" init_st step run replay enabled finished interrupt quiesce consumed_by returned_by stored_by produce_prog consume_prog
  pool_init pool_step pool_step_f pool_finished chain_init chain_step sink_seen stream_records chain_block_size life_init life_step lrunning Z.of_nat.
